(* C01 -- the fragment of the language for which codegen_correct is proved:
   `in_fragment` (a boolean predicate on the syntax) and the consistency
   condition on function ids `funs_ok` that ProofsFuns.v derives from it.
   No proofs in this file. *)
From Coq Require Import ZArith String List Bool.
From SV Require Import C01.Syntax C01.Values C01.Ref C01.VM C01.Compile.
Import ListNotations.
Open Scope string_scope.
Open Scope list_scope.
Open Scope nat_scope.

Definition is_nil {A} (l : list A) : bool := match l with [] => true | _ => false end.

(* call arguments in the order the resolver accepts: positional, named, then at most one *args, then at most one **kwargs *)
Definition is_named_arg (a : arg) : bool := match a with ANamed _ _ => true | _ => false end.
Definition shape2 (args : list arg) : bool :=
  match args with [] => true | AStarStar _ :: [] => true | _ => false end.
Fixpoint shape1 (args : list arg) : bool :=
  match args with
  | [] => true
  | ANamed _ _ :: r => shape1 r
  | AStar _ :: r => shape2 r
  | AStarStar _ :: [] => true
  | _ => false
  end.
Fixpoint pos_then_named (args : list arg) : bool :=
  match args with
  | [] => true
  | APos _ :: r => pos_then_named r
  | ANamed _ _ :: r => shape1 r
  | AStar _ :: r => shape2 r
  | AStarStar _ :: [] => true
  | _ => false
  end.

(* expressions: everything except lambda and comprehensions *)
Fixpoint ok_expr (e : expr) : bool :=
  match e with
  | EName _ _ | EInt _ | EStr _ | EUnsup _ => true
  | EParen e | EUnary _ _ e | EDot e _ _ => ok_expr e
  | EBinary _ _ x y | EAnd x y | EOr x y | EIndex x y _ => ok_expr x && ok_expr y
  | ECond c t f => ok_expr c && ok_expr t && ok_expr f
  | ETuple es | EList es => forallb ok_expr es
  | ECall fn args _ =>
      ok_expr fn && forallb (fun a => match a with APos e | ANamed _ e | AStar e | AStarStar e => ok_expr e end) args
      && pos_then_named args
  | ESlice x lo hi st _ =>
      ok_expr x && match lo with Some e => ok_expr e | None => true end
                && match hi with Some e => ok_expr e | None => true end
                && match st with Some e => ok_expr e | None => true end
  | EDict kvs => forallb (fun kv => ok_expr (fst (fst kv)) && ok_expr (snd (fst kv))) kvs
  | ELambda _ _ _ _ | EComp _ _ _ _ _ _ => false
  end.

Fixpoint ok_target (t : target) : bool :=
  match t with
  | TName _ _ => true
  | TIndex x y _ => ok_expr x && ok_expr y
  | TSeq ts => forallb ok_target ts
  | TDot x _ _ => ok_expr x
  end.

(* parameters of every kind; default values are fragment expressions *)
Definition ok_param (q : param) : bool := match q with PDefault _ e => ok_expr e | _ => true end.

(* statements: all except load and sequence / field targets; no function nested in a def may mention
   its variables *)
Fixpoint ok_stmt (s : stmt) : bool :=
  match s with
  | SExpr e => ok_expr e
  | SAssign t e _ => ok_target t && ok_expr e
  | SAug o t e _ => ok_target t && ok_expr e && negb (binop_eqb o NotIn)
  | SIf c tb fb => ok_expr c && forallb ok_stmt tb && forallb ok_stmt fb
  | SWhile c b => ok_expr c && forallb ok_stmt b
  | SFor t e b _ => ok_target t && ok_expr e && forallb ok_stmt b
  | SBreak | SContinue | SPass | SReturn None => true
  | SReturn (Some e) => ok_expr e
  | SDef _ name ps body pp =>
      forallb ok_param ps && forallb ok_stmt body && is_nil (boxed_names body)
      && (let fd := {| fd_name := name; fd_params := ps; fd_body := body; fd_pos := pp |} in
          strs_eqb (layout fd) (locals_of fd))
  | SLoad _ _ _ | SUnsup _ => false
  end.

Definition ok_fundef (fd : fundef) : bool :=
  forallb ok_param (fd_params fd) && forallb ok_stmt (fd_body fd) && is_nil (boxed_names (fd_body fd))
  && strs_eqb (layout fd) (locals_of fd).

Definition ok_prog (p : program) : bool := forallb ok_stmt (p_body p) && is_nil (layout_top p).

(* defs are not nested inside other defs (they may sit under top-level if / for / while) *)
Fixpoint no_defs_stmt (s : stmt) : bool :=
  match s with
  | SIf _ tb fb => forallb no_defs_stmt tb && forallb no_defs_stmt fb
  | SWhile _ b | SFor _ _ b _ => forallb no_defs_stmt b
  | SDef _ _ _ _ _ => false
  | _ => true
  end.
Fixpoint flat_stmt (s : stmt) : bool :=
  match s with
  | SIf _ tb fb => forallb flat_stmt tb && forallb flat_stmt fb
  | SWhile _ b | SFor _ _ b _ => forallb flat_stmt b
  | SDef _ _ _ body _ => forallb no_defs_stmt body
  | _ => true
  end.
Definition flat_prog (p : program) : bool := forallb flat_stmt (p_body p).

(* THE FRAGMENT *)
Definition in_fragment (p : program) : bool := ok_prog p && flat_prog p.

(* function ids identify definitions: looking an id up in the syntax tree (what
   the reference evaluator does) and in the compiled program agree, every
   definition found is in the fragment and is not nested inside a block that
   binds variables (function, comprehension, file block with loads).
   Decidable for a concrete program; holds whenever the ids of the defs are
   pairwise distinct and no def is nested in another. *)
Definition funs_ok (p : program) : Prop :=
  forall fid,
    match find_def p fid with
    | Some (fd, encl) => ok_fundef fd = true /\ encl = [] /\ find_code (cp_funs (compile_prog p)) fid = Some (compile_fun p fd)
    | None => find_code (cp_funs (compile_prog p)) fid = None
    end.
