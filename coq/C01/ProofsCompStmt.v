(* C01 -- comprehensions: simulation of statements, blocks, while and for loops in frames
   that also hold the slots of comprehension variables (scripts of ProofsStmt.v and
   ProofsLoop.v with the locals array threaded through). *)
From Coq Require Import ZArith String List Bool Lia.
From SV Require Import C01.Syntax C01.Values C01.Ref C01.VM C01.Compile C01.Frag C01.ProofsVM C01.ProofsEnv
     C01.SimDefs C01.ProofsExpr C01.ProofsStmt C01.ProofsCompFrag C01.ProofsCompEnv C01.ProofsCompDefs
     C01.ProofsCompExpr C01.ProofsCompComp.
Import ListNotations.
Open Scope string_scope.
Open Scope list_scope.
Open Scope nat_scope.

Section Stmt2.
  Variable p : program.
  Notation cp := (compile_prog p).
  Notation fn := (fname p).

  Lemma ge_nil : forall ls e, gen_e p ls [] e = gen_expr p ls e. Proof. reflexivity. Qed.
  Lemma gc_nil : forall ls e t f, gen_c p ls [] e t f = gen_cond p ls e t f. Proof. reflexivity. Qed.
  Lemma gct_nil : forall ls t ps, gen_ct p ls [] t ps = gen_assign p ls t ps. Proof. reflexivity. Qed.

  Lemma ok_sdef : forall lo ls fid name ps body pp,
    ok_stmt2 lo ls (SDef fid name ps body pp) =
    forallb (ok_param2 lo ls) ps && jok lo ls name
    && ok_fundef2 {| fd_name := name; fd_params := ps; fd_body := body; fd_pos := pp |}.
  Proof. reflexivity. Qed.

  Lemma after2_pre : forall fid C fv K lo ls S0 S0' pc pc' len len' I brk cont r,
    star cp fn S0 S0' ->
    after2 p fid C fv K lo ls S0' pc' len' I brk cont r ->
    (forall L' s', star cp fn (S2 fid C fv K (pc' + len') [] L' I s') (S2 fid C fv K (pc + len) [] L' I s')) ->
    after2 p fid C fv K lo ls S0 pc len I brk cont r.
  Proof.
    intros fid C fv K lo ls S0 S0' pc pc' len len' I brk cont [[out ρ'] s'] Hs Ha Hn.
    destruct out; simpl in *.
    - destruct Ha as (L' & HR & Ha). exists L'. split; auto.
      eapply star_trans; [exact Hs|]. eapply star_trans; [exact Ha|]. apply Hn.
    - destruct brk; [ destruct Ha as (L' & HR & Ha); exists L'; split; auto; eapply star_trans; eauto
                    | eapply halts_star; eauto ].
    - destruct cont; [ destruct Ha as (L' & HR & Ha); exists L'; split; auto; eapply star_trans; eauto
                     | eapply halts_star; eauto ].
    - destruct Ha as [pcr [Ix [wv [L' [H1 [H2 H3]]]]]]. exists pcr, Ix, wv, L'. repeat split; auto.
      eapply star_trans; eauto.
  Qed.

  Hypothesis Hfuns : funs_ok2 p.

  Ltac nrm := rewrite ?ge_nil, ?gc_nil, ?gct_nil in *.
  Ltac fin2 := norm_state; apply star_eq; apply St_eq; [ simpl; len_norm; rewrite ?aug_len; lia | reflexivity ].
  Ltac fetch_at q k := match goal with Hf : nth_error _ q = Some _ |- _ => k Hf end.

  Lemma X2_step : forall n, E2 p n -> Cn2 p n -> As2 p n -> B2 p n -> W2 p n -> F2 p n -> Df2 p n -> X2 p (S n).
  Proof.
    intros n IHE IHC IHA IHB IHW IHF IHD.
    unfold X2; intros stk lo ls ρ L st s fid0 C fv K pc I brk cont Hok HR Hstk Hcode.
    destruct st; try (simpl in Hok; discriminate).
    - (* SExpr *)
      simpl in Hok. simpl exec. destruct (is_lit e) eqn:El.
      + rewrite (gs_expr_lit _ _ _ El) in *.
        destruct e; try discriminate; destruct n; simpl; auto; unfold after2; exists L; split; auto; fin.
      + rewrite (gs_expr_gen _ _ _ El) in *. pcode_split.
        codeof e ltac:(fun Hc => pose proof (IHE stk lo ls [] [] ρ L e s fid0 C fv K pc [] I brk cont Hok HR Hstk Hc) as IH1). nrm.
        destruct (eval p n stk ρ e s) as [[v s1]| | |]; cbn [sim fst snd] in *; auto.
        destruct IH1 as (L1 & HR1 & IH1). unfold after2. exists L1. split; auto. chain IH1. vstep. fin.
    - (* SAssign *)
      simpl in Hok. apply andb_true_iff in Hok. destruct Hok as [Ht He].
      rewrite gs_assign in *. pcode_split.
      codeof e ltac:(fun Hc => pose proof (IHE stk lo ls [] [] ρ L e s fid0 C fv K pc [] I brk cont He HR Hstk Hc) as IH1). nrm.
      simpl exec.
      destruct (eval p n stk ρ e s) as [[v s1]| | |]; cbn [sim fst snd] in *; auto.
      destruct IH1 as (L1 & HR1 & IH1).
      match goal with Hc : pcode_at _ ?q (gen_assign _ _ _ _) _ _ |- _ =>
        pose proof (IHA stk lo ls [] [] ρ L1 t v p0 s1 fid0 C fv K q [] I brk cont Ht HR1 Hstk Hc) as IH2 end. nrm.
      destruct (assign p n stk ρ t v p0 s1) as [[ρ1 s2]| | |]; cbn [sim fst snd] in *; auto.
      + destruct IH2 as (L2 & HR2 & IH2). unfold after2. exists L2. split; auto. chain IH1. chain IH2. fin.
      + hstar IH1. hchain IH2.
      + hstar IH1. hchain IH2.
    - (* SAug *)
      simpl in Hok. apply andb_true_iff in Hok. destruct Hok as [Hok Ho]. apply andb_true_iff in Hok. destruct Hok as [Ht He].
      apply negb_true_iff in Ho.
      destruct t; simpl in Ht.
      3: { (* field target *)
           change (gen_stmt p ls (SAug o (TDot x name p1) e p0))
             with (gen_expr p ls x ++ [DUP; ATTR name p1] ++ gen_expr p ls e ++ aug_insn o p0 ++ [SETFIELD name p1]) in *.
           pcode_split. rewrite ?aug_len in *.
           codeof x ltac:(fun Hc => pose proof (IHE stk lo ls [] [] ρ L x s fid0 C fv K pc [] I brk cont Ht HR Hstk Hc) as IH1). nrm.
           simpl exec.
           destruct (eval p n stk ρ x s) as [[vx s1]| | |]; cbn [sim fst snd] in *; auto.
           destruct IH1 as (L1 & HR1 & IH1).
           destruct (getattr vx name (rw s1)) as [old| |t] eqn:Eg; cbn [lift sim fst snd].
           2: { hstar IH1. eapply halts_star; [ vstep; apply star_refl | vstop1 Eg ]. }
           2: { hstar IH1. eapply halts_star; [ vstep; apply star_refl | vstop1 Eg ]. }
           assert (Hpre : star cp fn (S2 fid0 C fv K pc [] L I s)
                            (S2 fid0 C fv K (pc + length (gen_expr p ls x) + 2) [old; vx] L1 I s1)).
           { chain IH1. vstep. vstep1 Eg. fin. }
           codeof e ltac:(fun Hc => pose proof (IHE stk lo ls [] [] ρ L1 e s1 fid0 C fv K _ [old; vx] I brk cont He HR1 Hstk Hc) as IH3). nrm.
           destruct (eval p n stk ρ e s1) as [[ve s3]| | |]; cbn [sim fst snd] in *; auto;
             try (hstar Hpre; hchain IH3).
           destruct IH3 as (L3 & HR3 & IH3).
           match goal with Hc : pcode_at _ ?q (aug_insn _ _) _ _ |- _ =>
             pose proof (aug_step p o p0 old ve (rw s3) fid0 C fv K q [vx] L3 I (rg s3) brk cont Ho Hc) as IHa end.
           destruct (apply_aug o old ve (rw s3)) as [[r w]| |t] eqn:Ea; cbn [lift sim fst snd];
             try (hstar Hpre; hstar IH3; hchain IHa).
           hstar Hpre. hstar IH3. hstar IHa. vstop. }
      3: { (* sequence target: rejected statically; both sides report it *)
           change (gen_stmt p ls (SAug o (TSeq ts) e p0)) with [UNSUPPORTED "static:augmented-sequence"] in *.
           pcode_split. simpl exec. cbn [sim]. vstop. }
      + (* name *)
        rewrite gs_aug_name in *. pcode_split. rewrite ?aug_len in *.
        assert (Hnm : negb (str_in x []) && jok lo ls x = true) by (rewrite str_in_nil; exact Ht).
        fetch_at pc ltac:(fun Hf => pose proof (name_sim2 p lo ls [] [] ρ L x p1 s fid0 C fv K pc [] I brk cont HR Hnm Hf) as IHn).
        simpl exec.
        destruct (lookup p ρ x p1 s) as [vx| | |]; cbn [sim fst snd] in *; auto.
        codeof e ltac:(fun Hc => pose proof (IHE stk lo ls [] [] ρ L e s fid0 C fv K _ [vx] I brk cont He HR Hstk Hc) as IH1). nrm.
        destruct (eval p n stk ρ e s) as [[ve s1]| | |]; cbn [sim fst snd] in *; auto;
          try (hstar IHn; hchain IH1).
        destruct IH1 as (L1 & HR1 & IH1).
        match goal with Hc : pcode_at _ ?q (aug_insn _ _) _ _ |- _ =>
          pose proof (aug_step p o p0 vx ve (rw s1) fid0 C fv K q [] L1 I (rg s1) brk cont Ho Hc) as IHa end.
        destruct (apply_aug o vx ve (rw s1)) as [[r w]| |t] eqn:Ea; cbn [lift sim fst snd];
          try (hstar IHn; hstar IH1; hchain IHa).
        match goal with Hf : nth_error C ?q = Some (resolve _ _ _ (gen_set _ _ _ _)) |- _ =>
          pose proof (set_sim2 p lo ls [] [] ρ L1 x r (with_w s1 w) fid0 C fv K q [] I brk cont HR1 Ht Hf) as IHs end.
        destruct (set_var p ρ x r (with_w s1 w)) as [[ρ1 s2]| | |]; cbn [sim fst snd] in *; auto.
        * destruct IHs as (L2 & HR2 & IHs). unfold after2. exists L2. split; auto.
          chain IHn. chain IH1. chain IHa. chain IHs. fin2.
        * hstar IHn. hstar IH1. hstar IHa. hchain IHs.
        * hstar IHn. hstar IH1. hstar IHa. hchain IHs.
      + (* index *)
        apply andb_true_iff in Ht. destruct Ht as [Hx Hy].
        rewrite gs_aug_index in *. pcode_split. rewrite ?aug_len in *.
        codeof x ltac:(fun Hc => pose proof (IHE stk lo ls [] [] ρ L x s fid0 C fv K pc [] I brk cont Hx HR Hstk Hc) as IH1). nrm.
        simpl exec.
        destruct (eval p n stk ρ x s) as [[vx s1]| | |]; cbn [sim fst snd] in *; auto.
        destruct IH1 as (L1 & HR1 & IH1).
        codeof y ltac:(fun Hc => pose proof (IHE stk lo ls [] [] ρ L1 y s1 fid0 C fv K _ [vx] I brk cont Hy HR1 Hstk Hc) as IH2). nrm.
        destruct (eval p n stk ρ y s1) as [[vy s2]| | |]; cbn [sim fst snd] in *; auto;
          try (hstar IH1; hchain IH2).
        destruct IH2 as (L2 & HR2 & IH2).
        destruct (index_get vx vy (rw s2)) as [old| |t] eqn:Eg; cbn [lift sim fst snd].
        2: { hstar IH1. hstar IH2. eapply halts_star; [ vstep; apply star_refl | vstop1 Eg ]. }
        2: { hstar IH1. hstar IH2. eapply halts_star; [ vstep; apply star_refl | vstop1 Eg ]. }
        assert (Hpre : star cp fn (S2 fid0 C fv K pc [] L I s)
                         (S2 fid0 C fv K (pc + length (gen_expr p ls x) + length (gen_expr p ls y) + 2)
                             [old; vy; vx] L2 I s2)).
        { chain IH1. chain IH2. vstep. vstep1 Eg. fin. }
        codeof e ltac:(fun Hc => pose proof (IHE stk lo ls [] [] ρ L2 e s2 fid0 C fv K _ [old; vy; vx] I brk cont He HR2 Hstk Hc) as IH3). nrm.
        destruct (eval p n stk ρ e s2) as [[ve s3]| | |]; cbn [sim fst snd] in *; auto;
          try (hstar Hpre; hchain IH3).
        destruct IH3 as (L3 & HR3 & IH3).
        match goal with Hc : pcode_at _ ?q (aug_insn _ _) _ _ |- _ =>
          pose proof (aug_step p o p0 old ve (rw s3) fid0 C fv K q [vy; vx] L3 I (rg s3) brk cont Ho Hc) as IHa end.
        destruct (apply_aug o old ve (rw s3)) as [[r w]| |t] eqn:Ea; cbn [lift sim fst snd];
          try (hstar Hpre; hstar IH3; hchain IHa).
        destruct (index_set vx vy r w) as [w'| |t] eqn:Es; cbn [lift sim fst snd].
        * unfold after2. exists L3. split; auto. chain Hpre. chain IH3. chain IHa. vstep1 Es. fin2.
        * hstar Hpre. hstar IH3. hstar IHa. vstop1 Es.
        * hstar Hpre. hstar IH3. hstar IHa. vstop1 Es.
    - (* SIf *)
      simpl in Hok. apply andb_true_iff in Hok. destruct Hok as [Hok Hfb]. apply andb_true_iff in Hok. destruct Hok as [Hc Htb].
      rewrite gs_if in *. pcode_split.
      condof c ltac:(fun Hcc => pose proof (IHC stk lo ls [] [] ρ L c s fid0 C fv K pc [] I brk cont _ _ Hc HR Hstk Hcc) as IHc). nrm.
      simpl exec.
      destruct (eval p n stk ρ c s) as [[vc s1]| | |]; cbn [sim fst snd] in *; auto.
      destruct IHc as (L1 & HR1 & IHc).
      destruct (truth vc (rw s1)) eqn:Et.
      + match goal with Hcc : pcode_at _ ?q (gen_block _ _ tb) _ _ |- _ =>
          pose proof (IHB stk lo ls ρ L1 tb s1 fid0 C fv K q I brk cont Htb HR1 Hstk Hcc) as IH2 end.
        assert (Hpre : star cp fn (S2 fid0 C fv K pc [] L I s)
                         (S2 fid0 C fv K (pc + length (gen_cond p ls c 0 (length (gen_block p ls tb) + 1))) [] L1 I s1)).
        { chain IHc. fin. }
        eapply sim_move; [ exact Hpre | exact IH2 | ].
        intros r Ha.
        eapply after2_pre; [ exact Hpre | exact Ha | ].
        intros L' s'. vstep. fin.
      + match goal with Hcc : pcode_at _ ?q (gen_block _ _ fb) _ _ |- _ =>
          pose proof (IHB stk lo ls ρ L1 fb s1 fid0 C fv K q I brk cont Hfb HR1 Hstk Hcc) as IH2 end.
        assert (Hpre : star cp fn (S2 fid0 C fv K pc [] L I s)
                         (S2 fid0 C fv K (pc + length (gen_cond p ls c 0 (length (gen_block p ls tb) + 1))
                                            + length (gen_block p ls tb) + 1) [] L1 I s1)).
        { chain IHc. fin. }
        eapply sim_move; [ exact Hpre | exact IH2 | ].
        intros r Ha.
        eapply after2_pre; [ exact Hpre | exact Ha | ].
        intros L' s'. fin.
    - (* SWhile *)
      simpl in Hok. apply andb_true_iff in Hok. destruct Hok as [Hc Hb].
      simpl exec.
      pose proof (IHW stk lo ls ρ L c body s fid0 C fv K pc I brk cont Hc Hb HR Hstk Hcode) as IH1.
      eapply sim_move; [ apply star_refl | exact IH1 | ].
      intros [[out ρ'] s'] Ha.
      destruct out; simpl in *; auto; contradiction.
    - (* SFor *)
      simpl in Hok. apply andb_true_iff in Hok. destruct Hok as [Hok Hb]. apply andb_true_iff in Hok. destruct Hok as [Ht He].
      pose proof (fun vs lock s' L' HR' => IHF stk lo ls ρ L' t p0 vs lock body s' fid0 C fv K pc I brk cont e Ht Hb HR' Hstk Hcode) as IHf.
      cbv zeta in IHf.
      rewrite gs_for in *. pcode_split. rewrite ?patch_loop_length in *.
      codeof e ltac:(fun Hc => pose proof (IHE stk lo ls [] [] ρ L e s fid0 C fv K pc [] I brk cont He HR Hstk Hc) as IH1). nrm.
      simpl exec.
      destruct (eval p n stk ρ e s) as [[v s1]| | |]; cbn [sim fst snd] in *; auto.
      destruct IH1 as (L1 & HR1 & IH1).
      destruct (iterate v (rw s1)) as [[[vs lock] w1]| |t0] eqn:Ei; cbn [lift sim fst snd].
      2: { hstar IH1. vstop1 Ei. }
      2: { hstar IH1. vstop1 Ei. }
      specialize (IHf vs lock (with_w s1 w1) L1 HR1).
      assert (Hpre : star cp fn (S2 fid0 C fv K pc [] L I s)
                       (S2 fid0 C fv K (pc + length (gen_expr p ls e) + 1) [] L1
                           ({| it_rem := vs; it_lock := lock |} :: I) (with_w s1 w1))).
      { chain IH1. vstep1 Ei. fin. }
      destruct (exec_for p n stk ρ t p0 vs body (with_w s1 w1)) as [[[out ρ2] s2]| | |]; cbn [sim fst snd] in *; auto.
      + destruct out; try contradiction; unfold after2.
        * destruct IHf as (L2 & rem & HR2 & Ha). exists L2. split; auto.
          chain Hpre. chain Ha. norm_state. len_norm. vstep. fin.
        * destruct IHf as [pcr [Ix [rem [wv [L2 [Hr1 [Hr2 Hr3]]]]]]].
          exists pcr, (Ix ++ [{| it_rem := rem; it_lock := lock |}]), wv, L2. repeat split; auto.
          -- rewrite <- app_assoc. simpl. chain Hpre. exact Hr1.
          -- rewrite release_all_app. simpl. rewrite Hr3. reflexivity.
      + hstar Hpre. hchain IHf.
      + hstar Hpre. hchain IHf.
    - (* SBreak *)
      change (gen_stmt p ls SBreak) with [BRK] in *. simpl exec. cbn [sim].
      unfold after2.
      destruct brk; pcode_split.
      + exists L. split; auto. vstep. apply star_refl.
      + vstop.
    - (* SContinue *)
      change (gen_stmt p ls SContinue) with [CONT] in *. simpl exec. cbn [sim].
      unfold after2.
      destruct cont; pcode_split.
      + exists L. split; auto. vstep. apply star_refl.
      + vstop.
    - (* SPass *)
      simpl exec. cbn [sim]. unfold after2. exists L. split; auto. fin.
    - (* SReturn *)
      destruct e as [e|].
      + simpl in Hok. rewrite gs_return in *. pcode_split.
        codeof e ltac:(fun Hc => pose proof (IHE stk lo ls [] [] ρ L e s fid0 C fv K pc [] I brk cont Hok HR Hstk Hc) as IH1). nrm.
        simpl exec.
        destruct (eval p n stk ρ e s) as [[v s1]| | |]; cbn [sim fst snd] in *; auto.
        destruct IH1 as (L1 & HR1 & IH1).
        unfold after2.
        exists (pc + length (gen_expr p ls e)), [], (rw s1), L1. repeat split; auto.
      + change (gen_stmt p ls (SReturn None)) with [NONE; RETURN] in *. pcode_split.
        simpl exec. cbn [sim]. unfold after2.
        exists (S pc), [], (rw s), L. repeat split; auto.
        vstep. apply star_refl.
    - (* SDef *)
      rewrite ok_sdef in Hok.
      apply andb_true_iff in Hok. destruct Hok as [Hok Hfd]. apply andb_true_iff in Hok. destruct Hok as [Hps Hjn].
      pose proof (IHD stk lo ls ρ L params false s fid0 C fv K pc [] I brk cont Hps HR Hstk) as IH1.
      unfold gen_stmt in Hcode |- *; fold gen_stmt in Hcode |- *.
      destruct (gen_defaults p ls params false) as [c k] eqn:Eg. cbn [fst snd] in *.
      pcode_split.
      match goal with Hc : pcode_at C pc c _ _ |- _ => specialize (IH1 Hc) end.
      simpl exec.
      destruct (eval_defaults p n stk ρ params false s) as [[ds s1]| | |]; cbn [sim fst snd] in *; auto.
      destruct IH1 as [Hlen (L1 & HR1 & IH1)].
      assert (Hpop : popn k (rev ds ++ []) [] = Some (ds, [])) by (rewrite <- Hlen; apply popn_rev).
      pose proof (Hfuns fid) as Hfid. unfold compile_prog in Hfid; cbn [cp_funs] in Hfid.
      destruct (find_def p fid) as [[fd encl]|].
      2: { cbn [sim]. hstar IH1. eapply halts_star; [ vstep1 Hpop; apply star_refl | ]. vstop1 Hfid. }
      destruct Hfid as [Hfd' [Hencl Hfc]].
      rewrite (capture_direct ρ _ (R_wf _ _ _ _ _ _ HR)).
      match goal with Hf : nth_error C ?q = Some (resolve _ _ _ (gen_set _ _ _ _)) |- _ =>
        pose proof (set_sim2 p lo ls [] [] ρ L1 name (VFun fid ds []) s1 fid0 C fv K q [] I brk cont HR1 Hjn Hf) as IHs end.
      assert (Hpre : star cp fn (S2 fid0 C fv K pc [] L I s)
                       (S2 fid0 C fv K (pc + length c + 2) [VFun fid ds []] L1 I s1)).
      { chain IH1. vstep1 Hpop.
        with_fetch ltac:(fun H => eapply star_step; [ rewrite (step_lit _ _ _ _ _ _ _ _ _ _ _ _ _ H); simpl; rewrite Hfc; simpl;
                                                        rewrite Nat.sub_0_r, firstn_all; reflexivity | ]).
        fin. }
      destruct (set_var p ρ name (VFun fid ds []) s1) as [[ρ1 s2]| | |]; cbn [sim fst snd] in *; auto.
      + destruct IHs as (L2 & HR2 & IHs). unfold after2. exists L2. split; auto.
        chain Hpre. chain IHs. fin.
      + hstar Hpre. hchain IHs.
      + hstar Hpre. hchain IHs.
  Qed.

  Lemma B2_step : forall n, X2 p n -> B2 p n -> B2 p (S n).
  Proof.
    intros n IHX IHB.
    unfold B2; intros stk lo ls ρ L ss s fid C fv K pc I brk cont Hok HR Hstk Hcode.
    destruct ss as [|st r]; simpl exec_block.
    - cbn [sim]. unfold after2. exists L. split; auto. fin.
    - simpl in Hok. apply andb_true_iff in Hok. destruct Hok as [Hst Hr].
      rewrite gb_cons in *. pcode_split.
      match goal with Hc : pcode_at _ _ (gen_stmt _ _ st) _ _ |- _ =>
        pose proof (IHX stk lo ls ρ L st s fid C fv K pc I brk cont Hst HR Hstk Hc) as IH1 end.
      destruct (exec p n stk ρ st s) as [[[out ρ1] s1]| | |]; cbn [sim fst snd] in *; auto.
      destruct out.
      + unfold after2 in IH1. destruct IH1 as (L1 & HR1 & Ha).
        match goal with Hc : pcode_at _ ?q (gen_block _ _ r) _ _ |- _ =>
          pose proof (IHB stk lo ls ρ1 L1 r s1 fid C fv K _ I brk cont Hr HR1 Hstk Hc) as IH2 end.
        eapply sim_move; [ exact Ha | exact IH2 | ].
        intros r' Ha'.
        eapply after2_pre; [ exact Ha | exact Ha' | ].
        intros L' s'. fin.
      + exact IH1.
      + exact IH1.
      + exact IH1.
  Qed.

  Lemma W2_step : forall n, Cn2 p n -> B2 p n -> W2 p n -> W2 p (S n).
  Proof.
    intros n IHC IHB IHW.
    unfold W2; intros stk lo ls ρ L c body s fid C fv K pc I brk cont Hc Hb HR Hstk Hcode.
    pose proof Hcode as Hwhile.
    (* continuing with the next iteration from the loop head *)
    assert (Hnext : forall ρ2 s2 L2, R lo ls [] [] ρ2 L2 ->
              star cp fn (S2 fid C fv K pc [] L I s) (S2 fid C fv K pc [] L2 I s2) ->
              sim p (exec_while p n stk ρ2 c body s2) (S2 fid C fv K pc [] L I s)
                (fun r =>
                   let S0 := S2 fid C fv K pc [] L I s in
                   let '(out, ρ', s') := r in
                   match out with
                   | ONormal => exists L', R lo ls [] [] ρ' L' /\
                                           star cp fn S0 (S2 fid C fv K (pc + length (gen_stmt p ls (SWhile c body))) [] L' I s')
                   | OReturn v => exists pcr Ix wv L',
                         star cp fn S0 (St (Fr fid C pcr [v] L' (Ix ++ I) fv) K (rg s') wv)
                         /\ nth_error C pcr = Some RETURN /\ release_all Ix wv = rw s'
                   | _ => False
                   end)).
    { intros ρ2 s2 L2 HR2 Hs.
      pose proof (IHW stk lo ls ρ2 L2 c body s2 fid C fv K pc I brk cont Hc Hb HR2 Hstk Hwhile) as IH.
      eapply sim_move; [ exact Hs | exact IH | ].
      intros [[out ρ'] s'] Ha.
      destruct out; auto.
      - destruct Ha as (L3 & HR3 & Ha). exists L3. split; auto. eapply star_trans; eauto.
      - destruct Ha as [pcr [Ix [wv [L3 [H1 [H2 H3]]]]]]. exists pcr, Ix, wv, L3. repeat split; auto.
        eapply star_trans; eauto. }
    rewrite gs_while in Hcode. pcode_split. rewrite ?patch_loop_length in *.
    condof c ltac:(fun Hcc => pose proof (IHC stk lo ls [] [] ρ L c s fid C fv K pc [] I brk cont _ _ Hc HR Hstk Hcc) as IHc). nrm.
    simpl exec_while.
    destruct (eval p n stk ρ c s) as [[vc s1]| | |]; cbn [sim fst snd] in *; auto.
    destruct IHc as (L1 & HR1 & IHc).
    destruct (truth vc (rw s1)) eqn:Et.
    - match goal with Hp : pcode_at C ?bs (patch_loop _ _ _) _ _ |- _ =>
        pose proof (pcode_patch C bs _ _ _ _ _ Hp ltac:(lia)) as Hbody end.
      pose proof (IHB stk lo ls ρ L1 body s1 fid C fv K _ I _ _ Hb HR1 Hstk Hbody) as IH2.
      assert (Hpre : star cp fn (S2 fid C fv K pc [] L I s)
                       (S2 fid C fv K (pc + length (gen_cond p ls c 0 (length (gen_block p ls body) + 1))) [] L1 I s1)).
      { chain IHc. fin. }
      destruct (exec_block p n stk ρ body s1) as [[[out ρ2] s2]| | |]; cbn [sim fst snd] in *; auto.
      + unfold after2 in IH2.
        destruct out.
        * destruct IH2 as (L2 & HR2 & Ha). apply (Hnext ρ2 s2 L2 HR2). chain Hpre. chain Ha. vstep. fin.
        * destruct IH2 as (L2 & HR2 & Ha). cbn [sim]. exists L2. split; auto. rewrite gs_while. chain Hpre. chain Ha. fin.
        * destruct IH2 as (L2 & HR2 & Ha). apply (Hnext ρ2 s2 L2 HR2). chain Hpre. chain Ha. fin.
        * cbn [sim].
          destruct IH2 as [pcr [Ix [wv [L2 [H1' [H2' H3']]]]]]. exists pcr, Ix, wv, L2. repeat split; auto.
          chain Hpre. exact H1'.
      + hstar Hpre. hchain IH2.
      + hstar Hpre. hchain IH2.
    - cbn [sim]. exists L1. split; auto. rewrite gs_while. chain IHc. fin.
  Qed.

  Lemma F2_step : forall n, As2 p n -> B2 p n -> F2 p n -> F2 p (S n).
  Proof.
    intros n IHA IHB IHF.
    unfold F2; intros stk lo ls ρ L t ps vs lock body s fid C fv K pc I brk cont e Ht Hb HR Hstk Hcode.
    cbv zeta.
    pose proof Hcode as Hfor.
    set (head := pc + length (gen_expr p ls e) + 1) in *.
    (* continuing with the next element from the loop head *)
    assert (Hnext : forall ρ2 s2 L2 vs', R lo ls [] [] ρ2 L2 ->
              star cp fn (S2 fid C fv K head [] L ({| it_rem := vs; it_lock := lock |} :: I) s)
                         (S2 fid C fv K head [] L2 ({| it_rem := vs'; it_lock := lock |} :: I) s2) ->
              sim p (exec_for p n stk ρ2 t ps vs' body s2)
                (S2 fid C fv K head [] L ({| it_rem := vs; it_lock := lock |} :: I) s)
                (fun r =>
                   let '(out, ρ', s') := r in
                   match out with
                   | ONormal => exists L' rem, R lo ls [] [] ρ' L' /\
                       star cp fn (S2 fid C fv K head [] L ({| it_rem := vs; it_lock := lock |} :: I) s)
                            (S2 fid C fv K (pc + length (gen_stmt p ls (SFor t e body ps)) - 1) [] L'
                                ({| it_rem := rem; it_lock := lock |} :: I) s')
                   | OReturn v => exists pcr Ix rem wv L',
                       star cp fn (S2 fid C fv K head [] L ({| it_rem := vs; it_lock := lock |} :: I) s)
                            (St (Fr fid C pcr [v] L' (Ix ++ {| it_rem := rem; it_lock := lock |} :: I) fv) K (rg s') wv)
                       /\ nth_error C pcr = Some RETURN /\ release_all Ix wv = rw s'
                   | _ => False
                   end)).
    { intros ρ2 s2 L2 vs' HR2 Hs.
      pose proof (IHF stk lo ls ρ2 L2 t ps vs' lock body s2 fid C fv K pc I brk cont e Ht Hb HR2 Hstk Hfor) as IH.
      cbv zeta in IH. fold head in IH.
      eapply sim_move; [ exact Hs | exact IH | ].
      intros [[out ρ'] s'] Ha.
      destruct out; auto.
      - destruct Ha as (L3 & rem & HR3 & Ha). exists L3, rem. split; auto. eapply star_trans; eauto.
      - destruct Ha as [pcr [Ix [rem [wv [L3 [H1 [H2 H3]]]]]]]. exists pcr, Ix, rem, wv, L3. repeat split; auto.
        eapply star_trans; eauto. }
    rewrite gs_for in Hcode. pcode_split. rewrite ?patch_loop_length in *.
    destruct vs as [|v vs']; simpl exec_for.
    - cbn [sim]. exists L, []. split; auto. rewrite gs_for. unfold head. vstep. fin.
    - match goal with Hc : pcode_at _ ?q (gen_assign _ _ _ _) _ _ |- _ =>
        pose proof (IHA stk lo ls [] [] ρ L t v ps s fid C fv K q [] ({| it_rem := vs'; it_lock := lock |} :: I) brk cont Ht HR Hstk Hc) as IH1 end.
      nrm.
      assert (Hpre : star cp fn (S2 fid C fv K head [] L ({| it_rem := v :: vs'; it_lock := lock |} :: I) s)
                       (S2 fid C fv K (head + 1) [v] L ({| it_rem := vs'; it_lock := lock |} :: I) s)).
      { unfold head. vstep. fin. }
      destruct (assign p n stk ρ t v ps s) as [[ρ1 s1]| | |]; cbn [sim fst snd] in *; auto.
      2: { hstar Hpre. unfold head. hchain IH1. }
      2: { hstar Hpre. unfold head. hchain IH1. }
      destruct IH1 as (L1 & HR1 & IH1).
      match goal with Hp : pcode_at C ?bs (patch_loop _ _ _) _ _ |- _ =>
        pose proof (pcode_patch C bs _ _ _ _ _ Hp ltac:(lia)) as Hbody end.
      pose proof (IHB stk lo ls ρ1 L1 body s1 fid C fv K _ ({| it_rem := vs'; it_lock := lock |} :: I) _ _ Hb HR1 Hstk Hbody) as IH2.
      assert (Hpre2 : star cp fn (S2 fid C fv K head [] L ({| it_rem := v :: vs'; it_lock := lock |} :: I) s)
                        (S2 fid C fv K (head + 1 + length (gen_assign p ls t ps)) [] L1
                            ({| it_rem := vs'; it_lock := lock |} :: I) s1)).
      { chain Hpre. unfold head. chain IH1. unfold head. fin. }
      destruct (exec_block p n stk ρ1 body s1) as [[[out ρ2] s2]| | |]; cbn [sim fst snd] in *; auto.
      + unfold after2 in IH2.
        destruct out.
        * destruct IH2 as (L2 & HR2 & Ha). apply (Hnext ρ2 s2 L2 vs' HR2).
          chain Hpre2. unfold head. chain Ha. unfold head. vstep. fin.
        * destruct IH2 as (L2 & HR2 & Ha). cbn [sim]. exists L2, vs'. split; auto. rewrite gs_for.
          chain Hpre2. unfold head. chain Ha. unfold head. fin.
        * destruct IH2 as (L2 & HR2 & Ha). apply (Hnext ρ2 s2 L2 vs' HR2).
          chain Hpre2. unfold head. chain Ha. unfold head. fin.
        * cbn [sim].
          destruct IH2 as [pcr [Ix [wv [L2 [H1' [H2' H3']]]]]]. exists pcr, Ix, vs', wv, L2. repeat split; auto.
          chain Hpre2. unfold head. eapply star_from_eq; [ | exact H1' ]. state_eq.
      + hstar Hpre2. unfold head. hchain IH2.
      + hstar Hpre2. unfold head. hchain IH2.
  Qed.
End Stmt2.
