(* C01 -- the virtual machine: a small-step model of Function.CallInternal in
   starlark/interp.go.  One `step` = one iteration of the interpreter loop (one
   Thread.Steps tick).  Code is a list of instructions addressed by instruction
   index; operands carry what the real operand indexes (constants, names) and
   the source position the line table gives to instructions that can fail.
   Frames are explicit (the Go code recurses through Call/CallInternal).
   No proofs in this file. *)
From Coq Require Import ZArith String List Bool.
From SV Require Import C01.Syntax C01.Values.
Import ListNotations.
Open Scope string_scope.

Inductive insn :=
| NOP | DUP | DUP2 | POP | EXCH
| BINARY (o : binop) (p : pos)          (* LT GT GE LE EQL NEQ PLUS ... GTGT IN *)
| UNARY (o : unop) (p : pos)            (* UPLUS UMINUS TILDE *)
| NOT
| INPLACE_ADD (p : pos) | INPLACE_PIPE (p : pos)
| NONE | TRUE | FALSE | MANDATORY
| ITERPUSH (p : pos) | ITERPOP | ITERJMP (a : nat)
| RETURN
| SETINDEX (p : pos) | INDEX (p : pos)
| SETDICT (p : pos) | SETDICTUNIQ (p : pos) | APPEND | MAKEDICT
| SLICE (p : pos)
| JMP (a : nat) | CJMP (a : nat)
| CONSTANT (v : value)
| MAKETUPLE (n : nat) | MAKELIST (n : nat)
| MAKEFUNC (fid : nat)
| LOAD (n : nat) (p : pos)
| SETLOCAL (i : nat) | SETGLOBAL (i : nat) | LOCAL (i : nat) (p : pos) | GLOBAL (i : nat) (p : pos)
| FREE (i : nat) | FREECELL (i : nat) (p : pos) | LOCALCELL (i : nat) (p : pos) | SETLOCALCELL (i : nat)
| PREDECLARED (x : string) | UNIVERSAL (x : string)
| ATTR (x : string) (p : pos) | SETFIELD (x : string) (p : pos)
| UNPACK (n : nat) (p : pos)
| CALL (mode : nat) (npos nnamed : nat) (p : pos)    (* mode: 0 CALL, 1 CALL_VAR, 2 CALL_KW, 3 CALL_VAR_KW *)
(* pseudo-instructions of the code generator before jump resolution; the machine has no rule for them *)
| RJMP (k : nat) | RCJMP (k : nat) | RITERJMP (k : nat) | RJMPB (k : nat) | BRK | CONT
| UNSUPPORTED (tag : string).

Record funcode := {
  fc_name : string;
  fc_code : list insn;
  fc_nlocals : nat;
  fc_params : list param;        (* only the shape is used: names, keyword-only count, *args, **kwargs *)
  fc_cells : list nat;           (* local slots spilled to cells on entry *)
  fc_free : list string          (* names of the free variables, for MAKEFUNC *)
}.

Record cprog := { cp_top : funcode; cp_funs : list (nat * funcode); cp_recursion : bool }.

Fixpoint find_code (l : list (nat * funcode)) (fid : nat) : option funcode :=
  match l with [] => None | (i, f) :: r => if Nat.eqb i fid then Some f else find_code r fid end.

Record iter := { it_rem : list value; it_lock : option nat }.

Record frame := {
  fr_fid : option nat;           (* None: the module's toplevel function *)
  fr_code : list insn;
  fr_pc : nat;
  fr_stack : list value;         (* head = top of stack *)
  fr_locals : list (option value);
  fr_iters : list iter;          (* head = innermost *)
  fr_free : list (string * nat)
}.

Record vstate := { vs_frames : list frame; vs_g : genv; vs_w : world }.

Inductive vresult :=
| VDone (g : genv) (w : world)
| VFail (p : pos) (incall : bool) (w : world)
| VUnsup (tag : string)
| VStuck (why : string).        (* malformed code: the real machine would index out of range / panic *)

Inductive stepres := Next (s : vstate) | Stop (r : vresult).

Definition set_frame (f : frame) (rest : list frame) (g : genv) (w : world) : vstate :=
  {| vs_frames := f :: rest; vs_g := g; vs_w := w |}.

Definition upd (f : frame) (pc : nat) (st : list value) : frame :=
  {| fr_fid := fr_fid f; fr_code := fr_code f; fr_pc := pc; fr_stack := st; fr_locals := fr_locals f;
     fr_iters := fr_iters f; fr_free := fr_free f |}.
Definition upd_locals (f : frame) (pc : nat) (st : list value) (l : list (option value)) : frame :=
  {| fr_fid := fr_fid f; fr_code := fr_code f; fr_pc := pc; fr_stack := st; fr_locals := l;
     fr_iters := fr_iters f; fr_free := fr_free f |}.
Definition upd_iters (f : frame) (pc : nat) (st : list value) (its : list iter) : frame :=
  {| fr_fid := fr_fid f; fr_code := fr_code f; fr_pc := pc; fr_stack := st; fr_locals := fr_locals f;
     fr_iters := its; fr_free := fr_free f |}.

(* pop n values; result in push order (deepest first) *)
Fixpoint popn (n : nat) (st : list value) (acc : list value) : option (list value * list value) :=
  match n with
  | O => Some (acc, st)
  | S n => match st with v :: r => popn n r (v :: acc) | [] => None end
  end.

Fixpoint pairs_of (l : list value) : option (list (string * value)) :=
  match l with
  | [] => Some []
  | VStr k :: v :: r => match pairs_of r with Some t => Some ((k, v) :: t) | None => None end
  | _ => None
  end.

Fixpoint release_all (its : list iter) (w : world) : world :=
  match its with [] => w | it :: r => release_all r (release (it_lock it) w) end.

(* spill the listed slots to fresh cells *)
Fixpoint spill (cs : list nat) (l : list (option value)) (w : world) : list (option value) * world :=
  match cs with
  | [] => (l, w)
  | i :: r => let '(c, w1) := alloc_cell (match nth_error l i with Some v => v | None => None end) w in
              spill r (upd_nth i (Some (VCell c)) l) w1
  end.

Section VM.
  Variable cp : cprog.
  Variable fname : nat -> string.

  Definition fail (p : pos) (incall : bool) (w : world) : stepres := Stop (VFail p incall w).

  Definition of_pres {A} (r : pres A) (p : pos) (w : world) (k : A -> stepres) : stepres :=
    match r with POk a => k a | PErr => fail p false w | PUnsup t => Stop (VUnsup t) end.

  (* calling the value fn with the flattened arguments: built-ins run to completion within the step,
     a function of the program gets a new frame (Call / CallInternal up to the interpreter loop) *)
  Definition call_value (f : frame) (rest : list frame) (g : genv) (w : world) (pc : nat) (st5 : list value)
             (p : pos) (fn : value) (args : list value) (kwargs : list (string * value)) : stepres :=
    let gow st w' := Next (set_frame (upd f pc st) rest g w') in
    match fn with
              | VBuiltin name => of_pres (call_builtin fname name None args kwargs w) p w (fun r => gow (fst r :: st5) (snd r))
              | VMethod name recv => of_pres (call_builtin fname name (Some recv) args kwargs w) p w (fun r => gow (fst r :: st5) (snd r))
              | VFun fid defaults free =>
                  match find_code (cp_funs cp) fid with
                  | None => Stop (VUnsup "internal:function-id")
                  | Some fc =>
                      if negb (cp_recursion cp) && existsb (fun fr => match fr_fid fr with Some i => Nat.eqb i fid | None => false end) (f :: rest)
                      then fail p true w else
                      match bind_args (fc_params fc) defaults args kwargs w with
                      | PErr => fail p true w
                      | PUnsup t => Stop (VUnsup t)
                      | POk (params, w1) =>
                          let l0 := pad_init (fc_nlocals fc) (map Some params) in
                          let '(l1, w2) := spill (fc_cells fc) l0 w1 in
                          let free' := filter (fun xc => str_in (fst xc) (fc_free fc)) free in
                          let callee := {| fr_fid := Some fid; fr_code := fc_code fc; fr_pc := 0; fr_stack := [];
                                           fr_locals := l1; fr_iters := []; fr_free := free' |} in
                          Next {| vs_frames := callee :: upd f pc st5 :: rest; vs_g := g; vs_w := w2 |}
                      end
                  end
              | _ => fail p false w
              end.

  (* one instruction i, fetched at fr_pc f, in frame f with callers rest *)
  Definition exec_insn (i : insn) (f : frame) (rest : list frame) (g : genv) (w : world) : stepres :=
      let pc := S (fr_pc f) in
      let go st := Next (set_frame (upd f pc st) rest g w) in
      let gow st w' := Next (set_frame (upd f pc st) rest g w') in
      let stuck := Stop (VStuck "stack") in
        match i, fr_stack f with
        | NOP, st => go st
        | DUP, x :: st => go (x :: x :: st)
        | DUP2, y :: x :: st => go (y :: x :: y :: x :: st)
        | POP, _ :: st => go st
        | EXCH, y :: x :: st => go (x :: y :: st)
        | BINARY o p, y :: x :: st => of_pres (binary o x y w) p w (fun r => gow (fst r :: st) (snd r))
        | UNARY o p, x :: st => of_pres (unary o x) p w (fun r => go (r :: st))
        | NOT, x :: st => go (VBool (negb (truth x w)) :: st)
        | INPLACE_ADD p, y :: x :: st => of_pres (inplace_add x y w) p w (fun r => gow (fst r :: st) (snd r))
        | INPLACE_PIPE p, y :: x :: st => of_pres (inplace_pipe x y w) p w (fun r => gow (fst r :: st) (snd r))
        | NONE, st => go (VNone :: st)
        | TRUE, st => go (VBool true :: st)
        | FALSE, st => go (VBool false :: st)
        | MANDATORY, st => go (VMandatory :: st)
        | JMP a, st => Next (set_frame (upd f a st) rest g w)
        | CJMP a, x :: st => Next (set_frame (upd f (if truth x w then a else pc) st) rest g w)
        | ITERPUSH p, x :: st =>
            of_pres (iterate x w) p w (fun r =>
              let '(vs, lock, w') := r in
              Next (set_frame (upd_iters f pc st ({| it_rem := vs; it_lock := lock |} :: fr_iters f)) rest g w'))
        | ITERJMP a, st =>
            match fr_iters f with
            | [] => Stop (VStuck "iterstack")
            | it :: its =>
                match it_rem it with
                | [] => Next (set_frame (upd f a st) rest g w)
                | v :: vs => Next (set_frame (upd_iters f pc (v :: st) ({| it_rem := vs; it_lock := it_lock it |} :: its)) rest g w)
                end
            end
        | ITERPOP, st =>
            match fr_iters f with
            | [] => Stop (VStuck "iterstack")
            | it :: its => Next (set_frame (upd_iters f pc st its) rest g (release (it_lock it) w))
            end
        | RETURN, v :: _ =>
            let w' := release_all (fr_iters f) w in
            match rest with
            | [] => Stop (VDone g w')
            | c :: rest' => Next (set_frame (upd c (fr_pc c) (v :: fr_stack c)) rest' g w')
            end
        | SETINDEX p, z :: y :: x :: st => of_pres (index_set x y z w) p w (fun w' => gow st w')
        | INDEX p, y :: x :: st => of_pres (index_get x y w) p w (fun r => go (r :: st))
        | MAKEDICT, st => let '(d, w') := alloc_dict [] w in gow (d :: st) w'
        | SETDICT p, v :: k :: d :: st => of_pres (index_set d k v w) p w (fun w' => gow st w')
        | SETDICTUNIQ p, v :: k :: d :: st =>
            of_pres (index_get_opt d k w) p w (fun present =>
              if (present : bool) then fail p false w
              else of_pres (index_set d k v w) p w (fun w' => gow st w'))
        | APPEND, v :: VRef a :: st =>
            match get_obj w a with
            | Some (OList vs k) => gow st (put_obj w a (OList (vs ++ [v]) k))
            | _ => Stop (VUnsup "internal:accumulator")
            end
        | SLICE p, st_ :: hi :: lo :: x :: st => of_pres (slice_op x lo hi st_ w) p w (fun r => gow (fst r :: st) (snd r))
        | CONSTANT v, st => go (v :: st)
        | MAKETUPLE n, st => match popn n st [] with Some (vs, st') => go (VTuple vs :: st') | None => stuck end
        | MAKELIST n, st => match popn n st [] with
                            | Some (vs, st') => let '(v, w') := alloc_list vs w in gow (v :: st') w'
                            | None => stuck end
        | MAKEFUNC fid, VTuple vs :: st =>
            match find_code (cp_funs cp) fid with
            | None => Stop (VUnsup "internal:function-id")
            | Some fc =>
                let nfree := length (fc_free fc) in
                let ndef := (length vs - nfree)%nat in
                let cells_ := flat_map (fun v => match v with VCell c => [c] | _ => [] end) (skipn ndef vs) in
                go (VFun fid (firstn ndef vs) (combine (fc_free fc) cells_) :: st)
            end
        | LOAD n p, VStr m :: st =>
            match load_module m with
            | None => fail p false w
            | Some vals =>
                match popn n st [] with
                | None => stuck
                | Some (names, st') =>
                    (* names in push order from1..fromN; results replace them in place *)
                    match (fix conv (l : list value) : option (list value) :=
                             match l with
                             | [] => Some []
                             | VStr x :: r => match assoc x vals, conv r with
                                              | Some v, Some t => Some (v :: t) | _, _ => None end
                             | _ => None end) names with
                    | Some vals' => go (rev vals' ++ st')%list
                    | None => fail p false w
                    end
                end
            end
        | SETLOCAL i, v :: st => Next (set_frame (upd_locals f pc st (upd_nth i (Some v) (fr_locals f))) rest g w)
        | SETGLOBAL i, v :: st => Next (set_frame (upd f pc st) rest (upd_nth i (Some v) g) w)
        | LOCAL i p, st => match nth_error (fr_locals f) i with
                           | Some (Some v) => go (v :: st)
                           | _ => fail p false w end
        | GLOBAL i p, st => match nth_error g i with
                            | Some (Some v) => go (v :: st)
                            | _ => fail p false w end
        | FREE i, st => match nth_error (fr_free f) i with
                        | Some (_, c) => go (VCell c :: st) | None => Stop (VStuck "free") end
        | FREECELL i p, st => match nth_error (fr_free f) i with
                              | Some (_, c) => match get_cell w c with Some v => go (v :: st) | None => fail p false w end
                              | None => Stop (VStuck "free") end
        | LOCALCELL i p, st => match nth_error (fr_locals f) i with
                               | Some (Some (VCell c)) => match get_cell w c with Some v => go (v :: st) | None => fail p false w end
                               | _ => Stop (VStuck "cell") end
        | SETLOCALCELL i, v :: st => match nth_error (fr_locals f) i with
                                     | Some (Some (VCell c)) => gow st (set_cell w c v)
                                     | _ => Stop (VStuck "cell") end
        | PREDECLARED x, st => if str_in x predeclared_names then go (VBuiltin x :: st) else Stop (VStuck "predeclared")
        | UNIVERSAL x, st => match universal x with Some v => go (v :: st) | None => Stop (VStuck "universal") end
        | ATTR x p, v :: st => of_pres (getattr v x w) p w (fun r => go (r :: st))
        | SETFIELD x p, _ :: _ :: st => fail p false w
        | UNPACK n p, v :: st => of_pres (unpack n v w) p w (fun vs => go (vs ++ st)%list)
        | CALL mode npos nnamed p, st =>
            let '(ss, st1) := match Nat.leb 2 mode, st with
                              | true, v :: r => (Some (Some v), r) | true, [] => (None, st) | false, _ => (Some None, st) end in
            match ss with None => stuck | Some ss =>
            let '(sa, st2) := match Nat.odd mode, st1 with
                              | true, v :: r => (Some (Some v), r) | true, [] => (None, st1) | false, _ => (Some None, st1) end in
            match sa with None => stuck | Some sa =>
            match popn (2 * nnamed) st2 [] with None => stuck | Some (kvs, st3) =>
            match pairs_of kvs with None => stuck | Some named =>
            match popn npos st3 [] with None => stuck | Some (args, st4) =>
            match st4 with [] => stuck | fn :: st5 =>
            of_pres (starstar_args ss w) p w (fun kw2 =>
            of_pres (star_args sa w) p w (fun pos2 =>
              let args := (args ++ pos2)%list in
              let kwargs := (named ++ kw2)%list in
              call_value f rest g w pc st5 p fn args kwargs))
            end end end end end end
        | UNSUPPORTED t, _ => Stop (VUnsup t)
        | (RJMP _ | RCJMP _ | RITERJMP _ | RJMPB _ | BRK | CONT), _ => Stop (VStuck "pseudo-instruction")
        | _, _ => stuck
        end.

  Definition step (s : vstate) : stepres :=
    match vs_frames s with
    | [] => Stop (VStuck "no frame")
    | f :: rest =>
        match nth_error (fr_code f) (fr_pc f) with
        | None => Stop (VStuck "pc")
        | Some i => exec_insn i f rest (vs_g s) (vs_w s)
        end
    end.

  (* result and number of interpreter-loop iterations (Thread.Steps) *)
  Fixpoint run_from (fuel : nat) (n : nat) (s : vstate) : option (vresult * nat) :=
    match fuel with
    | O => None
    | S fuel => match step s with Next s' => run_from fuel (S n) s' | Stop r => Some (r, S n) end
    end.
  Definition run (fuel : nat) (s : vstate) : option (vresult * nat) := run_from fuel 0 s.

  Definition init_state (nglobals : nat) : vstate :=
    let top := cp_top cp in
    let l0 := repeat None (fc_nlocals top) in
    let '(l1, w1) := spill (fc_cells top) l0 empty_world in
    {| vs_frames := [{| fr_fid := None; fr_code := fc_code top; fr_pc := 0; fr_stack := []; fr_locals := l1;
                        fr_iters := []; fr_free := [] |}];
       vs_g := repeat None nglobals; vs_w := w1 |}.
End VM.

Definition observe_vm (r : option (vresult * nat)) : observation :=
  match option_map fst r with
  | Some (VDone g w) => {| ob_trace := trace w; ob_heap := heap w; ob_cells := cells w; ob_verdict := Success g |}
  | Some (VFail p i w) => {| ob_trace := trace w; ob_heap := []; ob_cells := []; ob_verdict := Failure p i |}
  | Some (VUnsup t) => {| ob_trace := []; ob_heap := []; ob_cells := []; ob_verdict := Unsupported t |}
  | Some (VStuck t) => {| ob_trace := []; ob_heap := []; ob_cells := []; ob_verdict := Unsupported ("stuck:" ++ t) |}
  | None => {| ob_trace := []; ob_heap := []; ob_cells := []; ob_verdict := OutOfFuel |}
  end.
