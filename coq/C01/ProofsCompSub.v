(* C01 -- in_fragment2 contains in_fragment: every program of the first fragment
   (no comprehension, frame layout = the function-level names) passes the checks
   of the larger one. *)
From Coq Require Import ZArith String List Bool Lia.
From SV Require Import C01.Syntax C01.Values C01.Ref C01.VM C01.Compile C01.Frag C01.ProofsEnv C01.ProofsCall C01.ProofsFuns
     C01.ProofsCompFrag C01.ProofsCompEnv.
Import ListNotations.
Open Scope string_scope.
Open Scope list_scope.
Open Scope nat_scope.

Section Sub.
  Variables lo ls : list string.
  Hypothesis Hj : forall x, jok lo ls x = true.

  Fixpoint ok_expr_sub (e : expr) {struct e} : ok_expr e = true -> ok_expr2 lo ls [] [] e = true.
  Proof.
    intros Hok. destruct e; simpl in Hok; try discriminate; cbn [ok_expr2];
      repeat match goal with H : _ && _ = true |- _ => apply andb_true_iff in H; destruct H end;
      try (solve [ cbn;
                   repeat match goal with H : ok_expr ?e0 = true |- context [ok_expr2 _ _ _ _ ?e0] =>
                            is_var e0; rewrite (ok_expr_sub e0 H) end;
                   reflexivity ]).
    - (* EName *) change (negb (str_in x []) && jok lo ls x = true). rewrite (str_in_nil x), Hj. reflexivity.
    - (* ETuple *)
      induction es as [|a es IH]; cbn in *; auto.
      apply andb_true_iff in Hok. destruct Hok as [Ha Hes]. rewrite (ok_expr_sub a Ha). apply IH; auto.
    - (* EList *)
      induction es as [|a es IH]; cbn in *; auto.
      apply andb_true_iff in Hok. destruct Hok as [Ha Hes]. rewrite (ok_expr_sub a Ha). apply IH; auto.
    - (* EDict *)
      induction kvs as [|[[k v] cp] kvs IH]; cbn in *; auto.
      apply andb_true_iff in Hok. destruct Hok as [Hkv Hr]. apply andb_true_iff in Hkv. destruct Hkv as [Hk Hv].
      rewrite (ok_expr_sub k Hk), (ok_expr_sub v Hv). apply IH; auto.
    - (* ECall *)
      cbn. rewrite (ok_expr_sub e H). rewrite H0, andb_true_r. cbn.
      match goal with H : forallb _ args = true |- _ => rename H into Hargs end.
      clear - ok_expr_sub Hargs.
      induction args as [|a args IH]; cbn in *; auto.
      apply andb_true_iff in Hargs. destruct Hargs as [Ha Hr].
      destruct a; rewrite (ok_expr_sub e Ha); apply IH; auto.
    - (* ESlice *)
      cbn. rewrite (ok_expr_sub e H). cbn.
      destruct lo0 as [l0|]; [rewrite (ok_expr_sub l0 H2)|];
      (destruct hi as [h0|]; [rewrite (ok_expr_sub h0 H1)|]);
      (destruct step as [s0|]; [rewrite (ok_expr_sub s0 H0)|]); reflexivity.
  Qed.

  Fixpoint ok_target_sub (t : target) {struct t} : ok_target t = true -> ok_target2 lo ls [] [] t = true.
  Proof.
    intros Hok. destruct t; simpl in Hok.
    - exact (Hj x).
    - change (ok_expr2 lo ls [] [] x && ok_expr2 lo ls [] [] y = true).
      apply andb_true_iff in Hok. destruct Hok as [Hx Hy]. rewrite (ok_expr_sub x Hx), (ok_expr_sub y Hy). reflexivity.
    - change (ok_expr2 lo ls [] [] x = true). apply ok_expr_sub; auto.
    - change (forallb (ok_target2 lo ls [] []) ts = true).
      induction ts as [|a ts IH]; cbn [forallb] in *; auto.
      apply andb_true_iff in Hok. destruct Hok as [Ha Hts]. rewrite (ok_target_sub a Ha). apply IH; auto.
  Qed.

  Lemma ok_param_sub : forall q, ok_param q = true -> ok_param2 lo ls q = true.
  Proof. destruct q; simpl; auto. apply ok_expr_sub. Qed.
End Sub.

Lemma jok_same : forall lo x, jok lo lo x = true.
Proof. intros. unfold jok. destruct (str_in x lo); reflexivity. Qed.

Lemma jok_nil : forall lo x, jok lo [] x = true.
Proof. intros. unfold jok. rewrite (str_in_nil x). apply orb_true_r. Qed.

Lemma layout_ok_same : forall lo k, layout_ok lo lo k = true.
Proof.
  intros. unfold layout_ok. apply forallb_forall. intros x Hx.
  destruct (index_of_some x lo (proj2 (str_in_iff _ _) Hx)) as [j Ej]. rewrite Ej.
  rewrite Nat.eqb_refl. reflexivity.
Qed.

Definition sub_prop (s : stmt) : Prop :=
  ok_stmt s = true -> forall lo ls, (forall x, jok lo ls x = true) -> ok_stmt2 lo ls s = true.

Lemma sub_list : forall l, Forall sub_prop l -> forallb ok_stmt l = true ->
  forall lo ls, (forall x, jok lo ls x = true) -> forallb (ok_stmt2 lo ls) l = true.
Proof.
  induction 1 as [|x l Hx Hl IH]; intros Ho lo ls Hj; simpl in *; auto.
  apply andb_true_iff in Ho. destruct Ho as [H1 H2]. rewrite (Hx H1 lo ls Hj). apply IH; auto.
Qed.

Lemma forallb_param_sub : forall lo ls, (forall x, jok lo ls x = true) ->
  forall ps, forallb ok_param ps = true -> forallb (ok_param2 lo ls) ps = true.
Proof.
  intros lo ls Hj. induction ps as [|q ps IH]; simpl; auto. intros H.
  apply andb_true_iff in H. destruct H as [H1 H2]. rewrite (ok_param_sub lo ls Hj q H1). auto.
Qed.

Lemma ok_stmt_sub : forall s, sub_prop s.
Proof.
  apply stmt_ind'; unfold sub_prop; intros; simpl in *; try discriminate; auto;
    repeat match goal with H : _ && _ = true |- _ => apply andb_true_iff in H; destruct H end;
    try (solve [ repeat (apply andb_true_iff; split); auto using ok_expr_sub, ok_target_sub, sub_list ]).
  - (* SReturn *)
    destruct e; auto using ok_expr_sub.
  - (* SDef *)
    match goal with H : strs_eqb _ _ = true |- _ => apply strs_eqb_eq in H; rename H into Hlay end.
    rewrite Hlay.
    repeat (apply andb_true_iff; split); auto.
    + apply forallb_param_sub; auto.
    + apply sub_list; auto. apply jok_same.
    + apply layout_ok_same.
Qed.

Lemma in_fragment_sub : forall p, in_fragment p = true -> in_fragment2 p = true.
Proof.
  intros p H. unfold in_fragment, in_fragment2 in *. apply andb_true_iff in H. destruct H as [Hok Hflat].
  apply andb_true_iff. split; auto.
  unfold ok_prog in Hok. apply andb_true_iff in Hok. destruct Hok as [Hb Hl].
  unfold ok_prog2. destruct (layout_top p); [|discriminate].
  apply sub_list; [ apply Forall_forall; intros; apply ok_stmt_sub | exact Hb | apply jok_nil ].
Qed.
