(* C01 -- the specification: abstract syntax and the reference big-step
   evaluator over names written from doc/spec.md (Ref.v).  It does not depend
   on Compile.v or VM.v.  No proofs. *)
From SV Require Export C01.Syntax C01.Values C01.Ref.
