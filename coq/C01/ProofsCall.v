(* C01 -- simulation: calls (built-ins, bound methods, functions of the program). *)
From Coq Require Import ZArith String List Bool Lia.
From SV Require Import C01.Syntax C01.Values C01.Ref C01.VM C01.Compile C01.Frag C01.ProofsVM C01.ProofsEnv C01.SimDefs C01.ProofsExpr C01.ProofsStmt.
Import ListNotations.
Open Scope string_scope.
Open Scope list_scope.
Open Scope nat_scope.

Lemma cf_params : forall p fd, fc_params (compile_fun p fd) = fd_params fd. Proof. reflexivity. Qed.
Lemma cf_nlocals : forall p fd, fc_nlocals (compile_fun p fd) = length (layout fd). Proof. reflexivity. Qed.
Lemma cf_cells : forall p fd, fc_cells (compile_fun p fd) = []. Proof. reflexivity. Qed.
Lemma cf_free : forall p fd, fc_free (compile_fun p fd) = []. Proof. reflexivity. Qed.
Lemma cf_code : forall p fd, fc_code (compile_fun p fd) = gen_body p (layout fd) (fd_body fd). Proof. reflexivity. Qed.

Lemma strs_eqb_eq : forall a b, strs_eqb a b = true -> a = b.
Proof.
  induction a; destruct b; simpl; intros H; try discriminate; auto.
  apply andb_true_iff in H. destruct H as [H1 H2]. apply String.eqb_eq in H1. subst. f_equal. auto.
Qed.
Lemma cp_rec : forall p, cp_recursion (compile_prog p) = o_recursion (p_opts p). Proof. reflexivity. Qed.

Lemma existsb_fids : forall fid K,
  existsb (Nat.eqb fid) (fids_of K) =
  existsb (fun fr => match fr_fid fr with Some i => Nat.eqb i fid | None => false end) K.
Proof.
  induction K as [|a K IH]; simpl; auto. unfold fids_of in *. simpl.
  destruct (fr_fid a); simpl; rewrite IH; auto. rewrite Nat.eqb_sym. reflexivity.
Qed.

Section Call.
  Variable p : program.
  Notation cp := (compile_prog p).
  Notation fn := (fname p).
  Hypothesis Hfuns : funs_ok p.

  (* the CALL instruction: pop the arguments, expand ** and *, then call the value *)
  Lemma call_insn : forall fid C fv K pc σ L I g w f args nm sa ss ps,
    exec_insn cp fn (CALL (mode_of sa ss) (length args) (length nm) ps)
      {| fr_fid := fid; fr_code := C; fr_pc := pc; fr_stack := optl ss ++ optl sa ++ rev (flatkw nm) ++ rev args ++ f :: σ;
         fr_locals := L; fr_iters := I; fr_free := fv |} K g w
    = of_pres (starstar_args ss w) ps w (fun kw2 =>
      of_pres (star_args sa w) ps w (fun pos2 =>
        call_value cp fn
          {| fr_fid := fid; fr_code := C; fr_pc := pc; fr_stack := optl ss ++ optl sa ++ rev (flatkw nm) ++ rev args ++ f :: σ;
             fr_locals := L; fr_iters := I; fr_free := fv |} K g w (S pc) σ ps f (args ++ pos2) (nm ++ kw2))).
  Proof.
    intros.
    assert (Hpop : popn (length args) (rev args ++ f :: σ) [] = Some (args, f :: σ)) by apply popn_rev.
    assert (Hpk : popn (2 * length nm) (rev (flatkw nm) ++ rev args ++ f :: σ) [] = Some (flatkw nm, rev args ++ f :: σ)) by apply popn_flatkw.
    simpl Nat.mul in Hpk.
    assert (Hpairs : pairs_of (flatkw nm) = Some nm) by apply pairs_flatkw.
    destruct sa as [sav|], ss as [ssv|]; unfold exec_insn; simpl;
      rewrite Hpk; simpl; rewrite Hpairs; simpl; rewrite Hpop; reflexivity.
  Qed.

  Lemma Ca_step : forall n, B p n -> Ca p (S n).
  Proof.
    intros n IHB.
    unfold Ca; intros stk f args0 nm0 sa ss ps s fid C fv K pc σ ρ I Hstk Hf.
    unfold ref_call.
    assert (Hstep : step cp fn (S1 fid C fv K pc (optl ss ++ optl sa ++ rev (flatkw nm0) ++ rev args0 ++ f :: σ) ρ I s)
                    = of_pres (starstar_args ss (rw s)) ps (rw s) (fun kw2 =>
                      of_pres (star_args sa (rw s)) ps (rw s) (fun pos2 =>
                        call_value cp fn
                          {| fr_fid := fid; fr_code := C; fr_pc := pc;
                             fr_stack := optl ss ++ optl sa ++ rev (flatkw nm0) ++ rev args0 ++ f :: σ;
                             fr_locals := env_vals ρ; fr_iters := I; fr_free := fv |} K (rg s) (rw s) (S pc) σ ps f
                          (args0 ++ pos2) (nm0 ++ kw2)))).
    { unfold S1, St, Fr. rewrite (step_lit _ _ _ _ _ _ _ _ _ _ _ _ _ Hf). apply call_insn. }
    destruct (starstar_args ss (rw s)) as [kw2| |t] eqn:Ekw; cbn [lift sim].
    2: { apply halts_now. rewrite Hstep. reflexivity. }
    2: { apply halts_now. rewrite Hstep. reflexivity. }
    destruct (star_args sa (rw s)) as [pos2| |t] eqn:Epos; cbn [lift sim].
    2: { apply halts_now. rewrite Hstep. reflexivity. }
    2: { apply halts_now. rewrite Hstep. reflexivity. }
    cbn [of_pres] in Hstep.
    set (args := args0 ++ pos2) in *. set (nm := nm0 ++ kw2) in *.
    set (S0 := S1 fid C fv K pc (optl ss ++ optl sa ++ rev (flatkw nm0) ++ rev args0 ++ f :: σ) ρ I s) in *.
    simpl call.
    destruct f;
      try (cbn [sim]; apply halts_now; rewrite Hstep; reflexivity).
    - (* VFun *)
      pose proof (Hfuns fid0) as Hfid. unfold compile_prog in Hfid; cbn [cp_funs] in Hfid.
      destruct (find_def p fid0) as [[fd encl]|].
      2: { cbn [sim]. apply halts_now. rewrite Hstep. unfold call_value. simpl. rewrite Hfid. reflexivity. }
      destruct Hfid as [Hfd [-> Hfc]].
      (* recursion check *)
      assert (Hrec : existsb (Nat.eqb fid0) stk =
                     (match fid with Some i => Nat.eqb i fid0 | None => false end)
                     || existsb (fun fr => match fr_fid fr with Some i => Nat.eqb i fid0 | None => false end) K).
      { unfold stk_ok in Hstk. subst stk. rewrite existsb_app, existsb_fids.
        destruct fid; simpl; auto. rewrite Nat.eqb_sym, orb_false_r. reflexivity. }
      unfold ok_fundef in Hfd. apply andb_true_iff in Hfd. destruct Hfd as [Hfd Hlay].
      apply strs_eqb_eq in Hlay.
      apply andb_true_iff in Hfd. destruct Hfd as [Hfd Hbx].
      apply andb_true_iff in Hfd. destruct Hfd as [Hps Hbody].
      destruct (boxed_names (fd_body fd)) eqn:Ebx; [clear Hbx | discriminate].
      destruct (negb (o_recursion (p_opts p)) && existsb (Nat.eqb fid0) stk) eqn:Erec.
      { cbn [sim]. apply halts_now. rewrite Hstep. unfold call_value. simpl. rewrite Hfc; simpl; rewrite ?cp_rec, <- ?Hrec, ?Erec. reflexivity. }
      destruct (bind_args (fd_params fd) defaults args nm (rw s)) as [[params w1]| |t] eqn:Eb; cbn [lift_call sim].
      2: { apply halts_now. rewrite Hstep. unfold call_value. simpl. rewrite Hfc; simpl; rewrite ?cp_rec, <- ?Hrec, ?Erec; simpl; rewrite ?cf_params, ?Eb. reflexivity. }
      2: { apply halts_now. rewrite Hstep. unfold call_value. simpl. rewrite Hfc; simpl; rewrite ?cp_rec, <- ?Hrec, ?Erec; simpl; rewrite ?cf_params, ?Eb. reflexivity. }
      destruct (new_vars_nil_boxed (locals_of fd) (map Some params) w1) as [ρl [Hnv [Hwl [Hml Hvl]]]].
      rewrite Hnv. rewrite filter_no_names. simpl map. rewrite app_nil_r.
      (* the machine enters the callee *)
      set (caller := {| fr_fid := fid; fr_code := C; fr_pc := S pc; fr_stack := σ; fr_locals := env_vals ρ;
                        fr_iters := I; fr_free := fv |}).
      set (C' := gen_body p (locals_of fd) (fd_body fd)).
      assert (Henter : star cp fn S0
                         (S1 (Some fid0) C' [] (caller :: K) 0 [] ρl [] (with_w s w1))).
      { unfold S1 at 1, St, Fr. eapply star_step; [ | apply star_refl ].
        rewrite Hstep. unfold call_value. simpl. rewrite Hfc; simpl; rewrite ?cp_rec, <- ?Hrec, ?Erec; simpl; rewrite ?cf_params, ?Eb.
        simpl. rewrite ?cf_nlocals, ?cf_cells, ?cf_free, ?cf_code, ?filter_no_names. simpl. rewrite ?Hlay, ?Hvl. reflexivity. }
      assert (Hcode : pcode_at C' 0 (gen_block p (map fst ρl) (fd_body fd) ++ [NONE; RETURN]) None None).
      { rewrite Hml. apply pcode_finalize. }
      apply pcode_app in Hcode. destruct Hcode as [Hcb Hct]. pcode_split.
      assert (Hstk' : stk_ok (fid0 :: stk) (Some fid0) (caller :: K)).
      { unfold stk_ok in *. subst stk. simpl. reflexivity. }
      pose proof (IHB (fid0 :: stk) ρl (fd_body fd) (with_w s w1) (Some fid0) C' [] (caller :: K) 0 [] None None
                      Hbody Hwl Hstk' Hcb) as IH.
      destruct (exec_block p n (fid0 :: stk) ρl (fd_body fd) (with_w s w1)) as [[[out ρ2] s2]| | |]; cbn [sim fst snd] in *; auto.
      + destruct IH as [_ Ha]. unfold after in Ha.
        destruct out; cbn [sim fst snd].
        * chain Henter. chain Ha. vstep. vstep. unfold caller. fin.
        * hstar Henter. exact Ha.
        * hstar Henter. exact Ha.
        * destruct Ha as [pcr [Ix [wv [H1 [H2 H3]]]]].
          chain Henter. eapply star_trans; [ exact H1 | ].
          rewrite app_nil_r in *.
          norm_state. eapply star_step; [ rewrite (step_lit _ _ _ _ _ _ _ _ _ _ _ _ _ H2); simpl; rewrite H3; reflexivity | ].
          unfold caller. fin.
      + hstar Henter. exact IH.
      + hstar Henter. exact IH.
    - (* VBuiltin *)
      destruct (call_builtin fn name None args nm (rw s)) as [[r w]| |t] eqn:Ec; cbn [lift sim fst snd].
      + eapply star_step; [ | apply star_refl ].
        rewrite Hstep. unfold call_value. simpl. rewrite Ec. reflexivity.
      + apply halts_now.
        rewrite Hstep. unfold call_value. simpl. rewrite Ec. reflexivity.
      + apply halts_now.
        rewrite Hstep. unfold call_value. simpl. rewrite Ec. reflexivity.
    - (* VMethod *)
      destruct (call_builtin fn name (Some f) args nm (rw s)) as [[r w]| |t] eqn:Ec; cbn [lift sim fst snd].
      + eapply star_step; [ | apply star_refl ].
        rewrite Hstep. unfold call_value. simpl. rewrite Ec. reflexivity.
      + apply halts_now.
        rewrite Hstep. unfold call_value. simpl. rewrite Ec. reflexivity.
      + apply halts_now.
        rewrite Hstep. unfold call_value. simpl. rewrite Ec. reflexivity.
  Qed.

  (* without fuel for the call itself, only the expansion of ** and * is observed *)
  Lemma Ca_zero : Ca p 0.
  Proof.
    unfold Ca; intros stk f args0 nm0 sa ss ps s fid C fv K pc σ ρ I Hstk Hf.
    unfold ref_call.
    assert (Hstep : step cp fn (S1 fid C fv K pc (optl ss ++ optl sa ++ rev (flatkw nm0) ++ rev args0 ++ f :: σ) ρ I s)
                    = of_pres (starstar_args ss (rw s)) ps (rw s) (fun kw2 =>
                      of_pres (star_args sa (rw s)) ps (rw s) (fun pos2 =>
                        call_value cp fn
                          {| fr_fid := fid; fr_code := C; fr_pc := pc;
                             fr_stack := optl ss ++ optl sa ++ rev (flatkw nm0) ++ rev args0 ++ f :: σ;
                             fr_locals := env_vals ρ; fr_iters := I; fr_free := fv |} K (rg s) (rw s) (S pc) σ ps f
                          (args0 ++ pos2) (nm0 ++ kw2)))).
    { unfold S1, St, Fr. rewrite (step_lit _ _ _ _ _ _ _ _ _ _ _ _ _ Hf). apply call_insn. }
    destruct (starstar_args ss (rw s)) as [kw2| |t] eqn:Ekw; cbn [lift sim].
    2: { apply halts_now. rewrite Hstep. reflexivity. }
    2: { apply halts_now. rewrite Hstep. reflexivity. }
    destruct (star_args sa (rw s)) as [pos2| |t] eqn:Epos; cbn [lift sim].
    2: { apply halts_now. rewrite Hstep. reflexivity. }
    2: { apply halts_now. rewrite Hstep. reflexivity. }
    simpl. exact Logic.I.
  Qed.
End Call.
