(* C01 -- execution agrees with the reference semantics: property theorems.

   FULL STATEMENT (codegen_correct), kept here at full strength:

     forall (p : program) (n m : nat),            (* every statically valid program of Syntax.v, all fuel *)
       static_ok p ->
       ob_verdict (observe_ref (run_module p n)) <> OutOfFuel ->
       ob_verdict (observe_vm (run_compiled p m)) <> OutOfFuel ->
       observe_vm (run_compiled p m) = observe_ref (run_module p n)

   where run_module is the reference evaluator over names (Ref.v),
   run_compiled p = VM.run (compile_prog (number_prog (fold_prog p))) is the model of the
   production pipeline (Compile.v mirrors resolve.go + compile.go, VM.v mirrors
   interp.go) and an observation is (trace of host-visible effects with rendered
   argument values, final heap and cells, verdict = final globals | failure at a
   source position | unsupported).

   PROVED below: codegen_correct_partial -- the same equation for every program
   of the fragment `in_fragment p = true` (Frag.v, a boolean predicate on the
   syntax):
   * ALL expressions except lambda and comprehensions: names, literals, unary
     and binary operators incl. `not in`, and / or / not / conditional, tuple /
     list / dict displays, index, slice, dot, calls with positional, named,
     *args and **kwargs arguments;
   * ALL statements except load: expression statements, assignment and
     augmented assignment to names / indexes / fields / nested sequences of
     targets, if, while, for, break, continue, pass, return, def with every
     kind of parameter (defaults evaluated at definition, *args, **kwargs,
     keyword-only) whose variables no nested function mentions and which is not
     nested inside another def.
   For all fuel on both sides, by simulation (induction on the evaluator's
   fuel; the machine side is a small-step execution sequence).  The built-in
   library (operators on values, built-in functions, argument binding) is used
   opaquely: the theorem holds for ANY behaviour of those primitives.
   PROVED below as well (milestone 2): codegen_correct_partial2 -- the same
   equation for every program of the LARGER fragment `in_fragment2 p = true`
   (ProofsCompFrag.v; fragment2_contains_fragment): the fragment above plus list
   and dict COMPREHENSIONS anywhere an expression may stand -- any number of
   for / if clauses, every kind of target, nested in each other, inside
   functions and at module level, their variables in block-local slots of the
   enclosing frame exactly as Compile.v (bindLocal) assigns them (the layout
   may interleave function-level names and comprehension slots).  The
   predicate checks the slot annotations of the program against the frame
   layout (one slot per variable, distinct, disjoint from the slots of
   enclosing comprehensions and of function-level names) -- which holds for
   the annotations number_prog computes, see example2_fold -- and carries THE
   GUARD that excludes exactly the divergence codegen_correct_refuted: every
   use of a comprehension variable is dominated by the for clause that binds
   it (an expression of a clause, of a for-clause target, or the body may name
   a variable of an enclosing comprehension only after a for clause binding it;
   the stale-variable witness below reads z in the clause before `for z`).
   MISSING from the full statement: comprehensions that read one of their
   variables before the clause binding it (where the code as it is diverges
   from the specification), closures / lambda (cells and free variables), load, and the literal folding
   of fcomp.plus / slot numbering (codegen_correct_partial is about
   compile_prog p; fold_prog and number_prog are the identity on programs
   without adjacent addable literals and comprehensions, see
   codegen_correct_partial_folded).  Those constructs are covered on every run
   by ties (a), (b), (c), (d) of checks/c01.py only -- and the full statement is
   in fact FALSE for the code as it is: codegen_correct_refuted below. *)
From Coq Require Import ZArith String List Bool.
From SV Require Import C01.Syntax C01.Values C01.Ref C01.VM C01.Compile C01.Frag C01.Proofs C01.ProofsFuns.
From SV Require Import C01.ProofsCompFrag C01.ProofsCompFuns C01.ProofsCompMain C01.ProofsCompSub.
Import ListNotations.
Open Scope string_scope.

Theorem codegen_correct_partial :
  forall p : program,
    in_fragment p = true ->
    forall n m : nat,
      ob_verdict (observe_ref (run_module p n)) <> OutOfFuel ->
      ob_verdict (observe_vm (run_vm p m)) <> OutOfFuel ->
      observe_vm (run_vm p m) = observe_ref (run_module p n).
Proof.
  intros p Hf. apply andb_true_iff in Hf. destruct Hf as [Hok Hflat].
  exact (codegen_correct_partial_lemma p (funs_ok_flat p Hok Hflat) Hok).
Qed.

(* the model of the whole pipeline, including the literal-folding pass of fcomp.plus *)
Theorem codegen_correct_partial_folded :
  forall p : program,
    in_fragment p = true -> number_prog (fold_prog p) = p ->
    forall n m : nat,
      ob_verdict (observe_ref (run_module p n)) <> OutOfFuel ->
      ob_verdict (observe_vm (run_compiled p m)) <> OutOfFuel ->
      observe_vm (run_compiled p m) = observe_ref (run_module p n).
Proof.
  intros p Hf. apply andb_true_iff in Hf. destruct Hf as [Hok Hflat].
  exact (codegen_correct_partial_folded_lemma p Hok (funs_ok_flat p Hok Hflat)).
Qed.

(* the generated code never drives the machine into a state the real one would
   crash in (operand stack underflow, bad jump target, missing iterator) *)
Theorem codegen_never_stuck_partial :
  forall p : program,
    in_fragment p = true ->
    forall n m r k,
      ob_verdict (observe_ref (run_module p n)) <> OutOfFuel ->
      run_vm p m = Some (r, k) ->
      forall why, r <> VStuck why.
Proof.
  intros p Hf. apply andb_true_iff in Hf. destruct Hf as [Hok Hflat].
  exact (never_stuck_lemma p (funs_ok_flat p Hok Hflat) Hok).
Qed.

(* ---- the FULL statement does not hold for the code as it is.
   Witness (replayed on the real implementation by checks/c01.py, corpus entry
   "comprehension-variable-stale-on-reevaluation"):

       def f():
           r = []
           for i in range(2):
               r.append([y for x in [1] for y in ([z] if i else [0]) for z in [5]])
           return r
       trace(f())

   The variables of a comprehension get slots of the enclosing function's frame
   that are never reset, so the second evaluation of the comprehension in the
   same activation reads the value `z` kept from the first one; under the
   specification ("it is a dynamic error to evaluate a reference to a local
   variable before it has been bound ... The same is also true for nested loops
   in comprehensions") the reference to z fails.  Both the model of the
   pipeline and the real pipeline print [[0], [5]]. *)
Definition P (l c : nat) : pos := (l, c).
Definition stale_witness : program :=
  {| p_opts := {| o_set := false; o_while := false; o_recursion := false; o_toplevel := false |}; p_body := [(SDef 0 "f" [] [(SAssign (TName "r" (P 2 5)) (EList []) (P 2 7)); (SFor (TName "i" (P 3 9)) (ECall (EName "range" (P 3 14)) [(APos (EInt (2)%Z))] (P 3 19)) [(SExpr (ECall (EDot (EName "r" (P 4 9)) "append" (P 4 10)) [(APos (EComp false (EName "y" (P 4 19)) (EInt 0%Z) (P 0 0) [(CFor (TName "x" (P 4 25)) (EList [(EInt (1)%Z)]) (P 4 21)); (CFor (TName "y" (P 4 38)) (EParen (ECond (EName "i" (P 4 51)) (EList [(EName "z" (P 4 45))]) (EList [(EInt (0)%Z)]))) (P 4 34)); (CFor (TName "z" (P 4 67)) (EList [(EInt (5)%Z)]) (P 4 63))] []))] (P 4 17)))] (P 3 5)); (SReturn (Some (EName "r" (P 5 12))))] (P 1 1)); (SExpr (ECall (EName "trace" (P 6 1)) [(APos (ECall (EName "f" (P 6 7)) [] (P 6 8)))] (P 6 6)))] |}.

Theorem codegen_correct_refuted :
  exists (p : program) (n m : nat),
    ob_verdict (observe_ref (run_module p n)) <> OutOfFuel /\
    ob_verdict (observe_vm (run_compiled p m)) <> OutOfFuel /\
    observe_vm (run_compiled p m) <> observe_ref (run_module p n).
Proof.
  exists stale_witness, 200, 5000. vm_compute.
  repeat split; discriminate.
Qed.

(* ---- the hypotheses are satisfiable: a program with a function, a for loop with
   continue, a while loop with break, augmented assignment to a name and to an
   index, short-circuit operators, a conditional expression and effects *)
Definition Q : pos := (1, 1)%nat.
Definition example_prog : program :=
  {| p_opts := {| o_set := false; o_while := true; o_recursion := false; o_toplevel := true |};
     p_body := [
       SDef 0 "f" [PPlain "x"] [
          SAssign (TName "r" Q) (EList [EInt 0]) Q;
          SFor (TName "i" Q) (EList [EInt 1; EInt 2; EInt 3]) [
             SIf (EBinary Eq Q (EName "i" Q) (EInt 2)) [SContinue] [];
             SAug Add (TIndex (EName "r" Q) (EInt 0) Q) (EBinary Mul Q (EName "i" Q) (EName "x" Q)) Q
          ] Q;
          SReturn (Some (EIndex (EName "r" Q) (EInt 0) Q))
       ] Q;
       SAssign (TName "y" Q) (ECall (EName "f" Q) [APos (EInt 2)] Q) Q;
       SExpr (ECall (EName "trace" Q) [APos (EName "y" Q); APos (EOr (EList []) (EInt 2));
                                       APos (EAnd (EInt 0) (ECall (EName "trace" Q) [APos (EInt 9)] Q));
                                       APos (ECond (EUnary UNot Q (EName "y" Q)) (EStr "a") (EStr "b"))] Q);
       SAssign (TName "z" Q) (EInt 5) Q;
       SWhile (EBinary Gt Q (EName "z" Q) (EInt 0))
         [ SAug Sub (TName "z" Q) (EInt 2) Q; SIf (EBinary Eq Q (EName "z" Q) (EInt 1)) [SBreak] [] ];
       SExpr (EBinary Add Q (EInt 1) (EStr "s"))
     ] |}.

Example example_in_fragment : in_fragment example_prog = true.
Proof. reflexivity. Qed.

Example example_fold : number_prog (fold_prog example_prog) = example_prog.
Proof. reflexivity. Qed.

(* both sides run to completion (here: a dynamic error at the last statement after
   one effect) and the observation is non-trivial *)
Example example_runs :
  observe_ref (run_module example_prog 100) =
    {| ob_trace := [(["8"; "2"; "0"; """b"""], [])]; ob_heap := []; ob_cells := []; ob_verdict := Failure Q false |}
  /\ observe_vm (run_vm example_prog 1000) = observe_ref (run_module example_prog 100).
Proof. split; vm_compute; reflexivity. Qed.

Example example_instance :
  observe_vm (run_vm example_prog 1000) = observe_ref (run_module example_prog 100).
Proof.
  apply codegen_correct_partial; [ exact example_in_fragment | | ];
    vm_compute; discriminate.
Qed.

(* ================================================================ milestone 2: comprehensions

   codegen_correct_partial2: the statement of codegen_correct_partial for the larger fragment
   in_fragment2 (ProofsCompFrag.v): everything of in_fragment plus list and dict comprehensions
   (for / if clauses, nested, inside functions and at module level) whose variable uses are
   dominated by their binding clause.  Proved by the same simulation, with the machine's locals
   array related to -- no longer equal to -- the evaluator's environment (ProofsCompEnv.R):
   a comprehension variable that is not bound yet says nothing about its slot, which may hold
   the value of an earlier evaluation. *)
Theorem codegen_correct_partial2 :
  forall p : program,
    in_fragment2 p = true ->
    forall n m : nat,
      ob_verdict (observe_ref (run_module p n)) <> OutOfFuel ->
      ob_verdict (observe_vm (run_vm p m)) <> OutOfFuel ->
      observe_vm (run_vm p m) = observe_ref (run_module p n).
Proof.
  intros p Hf. apply andb_true_iff in Hf. destruct Hf as [Hok Hflat].
  exact (codegen_correct_partial2_lemma p (funs_ok2_flat p Hok Hflat) Hok).
Qed.

(* with the slot numbering and the literal folding of the pipeline: p carries the slots the resolver assigns *)
Theorem codegen_correct_partial2_folded :
  forall p : program,
    in_fragment2 p = true -> number_prog (fold_prog p) = p ->
    forall n m : nat,
      ob_verdict (observe_ref (run_module p n)) <> OutOfFuel ->
      ob_verdict (observe_vm (run_compiled p m)) <> OutOfFuel ->
      observe_vm (run_compiled p m) = observe_ref (run_module p n).
Proof.
  intros p Hf. apply andb_true_iff in Hf. destruct Hf as [Hok Hflat].
  exact (codegen_correct_partial2_folded_lemma p Hok (funs_ok2_flat p Hok Hflat)).
Qed.

Theorem codegen_never_stuck_partial2 :
  forall p : program,
    in_fragment2 p = true ->
    forall n m r k,
      ob_verdict (observe_ref (run_module p n)) <> OutOfFuel ->
      run_vm p m = Some (r, k) ->
      forall why, r <> VStuck why.
Proof.
  intros p Hf. apply andb_true_iff in Hf. destruct Hf as [Hok Hflat].
  exact (never_stuck2_lemma p (funs_ok2_flat p Hok Hflat) Hok).
Qed.

(* the new fragment contains the old one *)
Theorem fragment2_contains_fragment :
  forall p : program, in_fragment p = true -> in_fragment2 p = true.
Proof. exact in_fragment_sub. Qed.

(* ---- the hypotheses are satisfiable:

       def f(n):
           k = 2
           r = [[x * y + k for y in range(x) if y != 1] for x in range(n) if x]
           d = {a: [k, b] for a, b in [(1, r), (2, k)]}
           return (r, d)
       z = [a + 1 for a in [1, 2]]
       trace(f(4), z)

   a nested list comprehension with filters inside a function, using the outer local k and the
   parameter n, a dict comprehension with a sequence target, a comprehension at module level;
   the frame of f is laid out as [n; k; .x; .y; r; .a; .b; d] (slots 2, 3, 5, 6 are block-local). *)
Definition example2_prog : program :=
  {| p_opts := {| o_set := false; o_while := false; o_recursion := false; o_toplevel := true |};
     p_body := [
       SDef 0 "f" [PPlain "n"] [
          SAssign (TName "k" Q) (EInt 2) Q;
          SAssign (TName "r" Q)
            (EComp false
               (EComp false (EBinary Add Q (EBinary Mul Q (EName "x" Q) (EName "y" Q)) (EName "k" Q)) (EInt 0) Q
                      [CFor (TName "y" Q) (ECall (EName "range" Q) [APos (EName "x" Q)] Q) Q;
                       CIf (EBinary Ne Q (EName "y" Q) (EInt 1))] [3])
               (EInt 0) Q
               [CFor (TName "x" Q) (ECall (EName "range" Q) [APos (EName "n" Q)] Q) Q; CIf (EName "x" Q)] [2]) Q;
          SAssign (TName "d" Q)
            (EComp true (EName "a" Q) (EList [EName "k" Q; EName "b" Q]) Q
               [CFor (TSeq [TName "a" Q; TName "b" Q])
                     (EList [ETuple [EInt 1; EName "r" Q]; ETuple [EInt 2; EName "k" Q]]) Q] [5; 6]) Q;
          SReturn (Some (ETuple [EName "r" Q; EName "d" Q]))
       ] Q;
       SAssign (TName "z" Q) (EComp false (EBinary Add Q (EName "a" Q) (EInt 1)) (EInt 0) Q
                                    [CFor (TName "a" Q) (EList [EInt 1; EInt 2]) Q] [0]) Q;
       SExpr (ECall (EName "trace" Q) [APos (ECall (EName "f" Q) [APos (EInt 4)] Q); APos (EName "z" Q)] Q)
     ] |}.

Example example2_in_fragment2 : in_fragment2 example2_prog = true.
Proof. reflexivity. Qed.

(* it is outside the first fragment *)
Example example2_not_in_fragment : in_fragment example2_prog = false.
Proof. reflexivity. Qed.

(* its slot annotations are those the resolver model assigns *)
Example example2_fold : number_prog (fold_prog example2_prog) = example2_prog.
Proof. reflexivity. Qed.

Example example2_layout :
  option_map (fun d => layout (fst d)) (find_def example2_prog 0) = Some ["n"; "k"; ".x"; ".y"; "r"; ".a"; ".b"; "d"].
Proof. reflexivity. Qed.

Example example2_runs :
  ob_trace (observe_ref (run_module example2_prog 200)) =
    [(["([[2], [2], [2, 8]], {1: [2, [[2], [2], [2, 8]]], 2: [2, 2]})"; "[2, 3]"], [])]
  /\ observe_vm (run_vm example2_prog 2000) = observe_ref (run_module example2_prog 200).
Proof. split; vm_compute; reflexivity. Qed.

Example example2_instance :
  observe_vm (run_compiled example2_prog 2000) = observe_ref (run_module example2_prog 200).
Proof.
  apply codegen_correct_partial2_folded; [ exact example2_in_fragment2 | exact example2_fold | | ];
    vm_compute; discriminate.
Qed.

(* the stale-variable witness is rejected by the guard: `for y in ([z] ...)` names z before `for z` *)
Example stale_witness_outside : in_fragment2 (number_prog (fold_prog stale_witness)) = false.
Proof. reflexivity. Qed.
