(* C01 -- execution agrees with the reference semantics: property theorems.

   FULL STATEMENT (codegen_correct), kept here at full strength:

     forall (p : program) (n m : nat),            (* every statically valid program of Syntax.v, all fuel *)
       static_ok p ->
       ob_verdict (observe_ref (run_module p n)) <> OutOfFuel ->
       ob_verdict (observe_vm (run_compiled p m)) <> OutOfFuel ->
       observe_vm (run_compiled p m) = observe_ref (run_module p n)

   where run_module is the reference evaluator over names (Ref.v),
   run_compiled p = VM.run (compile_prog (fold_prog p)) is the model of the
   production pipeline (Compile.v mirrors resolve.go + compile.go, VM.v mirrors
   interp.go) and an observation is (trace of host-visible effects with rendered
   argument values, final heap and cells, verdict = final globals | failure at a
   source position | unsupported).

   PROVED below: codegen_correct_partial -- the same equation for every program
   of the fragment `in_fragment p = true` (Frag.v: all expressions except `not
   in`, dict displays, lambda, comprehensions, slices and calls with named / * /
   ** arguments; all statements except load and assignments to sequence / field
   targets; def with plain positional parameters, not nested inside another
   def), for all fuel on both sides, by simulation (induction on the evaluator's fuel;
   the machine side is a small-step execution sequence).
   MISSING from the full statement: comprehensions (block-local slots), closures
   (cells / free variables), dict displays, named / * / ** arguments, parameter
   defaults, sequence targets, `not in`, load, the `+`-chain literal folding of
   fcomp.plus (codegen_correct_partial is about compile_prog p; fold_prog is the
   identity on programs without adjacent addable literals, see
   codegen_correct_partial_folded).  Those constructs are covered on every run
   by the ties (a), (b), (c) of checks/c01.py only. *)
From Coq Require Import ZArith String List Bool.
From SV Require Import C01.Syntax C01.Values C01.Ref C01.VM C01.Compile C01.Frag C01.Proofs C01.ProofsFuns.
Import ListNotations.
Open Scope string_scope.

Theorem codegen_correct_partial :
  forall p : program,
    in_fragment p = true ->
    forall n m : nat,
      ob_verdict (observe_ref (run_module p n)) <> OutOfFuel ->
      ob_verdict (observe_vm (run_vm p m)) <> OutOfFuel ->
      observe_vm (run_vm p m) = observe_ref (run_module p n).
Proof.
  intros p Hf. apply andb_true_iff in Hf. destruct Hf as [Hok Hflat].
  exact (codegen_correct_partial_lemma p (funs_ok_flat p Hok Hflat) Hok).
Qed.

(* the model of the whole pipeline, including the literal-folding pass of fcomp.plus *)
Theorem codegen_correct_partial_folded :
  forall p : program,
    in_fragment p = true -> fold_prog p = p ->
    forall n m : nat,
      ob_verdict (observe_ref (run_module p n)) <> OutOfFuel ->
      ob_verdict (observe_vm (run_compiled p m)) <> OutOfFuel ->
      observe_vm (run_compiled p m) = observe_ref (run_module p n).
Proof.
  intros p Hf. apply andb_true_iff in Hf. destruct Hf as [Hok Hflat].
  exact (codegen_correct_partial_folded_lemma p Hok (funs_ok_flat p Hok Hflat)).
Qed.

(* the generated code never drives the machine into a state the real one would
   crash in (operand stack underflow, bad jump target, missing iterator) *)
Theorem codegen_never_stuck_partial :
  forall p : program,
    in_fragment p = true ->
    forall n m r k,
      ob_verdict (observe_ref (run_module p n)) <> OutOfFuel ->
      run_vm p m = Some (r, k) ->
      forall why, r <> VStuck why.
Proof.
  intros p Hf. apply andb_true_iff in Hf. destruct Hf as [Hok Hflat].
  exact (never_stuck_lemma p (funs_ok_flat p Hok Hflat) Hok).
Qed.

(* ---- the hypotheses are satisfiable: a program with a function, a for loop with
   continue, a while loop with break, augmented assignment to a name and to an
   index, short-circuit operators, a conditional expression and effects *)
Definition Q : pos := (1, 1)%nat.
Definition example_prog : program :=
  {| p_opts := {| o_set := false; o_while := true; o_recursion := false; o_toplevel := true |};
     p_body := [
       SDef 0 "f" [PPlain "x"] [
          SAssign (TName "r" Q) (EList [EInt 0]) Q;
          SFor (TName "i" Q) (EList [EInt 1; EInt 2; EInt 3]) [
             SIf (EBinary Eq Q (EName "i" Q) (EInt 2)) [SContinue] [];
             SAug Add (TIndex (EName "r" Q) (EInt 0) Q) (EBinary Mul Q (EName "i" Q) (EName "x" Q)) Q
          ] Q;
          SReturn (Some (EIndex (EName "r" Q) (EInt 0) Q))
       ] Q;
       SAssign (TName "y" Q) (ECall (EName "f" Q) [APos (EInt 2)] Q) Q;
       SExpr (ECall (EName "trace" Q) [APos (EName "y" Q); APos (EOr (EList []) (EInt 2));
                                       APos (EAnd (EInt 0) (ECall (EName "trace" Q) [APos (EInt 9)] Q));
                                       APos (ECond (EUnary UNot Q (EName "y" Q)) (EStr "a") (EStr "b"))] Q);
       SAssign (TName "z" Q) (EInt 5) Q;
       SWhile (EBinary Gt Q (EName "z" Q) (EInt 0))
         [ SAug Sub (TName "z" Q) (EInt 2) Q; SIf (EBinary Eq Q (EName "z" Q) (EInt 1)) [SBreak] [] ];
       SExpr (EBinary Add Q (EInt 1) (EStr "s"))
     ] |}.

Example example_in_fragment : in_fragment example_prog = true.
Proof. reflexivity. Qed.

Example example_fold : fold_prog example_prog = example_prog.
Proof. reflexivity. Qed.

(* both sides run to completion (here: a dynamic error at the last statement after
   one effect) and the observation is non-trivial *)
Example example_runs :
  observe_ref (run_module example_prog 100) =
    {| ob_trace := [(["8"; "2"; "0"; """b"""], [])]; ob_heap := []; ob_cells := []; ob_verdict := Failure Q false |}
  /\ observe_vm (run_vm example_prog 1000) = observe_ref (run_module example_prog 100).
Proof. split; vm_compute; reflexivity. Qed.

Example example_instance :
  observe_vm (run_vm example_prog 1000) = observe_ref (run_module example_prog 100).
Proof.
  apply codegen_correct_partial; [ exact example_in_fragment | | ];
    vm_compute; discriminate.
Qed.
