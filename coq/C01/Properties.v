(* C01 -- property theorems (placeholder while the proofs are being built). *)
From SV Require Import C01.Syntax C01.Values C01.Ref C01.VM C01.Compile C01.Frag C01.Tie.
