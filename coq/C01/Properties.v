(* C01 -- execution agrees with the reference semantics: property theorems.

   FULL STATEMENT (codegen_correct), kept here at full strength:

     forall (p : program) (n m : nat),            (* every statically valid program of Syntax.v, all fuel *)
       static_ok p ->
       ob_verdict (observe_ref (run_module p n)) <> OutOfFuel ->
       ob_verdict (observe_vm (run_compiled p m)) <> OutOfFuel ->
       observe_vm (run_compiled p m) = observe_ref (run_module p n)

   where run_module is the reference evaluator over names (Ref.v),
   run_compiled p = VM.run (compile_prog (number_prog (fold_prog p))) is the model of the
   production pipeline (Compile.v mirrors resolve.go + compile.go, VM.v mirrors
   interp.go) and an observation is (trace of host-visible effects with rendered
   argument values, final heap and cells, verdict = final globals | failure at a
   source position | unsupported).

   PROVED below: codegen_correct_partial -- the same equation for every program
   of the fragment `in_fragment p = true` (Frag.v, a boolean predicate on the
   syntax):
   * ALL expressions except lambda and comprehensions: names, literals, unary
     and binary operators incl. `not in`, and / or / not / conditional, tuple /
     list / dict displays, index, slice, dot, calls with positional, named,
     *args and **kwargs arguments;
   * ALL statements except load: expression statements, assignment and
     augmented assignment to names / indexes / fields / nested sequences of
     targets, if, while, for, break, continue, pass, return, def with every
     kind of parameter (defaults evaluated at definition, *args, **kwargs,
     keyword-only) whose variables no nested function mentions and which is not
     nested inside another def.
   For all fuel on both sides, by simulation (induction on the evaluator's
   fuel; the machine side is a small-step execution sequence).  The built-in
   library (operators on values, built-in functions, argument binding) is used
   opaquely: the theorem holds for ANY behaviour of those primitives.
   PROVED below as well (milestone 2): codegen_correct_partial2 -- the same
   equation for every program of the LARGER fragment `in_fragment2 p = true`
   (ProofsCompFrag.v; fragment2_contains_fragment): the fragment above plus list
   and dict COMPREHENSIONS anywhere an expression may stand -- any number of
   for / if clauses, every kind of target, nested in each other, inside
   functions and at module level, their variables in block-local slots of the
   enclosing frame exactly as Compile.v (bindLocal) assigns them (the layout
   may interleave function-level names and comprehension slots).  The
   predicate checks the slot annotations of the program against the frame
   layout (one slot per variable, distinct, disjoint from the slots of
   enclosing comprehensions and of function-level names) -- which holds for
   the annotations number_prog computes, see example2_fold -- and carries THE
   GUARD that excludes exactly the divergence codegen_correct_refuted: every
   use of a comprehension variable is dominated by the for clause that binds
   it (an expression of a clause, of a for-clause target, or the body may name
   a variable of an enclosing comprehension only after a for clause binding it;
   the stale-variable witness below reads z in the clause before `for z`).
   MISSING from the full statement: comprehensions that read one of their
   variables before the clause binding it (where the code as it is diverges
   from the specification), closures / lambda (cells and free variables: proved for the extended generator
   CompileClos.v as codegen_correct_partial3, milestone 3 at the end of this file), load, and the literal folding
   of fcomp.plus / slot numbering (codegen_correct_partial is about
   compile_prog p; fold_prog and number_prog are the identity on programs
   without adjacent addable literals and comprehensions, see
   codegen_correct_partial_folded).  Those constructs are covered on every run
   by ties (a), (b), (c), (d) of checks/c01.py only -- and the full statement is
   in fact FALSE for the code as it is: codegen_correct_refuted below. *)
From Coq Require Import ZArith String List Bool.
From SV Require Import C01.Syntax C01.Values C01.Ref C01.VM C01.Compile C01.Frag C01.Proofs C01.ProofsFuns.
From SV Require Import C01.ProofsCompFrag C01.ProofsCompFuns C01.ProofsCompMain C01.ProofsCompSub.
Import ListNotations.
Open Scope string_scope.

Theorem codegen_correct_partial :
  forall p : program,
    in_fragment p = true ->
    forall n m : nat,
      ob_verdict (observe_ref (run_module p n)) <> OutOfFuel ->
      ob_verdict (observe_vm (run_vm p m)) <> OutOfFuel ->
      observe_vm (run_vm p m) = observe_ref (run_module p n).
Proof.
  intros p Hf. apply andb_true_iff in Hf. destruct Hf as [Hok Hflat].
  exact (codegen_correct_partial_lemma p (funs_ok_flat p Hok Hflat) Hok).
Qed.

(* the model of the whole pipeline, including the literal-folding pass of fcomp.plus *)
Theorem codegen_correct_partial_folded :
  forall p : program,
    in_fragment p = true -> number_prog (fold_prog p) = p ->
    forall n m : nat,
      ob_verdict (observe_ref (run_module p n)) <> OutOfFuel ->
      ob_verdict (observe_vm (run_compiled p m)) <> OutOfFuel ->
      observe_vm (run_compiled p m) = observe_ref (run_module p n).
Proof.
  intros p Hf. apply andb_true_iff in Hf. destruct Hf as [Hok Hflat].
  exact (codegen_correct_partial_folded_lemma p Hok (funs_ok_flat p Hok Hflat)).
Qed.

(* the generated code never drives the machine into a state the real one would
   crash in (operand stack underflow, bad jump target, missing iterator) *)
Theorem codegen_never_stuck_partial :
  forall p : program,
    in_fragment p = true ->
    forall n m r k,
      ob_verdict (observe_ref (run_module p n)) <> OutOfFuel ->
      run_vm p m = Some (r, k) ->
      forall why, r <> VStuck why.
Proof.
  intros p Hf. apply andb_true_iff in Hf. destruct Hf as [Hok Hflat].
  exact (never_stuck_lemma p (funs_ok_flat p Hok Hflat) Hok).
Qed.

(* ---- the FULL statement does not hold for the code as it is.
   Witness (replayed on the real implementation by checks/c01.py, corpus entry
   "comprehension-variable-stale-on-reevaluation"):

       def f():
           r = []
           for i in range(2):
               r.append([y for x in [1] for y in ([z] if i else [0]) for z in [5]])
           return r
       trace(f())

   The variables of a comprehension get slots of the enclosing function's frame
   that are never reset, so the second evaluation of the comprehension in the
   same activation reads the value `z` kept from the first one; under the
   specification ("it is a dynamic error to evaluate a reference to a local
   variable before it has been bound ... The same is also true for nested loops
   in comprehensions") the reference to z fails.  Both the model of the
   pipeline and the real pipeline print [[0], [5]]. *)
Definition P (l c : nat) : pos := (l, c).
Definition stale_witness : program :=
  {| p_opts := {| o_set := false; o_while := false; o_recursion := false; o_toplevel := false |}; p_body := [(SDef 0 "f" [] [(SAssign (TName "r" (P 2 5)) (EList []) (P 2 7)); (SFor (TName "i" (P 3 9)) (ECall (EName "range" (P 3 14)) [(APos (EInt (2)%Z))] (P 3 19)) [(SExpr (ECall (EDot (EName "r" (P 4 9)) "append" (P 4 10)) [(APos (EComp false (EName "y" (P 4 19)) (EInt 0%Z) (P 0 0) [(CFor (TName "x" (P 4 25)) (EList [(EInt (1)%Z)]) (P 4 21)); (CFor (TName "y" (P 4 38)) (EParen (ECond (EName "i" (P 4 51)) (EList [(EName "z" (P 4 45))]) (EList [(EInt (0)%Z)]))) (P 4 34)); (CFor (TName "z" (P 4 67)) (EList [(EInt (5)%Z)]) (P 4 63))] []))] (P 4 17)))] (P 3 5)); (SReturn (Some (EName "r" (P 5 12))))] (P 1 1)); (SExpr (ECall (EName "trace" (P 6 1)) [(APos (ECall (EName "f" (P 6 7)) [] (P 6 8)))] (P 6 6)))] |}.

Theorem codegen_correct_refuted :
  exists (p : program) (n m : nat),
    ob_verdict (observe_ref (run_module p n)) <> OutOfFuel /\
    ob_verdict (observe_vm (run_compiled p m)) <> OutOfFuel /\
    observe_vm (run_compiled p m) <> observe_ref (run_module p n).
Proof.
  exists stale_witness, 200, 5000. vm_compute.
  repeat split; discriminate.
Qed.

(* ---- the hypotheses are satisfiable: a program with a function, a for loop with
   continue, a while loop with break, augmented assignment to a name and to an
   index, short-circuit operators, a conditional expression and effects *)
Definition Q : pos := (1, 1)%nat.
Definition example_prog : program :=
  {| p_opts := {| o_set := false; o_while := true; o_recursion := false; o_toplevel := true |};
     p_body := [
       SDef 0 "f" [PPlain "x"] [
          SAssign (TName "r" Q) (EList [EInt 0]) Q;
          SFor (TName "i" Q) (EList [EInt 1; EInt 2; EInt 3]) [
             SIf (EBinary Eq Q (EName "i" Q) (EInt 2)) [SContinue] [];
             SAug Add (TIndex (EName "r" Q) (EInt 0) Q) (EBinary Mul Q (EName "i" Q) (EName "x" Q)) Q
          ] Q;
          SReturn (Some (EIndex (EName "r" Q) (EInt 0) Q))
       ] Q;
       SAssign (TName "y" Q) (ECall (EName "f" Q) [APos (EInt 2)] Q) Q;
       SExpr (ECall (EName "trace" Q) [APos (EName "y" Q); APos (EOr (EList []) (EInt 2));
                                       APos (EAnd (EInt 0) (ECall (EName "trace" Q) [APos (EInt 9)] Q));
                                       APos (ECond (EUnary UNot Q (EName "y" Q)) (EStr "a") (EStr "b"))] Q);
       SAssign (TName "z" Q) (EInt 5) Q;
       SWhile (EBinary Gt Q (EName "z" Q) (EInt 0))
         [ SAug Sub (TName "z" Q) (EInt 2) Q; SIf (EBinary Eq Q (EName "z" Q) (EInt 1)) [SBreak] [] ];
       SExpr (EBinary Add Q (EInt 1) (EStr "s"))
     ] |}.

Example example_in_fragment : in_fragment example_prog = true.
Proof. reflexivity. Qed.

Example example_fold : number_prog (fold_prog example_prog) = example_prog.
Proof. reflexivity. Qed.

(* both sides run to completion (here: a dynamic error at the last statement after
   one effect) and the observation is non-trivial *)
Example example_runs :
  observe_ref (run_module example_prog 100) =
    {| ob_trace := [(["8"; "2"; "0"; """b"""], [])]; ob_heap := []; ob_cells := []; ob_verdict := Failure Q false |}
  /\ observe_vm (run_vm example_prog 1000) = observe_ref (run_module example_prog 100).
Proof. split; vm_compute; reflexivity. Qed.

Example example_instance :
  observe_vm (run_vm example_prog 1000) = observe_ref (run_module example_prog 100).
Proof.
  apply codegen_correct_partial; [ exact example_in_fragment | | ];
    vm_compute; discriminate.
Qed.

(* ================================================================ milestone 2: comprehensions

   codegen_correct_partial2: the statement of codegen_correct_partial for the larger fragment
   in_fragment2 (ProofsCompFrag.v): everything of in_fragment plus list and dict comprehensions
   (for / if clauses, nested, inside functions and at module level) whose variable uses are
   dominated by their binding clause.  Proved by the same simulation, with the machine's locals
   array related to -- no longer equal to -- the evaluator's environment (ProofsCompEnv.R):
   a comprehension variable that is not bound yet says nothing about its slot, which may hold
   the value of an earlier evaluation. *)
Theorem codegen_correct_partial2 :
  forall p : program,
    in_fragment2 p = true ->
    forall n m : nat,
      ob_verdict (observe_ref (run_module p n)) <> OutOfFuel ->
      ob_verdict (observe_vm (run_vm p m)) <> OutOfFuel ->
      observe_vm (run_vm p m) = observe_ref (run_module p n).
Proof.
  intros p Hf. apply andb_true_iff in Hf. destruct Hf as [Hok Hflat].
  exact (codegen_correct_partial2_lemma p (funs_ok2_flat p Hok Hflat) Hok).
Qed.

(* with the slot numbering and the literal folding of the pipeline: p carries the slots the resolver assigns *)
Theorem codegen_correct_partial2_folded :
  forall p : program,
    in_fragment2 p = true -> number_prog (fold_prog p) = p ->
    forall n m : nat,
      ob_verdict (observe_ref (run_module p n)) <> OutOfFuel ->
      ob_verdict (observe_vm (run_compiled p m)) <> OutOfFuel ->
      observe_vm (run_compiled p m) = observe_ref (run_module p n).
Proof.
  intros p Hf. apply andb_true_iff in Hf. destruct Hf as [Hok Hflat].
  exact (codegen_correct_partial2_folded_lemma p Hok (funs_ok2_flat p Hok Hflat)).
Qed.

Theorem codegen_never_stuck_partial2 :
  forall p : program,
    in_fragment2 p = true ->
    forall n m r k,
      ob_verdict (observe_ref (run_module p n)) <> OutOfFuel ->
      run_vm p m = Some (r, k) ->
      forall why, r <> VStuck why.
Proof.
  intros p Hf. apply andb_true_iff in Hf. destruct Hf as [Hok Hflat].
  exact (never_stuck2_lemma p (funs_ok2_flat p Hok Hflat) Hok).
Qed.

(* the new fragment contains the old one *)
Theorem fragment2_contains_fragment :
  forall p : program, in_fragment p = true -> in_fragment2 p = true.
Proof. exact in_fragment_sub. Qed.

(* ---- the hypotheses are satisfiable:

       def f(n):
           k = 2
           r = [[x * y + k for y in range(x) if y != 1] for x in range(n) if x]
           d = {a: [k, b] for a, b in [(1, r), (2, k)]}
           return (r, d)
       z = [a + 1 for a in [1, 2]]
       trace(f(4), z)

   a nested list comprehension with filters inside a function, using the outer local k and the
   parameter n, a dict comprehension with a sequence target, a comprehension at module level;
   the frame of f is laid out as [n; k; .x; .y; r; .a; .b; d] (slots 2, 3, 5, 6 are block-local). *)
Definition example2_prog : program :=
  {| p_opts := {| o_set := false; o_while := false; o_recursion := false; o_toplevel := true |};
     p_body := [
       SDef 0 "f" [PPlain "n"] [
          SAssign (TName "k" Q) (EInt 2) Q;
          SAssign (TName "r" Q)
            (EComp false
               (EComp false (EBinary Add Q (EBinary Mul Q (EName "x" Q) (EName "y" Q)) (EName "k" Q)) (EInt 0) Q
                      [CFor (TName "y" Q) (ECall (EName "range" Q) [APos (EName "x" Q)] Q) Q;
                       CIf (EBinary Ne Q (EName "y" Q) (EInt 1))] [3])
               (EInt 0) Q
               [CFor (TName "x" Q) (ECall (EName "range" Q) [APos (EName "n" Q)] Q) Q; CIf (EName "x" Q)] [2]) Q;
          SAssign (TName "d" Q)
            (EComp true (EName "a" Q) (EList [EName "k" Q; EName "b" Q]) Q
               [CFor (TSeq [TName "a" Q; TName "b" Q])
                     (EList [ETuple [EInt 1; EName "r" Q]; ETuple [EInt 2; EName "k" Q]]) Q] [5; 6]) Q;
          SReturn (Some (ETuple [EName "r" Q; EName "d" Q]))
       ] Q;
       SAssign (TName "z" Q) (EComp false (EBinary Add Q (EName "a" Q) (EInt 1)) (EInt 0) Q
                                    [CFor (TName "a" Q) (EList [EInt 1; EInt 2]) Q] [0]) Q;
       SExpr (ECall (EName "trace" Q) [APos (ECall (EName "f" Q) [APos (EInt 4)] Q); APos (EName "z" Q)] Q)
     ] |}.

Example example2_in_fragment2 : in_fragment2 example2_prog = true.
Proof. reflexivity. Qed.

(* it is outside the first fragment *)
Example example2_not_in_fragment : in_fragment example2_prog = false.
Proof. reflexivity. Qed.

(* its slot annotations are those the resolver model assigns *)
Example example2_fold : number_prog (fold_prog example2_prog) = example2_prog.
Proof. reflexivity. Qed.

Example example2_layout :
  option_map (fun d => layout (fst d)) (find_def example2_prog 0) = Some ["n"; "k"; ".x"; ".y"; "r"; ".a"; ".b"; "d"].
Proof. reflexivity. Qed.

Example example2_runs :
  ob_trace (observe_ref (run_module example2_prog 200)) =
    [(["([[2], [2], [2, 8]], {1: [2, [[2], [2], [2, 8]]], 2: [2, 2]})"; "[2, 3]"], [])]
  /\ observe_vm (run_vm example2_prog 2000) = observe_ref (run_module example2_prog 200).
Proof. split; vm_compute; reflexivity. Qed.

Example example2_instance :
  observe_vm (run_compiled example2_prog 2000) = observe_ref (run_module example2_prog 200).
Proof.
  apply codegen_correct_partial2_folded; [ exact example2_in_fragment2 | exact example2_fold | | ];
    vm_compute; discriminate.
Qed.

(* the stale-variable witness is rejected by the guard: `for y in ([z] ...)` names z before `for z` *)
Example stale_witness_outside : in_fragment2 (number_prog (fold_prog stale_witness)) = false.
Proof. reflexivity. Qed.

(* ================================================================ milestone 3: lambda expressions and closures

   The code generator of Compile.v stops at lambda (UNSUPPORTED "compile:lambda") and compiles every
   function without cells and free variables.  CompileClos.v extends it as compile.go / resolve.go do:
   a local that a nested function captures is a Cell (LOCALCELL / SETLOCALCELL, spilled to a fresh cell
   on entry: fc_cells), a captured variable is a free variable of every function between its owner and
   its use (FREECELL), and a def / lambda pushes the CELLS of its free variables (LOCAL of a cell slot,
   FREE) together with its default values into the one tuple MAKEFUNC takes.  VM.v already implements
   those instructions, Ref.v already evaluates lambda / nested defs on names with cells.

   codegen_correct_partial3: the equation of codegen_correct for run_vm3 p = VM.run (compile_prog3 p),
   for every program of in_fragment3 (FragClos.v; a superset of in_fragment2: fragment3_contains_fragment2)
   = in_fragment2 without the restrictions "no lambda", "no def nested in a def", "no function mentions a
   variable of an enclosing function": lambda expressions and defs nested in defs / lambdas to any depth,
   capturing ANY NUMBER of parameters and locals of the enclosing functions -- read in the nested
   function, mutated through it (the counter below), REASSIGNED by the owner before or after the closure
   is made (cell semantics: `get` below sees 7), passed on through intermediate functions (`inner` below
   captures a through `middle`).  For all fuel, by the simulation of milestone 2 with the machine's frame
   (locals AND captured cells) related to the evaluator's environment by ProofsClosEnv.R3.

   THE EXACT GUARD: the boolean in_fragment3 (FragClos.v) and one run-time condition.
   (g1) the free variables of a function are first mentioned, in the evaluator's traversal of its
        syntax, in the order in which the resolver numbers them (they differ only where a comprehension's
        clauses are visited after its body);
   (g2) no shadowing across function boundaries: a name that a nested function mentions and an
        enclosing block binds is a free variable of the nested function;
   (g3) lambda not inside a comprehension; comprehension variables are not captured (known finding);
   (g4) cells_match: the frame's cell slots are those of the names the evaluator boxes, in order; no load;
   (g5) every function of the program, as the evaluator finds it by its id, is in the fragment
        (funs_ok3b, a check over the ids that occur; ProofsClosFuns.v proves that no other id finds a
        function and that the compiled program has the same function under every id);
   (g6) THE RUN-TIME CONDITION "no forged closure is entered".  The machine passes captured cells by
        position, the evaluator by name; they agree for every function value MAKEFUNC builds.  The value
        domain also contains function values with any other list of captured cells; no primitive of
        Values.v builds one, but the proofs use the primitives opaquely (the theorem holds for ANY
        behaviour of the built-in library), so a call of such a forged value cannot be excluded
        statically.  VMClos.v defines the GUARDED machine run_chk = VM.run that stops with
        VUnsup "forged-closure" when a step pushes a frame whose captured cells are not named exactly
        as the free variables of the function's code.  The simulation is about the guarded machine
        (codegen_correct_partial3_guarded: it observes what the evaluator observes, or its guard fired);
        the guarded machine IS the machine on every run in which the guard does not fire
        (guard_is_transparent); hence codegen_correct_partial3, whose third hypothesis is decided by
        running the guarded machine and holds in every execution of the model (example3_runs).
   MISSING for the full statement: the invariant "every function value in the state was built by
   MAKEFUNC" through all primitives of Values.v (it discharges (g6)), shadowing of a captured name,
   captured comprehension variables, lambda inside comprehensions, free variables numbered against the
   order of mention, load.
   THE TIE of the new model: TieClos.v has the comparators (codegen_check3: the real compiler's bytecode
   against compile_prog3 -- control-flow graph, slot layout, cell slots and free-variable names of every
   function; compiled_check_calls3: compile_prog3 + VM.v end to end against the real pipeline).  They are
   not called by checks/c01.py yet (its ties (a) and (d) skip programs with lambda / closures); evaluated by
   hand on the corpus and 2410 generated programs (seeds 1, 2, 7, 11; 715 of the 2544 runs use lambda or
   captured variables): no difference. *)
From SV Require Import C01.CompileClos C01.VMClos C01.FragClos C01.ProofsClosFuns C01.ProofsClosMain C01.ProofsClosSub.

Theorem codegen_correct_partial3 :
  forall p : program,
    in_fragment3 p = true ->
    forall n m : nat,
      ob_verdict (observe_ref (run_module p n)) <> OutOfFuel ->
      ob_verdict (observe_vm (run_chk3 p m)) <> OutOfFuel ->
      ob_verdict (observe_vm (run_chk3 p m)) <> Unsupported "forged-closure" ->     (* (g6) *)
      observe_vm (run_vm3 p m) = observe_ref (run_module p n).
Proof.
  intros p Hf. apply andb_true_iff in Hf. destruct Hf as [Hok Hfuns].
  exact (codegen_correct_partial3_plain_lemma p (funs_ok3_of_b p Hfuns) Hok).
Qed.

(* the guarded machine observes what the evaluator observes, or its guard fired *)
Theorem codegen_correct_partial3_guarded :
  forall p : program,
    in_fragment3 p = true ->
    forall n m : nat,
      ob_verdict (observe_ref (run_module p n)) <> OutOfFuel ->
      ob_verdict (observe_vm (run_chk3 p m)) <> OutOfFuel ->
      observe_vm (run_chk3 p m) = observe_ref (run_module p n)
      \/ ob_verdict (observe_vm (run_chk3 p m)) = Unsupported "forged-closure".
Proof.
  intros p Hf. apply andb_true_iff in Hf. destruct Hf as [Hok Hfuns].
  exact (codegen_correct_partial3_lemma p (funs_ok3_of_b p Hfuns) Hok).
Qed.

(* the guard does not change the machine: a run of the guarded machine that does not end with the
   guard's verdict is the run of the machine, step for step (for every program and every code) *)
Theorem guard_is_transparent :
  forall (p : program) (m : nat) (r : vresult) (k : nat),
    run_chk3 p m = Some (r, k) -> r <> forged_result -> run_vm3 p m = Some (r, k).
Proof. exact run_chk3_agrees. Qed.

(* with the literal folding and the slot numbering of the pipeline *)
Theorem codegen_correct_partial3_folded :
  forall p : program,
    in_fragment3 p = true -> number_prog (fold_prog p) = p ->
    forall n m : nat,
      ob_verdict (observe_ref (run_module p n)) <> OutOfFuel ->
      ob_verdict (observe_vm (run_chk_compiled3 p m)) <> OutOfFuel ->
      ob_verdict (observe_vm (run_chk_compiled3 p m)) <> Unsupported "forged-closure" ->
      observe_vm (run_compiled3 p m) = observe_ref (run_module p n).
Proof.
  intros p Hf. apply andb_true_iff in Hf. destruct Hf as [Hok Hfuns].
  exact (codegen_correct_partial3_folded_lemma p Hok (funs_ok3_of_b p Hfuns)).
Qed.

(* the generated code never drives the machine into a state the real one would crash in (operand stack
   underflow, bad jump target, missing iterator, a cell slot without a cell, FREE without a cell) *)
Theorem codegen_never_stuck_partial3 :
  forall p : program,
    in_fragment3 p = true ->
    forall n m r k,
      ob_verdict (observe_ref (run_module p n)) <> OutOfFuel ->
      run_chk3 p m = Some (r, k) ->
      forall why, r <> VStuck why.
Proof.
  intros p Hf. apply andb_true_iff in Hf. destruct Hf as [Hok Hfuns].
  exact (never_stuck3_lemma p (funs_ok3_of_b p Hfuns) Hok).
Qed.

(* what the boolean fragment gives the simulation: looking a function id up in the syntax tree and in the
   compiled program agree on EVERY id, and every function found is in the fragment *)
Theorem fragment3_function_ids :
  forall p : program, in_fragment3 p = true -> funs_ok3 p.
Proof.
  intros p Hf. apply andb_true_iff in Hf. destruct Hf as [Hok Hfuns].
  exact (funs_ok3_of_b p Hfuns).
Qed.

(* the new fragment contains the old one: a program without lambda, nested defs and captured variables
   passes every check of in_fragment3 (no function has a free variable or a cell) *)
Theorem fragment3_contains_fragment2 :
  forall p : program, in_fragment2 p = true -> in_fragment3 p = true.
Proof. exact in_fragment2_sub3. Qed.

(* ---- the hypotheses are satisfiable:

       def mk():
           n = [0]
           def inc():
               n[0] += 1
               return n[0]
           return inc
       c = mk()
       trace(c(), c())                      # 1 2: the counter lives in the cell both share
       def add(a):
           return lambda b: a + b           # a lambda capturing a parameter
       trace(add(2)(3))                     # 5
       def cnt():
           k = 0
           def get():
               return k
           k = 7                            # reassigned by the owner after the closure is made
           return get()
       trace(cnt())                         # 7
       def outer(a):
           def middle(b):
               def inner(c):
                   return (a, b, c)         # two free variables, one passed on through middle
               return inner
           return middle
       trace(outer(1)(2)(3))                # (1, 2, 3) *)
Definition example3_prog : program :=
  {| p_opts := {| o_set := false; o_while := true; o_recursion := false; o_toplevel := true |};
     p_body := [
       SDef 0 "mk" [] [
          SAssign (TName "n" Q) (EList [EInt 0]) Q;
          SDef 1 "inc" [] [ SAug Add (TIndex (EName "n" Q) (EInt 0) Q) (EInt 1) Q;
                            SReturn (Some (EIndex (EName "n" Q) (EInt 0) Q)) ] Q;
          SReturn (Some (EName "inc" Q)) ] Q;
       SAssign (TName "c" Q) (ECall (EName "mk" Q) [] Q) Q;
       SExpr (ECall (EName "trace" Q) [APos (ECall (EName "c" Q) [] Q); APos (ECall (EName "c" Q) [] Q)] Q);
       SDef 2 "add" [PPlain "a"]
          [ SReturn (Some (ELambda 3 [PPlain "b"] (EBinary Add Q (EName "a" Q) (EName "b" Q)) Q)) ] Q;
       SExpr (ECall (EName "trace" Q) [APos (ECall (ECall (EName "add" Q) [APos (EInt 2)] Q) [APos (EInt 3)] Q)] Q);
       SDef 4 "cnt" [] [
          SAssign (TName "k" Q) (EInt 0) Q;
          SDef 5 "get" [] [ SReturn (Some (EName "k" Q)) ] Q;
          SAssign (TName "k" Q) (EInt 7) Q;
          SReturn (Some (ECall (EName "get" Q) [] Q)) ] Q;
       SExpr (ECall (EName "trace" Q) [APos (ECall (EName "cnt" Q) [] Q)] Q);
       SDef 6 "outer" [PPlain "a"] [
          SDef 7 "middle" [PPlain "b"] [
             SDef 8 "inner" [PPlain "c"] [ SReturn (Some (ETuple [EName "a" Q; EName "b" Q; EName "c" Q])) ] Q;
             SReturn (Some (EName "inner" Q)) ] Q;
          SReturn (Some (EName "middle" Q)) ] Q;
       SExpr (ECall (EName "trace" Q)
                [APos (ECall (ECall (ECall (EName "outer" Q) [APos (EInt 1)] Q) [APos (EInt 2)] Q) [APos (EInt 3)] Q)] Q)
     ] |}.

Example example3_in_fragment3 : in_fragment3 example3_prog = true.
Proof. reflexivity. Qed.

(* it is outside the second fragment (defs nested in defs, lambda, captured variables) *)
Example example3_not_in_fragment2 : in_fragment2 example3_prog = false.
Proof. reflexivity. Qed.

Example example3_fold : number_prog (fold_prog example3_prog) = example3_prog.
Proof. reflexivity. Qed.

(* the code of `mk` and `inc`: the captured local n is a cell of mk and a free variable of inc;
   `inner` has the free variables a and b, `middle` passes a on (FREE 0) and owns the cell of b (LOCAL 0) *)
Example example3_code :
  option_map (fun fc => (fc_code fc, fc_cells fc, fc_free fc)) (find_code (cp_funs (compile_prog3 example3_prog)) 0)
  = Some ([CONSTANT (VInt 0); MAKELIST 1; SETLOCALCELL 0; LOCAL 0 Q; MAKETUPLE 1; MAKEFUNC 1; SETLOCAL 1;
           LOCAL 1 Q; RETURN; NONE; RETURN], [0], [])
  /\ option_map (fun fc => (fc_code fc, fc_cells fc, fc_free fc)) (find_code (cp_funs (compile_prog3 example3_prog)) 1)
  = Some ([FREECELL 0 Q; CONSTANT (VInt 0); DUP2; INDEX Q; CONSTANT (VInt 1); INPLACE_ADD Q; SETINDEX Q;
           FREECELL 0 Q; CONSTANT (VInt 0); INDEX Q; RETURN; NONE; RETURN], [], ["n"])
  /\ option_map (fun fc => (fc_code fc, fc_cells fc, fc_free fc)) (find_code (cp_funs (compile_prog3 example3_prog)) 7)
  = Some ([FREE 0; LOCAL 0 Q; MAKETUPLE 2; MAKEFUNC 8; SETLOCAL 1; LOCAL 1 Q; RETURN; NONE; RETURN], [0], ["a"])
  /\ option_map (fun fc => (fc_code fc, fc_cells fc, fc_free fc)) (find_code (cp_funs (compile_prog3 example3_prog)) 8)
  = Some ([FREECELL 0 Q; FREECELL 1 Q; LOCAL 0 Q; MAKETUPLE 3; RETURN; NONE; RETURN], [], ["a"; "b"]).
Proof. repeat split; vm_compute; reflexivity. Qed.

(* both sides run to completion, the guard does not fire and the observation is non-trivial: five cells,
   the closure in the global c holds cell 0 *)
Example example3_runs :
  ob_trace (observe_ref (run_module example3_prog 200)) = [(["1"; "2"], []); (["5"], []); (["7"], []); (["(1, 2, 3)"], [])]
  /\ ob_cells (observe_ref (run_module example3_prog 200))
     = [Some (VRef 2); Some (VInt 2); Some (VInt 7); Some (VInt 1); Some (VInt 2)]
  /\ observe_vm (run_chk3 example3_prog 2000) = observe_ref (run_module example3_prog 200)
  /\ observe_vm (run_vm3 example3_prog 2000) = observe_ref (run_module example3_prog 200).
Proof. repeat split; vm_compute; reflexivity. Qed.

Example example3_instance :
  observe_vm (run_compiled3 example3_prog 2000) = observe_ref (run_module example3_prog 200).
Proof.
  apply codegen_correct_partial3_folded; [ exact example3_in_fragment3 | exact example3_fold | | | ];
    vm_compute; discriminate.
Qed.
