(* C01 -- in_fragment3 contains in_fragment2: a program without lambda, without defs nested in defs and
   without captured variables passes the checks of the fragment with closures (no function has a free
   variable or a cell, every scope is the plain slot layout). *)
From Coq Require Import ZArith String List Bool Lia.
From SV Require Import C01.Syntax C01.Values C01.Ref C01.VM C01.Compile C01.Frag C01.ProofsEnv C01.ProofsFuns
     C01.ProofsCompFrag C01.ProofsCompEnv C01.ProofsCompFuns C01.CompileClos C01.FragClos C01.ProofsClosEnv C01.ProofsClosFuns.
Import ListNotations.
Open Scope string_scope.
Open Scope list_scope.
Open Scope nat_scope.

(* the scope of a function without cells and free variables, not nested in a block that binds names *)
Definition sc0 (ls : list string) : scope := {| sc_ls := ls; sc_cells := []; sc_fr := []; sc_encl := [] |}.

Lemma jok3_sc0 : forall lo ls x, jok3 lo (sc0 ls) x = jok lo ls x.
Proof. intros. unfold jok3, jok. cbn [sc_ls sc_fr sc_encl sc0]. rewrite (str_in_nil x). cbn. rewrite andb_true_r. reflexivity. Qed.
Lemma jokt3_sc0 : forall lo ls x, jokt3 lo (sc0 ls) x = jok lo ls x.
Proof. intros. unfold jokt3, jok. cbn [sc_ls sc_fr sc_encl sc0]. rewrite (str_in_nil x). cbn. rewrite andb_true_r. reflexivity. Qed.
Lemma junkb3_sc0 : forall lo ls i, junkb3 lo (sc0 ls) i = junkb lo ls i.
Proof. intros. unfold junkb3, junkb, is_cell. cbn [sc_ls sc_cells sc0]. cbn. rewrite andb_true_r. reflexivity. Qed.

Lemma forallb_junk_sc0 : forall lo ls l, forallb (junkb3 lo (sc0 ls)) l = forallb (junkb lo ls) l.
Proof. induction l; simpl; auto. rewrite junkb3_sc0, IHl. reflexivity. Qed.

Lemma ok_comp3' : forall p lo sc U used curly body bodyv cp t e0 ps rest slots,
  ok_expr3 p lo sc U used (EComp curly body bodyv cp (CFor t e0 ps :: rest) slots) =
  (is_nil (nm_expr false (EComp curly body bodyv cp (CFor t e0 ps :: rest) slots))
   && Nat.eqb (length slots) (length (comp_vars (CFor t e0 ps :: rest))) && nodup_nat slots
   && forallb (fun i => negb (nat_in i used)) slots && forallb (junkb3 lo sc) slots
   && ok_expr3 p lo sc U used e0
   && ok_target3 p lo sc (comp_vars (CFor t e0 ps :: rest) ++ U) (slots ++ used) t
   && forallb (fun x => str_in x (comp_vars (CFor t e0 ps :: rest))) (target_names t)
   && ok_cls3 p lo sc (comp_vars (CFor t e0 ps :: rest)) (slots ++ used) body bodyv
              (rm (target_names t) (comp_vars (CFor t e0 ps :: rest) ++ U)) rest).
Proof. reflexivity. Qed.

Section SubE.
  Variable p : program.
  Variables lo ls : list string.

  Fixpoint ok_expr_sub3 (e : expr) {struct e} :
    forall U used, ok_expr2 lo ls U used e = true -> ok_expr3 p lo (sc0 ls) U used e = true
  with ok_target_sub3 (t : target) {struct t} :
    forall U used, ok_target2 lo ls U used t = true -> ok_target3 p lo (sc0 ls) U used t = true.
  Proof.
    - intros U used Hok. destruct e; try (simpl in Hok; discriminate).
      + (* EName *) change (negb (str_in x U) && jok lo ls x = true) in Hok.
        change (negb (str_in x U) && jok3 lo (sc0 ls) x = true). rewrite jok3_sc0. exact Hok.
      + reflexivity.
      + reflexivity.
      + reflexivity.
      + (* EParen *) simpl in Hok; cbn [ok_expr3 ok_target3 forallb]. apply ok_expr_sub3; auto.
      + (* EUnary *) simpl in Hok; cbn [ok_expr3 ok_target3 forallb]. apply ok_expr_sub3; auto.
      + (* EBinary *) simpl in Hok; cbn [ok_expr3 ok_target3 forallb]. apply andb_true_iff in Hok. destruct Hok as [H1 H2].
        rewrite (ok_expr_sub3 e1 _ _ H1), (ok_expr_sub3 e2 _ _ H2). reflexivity.
      + simpl in Hok; cbn [ok_expr3 ok_target3 forallb]. apply andb_true_iff in Hok. destruct Hok as [H1 H2].
        rewrite (ok_expr_sub3 e1 _ _ H1), (ok_expr_sub3 e2 _ _ H2). reflexivity.
      + simpl in Hok; cbn [ok_expr3 ok_target3 forallb]. apply andb_true_iff in Hok. destruct Hok as [H1 H2].
        rewrite (ok_expr_sub3 e1 _ _ H1), (ok_expr_sub3 e2 _ _ H2). reflexivity.
      + (* ECond *) simpl in Hok; cbn [ok_expr3 ok_target3 forallb]. apply andb_true_iff in Hok. destruct Hok as [H1 H3]. apply andb_true_iff in H1. destruct H1 as [H1 H2].
        rewrite (ok_expr_sub3 e1 _ _ H1), (ok_expr_sub3 e2 _ _ H2), (ok_expr_sub3 e3 _ _ H3). reflexivity.
      + (* ETuple *)
        simpl in Hok; cbn [ok_expr3 ok_target3 forallb]. induction es as [|a es IH]; simpl in *; auto.
        apply andb_true_iff in Hok. destruct Hok as [Ha Hes]. rewrite (ok_expr_sub3 a _ _ Ha). apply IH; auto.
      + (* EList *)
        simpl in Hok; cbn [ok_expr3 ok_target3 forallb]. induction es as [|a es IH]; simpl in *; auto.
        apply andb_true_iff in Hok. destruct Hok as [Ha Hes]. rewrite (ok_expr_sub3 a _ _ Ha). apply IH; auto.
      + (* EDict *)
        simpl in Hok; cbn [ok_expr3 ok_target3 forallb]. induction kvs as [|[[k v] cp] kvs IH]; simpl in *; auto.
        apply andb_true_iff in Hok. destruct Hok as [Hkv Hr]. apply andb_true_iff in Hkv. destruct Hkv as [Hk Hv].
        rewrite (ok_expr_sub3 k _ _ Hk), (ok_expr_sub3 v _ _ Hv). apply IH; auto.
      + (* EIndex *) simpl in Hok; cbn [ok_expr3 ok_target3 forallb]. apply andb_true_iff in Hok. destruct Hok as [H1 H2].
        rewrite (ok_expr_sub3 e1 _ _ H1), (ok_expr_sub3 e2 _ _ H2). reflexivity.
      + (* EDot *) simpl in Hok; cbn [ok_expr3 ok_target3 forallb]. apply ok_expr_sub3; auto.
      + (* ECall *)
        simpl in Hok; cbn [ok_expr3 ok_target3 forallb]. apply andb_true_iff in Hok. destruct Hok as [Hok Hsh]. apply andb_true_iff in Hok. destruct Hok as [Hf Hargs].
        rewrite (ok_expr_sub3 e _ _ Hf), Hsh, andb_true_r. cbn [andb].
        clear - ok_expr_sub3 Hargs.
        induction args as [|a args IH]; simpl in *; auto.
        apply andb_true_iff in Hargs. destruct Hargs as [Ha Hr].
        destruct a; rewrite (ok_expr_sub3 e _ _ Ha); apply IH; auto.
      + (* EComp *)
        destruct cls as [|[t e0 ps|c0] rest]; try (simpl in Hok; discriminate).
        rewrite ok_comp' in Hok. rewrite ok_comp3'.
        apply andb_true_iff in Hok. destruct Hok as [Hok Hcls].
        apply andb_true_iff in Hok. destruct Hok as [Hok Htn].
        apply andb_true_iff in Hok. destruct Hok as [Hok Htg].
        apply andb_true_iff in Hok. destruct Hok as [Hok He0].
        apply andb_true_iff in Hok. destruct Hok as [Hok Hjk].
        rewrite Hok, forallb_junk_sc0, Hjk, (ok_expr_sub3 e0 _ _ He0), (ok_target_sub3 t _ _ Htg), Htn. cbn [andb].
        clear - ok_expr_sub3 ok_target_sub3 Hcls.
        revert Hcls. generalize (rm (target_names t) (comp_vars (CFor t e0 ps :: rest) ++ U)) as U1.
        generalize (comp_vars (CFor t e0 ps :: rest)) as V. generalize (slots ++ used) as used'.
        induction rest as [|[t1 e1' ps1|c1] rest IH]; intros used' V U1 Hcls; simpl in *.
        * apply andb_true_iff in Hcls. destruct Hcls as [Hb Hbv].
          rewrite (ok_expr_sub3 e1 _ _ Hb), (ok_expr_sub3 e2 _ _ Hbv). reflexivity.
        * apply andb_true_iff in Hcls. destruct Hcls as [Hcls Hr]. apply andb_true_iff in Hcls. destruct Hcls as [Hcls Hn].
          apply andb_true_iff in Hcls. destruct Hcls as [He Ht].
          rewrite (ok_expr_sub3 e1' _ _ He), (ok_target_sub3 t1 _ _ Ht), Hn. cbn [andb]. apply IH; auto.
        * apply andb_true_iff in Hcls. destruct Hcls as [Hc Hr].
          rewrite (ok_expr_sub3 c1 _ _ Hc). cbn [andb]. apply IH; auto.
      + (* ESlice *)
        simpl in Hok; cbn [ok_expr3 ok_target3 forallb]. apply andb_true_iff in Hok. destruct Hok as [Hok Hst]. apply andb_true_iff in Hok. destruct Hok as [Hok Hhi].
        apply andb_true_iff in Hok. destruct Hok as [Hx Hlo].
        rewrite (ok_expr_sub3 e _ _ Hx). cbn [andb].
        destruct lo0 as [l0|]; [rewrite (ok_expr_sub3 l0 _ _ Hlo)|];
        (destruct hi as [h0|]; [rewrite (ok_expr_sub3 h0 _ _ Hhi)|]);
        (destruct step as [s0|]; [rewrite (ok_expr_sub3 s0 _ _ Hst)|]); reflexivity.
    - intros U used Hok. destruct t.
      + change (jok lo ls x = true) in Hok. change (jokt3 lo (sc0 ls) x = true). rewrite jokt3_sc0. exact Hok.
      + simpl in Hok. change (ok_expr3 p lo (sc0 ls) U used x && ok_expr3 p lo (sc0 ls) U used y = true).
        apply andb_true_iff in Hok. destruct Hok as [Hx Hy].
        rewrite (ok_expr_sub3 x _ _ Hx), (ok_expr_sub3 y _ _ Hy). reflexivity.
      + simpl in Hok. change (ok_expr3 p lo (sc0 ls) U used x = true). apply ok_expr_sub3; auto.
      + simpl in Hok. change (forallb (ok_target3 p lo (sc0 ls) U used) ts = true).
        induction ts as [|a ts IH]; simpl in Hok; cbn [forallb]; auto.
        apply andb_true_iff in Hok. destruct Hok as [Ha Hts]. rewrite (ok_target_sub3 a _ _ Ha). apply IH; auto.
  Qed.

  Lemma ok_param_sub3 : forall ps, forallb (ok_param2 lo ls) ps = true -> forallb (ok_param3 p lo (sc0 ls)) ps = true.
  Proof.
    induction ps as [|q ps IH]; simpl; auto. intros H. apply andb_true_iff in H. destruct H as [H1 H2].
    rewrite (IH H2), andb_true_r. destruct q; simpl in *; auto. apply ok_expr_sub3; auto.
  Qed.
End SubE.

(* expressions of the second fragment contain no function: nothing is captured *)
Fixpoint capt_expr_nil (e : expr) {struct e} :
  forall lo ls U used, ok_expr2 lo ls U used e = true -> forall bv, capt_expr bv e = []
with capt_target_nil (t : target) {struct t} :
  forall lo ls U used, ok_target2 lo ls U used t = true -> forall bv, capt_target bv t = [].
Proof.
  - intros lo ls U used Hok bv.
    destruct e; try (simpl in Hok; discriminate).
    + reflexivity.
    + reflexivity.
    + reflexivity.
    + reflexivity.
    + simpl in *. eapply capt_expr_nil; eauto.
    + simpl in *. eapply capt_expr_nil; eauto.
    + simpl in *. apply andb_true_iff in Hok. destruct Hok as [H1 H2].
      rewrite (capt_expr_nil e1 _ _ _ _ H1), (capt_expr_nil e2 _ _ _ _ H2). reflexivity.
    + simpl in *. apply andb_true_iff in Hok. destruct Hok as [H1 H2].
      rewrite (capt_expr_nil e1 _ _ _ _ H1), (capt_expr_nil e2 _ _ _ _ H2). reflexivity.
    + simpl in *. apply andb_true_iff in Hok. destruct Hok as [H1 H2].
      rewrite (capt_expr_nil e1 _ _ _ _ H1), (capt_expr_nil e2 _ _ _ _ H2). reflexivity.
    + simpl in *. apply andb_true_iff in Hok. destruct Hok as [H1 H3]. apply andb_true_iff in H1. destruct H1 as [H1 H2].
      rewrite (capt_expr_nil e1 _ _ _ _ H1), (capt_expr_nil e2 _ _ _ _ H2), (capt_expr_nil e3 _ _ _ _ H3). reflexivity.
    + simpl in *. induction es as [|a es IH]; simpl in *; auto.
      apply andb_true_iff in Hok. destruct Hok as [Ha Hes]. rewrite (capt_expr_nil a _ _ _ _ Ha). apply IH; auto.
    + simpl in *. induction es as [|a es IH]; simpl in *; auto.
      apply andb_true_iff in Hok. destruct Hok as [Ha Hes]. rewrite (capt_expr_nil a _ _ _ _ Ha). apply IH; auto.
    + simpl in *. induction kvs as [|[[k v] cp] kvs IH]; simpl in *; auto.
      apply andb_true_iff in Hok. destruct Hok as [Hkv Hr]. apply andb_true_iff in Hkv. destruct Hkv as [Hk Hv].
      rewrite (capt_expr_nil k _ _ _ _ Hk), (capt_expr_nil v _ _ _ _ Hv). apply IH; auto.
    + simpl in *. apply andb_true_iff in Hok. destruct Hok as [H1 H2].
      rewrite (capt_expr_nil e1 _ _ _ _ H1), (capt_expr_nil e2 _ _ _ _ H2). reflexivity.
    + simpl in *. eapply capt_expr_nil; eauto.
    + simpl in *. apply andb_true_iff in Hok. destruct Hok as [Hok _]. apply andb_true_iff in Hok. destruct Hok as [Hf Hargs].
      rewrite (capt_expr_nil e _ _ _ _ Hf). cbn [app].
      clear - capt_expr_nil Hargs.
      induction args as [|a args IH]; simpl in *; auto.
      apply andb_true_iff in Hargs. destruct Hargs as [Ha Hr].
      destruct a; rewrite (capt_expr_nil e _ _ _ _ Ha); apply IH; auto.
    + (* EComp *)
      destruct cls as [|[t e0 ps|c0] rest]; try (simpl in Hok; discriminate).
      rewrite ok_comp' in Hok.
      apply andb_true_iff in Hok. destruct Hok as [Hok Hcls].
      apply andb_true_iff in Hok. destruct Hok as [Hok _].
      apply andb_true_iff in Hok. destruct Hok as [Hok Htg].
      apply andb_true_iff in Hok. destruct Hok as [_ He0].
      destruct (ok_cls_body _ _ _ _ _ _ _ _ Hcls) as [U2 [Hb Hbv]].
      cbn [capt_expr].
      rewrite (capt_expr_nil e0 _ _ _ _ He0), (capt_target_nil t _ _ _ _ Htg),
              (capt_expr_nil e1 _ _ _ _ Hb), (capt_expr_nil e2 _ _ _ _ Hbv).
      cbn [app]. rewrite !app_nil_r.
      clear - capt_expr_nil capt_target_nil Hcls.
      revert Hcls. generalize (rm (target_names t) (comp_vars (CFor t e0 ps :: rest) ++ U)) as U1.
      generalize (comp_vars (CFor t e0 ps :: rest)) as V.
      generalize (combine (comp_vars (CFor t e0 ps :: rest)) slots ++ bv) as bv'.
      induction rest as [|[t1 e1' ps1|c1] rest IH]; intros bv' V U1 Hcls; simpl in *; auto.
      * apply andb_true_iff in Hcls. destruct Hcls as [Hcls Hr]. apply andb_true_iff in Hcls. destruct Hcls as [Hcls _].
        apply andb_true_iff in Hcls. destruct Hcls as [He Ht].
        rewrite (capt_target_nil t1 _ _ _ _ Ht), (capt_expr_nil e1' _ _ _ _ He). eapply IH; eauto.
      * apply andb_true_iff in Hcls. destruct Hcls as [Hc Hr].
        rewrite (capt_expr_nil c1 _ _ _ _ Hc). eapply IH; eauto.
    + (* ESlice *)
      simpl in *. apply andb_true_iff in Hok. destruct Hok as [Hok Hst]. apply andb_true_iff in Hok. destruct Hok as [Hok Hhi].
      apply andb_true_iff in Hok. destruct Hok as [Hx Hlo].
      rewrite (capt_expr_nil e _ _ _ _ Hx). cbn [app].
      destruct lo0 as [l0|]; [rewrite (capt_expr_nil l0 _ _ _ _ Hlo)|];
      (destruct hi as [h0|]; [rewrite (capt_expr_nil h0 _ _ _ _ Hhi)|]);
      (destruct step as [s0|]; [rewrite (capt_expr_nil s0 _ _ _ _ Hst)|]); reflexivity.
  - intros lo ls U used Hok bv. destruct t; simpl in *; auto.
    + apply andb_true_iff in Hok. destruct Hok as [Hx Hy].
      rewrite (capt_expr_nil x _ _ _ _ Hx), (capt_expr_nil y _ _ _ _ Hy). reflexivity.
    + eapply capt_expr_nil; eauto.
    + induction ts as [|a ts IH]; simpl in *; auto.
      apply andb_true_iff in Hok. destruct Hok as [Ha Hts]. rewrite (capt_target_nil a _ _ _ _ Ha). apply IH; auto.
Qed.

(* ---------------------------------------------------------------- statements *)
Lemma forallb_true : forall (A : Type) (f : A -> bool) l, (forall x, f x = true) -> forallb f l = true.
Proof. induction l; simpl; intros; auto. rewrite H, IHl; auto. Qed.

Lemma filter_false : forall (A : Type) (f : A -> bool) l, (forall x, f x = false) -> filter f l = [].
Proof. induction l; simpl; intros; auto. rewrite H. auto. Qed.

Lemma params_capt_nil : forall lo ls ps, forallb (ok_param2 lo ls) ps = true ->
  flat_map (fun q => match q with PDefault _ d => capt_expr [] d | _ => [] end) ps = [].
Proof.
  induction ps as [|q ps IH]; simpl; auto. intros H. apply andb_true_iff in H. destruct H as [H1 H2].
  rewrite (IH H2), app_nil_r. destruct q; auto. simpl in H1. eapply capt_expr_nil; eauto.
Qed.

(* statements without defs capture nothing *)
Definition captnil_prop (s : stmt) : Prop :=
  forall lo ls, ok_stmt2 lo ls s = true -> no_defs_stmt s = true -> capt_stmt s = [].

Lemma captnil_list : forall l, Forall captnil_prop l ->
  forall lo ls, forallb (ok_stmt2 lo ls) l = true -> forallb no_defs_stmt l = true -> flat_map capt_stmt l = [].
Proof.
  induction 1 as [|x l Hx Hl IH]; intros lo ls Ho Hn; simpl in *; auto.
  apply andb_true_iff in Ho. destruct Ho as [Ho1 Ho2]. apply andb_true_iff in Hn. destruct Hn as [Hn1 Hn2].
  rewrite (Hx lo ls Ho1 Hn1), (IH lo ls Ho2 Hn2). reflexivity.
Qed.

Ltac capt_all :=
  repeat match goal with
  | H : ok_expr2 _ _ _ _ ?e = true |- context [capt_expr _ ?e] => rewrite (capt_expr_nil e _ _ _ _ H)
  | H : ok_target2 _ _ _ _ ?t = true |- context [capt_target _ ?t] => rewrite (capt_target_nil t _ _ _ _ H)
  end.

Lemma captnil_stmt : forall s, captnil_prop s.
Proof.
  apply stmt_ind'; unfold captnil_prop; intros; simpl in *; try discriminate;
    repeat match goal with H : _ && _ = true |- _ => apply andb_true_iff in H; destruct H end;
    try (solve [ capt_all; auto ]).
  - (* SIf *) capt_all. rewrite (captnil_list tb H lo ls), (captnil_list fb H0 lo ls); auto.
  - (* SWhile *) capt_all. rewrite (captnil_list b H lo ls); auto.
  - (* SFor *) capt_all. rewrite (captnil_list b H lo ls); auto.
  - (* SReturn *) destruct e; auto. capt_all. reflexivity.
Qed.

(* the captures of a statement whose defs are not nested: only by name, never a comprehension slot *)
Definition captnone_prop (s : stmt) : Prop :=
  forall lo ls, ok_stmt2 lo ls s = true -> flat_stmt s = true -> forall c, List.In c (capt_stmt s) -> snd c = None.

Lemma captnone_list : forall l, Forall captnone_prop l ->
  forall lo ls, forallb (ok_stmt2 lo ls) l = true -> forallb flat_stmt l = true ->
  forall c, List.In c (flat_map capt_stmt l) -> snd c = None.
Proof.
  induction 1 as [|x l Hx Hl IH]; intros lo ls Ho Hn c Hc; simpl in *; [destruct Hc|].
  apply andb_true_iff in Ho. destruct Ho as [Ho1 Ho2]. apply andb_true_iff in Hn. destruct Hn as [Hn1 Hn2].
  apply in_app_iff in Hc. destruct Hc as [Hc|Hc]; eauto.
Qed.

Lemma captnone_stmt : forall s, captnone_prop s.
Proof.
  apply stmt_ind'; unfold captnone_prop; intros;
    try (rewrite ok_sdef' in *);
    try (simpl in *; discriminate).
  all: try (simpl in *;
    repeat match goal with H : _ && _ = true |- _ => apply andb_true_iff in H; destruct H end;
    solve [ revert H1; capt_all; simpl; tauto | revert H2; capt_all; simpl; tauto | revert H3; capt_all; simpl; tauto
          | match goal with H : List.In _ _ |- _ => revert H; capt_all; simpl; tauto end ]).
  - (* SIf *)
    simpl in *. repeat match goal with H : _ && _ = true |- _ => apply andb_true_iff in H; destruct H end.
    revert H3. capt_all. cbn [app]. intros Hc. apply in_app_iff in Hc. destruct Hc as [Hc|Hc].
    + eapply (captnone_list tb H lo ls); eauto.
    + eapply (captnone_list fb H0 lo ls); eauto.
  - (* SWhile *)
    simpl in *. repeat match goal with H : _ && _ = true |- _ => apply andb_true_iff in H; destruct H end.
    revert H2. capt_all. cbn [app]. intros Hc. eapply (captnone_list b H lo ls); eauto.
  - (* SFor *)
    simpl in *. repeat match goal with H : _ && _ = true |- _ => apply andb_true_iff in H; destruct H end.
    revert H2. capt_all. cbn [app]. intros Hc. eapply (captnone_list b H lo ls); eauto.
  - (* SReturn *)
    destruct e; simpl in *; [|tauto]. revert H1. capt_all. simpl. tauto.
  - (* SDef *)
    match goal with H : _ && _ = true |- _ => apply andb_true_iff in H; destruct H as [Hpj Hfd] end.
    apply andb_true_iff in Hpj. destruct Hpj as [Hps Hj].
    simpl in H2. rewrite (params_capt_nil _ _ _ Hps) in H2. cbn [app] in H2.
    apply in_map_iff in H2. destruct H2 as [x [<- _]]. reflexivity.
Qed.

Lemma free_names_nil : forall fd, free_names fd [] = [].
Proof.
  intros. unfold free_names. rewrite filter_false; [reflexivity|].
  intros x. rewrite (str_in_nil x). apply andb_false_r.
Qed.

Lemma existsb_false : forall (A : Type) (f : A -> bool) l, (forall x, List.In x l -> f x = false) -> existsb f l = false.
Proof.
  induction l; simpl; intros; auto. rewrite H by auto. simpl. apply IHl. auto.
Qed.

Lemma cell_slots_nil : forall lo ls capt,
  (forall c, List.In c capt -> snd c = None /\ str_in (fst c) lo = false) -> cell_slots lo ls capt = [].
Proof.
  intros lo ls capt H. unfold cell_slots. apply filter_false. intros i.
  destruct (nth_error ls i) as [nm|]; auto.
  apply orb_false_iff. split.
  - destruct (str_in nm lo) eqn:E; auto. simpl. apply existsb_false. intros c Hc.
    destruct (H c Hc) as [_ Hlo]. destruct (String.eqb (fst c) nm) eqn:En; auto.
    apply String.eqb_eq in En. congruence.
  - apply existsb_false. intros c Hc. destruct (H c Hc) as [Hn _]. rewrite Hn. reflexivity.
Qed.

Lemma nodup_str_of : forall l, NoDup l -> nodup_str l = true.
Proof.
  induction 1; simpl; auto. rewrite IHNoDup, andb_true_r. apply negb_true_iff. apply str_in_false_iff. auto.
Qed.

Lemma locals_nodup : forall fd, nodup_str (locals_of fd) = true.
Proof. intros. apply nodup_str_of. unfold locals_of. apply add_all_nodup. apply add_all_nodup. constructor. Qed.

(* statements without defs define nothing *)
Definition nd_prop (s : stmt) : Prop := no_defs_stmt s = true -> defs_stmt s = [].
Lemma nd_list : forall l, Forall nd_prop l -> forallb no_defs_stmt l = true -> flat_map defs_stmt l = [].
Proof.
  induction 1 as [|x l Hx Hl IH]; intros Hn; simpl in *; auto.
  apply andb_true_iff in Hn. destruct Hn as [Hn1 Hn2]. rewrite (Hx Hn1), (IH Hn2). reflexivity.
Qed.
Lemma nd_stmt : forall s, nd_prop s.
Proof.
  apply stmt_ind'; unfold nd_prop; intros; simpl in *; try discriminate; auto;
    repeat match goal with H : _ && _ = true |- _ => apply andb_true_iff in H; destruct H end.
  - rewrite (nd_list tb), (nd_list fb); auto.
  - apply nd_list; auto.
  - apply nd_list; auto.
Qed.

(* the defs of a program whose defs are not nested contain no def *)
Definition dn_prop (s : stmt) : Prop :=
  flat_stmt s = true -> Forall (fun d => forallb no_defs_stmt (fd_body (snd d)) = true) (defs_stmt s).
Lemma dn_list : forall l, Forall dn_prop l -> forallb flat_stmt l = true ->
  Forall (fun d => forallb no_defs_stmt (fd_body (snd d)) = true) (flat_map defs_stmt l).
Proof.
  induction 1 as [|x l Hx Hl IH]; intros Hn; simpl in *; [constructor|].
  apply andb_true_iff in Hn. destruct Hn as [Hn1 Hn2]. apply Forall_app. auto.
Qed.
Lemma dn_stmt : forall s, dn_prop s.
Proof.
  apply stmt_ind'; unfold dn_prop; intros; simpl in *; try constructor;
    repeat match goal with H : _ && _ = true |- _ => apply andb_true_iff in H; destruct H end.
  - apply Forall_app. split; apply dn_list; auto.
  - apply dn_list; auto.
  - apply dn_list; auto.
  - simpl. auto.
  - rewrite (nd_list body); [constructor|apply Forall_forall; intros; apply nd_stmt|auto].
Qed.

(* ---------------------------------------------------------------- statements of the second fragment are statements of the third *)
Section SubS.
  Variable p : program.
  Hypothesis Hfree : forall fid, fun_free p fid = [].

  Definition sub3_prop (s : stmt) : Prop :=
    forall lo ls, ok_stmt2 lo ls s = true -> (lo = [] \/ no_defs_stmt s = true) -> ok_stmt3 p lo (sc0 ls) s = true.

  Lemma sub3_list : forall l, Forall sub3_prop l ->
    forall lo ls, forallb (ok_stmt2 lo ls) l = true -> (lo = [] \/ forallb no_defs_stmt l = true) ->
    forallb (ok_stmt3 p lo (sc0 ls)) l = true.
  Proof.
    induction 1 as [|x l Hx Hl IH]; intros lo ls Ho Hn; simpl in *; auto.
    apply andb_true_iff in Ho. destruct Ho as [Ho1 Ho2].
    rewrite (Hx lo ls Ho1), (IH lo ls Ho2); auto.
    - destruct Hn as [Hn|Hn]; auto. right. apply andb_true_iff in Hn. tauto.
    - destruct Hn as [Hn|Hn]; auto. right. apply andb_true_iff in Hn. tauto.
  Qed.

  Lemma ok_stmt_sub3 : forall s, sub3_prop s.
  Proof.
    apply stmt_ind'; unfold sub3_prop; intros;
      try (rewrite ok_sdef' in *);
      try (simpl in *; discriminate).
    all: try (simpl in *;
      repeat match goal with H : _ && _ = true |- _ => apply andb_true_iff in H; destruct H end;
      solve [ repeat (apply andb_true_iff; split); auto using ok_expr_sub3, ok_target_sub3 ]).
    - (* SIf *)
      simpl in *. repeat match goal with H : _ && _ = true |- _ => apply andb_true_iff in H; destruct H end.
      repeat (apply andb_true_iff; split); auto using ok_expr_sub3.
      + apply sub3_list; auto. destruct H2 as [H2|H2]; auto. right. apply andb_true_iff in H2. tauto.
      + apply sub3_list; auto. destruct H2 as [H2|H2]; auto. right. apply andb_true_iff in H2. tauto.
    - (* SWhile *)
      simpl in *. repeat match goal with H : _ && _ = true |- _ => apply andb_true_iff in H; destruct H end.
      repeat (apply andb_true_iff; split); auto using ok_expr_sub3. apply sub3_list; auto.
    - (* SFor *)
      simpl in *. repeat match goal with H : _ && _ = true |- _ => apply andb_true_iff in H; destruct H end.
      repeat (apply andb_true_iff; split); auto using ok_expr_sub3, ok_target_sub3. apply sub3_list; auto.
    - (* SReturn *)
      destruct e; simpl in *; auto using ok_expr_sub3.
    - (* SDef *)
      destruct H1 as [->|H1]; [|simpl in H1; discriminate].
      match goal with H : _ && _ = true |- _ => apply andb_true_iff in H; destruct H as [Hpj Hfd] end.
      apply andb_true_iff in Hpj. destruct Hpj as [Hps Hj].
      cbn [ok_stmt3]. rewrite (ok_param_sub3 p [] ls ps Hps), jokt3_sc0, Hj. cbn [andb].
      unfold mk_ok3. rewrite Hfree. cbn [forallb].
      rewrite filter_false by (intros z; apply str_in_nil). cbn [strs_eqb andb].
      apply forallb_true. intros z. reflexivity.
  Qed.
End SubS.

(* ---------------------------------------------------------------- the theorem *)
Theorem in_fragment2_sub3 : forall p, in_fragment2 p = true -> in_fragment3 p = true.
Proof.
  intros p H. unfold in_fragment2 in H. apply andb_true_iff in H. destruct H as [Hok Hflat].
  pose proof (funs_ok2_flat p Hok Hflat) as Hf2.
  unfold ok_prog2 in Hok. unfold flat_prog in Hflat.
  assert (Hfree : forall fid, fun_free p fid = []).
  { intros fid. unfold fun_free. specialize (Hf2 fid). destruct (find_def p fid) as [[fd encl]|]; auto.
    destruct Hf2 as [_ [-> _]]. apply free_names_nil. }
  assert (Hfn : file_names p = []) by (unfold file_names; rewrite (no_loads2 _ _ _ Hok); reflexivity).
  assert (Hsub : Forall (sub3_prop p) (p_body p)) by (apply Forall_forall; intros; apply ok_stmt_sub3; auto).
  unfold in_fragment3. apply andb_true_iff. split.
  - (* the module level *)
    unfold ok_prog3.
    assert (Hsc : scope_top p = sc0 (layout_top p)).
    { unfold scope_top, sc0. rewrite Hfn. rewrite cell_slots_nil; [reflexivity|].
      intros c Hc. split; [|apply str_in_nil].
      eapply (captnone_list (p_body p)); eauto. apply Forall_forall. intros; apply captnone_stmt. }
    rewrite Hsc. apply andb_true_iff. split; [|reflexivity].
    apply (sub3_list p (p_body p) Hsub [] (layout_top p) Hok). left. reflexivity.
  - (* every function *)
    unfold funs_ok3b. apply forallb_forall. intros fid _.
    destruct (find_def p fid) as [[fd encl]|] eqn:Ed; auto.
    pose proof (Hf2 fid) as Hfd. rewrite Ed in Hfd. destruct Hfd as [Hfd [-> _]].
    (* the body of the function contains no def *)
    assert (Hnd : forallb no_defs_stmt (fd_body fd) = true).
    { assert (Hall : Forall flat_prop2 (p_body p)) by (apply Forall_forall; intros; apply flat_stmt_ok2).
      destruct (flat_list2 (p_body p) Hall _ _ Hok Hflat) as [A1 _].
      unfold find_def in Ed. rewrite A1 in Ed. unfold found in Ed.
      destruct (first_def fid (flat_map defs_stmt (p_body p))) as [fd0|] eqn:E; [|discriminate].
      inversion Ed; subst fd0. apply first_def_in in E.
      assert (Hdn : Forall dn_prop (p_body p)) by (apply Forall_forall; intros; apply dn_stmt).
      pose proof (dn_list (p_body p) Hdn Hflat) as Hd. rewrite Forall_forall in Hd. exact (Hd _ E). }
    unfold ok_fundef2 in Hfd.
    apply andb_true_iff in Hfd. destruct Hfd as [Hfd Hlay]. apply andb_true_iff in Hfd. destruct Hfd as [Hbody Hbx].
    destruct (boxed_names (fd_body fd)) eqn:Ebx; [clear Hbx | discriminate].
    assert (Hcapt : flat_map capt_stmt (fd_body fd) = []).
    { eapply (captnil_list (fd_body fd)); eauto. apply Forall_forall. intros; apply captnil_stmt. }
    assert (Hsc : scope_of fd [] = sc0 (layout fd)).
    { unfold scope_of, sc0. rewrite Hcapt, free_names_nil. rewrite cell_slots_nil; [reflexivity|]. intros c []. }
    unfold ok_fundef3. rewrite Hsc. cbn [sc_ls sc_fr sc0 nodup_str forallb]. rewrite !andb_true_r.
    repeat (apply andb_true_iff; split).
    + apply (sub3_list p); auto. apply Forall_forall. intros; apply ok_stmt_sub3; auto.
    + exact Hlay.
    + unfold cells_match. cbn [sc_cells sc_ls sc0]. rewrite Ebx.
      rewrite flat_map_nil_all; [reflexivity|]. intros z _. rewrite (str_in_nil z). reflexivity.
    + apply locals_nodup.
Qed.
