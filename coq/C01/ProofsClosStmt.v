(* C01 -- closures: simulation of statements, blocks, while and for loops (scripts of ProofsCompStmt.v
   for the code generator of CompileClos.v).  The def statement makes a closure
   (ProofsClosExpr.make_closure) and stores it in the variable -- a cell if a nested function
   captures the def's own name. *)
From Coq Require Import ZArith String List Bool Lia.
From SV Require Import C01.Syntax C01.Values C01.Ref C01.VM C01.Compile C01.Frag C01.ProofsVM C01.ProofsEnv
     C01.SimDefs C01.ProofsExpr C01.ProofsStmt C01.ProofsCompFrag C01.ProofsCompEnv
     C01.CompileClos C01.FragClos C01.ProofsClosEnv C01.ProofsClosBase C01.ProofsClosDefs
     C01.ProofsClosExpr C01.ProofsClosComp.
Import ListNotations.
Open Scope string_scope.
Open Scope list_scope.
Open Scope nat_scope.

Ltac codeof e k := match goal with Hc : pcode_at _ _ (gen_expr3 _ _ e) _ _ |- _ => k Hc end.
Ltac condof e k := match goal with Hc : pcode_at _ _ (gen_cond3 _ _ e _ _) _ _ |- _ => k Hc end.

(* ---- unfolding equations of the statement generator *)
Section GenEq3.
  Variable p : program.
  Variable ls : scope.
  Notation ge := (gen_expr3 p ls).
  Notation gc := (gen_cond3 p ls).
  Notation gs := (gen_stmt3 p ls).
  Notation gb := (gen_block3 p ls).

  Lemma gs_expr_lit : forall e, is_lit e = true -> gs (SExpr e) = [].
  Proof. intros; destruct e; try discriminate; reflexivity. Qed.
  Lemma gs_expr_gen : forall e, is_lit e = false -> gs (SExpr e) = ge e ++ [POP].
  Proof. intros; destruct e; try discriminate; reflexivity. Qed.
  Lemma gs_assign : forall t e ps, gs (SAssign t e ps) = ge e ++ gen_assign3 p ls t ps. Proof. reflexivity. Qed.
  Lemma gs_aug_name : forall o x px e ps,
    gs (SAug o (TName x px) e ps) = [gen_name3 p ls [] x px] ++ ge e ++ aug_insn o ps ++ [gen_set3 p ls [] x].
  Proof. reflexivity. Qed.
  Lemma gs_aug_index : forall o x y pi e ps,
    gs (SAug o (TIndex x y pi) e ps) = ge x ++ ge y ++ [DUP2; INDEX pi] ++ ge e ++ aug_insn o ps ++ [SETINDEX pi].
  Proof. reflexivity. Qed.
  Lemma gs_if : forall c tb fb,
    gs (SIf c tb fb) = gc c 0 (length (gb tb) + 1) ++ gb tb ++ [RJMP (length (gb fb))] ++ gb fb.
  Proof. reflexivity. Qed.
  Lemma gs_while : forall c body,
    gs (SWhile c body) = gc c 0 (length (gb body) + 1)
                         ++ patch_loop 1 (length (gc c 0 (length (gb body) + 1))) (gb body)
                         ++ [RJMPB (length (gc c 0 (length (gb body) + 1)) + length (gb body) + 1)].
  Proof. reflexivity. Qed.
  Lemma gs_for : forall t e body ps,
    gs (SFor t e body ps) = ge e ++ [ITERPUSH ps; RITERJMP (length (gen_assign3 p ls t ps) + length (gb body) + 1)]
                            ++ gen_assign3 p ls t ps ++ patch_loop 1 (length (gen_assign3 p ls t ps) + 1) (gb body)
                            ++ [RJMPB (length (gen_assign3 p ls t ps) + length (gb body) + 2); ITERPOP].
  Proof. reflexivity. Qed.
  Lemma gs_return : forall e, gs (SReturn (Some e)) = ge e ++ [RETURN]. Proof. reflexivity. Qed.
  Lemma gb_cons : forall s ss, gb (s :: ss) = gs s ++ gb ss. Proof. reflexivity. Qed.
End GenEq3.

Section Stmt3.
  Variable p : program.
  Notation cp := (compile_prog3 p).
  Notation fn := (fname p).

  Lemma ge_nil : forall ls e, gen_e p ls [] e = gen_expr3 p ls e. Proof. reflexivity. Qed.
  Lemma gc_nil : forall ls e t f, gen_c p ls [] e t f = gen_cond3 p ls e t f. Proof. reflexivity. Qed.
  Lemma gct_nil : forall ls t ps, gen_ct p ls [] t ps = gen_assign3 p ls t ps. Proof. reflexivity. Qed.

  Lemma after3_pre : forall fid C fv K lo ls S0 S0' pc pc' len len' I brk cont r,
    star cp fn S0 S0' ->
    after3 p fid C fv K lo ls S0' pc' len' I brk cont r ->
    (forall L' s', star cp fn (S3 fid C fv K (pc' + len') [] L' I s') (S3 fid C fv K (pc + len) [] L' I s')) ->
    after3 p fid C fv K lo ls S0 pc len I brk cont r.
  Proof.
    intros fid C fv K lo ls S0 S0' pc pc' len len' I brk cont [[out ρ'] s'] Hs Ha Hn.
    destruct out; simpl in *.
    - destruct Ha as (L' & HR & Ha). exists L'. split; auto.
      eapply star_trans; [exact Hs|]. eapply star_trans; [exact Ha|]. apply Hn.
    - destruct brk; [ destruct Ha as (L' & HR & Ha); exists L'; split; auto; eapply star_trans; eauto
                    | eapply halts_star; eauto ].
    - destruct cont; [ destruct Ha as (L' & HR & Ha); exists L'; split; auto; eapply star_trans; eauto
                     | eapply halts_star; eauto ].
    - destruct Ha as [pcr [Ix [wv [L' [H1 [H2 H3]]]]]]. exists pcr, Ix, wv, L'. repeat split; auto.
      eapply star_trans; eauto.
  Qed.

  Hypothesis Hfuns : funs_ok3 p.

  Ltac nrm := rewrite ?ge_nil, ?gc_nil, ?gct_nil in *.
  Ltac fin3 := norm_state; apply star_eq; apply St_eq; [ simpl; len_norm; rewrite ?aug_len; lia | reflexivity ].
  Ltac fetch_at q k := match goal with Hf : nth_error _ q = Some _ |- _ => k Hf end.

  Lemma X3_step : forall n, E3 p n -> Cn3 p n -> As3 p n -> B3 p n -> W3 p n -> F3 p n -> Df3 p n -> X3 p (S n).
  Proof.
    intros n IHE IHC IHA IHB IHW IHF IHD.
    unfold X3; intros stk lo ls ρ L st s fid0 C fv K pc I brk cont Hok HR Hstk Hcode.
    destruct st; try (simpl in Hok; discriminate).
    - (* SExpr *)
      simpl in Hok. simpl exec. destruct (is_lit e) eqn:El.
      + rewrite (gs_expr_lit _ _ _ El) in *.
        destruct e; try discriminate; destruct n; simpl; auto; unfold after3; exists L; split; auto; fin.
      + rewrite (gs_expr_gen _ _ _ El) in *. pcode_split.
        codeof e ltac:(fun Hc => pose proof (IHE stk lo ls [] [] ρ L e s fid0 C fv K pc [] I brk cont Hok HR Hstk Hc) as IH1). nrm.
        destruct (eval p n stk ρ e s) as [[v s1]| | |]; cbn [sim fst snd] in *; auto.
        destruct IH1 as (L1 & HR1 & IH1). unfold after3. exists L1. split; auto. chain IH1. vstep. fin.
    - (* SAssign *)
      simpl in Hok. apply andb_true_iff in Hok. destruct Hok as [Ht He].
      rewrite gs_assign in *. pcode_split.
      codeof e ltac:(fun Hc => pose proof (IHE stk lo ls [] [] ρ L e s fid0 C fv K pc [] I brk cont He HR Hstk Hc) as IH1). nrm.
      simpl exec.
      destruct (eval p n stk ρ e s) as [[v s1]| | |]; cbn [sim fst snd] in *; auto.
      destruct IH1 as (L1 & HR1 & IH1).
      match goal with Hc : pcode_at _ ?q (gen_assign3 _ _ _ _) _ _ |- _ =>
        pose proof (IHA stk lo ls [] [] ρ L1 t v p0 s1 fid0 C fv K q [] I brk cont Ht HR1 Hstk Hc) as IH2 end. nrm.
      destruct (assign p n stk ρ t v p0 s1) as [[ρ1 s2]| | |]; cbn [sim fst snd] in *; auto.
      + destruct IH2 as (L2 & HR2 & IH2). unfold after3. exists L2. split; auto. chain IH1. chain IH2. fin.
      + hstar IH1. hchain IH2.
      + hstar IH1. hchain IH2.
    - (* SAug *)
      simpl in Hok. apply andb_true_iff in Hok. destruct Hok as [Hok Ho]. apply andb_true_iff in Hok. destruct Hok as [Ht He].
      apply negb_true_iff in Ho.
      destruct t; simpl in Ht.
      3: { (* field target *)
           change (gen_stmt3 p ls (SAug o (TDot x name p1) e p0))
             with (gen_expr3 p ls x ++ [DUP; ATTR name p1] ++ gen_expr3 p ls e ++ aug_insn o p0 ++ [SETFIELD name p1]) in *.
           pcode_split. rewrite ?aug_len in *.
           codeof x ltac:(fun Hc => pose proof (IHE stk lo ls [] [] ρ L x s fid0 C fv K pc [] I brk cont Ht HR Hstk Hc) as IH1). nrm.
           simpl exec.
           destruct (eval p n stk ρ x s) as [[vx s1]| | |]; cbn [sim fst snd] in *; auto.
           destruct IH1 as (L1 & HR1 & IH1).
           destruct (getattr vx name (rw s1)) as [old| |t] eqn:Eg; cbn [lift sim fst snd].
           2: { hstar IH1. eapply halts_star; [ vstep; apply star_refl | vstop1 Eg ]. }
           2: { hstar IH1. eapply halts_star; [ vstep; apply star_refl | vstop1 Eg ]. }
           assert (Hpre : star cp fn (S3 fid0 C fv K pc [] L I s)
                            (S3 fid0 C fv K (pc + length (gen_expr3 p ls x) + 2) [old; vx] L1 I s1)).
           { chain IH1. vstep. vstep1 Eg. fin. }
           codeof e ltac:(fun Hc => pose proof (IHE stk lo ls [] [] ρ L1 e s1 fid0 C fv K _ [old; vx] I brk cont He HR1 Hstk Hc) as IH3). nrm.
           destruct (eval p n stk ρ e s1) as [[ve s3]| | |]; cbn [sim fst snd] in *; auto;
             try (hstar Hpre; hchain IH3).
           destruct IH3 as (L3 & HR3 & IH3).
           match goal with Hc : pcode_at _ ?q (aug_insn _ _) _ _ |- _ =>
             pose proof (aug_step cp fn o p0 old ve (rw s3) fid0 C fv K q [vx] L3 I (rg s3) brk cont Ho Hc) as IHa end.
           destruct (apply_aug o old ve (rw s3)) as [[r w]| |t] eqn:Ea; cbn [lift sim fst snd];
             try (hstar Hpre; hstar IH3; hchain IHa).
           hstar Hpre. hstar IH3. hstar IHa. vstop. }
      3: { (* sequence target: rejected statically; both sides report it *)
           change (gen_stmt3 p ls (SAug o (TSeq ts) e p0)) with [UNSUPPORTED "static:augmented-sequence"] in *.
           pcode_split. simpl exec. cbn [sim]. vstop. }
      + (* name *)
        rewrite gs_aug_name in *. pcode_split. rewrite ?aug_len in *.
        assert (Hnm : negb (str_in x []) && jok3 lo ls x = true) by (rewrite str_in_nil; apply jokt3_jok3; exact Ht).
        fetch_at pc ltac:(fun Hf => pose proof (name_sim3 p lo ls [] [] ρ L x p1 s fid0 C fv K pc [] I brk cont HR Hnm Hf) as IHn).
        simpl exec.
        destruct (lookup p ρ x p1 s) as [vx| | |]; cbn [sim fst snd] in *; auto.
        codeof e ltac:(fun Hc => pose proof (IHE stk lo ls [] [] ρ L e s fid0 C fv K _ [vx] I brk cont He HR Hstk Hc) as IH1). nrm.
        destruct (eval p n stk ρ e s) as [[ve s1]| | |]; cbn [sim fst snd] in *; auto;
          try (hstar IHn; hchain IH1).
        destruct IH1 as (L1 & HR1 & IH1).
        match goal with Hc : pcode_at _ ?q (aug_insn _ _) _ _ |- _ =>
          pose proof (aug_step cp fn o p0 vx ve (rw s1) fid0 C fv K q [] L1 I (rg s1) brk cont Ho Hc) as IHa end.
        destruct (apply_aug o vx ve (rw s1)) as [[r w]| |t] eqn:Ea; cbn [lift sim fst snd];
          try (hstar IHn; hstar IH1; hchain IHa).
        match goal with Hf : nth_error C ?q = Some (resolve _ _ _ (gen_set3 _ _ _ _)) |- _ =>
          pose proof (set_sim3 p lo ls [] [] ρ L1 x r (with_w s1 w) fid0 C fv K q [] I brk cont HR1 Ht Hf) as IHs end.
        destruct (set_var p ρ x r (with_w s1 w)) as [[ρ1 s2]| | |]; cbn [sim fst snd] in *; auto.
        * destruct IHs as (L2 & HR2 & IHs). unfold after3. exists L2. split; auto.
          chain IHn. chain IH1. chain IHa. chain IHs. fin3.
        * hstar IHn. hstar IH1. hstar IHa. hchain IHs.
        * hstar IHn. hstar IH1. hstar IHa. hchain IHs.
      + (* index *)
        apply andb_true_iff in Ht. destruct Ht as [Hx Hy].
        rewrite gs_aug_index in *. pcode_split. rewrite ?aug_len in *.
        codeof x ltac:(fun Hc => pose proof (IHE stk lo ls [] [] ρ L x s fid0 C fv K pc [] I brk cont Hx HR Hstk Hc) as IH1). nrm.
        simpl exec.
        destruct (eval p n stk ρ x s) as [[vx s1]| | |]; cbn [sim fst snd] in *; auto.
        destruct IH1 as (L1 & HR1 & IH1).
        codeof y ltac:(fun Hc => pose proof (IHE stk lo ls [] [] ρ L1 y s1 fid0 C fv K _ [vx] I brk cont Hy HR1 Hstk Hc) as IH2). nrm.
        destruct (eval p n stk ρ y s1) as [[vy s2]| | |]; cbn [sim fst snd] in *; auto;
          try (hstar IH1; hchain IH2).
        destruct IH2 as (L2 & HR2 & IH2).
        destruct (index_get vx vy (rw s2)) as [old| |t] eqn:Eg; cbn [lift sim fst snd].
        2: { hstar IH1. hstar IH2. eapply halts_star; [ vstep; apply star_refl | vstop1 Eg ]. }
        2: { hstar IH1. hstar IH2. eapply halts_star; [ vstep; apply star_refl | vstop1 Eg ]. }
        assert (Hpre : star cp fn (S3 fid0 C fv K pc [] L I s)
                         (S3 fid0 C fv K (pc + length (gen_expr3 p ls x) + length (gen_expr3 p ls y) + 2)
                             [old; vy; vx] L2 I s2)).
        { chain IH1. chain IH2. vstep. vstep1 Eg. fin. }
        codeof e ltac:(fun Hc => pose proof (IHE stk lo ls [] [] ρ L2 e s2 fid0 C fv K _ [old; vy; vx] I brk cont He HR2 Hstk Hc) as IH3). nrm.
        destruct (eval p n stk ρ e s2) as [[ve s3]| | |]; cbn [sim fst snd] in *; auto;
          try (hstar Hpre; hchain IH3).
        destruct IH3 as (L3 & HR3 & IH3).
        match goal with Hc : pcode_at _ ?q (aug_insn _ _) _ _ |- _ =>
          pose proof (aug_step cp fn o p0 old ve (rw s3) fid0 C fv K q [vy; vx] L3 I (rg s3) brk cont Ho Hc) as IHa end.
        destruct (apply_aug o old ve (rw s3)) as [[r w]| |t] eqn:Ea; cbn [lift sim fst snd];
          try (hstar Hpre; hstar IH3; hchain IHa).
        destruct (index_set vx vy r w) as [w'| |t] eqn:Es; cbn [lift sim fst snd].
        * unfold after3. exists L3. split; auto. chain Hpre. chain IH3. chain IHa. vstep1 Es. fin3.
        * hstar Hpre. hstar IH3. hstar IHa. vstop1 Es.
        * hstar Hpre. hstar IH3. hstar IHa. vstop1 Es.
    - (* SIf *)
      simpl in Hok. apply andb_true_iff in Hok. destruct Hok as [Hok Hfb]. apply andb_true_iff in Hok. destruct Hok as [Hc Htb].
      rewrite gs_if in *. pcode_split.
      condof c ltac:(fun Hcc => pose proof (IHC stk lo ls [] [] ρ L c s fid0 C fv K pc [] I brk cont _ _ Hc HR Hstk Hcc) as IHc). nrm.
      simpl exec.
      destruct (eval p n stk ρ c s) as [[vc s1]| | |]; cbn [sim fst snd] in *; auto.
      destruct IHc as (L1 & HR1 & IHc).
      destruct (truth vc (rw s1)) eqn:Et.
      + match goal with Hcc : pcode_at _ ?q (gen_block3 _ _ tb) _ _ |- _ =>
          pose proof (IHB stk lo ls ρ L1 tb s1 fid0 C fv K q I brk cont Htb HR1 Hstk Hcc) as IH2 end.
        assert (Hpre : star cp fn (S3 fid0 C fv K pc [] L I s)
                         (S3 fid0 C fv K (pc + length (gen_cond3 p ls c 0 (length (gen_block3 p ls tb) + 1))) [] L1 I s1)).
        { chain IHc. fin. }
        eapply sim_move; [ exact Hpre | exact IH2 | ].
        intros r Ha.
        eapply after3_pre; [ exact Hpre | exact Ha | ].
        intros L' s'. vstep. fin.
      + match goal with Hcc : pcode_at _ ?q (gen_block3 _ _ fb) _ _ |- _ =>
          pose proof (IHB stk lo ls ρ L1 fb s1 fid0 C fv K q I brk cont Hfb HR1 Hstk Hcc) as IH2 end.
        assert (Hpre : star cp fn (S3 fid0 C fv K pc [] L I s)
                         (S3 fid0 C fv K (pc + length (gen_cond3 p ls c 0 (length (gen_block3 p ls tb) + 1))
                                            + length (gen_block3 p ls tb) + 1) [] L1 I s1)).
        { chain IHc. fin. }
        eapply sim_move; [ exact Hpre | exact IH2 | ].
        intros r Ha.
        eapply after3_pre; [ exact Hpre | exact Ha | ].
        intros L' s'. fin.
    - (* SWhile *)
      simpl in Hok. apply andb_true_iff in Hok. destruct Hok as [Hc Hb].
      simpl exec.
      pose proof (IHW stk lo ls ρ L c body s fid0 C fv K pc I brk cont Hc Hb HR Hstk Hcode) as IH1.
      eapply sim_move; [ apply star_refl | exact IH1 | ].
      intros [[out ρ'] s'] Ha.
      destruct out; simpl in *; auto; contradiction.
    - (* SFor *)
      simpl in Hok. apply andb_true_iff in Hok. destruct Hok as [Hok Hb]. apply andb_true_iff in Hok. destruct Hok as [Ht He].
      pose proof (fun vs lock s' L' HR' => IHF stk lo ls ρ L' t p0 vs lock body s' fid0 C fv K pc I brk cont e Ht Hb HR' Hstk Hcode) as IHf.
      cbv zeta in IHf.
      rewrite gs_for in *. pcode_split. rewrite ?patch_loop_length in *.
      codeof e ltac:(fun Hc => pose proof (IHE stk lo ls [] [] ρ L e s fid0 C fv K pc [] I brk cont He HR Hstk Hc) as IH1). nrm.
      simpl exec.
      destruct (eval p n stk ρ e s) as [[v s1]| | |]; cbn [sim fst snd] in *; auto.
      destruct IH1 as (L1 & HR1 & IH1).
      destruct (iterate v (rw s1)) as [[[vs lock] w1]| |t0] eqn:Ei; cbn [lift sim fst snd].
      2: { hstar IH1. vstop1 Ei. }
      2: { hstar IH1. vstop1 Ei. }
      specialize (IHf vs lock (with_w s1 w1) L1 HR1).
      assert (Hpre : star cp fn (S3 fid0 C fv K pc [] L I s)
                       (S3 fid0 C fv K (pc + length (gen_expr3 p ls e) + 1) [] L1
                           ({| it_rem := vs; it_lock := lock |} :: I) (with_w s1 w1))).
      { chain IH1. vstep1 Ei. fin. }
      destruct (exec_for p n stk ρ t p0 vs body (with_w s1 w1)) as [[[out ρ2] s2]| | |]; cbn [sim fst snd] in *; auto.
      + destruct out; try contradiction; unfold after3.
        * destruct IHf as (L2 & rem & HR2 & Ha). exists L2. split; auto.
          chain Hpre. chain Ha. norm_state. len_norm. vstep. fin.
        * destruct IHf as [pcr [Ix [rem [wv [L2 [Hr1 [Hr2 Hr3]]]]]]].
          exists pcr, (Ix ++ [{| it_rem := rem; it_lock := lock |}]), wv, L2. repeat split; auto.
          -- rewrite <- app_assoc. simpl. chain Hpre. exact Hr1.
          -- rewrite release_all_app. simpl. rewrite Hr3. reflexivity.
      + hstar Hpre. hchain IHf.
      + hstar Hpre. hchain IHf.
    - (* SBreak *)
      change (gen_stmt3 p ls SBreak) with [BRK] in *. simpl exec. cbn [sim].
      unfold after3.
      destruct brk; pcode_split.
      + exists L. split; auto. vstep. apply star_refl.
      + vstop.
    - (* SContinue *)
      change (gen_stmt3 p ls SContinue) with [CONT] in *. simpl exec. cbn [sim].
      unfold after3.
      destruct cont; pcode_split.
      + exists L. split; auto. vstep. apply star_refl.
      + vstop.
    - (* SPass *)
      simpl exec. cbn [sim]. unfold after3. exists L. split; auto. fin.
    - (* SReturn *)
      destruct e as [e|].
      + simpl in Hok. rewrite gs_return in *. pcode_split.
        codeof e ltac:(fun Hc => pose proof (IHE stk lo ls [] [] ρ L e s fid0 C fv K pc [] I brk cont Hok HR Hstk Hc) as IH1). nrm.
        simpl exec.
        destruct (eval p n stk ρ e s) as [[v s1]| | |]; cbn [sim fst snd] in *; auto.
        destruct IH1 as (L1 & HR1 & IH1).
        unfold after3.
        exists (pc + length (gen_expr3 p ls e)), [], (rw s1), L1. repeat split; auto.
      + change (gen_stmt3 p ls (SReturn None)) with [NONE; RETURN] in *. pcode_split.
        simpl exec. cbn [sim]. unfold after3.
        exists (S pc), [], (rw s), L. repeat split; auto.
        vstep. apply star_refl.
    - (* SDef *)
      match goal with Hok' : ok_stmt3 _ _ _ (SDef ?a ?b ?c ?d ?e) = true |- _ =>
        rename a into did; rename b into dname; rename c into dps; rename d into dbody; rename e into dpos end.
      simpl in Hok.
      apply andb_true_iff in Hok. destruct Hok as [Hok Hmk]. apply andb_true_iff in Hok. destruct Hok as [Hps Hjn].
      pose proof (IHD stk lo ls ρ L dps false s fid0 C fv K pc [] I brk cont Hps HR Hstk) as IH1.
      unfold gen_stmt3 in Hcode |- *; fold gen_stmt3 in Hcode |- *.
      destruct (gen_defaults3 p ls dps false) as [c k] eqn:Eg. cbn [fst snd] in *.
      change [MAKETUPLE (k + length (fun_free p did)); MAKEFUNC did; gen_set3 p ls [] dname]
        with ([MAKETUPLE (k + length (fun_free p did)); MAKEFUNC did] ++ [gen_set3 p ls [] dname]) in *.
      rewrite (app_assoc (map _ _)) in *.
      apply pcode_app in Hcode. destruct Hcode as [Hcd Hcc].
      apply pcode_app in Hcc. destruct Hcc as [Hcm Hcs].
      apply pcode_cons in Hcs. destruct Hcs as [Hcs _].
      rewrite app_length, map_length in Hcs. cbn [length] in Hcs.
      specialize (IH1 Hcd).
      simpl exec.
      destruct (eval_defaults p n stk ρ dps false s) as [[ds s1]| | |]; cbn [sim fst snd] in *; auto.
      destruct IH1 as [Hlen (L1 & HR1 & IH1)].
      pose proof (make_closure p Hfuns lo ls [] ρ L1 fv fid0 C K (pc + length c) [] I s1
                    (mentioned dps dbody) did dpos ds k brk cont HR1 Hmk Hlen Hcm) as Hmc.
      destruct (find_def p did) as [d|]; cbn [sim fst snd].
      2: { hstar IH1. hchain Hmc. }
      pose proof (set_sim3 p lo ls [] [] ρ L1 dname (VFun did ds (capture ρ (mentioned dps dbody))) s1 fid0 C fv K _ [] I brk cont
                    HR1 Hjn Hcs) as IHs.
      assert (Hpre : star cp fn (S3 fid0 C fv K pc [] L I s)
                       (S3 fid0 C fv K (pc + length c + (length (fun_free p did) + 2)) [VFun did ds (capture ρ (mentioned dps dbody))] L1 I s1)).
      { chain IH1. chain Hmc. fin. }
      destruct (set_var p ρ dname (VFun did ds (capture ρ (mentioned dps dbody))) s1) as [[ρ1 s2]| | |]; cbn [sim fst snd] in *; auto.
      + destruct IHs as (L2 & HR2 & IHs). unfold after3. exists L2. split; auto.
        chain Hpre. chain IHs.
        norm_state. apply star_eq. apply St_eq; [ rewrite !app_length, map_length; simpl; lia | reflexivity ].
      + hstar Hpre. hchain IHs.
      + hstar Hpre. hchain IHs.
  Qed.

  Lemma B3_step : forall n, X3 p n -> B3 p n -> B3 p (S n).
  Proof.
    intros n IHX IHB.
    unfold B3; intros stk lo ls ρ L ss s fid C fv K pc I brk cont Hok HR Hstk Hcode.
    destruct ss as [|st r]; simpl exec_block.
    - cbn [sim]. unfold after3. exists L. split; auto. fin.
    - simpl in Hok. apply andb_true_iff in Hok. destruct Hok as [Hst Hr].
      rewrite gb_cons in *. pcode_split.
      match goal with Hc : pcode_at _ _ (gen_stmt3 _ _ st) _ _ |- _ =>
        pose proof (IHX stk lo ls ρ L st s fid C fv K pc I brk cont Hst HR Hstk Hc) as IH1 end.
      destruct (exec p n stk ρ st s) as [[[out ρ1] s1]| | |]; cbn [sim fst snd] in *; auto.
      destruct out.
      + unfold after3 in IH1. destruct IH1 as (L1 & HR1 & Ha).
        match goal with Hc : pcode_at _ ?q (gen_block3 _ _ r) _ _ |- _ =>
          pose proof (IHB stk lo ls ρ1 L1 r s1 fid C fv K _ I brk cont Hr HR1 Hstk Hc) as IH2 end.
        eapply sim_move; [ exact Ha | exact IH2 | ].
        intros r' Ha'.
        eapply after3_pre; [ exact Ha | exact Ha' | ].
        intros L' s'. fin.
      + exact IH1.
      + exact IH1.
      + exact IH1.
  Qed.

  Lemma W3_step : forall n, Cn3 p n -> B3 p n -> W3 p n -> W3 p (S n).
  Proof.
    intros n IHC IHB IHW.
    unfold W3; intros stk lo ls ρ L c body s fid C fv K pc I brk cont Hc Hb HR Hstk Hcode.
    pose proof Hcode as Hwhile.
    (* continuing with the next iteration from the loop head *)
    assert (Hnext : forall ρ2 s2 L2, R3 fv lo ls [] [] ρ2 L2 ->
              star cp fn (S3 fid C fv K pc [] L I s) (S3 fid C fv K pc [] L2 I s2) ->
              sim p (exec_while p n stk ρ2 c body s2) (S3 fid C fv K pc [] L I s)
                (fun r =>
                   let S0 := S3 fid C fv K pc [] L I s in
                   let '(out, ρ', s') := r in
                   match out with
                   | ONormal => exists L', R3 fv lo ls [] [] ρ' L' /\
                                           star cp fn S0 (S3 fid C fv K (pc + length (gen_stmt3 p ls (SWhile c body))) [] L' I s')
                   | OReturn v => exists pcr Ix wv L',
                         star cp fn S0 (St (Fr fid C pcr [v] L' (Ix ++ I) fv) K (rg s') wv)
                         /\ nth_error C pcr = Some RETURN /\ release_all Ix wv = rw s'
                   | _ => False
                   end)).
    { intros ρ2 s2 L2 HR2 Hs.
      pose proof (IHW stk lo ls ρ2 L2 c body s2 fid C fv K pc I brk cont Hc Hb HR2 Hstk Hwhile) as IH.
      eapply sim_move; [ exact Hs | exact IH | ].
      intros [[out ρ'] s'] Ha.
      destruct out; auto.
      - destruct Ha as (L3 & HR3 & Ha). exists L3. split; auto. eapply star_trans; eauto.
      - destruct Ha as [pcr [Ix [wv [L3 [H1 [H2 H3]]]]]]. exists pcr, Ix, wv, L3. repeat split; auto.
        eapply star_trans; eauto. }
    rewrite gs_while in Hcode. pcode_split. rewrite ?patch_loop_length in *.
    condof c ltac:(fun Hcc => pose proof (IHC stk lo ls [] [] ρ L c s fid C fv K pc [] I brk cont _ _ Hc HR Hstk Hcc) as IHc). nrm.
    simpl exec_while.
    destruct (eval p n stk ρ c s) as [[vc s1]| | |]; cbn [sim fst snd] in *; auto.
    destruct IHc as (L1 & HR1 & IHc).
    destruct (truth vc (rw s1)) eqn:Et.
    - match goal with Hp : pcode_at C ?bs (patch_loop _ _ _) _ _ |- _ =>
        pose proof (pcode_patch C bs _ _ _ _ _ Hp ltac:(lia)) as Hbody end.
      pose proof (IHB stk lo ls ρ L1 body s1 fid C fv K _ I _ _ Hb HR1 Hstk Hbody) as IH2.
      assert (Hpre : star cp fn (S3 fid C fv K pc [] L I s)
                       (S3 fid C fv K (pc + length (gen_cond3 p ls c 0 (length (gen_block3 p ls body) + 1))) [] L1 I s1)).
      { chain IHc. fin. }
      destruct (exec_block p n stk ρ body s1) as [[[out ρ2] s2]| | |]; cbn [sim fst snd] in *; auto.
      + unfold after3 in IH2.
        destruct out.
        * destruct IH2 as (L2 & HR2 & Ha). apply (Hnext ρ2 s2 L2 HR2). chain Hpre. chain Ha. vstep. fin.
        * destruct IH2 as (L2 & HR2 & Ha). cbn [sim]. exists L2. split; auto. rewrite gs_while. chain Hpre. chain Ha. fin.
        * destruct IH2 as (L2 & HR2 & Ha). apply (Hnext ρ2 s2 L2 HR2). chain Hpre. chain Ha. fin.
        * cbn [sim].
          destruct IH2 as [pcr [Ix [wv [L2 [H1' [H2' H3']]]]]]. exists pcr, Ix, wv, L2. repeat split; auto.
          chain Hpre. exact H1'.
      + hstar Hpre. hchain IH2.
      + hstar Hpre. hchain IH2.
    - cbn [sim]. exists L1. split; auto. rewrite gs_while. chain IHc. fin.
  Qed.

  Lemma F3_step : forall n, As3 p n -> B3 p n -> F3 p n -> F3 p (S n).
  Proof.
    intros n IHA IHB IHF.
    unfold F3; intros stk lo ls ρ L t ps vs lock body s fid C fv K pc I brk cont e Ht Hb HR Hstk Hcode.
    cbv zeta.
    pose proof Hcode as Hfor.
    set (head := pc + length (gen_expr3 p ls e) + 1) in *.
    (* continuing with the next element from the loop head *)
    assert (Hnext : forall ρ2 s2 L2 vs', R3 fv lo ls [] [] ρ2 L2 ->
              star cp fn (S3 fid C fv K head [] L ({| it_rem := vs; it_lock := lock |} :: I) s)
                         (S3 fid C fv K head [] L2 ({| it_rem := vs'; it_lock := lock |} :: I) s2) ->
              sim p (exec_for p n stk ρ2 t ps vs' body s2)
                (S3 fid C fv K head [] L ({| it_rem := vs; it_lock := lock |} :: I) s)
                (fun r =>
                   let '(out, ρ', s') := r in
                   match out with
                   | ONormal => exists L' rem, R3 fv lo ls [] [] ρ' L' /\
                       star cp fn (S3 fid C fv K head [] L ({| it_rem := vs; it_lock := lock |} :: I) s)
                            (S3 fid C fv K (pc + length (gen_stmt3 p ls (SFor t e body ps)) - 1) [] L'
                                ({| it_rem := rem; it_lock := lock |} :: I) s')
                   | OReturn v => exists pcr Ix rem wv L',
                       star cp fn (S3 fid C fv K head [] L ({| it_rem := vs; it_lock := lock |} :: I) s)
                            (St (Fr fid C pcr [v] L' (Ix ++ {| it_rem := rem; it_lock := lock |} :: I) fv) K (rg s') wv)
                       /\ nth_error C pcr = Some RETURN /\ release_all Ix wv = rw s'
                   | _ => False
                   end)).
    { intros ρ2 s2 L2 vs' HR2 Hs.
      pose proof (IHF stk lo ls ρ2 L2 t ps vs' lock body s2 fid C fv K pc I brk cont e Ht Hb HR2 Hstk Hfor) as IH.
      cbv zeta in IH. fold head in IH.
      eapply sim_move; [ exact Hs | exact IH | ].
      intros [[out ρ'] s'] Ha.
      destruct out; auto.
      - destruct Ha as (L3 & rem & HR3 & Ha). exists L3, rem. split; auto. eapply star_trans; eauto.
      - destruct Ha as [pcr [Ix [rem [wv [L3 [H1 [H2 H3]]]]]]]. exists pcr, Ix, rem, wv, L3. repeat split; auto.
        eapply star_trans; eauto. }
    rewrite gs_for in Hcode. pcode_split. rewrite ?patch_loop_length in *.
    destruct vs as [|v vs']; simpl exec_for.
    - cbn [sim]. exists L, []. split; auto. rewrite gs_for. unfold head. vstep. fin.
    - match goal with Hc : pcode_at _ ?q (gen_assign3 _ _ _ _) _ _ |- _ =>
        pose proof (IHA stk lo ls [] [] ρ L t v ps s fid C fv K q [] ({| it_rem := vs'; it_lock := lock |} :: I) brk cont Ht HR Hstk Hc) as IH1 end.
      nrm.
      assert (Hpre : star cp fn (S3 fid C fv K head [] L ({| it_rem := v :: vs'; it_lock := lock |} :: I) s)
                       (S3 fid C fv K (head + 1) [v] L ({| it_rem := vs'; it_lock := lock |} :: I) s)).
      { unfold head. vstep. fin. }
      destruct (assign p n stk ρ t v ps s) as [[ρ1 s1]| | |]; cbn [sim fst snd] in *; auto.
      2: { hstar Hpre. unfold head. hchain IH1. }
      2: { hstar Hpre. unfold head. hchain IH1. }
      destruct IH1 as (L1 & HR1 & IH1).
      match goal with Hp : pcode_at C ?bs (patch_loop _ _ _) _ _ |- _ =>
        pose proof (pcode_patch C bs _ _ _ _ _ Hp ltac:(lia)) as Hbody end.
      pose proof (IHB stk lo ls ρ1 L1 body s1 fid C fv K _ ({| it_rem := vs'; it_lock := lock |} :: I) _ _ Hb HR1 Hstk Hbody) as IH2.
      assert (Hpre2 : star cp fn (S3 fid C fv K head [] L ({| it_rem := v :: vs'; it_lock := lock |} :: I) s)
                        (S3 fid C fv K (head + 1 + length (gen_assign3 p ls t ps)) [] L1
                            ({| it_rem := vs'; it_lock := lock |} :: I) s1)).
      { chain Hpre. unfold head. chain IH1. unfold head. fin. }
      destruct (exec_block p n stk ρ1 body s1) as [[[out ρ2] s2]| | |]; cbn [sim fst snd] in *; auto.
      + unfold after3 in IH2.
        destruct out.
        * destruct IH2 as (L2 & HR2 & Ha). apply (Hnext ρ2 s2 L2 vs' HR2).
          chain Hpre2. unfold head. chain Ha. unfold head. vstep. fin.
        * destruct IH2 as (L2 & HR2 & Ha). cbn [sim]. exists L2, vs'. split; auto. rewrite gs_for.
          chain Hpre2. unfold head. chain Ha. unfold head. fin.
        * destruct IH2 as (L2 & HR2 & Ha). apply (Hnext ρ2 s2 L2 vs' HR2).
          chain Hpre2. unfold head. chain Ha. unfold head. fin.
        * cbn [sim].
          destruct IH2 as [pcr [Ix [wv [L2 [H1' [H2' H3']]]]]]. exists pcr, Ix, vs', wv, L2. repeat split; auto.
          chain Hpre2. unfold head. eapply star_from_eq; [ | exact H1' ]. state_eq.
      + hstar Hpre2. unfold head. hchain IH2.
      + hstar Hpre2. unfold head. hchain IH2.
  Qed.
End Stmt3.
