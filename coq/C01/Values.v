(* C01 -- value domain and primitive operations shared by the reference
   evaluator (Ref.v) and the virtual machine (VM.v).  The built-in library is
   an oracle for this property: its own semantics belong to C10-C13.  In the
   proofs every definition of this file is used opaquely (never unfolded); it
   is concrete only so that both sides can be executed against the real code.
   No proofs in this file. *)
From Coq Require Import ZArith String List Bool Ascii DecimalString.
From SV Require Import C01.Syntax.
Import ListNotations.
Open Scope string_scope.
Open Scope Z_scope.

Inductive value :=
| VNone
| VBool (b : bool)
| VInt (z : Z)
| VStr (s : string)
| VTuple (vs : list value)
| VRef (a : nat)                                   (* list or dict in the heap *)
| VRange (start stop step : Z)
| VFun (fid : nat) (defaults : list value) (free : list (string * nat))   (* closure: captured VARIABLES (cells) *)
| VBuiltin (name : string)                         (* universal / predeclared built-in function *)
| VMethod (name : string) (recv : value)           (* bound built-in method *)
| VMandatory                                       (* sentinel in a defaults tuple: required keyword-only parameter *)
| VCell (c : nat).                                 (* VM only: a cell pushed by FREE / LOCAL for MAKEFUNC *)

Inductive obj :=
| OList (vs : list value) (iters : nat)
| ODict (kvs : list (value * value)) (iters : nat).

(* one host-visible effect: a call of trace(...) with rendered argument values *)
Definition event := (list string * list (string * string))%type.

Record world := { heap : list obj; cells : list (option value); trace : list event }.

(* A frozen object is modelled as one with a permanent iterator: every operation that
   would mutate it fails, exactly like a container that is being iterated (both are
   "may not be mutated now"; error messages are not compared). *)
Definition frozen_mark : nat := 64 * 64.

(* the world in which a module starts: the two frozen containers that the host's
   module "m.star" exports (a frozen list at address 0, a frozen dict at address 1) *)
Definition empty_world : world :=
  {| heap := [OList [VInt 1; VInt 2] frozen_mark; ODict [(VStr "k", VInt 1)] frozen_mark]; cells := []; trace := [] |}.

(* result of a primitive: value, dynamic error, or outside the modelled library *)
Inductive pres (A : Type) := POk (a : A) | PErr | PUnsup (tag : string).
Arguments POk {A}. Arguments PErr {A}. Arguments PUnsup {A}.

Definition pbind {A B} (x : pres A) (f : A -> pres B) : pres B :=
  match x with POk a => f a | PErr => PErr | PUnsup t => PUnsup t end.
Notation "'plet' x <- a ; b" := (pbind a (fun x => b)) (at level 200, x pattern, a at level 100, b at level 200).

Definition deep_fuel : nat := 64.
(* values larger than this are outside the executable model (the evaluators would not finish) *)
Definition big_value : nat := 200 * 100.

(* ---------------------------------------------------------------- heap *)
Fixpoint upd_nth {A} (n : nat) (x : A) (l : list A) : list A :=
  match l, n with
  | [], _ => []
  | _ :: r, O => x :: r
  | a :: r, S n => a :: upd_nth n x r
  end.

Definition set_heap (w : world) (h : list obj) : world := {| heap := h; cells := cells w; trace := trace w |}.
Definition alloc (o : obj) (w : world) : nat * world := (length (heap w), set_heap w (heap w ++ [o])).
Definition get_obj (w : world) (a : nat) : option obj := nth_error (heap w) a.
Definition put_obj (w : world) (a : nat) (o : obj) : world := set_heap w (upd_nth a o (heap w)).

Definition alloc_list (vs : list value) (w : world) : value * world :=
  let '(a, w') := alloc (OList vs 0) w in (VRef a, w').
Definition alloc_dict (kvs : list (value * value)) (w : world) : value * world :=
  let '(a, w') := alloc (ODict kvs 0) w in (VRef a, w').

Definition alloc_cell (v : option value) (w : world) : nat * world :=
  (length (cells w), {| heap := heap w; cells := cells w ++ [v]; trace := trace w |}).
Definition get_cell (w : world) (c : nat) : option value :=
  match nth_error (cells w) c with Some v => v | None => None end.
Definition set_cell (w : world) (c : nat) (v : value) : world :=
  {| heap := heap w; cells := upd_nth c (Some v) (cells w); trace := trace w |}.

Definition add_event (e : event) (w : world) : world :=
  {| heap := heap w; cells := cells w; trace := trace w ++ [e] |}.

(* After a module has been initialised all its values are frozen.  Everything a later
   entry into the module can reach is reachable from its globals, so freezing every
   object of the heap is observationally the same. *)
Definition freeze_obj (o : obj) : obj :=
  match o with
  | OList vs n => OList vs (n + frozen_mark)
  | ODict kvs n => ODict kvs (n + frozen_mark)
  end.
Definition freeze_all (w : world) : world :=
  {| heap := map freeze_obj (heap w); cells := cells w; trace := trace w |}.

(* ---------------------------------------------------------------- truth, equality, ordering *)
Definition range_len (a b s : Z) : Z :=
  if 0 <? s then (if a <? b then (b - a + s - 1) / s else 0)
  else (if b <? a then (a - b + (- s) - 1) / (- s) else 0).

Definition truth (v : value) (w : world) : bool :=
  match v with
  | VNone => false
  | VBool b => b
  | VInt z => negb (z =? 0)
  | VStr s => negb (String.eqb s "")
  | VTuple vs => match vs with [] => false | _ => true end
  | VRef a => match get_obj w a with
              | Some (OList [] _) => false | Some (ODict [] _) => false | _ => true end
  | VRange a b s => 0 <? range_len a b s
  | VMandatory => false
  | _ => true
  end.

(* deep equality; None = fuel exhausted (cyclic or very deep structure) *)
Fixpoint veq (fuel : nat) (w : world) (x y : value) {struct fuel} : option bool :=
  match fuel with
  | O => None
  | S fuel =>
    let fix all2 (xs ys : list value) : option bool :=
      match xs, ys with
      | [], [] => Some true
      | a :: xs, b :: ys => match veq fuel w a b with
                            | Some true => all2 xs ys | r => r end
      | _, _ => Some false
      end in
    match x, y with
    | VNone, VNone => Some true
    | VBool a, VBool b => Some (Bool.eqb a b)
    | VInt a, VInt b => Some (a =? b)
    | VStr a, VStr b => Some (String.eqb a b)
    | VTuple a, VTuple b => all2 a b
    | VRef a, VRef b =>
        if Nat.eqb a b then Some true else
        match get_obj w a, get_obj w b with
        | Some (OList xs _), Some (OList ys _) => all2 xs ys
        | Some (ODict xs _), Some (ODict ys _) =>
            if negb (Nat.eqb (length xs) (length ys)) then Some false else
            (fix each (l : list (value * value)) : option bool :=
               match l with
               | [] => Some true
               | (k, v) :: r =>
                   match (fix find (m : list (value * value)) : option (option value) :=
                            match m with
                            | [] => Some None
                            | (k', v') :: m' => match veq fuel w k k' with
                                                | Some true => Some (Some v')
                                                | Some false => find m'
                                                | None => None end
                            end) ys with
                   | None => None
                   | Some None => Some false
                   | Some (Some v') => match veq fuel w v v' with Some true => each r | o => o end
                   end
               end) xs
        | _, _ => Some false
        end
    | VRange a b s, VRange a' b' s' =>
        let n := range_len a b s in
        if negb (n =? range_len a' b' s') then Some false
        else if n =? 0 then Some true
        else if negb (a =? a') then Some false
        else if n =? 1 then Some true else Some (s =? s')
    | VFun f _ _, VFun g _ _ => None       (* identity of function values is not modelled *)
    | VBuiltin a, VBuiltin b => Some (String.eqb a b)
    | VMethod _ _, VMethod _ _ => None
    | _, _ => Some false
    end
  end.

Definition cmp_of (o : binop) (c : comparison) : bool :=
  match o, c with
  | Lt, Datatypes.Lt | Le, Datatypes.Lt | Le, Datatypes.Eq | Ge, Datatypes.Eq | Ge, Datatypes.Gt | Gt, Datatypes.Gt => true
  | _, _ => false
  end.

(* ordered comparison  x o y  for o in Lt Le Gt Ge *)
Fixpoint vcmp (fuel : nat) (w : world) (o : binop) (x y : value) {struct fuel} : pres bool :=
  match fuel with
  | O => PUnsup "deep-compare"
  | S fuel =>
    let fix seq (xs ys : list value) : pres bool :=
      match xs, ys with
      | a :: xs', b :: ys' =>
          match veq fuel w a b with
          | None => PUnsup "deep-compare"
          | Some true => seq xs' ys'
          | Some false => vcmp fuel w o a b
          end
      | _, _ => POk (cmp_of o (Nat.compare (length xs) (length ys)))
      end in
    match x, y with
    | VInt a, VInt b => POk (cmp_of o (Z.compare a b))
    | VStr a, VStr b => POk (cmp_of o (String.compare a b))
    | VBool a, VBool b => POk (cmp_of o (Nat.compare (if a then 1 else 0) (if b then 1 else 0)))
    | VTuple a, VTuple b => seq a b
    | VRef a, VRef b =>
        match get_obj w a, get_obj w b with
        | Some (OList xs _), Some (OList ys _) => seq xs ys
        | _, _ => PErr
        end
    | _, _ => PErr
    end
  end.

(* ---------------------------------------------------------------- hashing / dict *)
Fixpoint hashable (v : value) : pres bool :=
  match v with
  | VNone | VBool _ | VInt _ | VStr _ | VBuiltin _ => POk true
  | VTuple vs => (fix all (l : list value) : pres bool :=
                    match l with [] => POk true
                    | a :: r => match hashable a with POk true => all r | x => x end end) vs
  | VRef _ => POk false
  | VRange _ _ _ => POk false
  | VFun _ _ _ => PUnsup "hash-function"
  | VMethod _ _ => PUnsup "hash-method"
  | _ => POk false
  end.

Fixpoint dict_find (w : world) (k : value) (kvs : list (value * value)) : pres (option value) :=
  match kvs with
  | [] => POk None
  | (k', v) :: r => match veq deep_fuel w k k' with
                    | None => PUnsup "deep-eq"
                    | Some true => POk (Some v)
                    | Some false => dict_find w k r
                    end
  end.

Fixpoint dict_put (w : world) (k v : value) (kvs : list (value * value)) : pres (list (value * value)) :=
  match kvs with
  | [] => POk [(k, v)]
  | (k', v') :: r => match veq deep_fuel w k k' with
                     | None => PUnsup "deep-eq"
                     | Some true => POk ((k', v) :: r)
                     | Some false => plet r' <- dict_put w k v r; POk ((k', v') :: r')
                     end
  end.

Definition need_hashable {A} (k : value) (f : pres A) : pres A :=
  match hashable k with POk true => f | POk false => PErr | PErr => PErr | PUnsup t => PUnsup t end.

(* insert every entry of ys into xs (later values win, first positions are kept) *)
Fixpoint dict_add_all (w : world) (ys xs : list (value * value)) : pres (list (value * value)) :=
  match ys with
  | [] => POk xs
  | (k, v) :: r => plet xs' <- dict_put w k v xs; dict_add_all w r xs'
  end.

(* ---------------------------------------------------------------- rendering *)
Definition zstr (z : Z) : string := NilZero.string_of_int (Z.to_int z).

Definition plain_char (c : ascii) : bool :=
  let n := nat_of_ascii c in
  (Nat.leb 32 n && Nat.leb n 126 && negb (Nat.eqb n 34) && negb (Nat.eqb n 92))%bool.
Fixpoint plain_string (s : string) : bool :=
  match s with EmptyString => true | String c r => plain_char c && plain_string r end.

Definition join (sep : string) (l : list string) : string := String.concat sep l.

Definition type_name (v : value) (w : world) : string :=
  match v with
  | VNone => "NoneType" | VBool _ => "bool" | VInt _ => "int" | VStr _ => "string"
  | VTuple _ => "tuple"
  | VRef a => match get_obj w a with Some (ODict _ _) => "dict" | _ => "list" end
  | VRange _ _ _ => "range" | VFun _ _ _ => "function"
  | VBuiltin _ | VMethod _ _ => "builtin_function_or_method"
  | VMandatory => "mandatory" | VCell _ => "cell"
  end.

Section Repr.
  Variable fname : nat -> string.       (* name of the function with a given id *)

  (* None = not renderable in the modelled subset *)
  Fixpoint repr (fuel : nat) (w : world) (v : value) {struct fuel} : option string :=
    match fuel with
    | O => None
    | S fuel =>
      let fix many (l : list value) : option (list string) :=
        match l with
        | [] => Some []
        | a :: r => match repr fuel w a, many r with
                    | Some s, Some ss => Some (s :: ss) | _, _ => None end
        end in
      match v with
      | VNone => Some "None"
      | VBool true => Some "True"
      | VBool false => Some "False"
      | VInt z => Some (zstr z)
      | VStr s => if plain_string s then Some ("""" ++ s ++ """") else None
      | VTuple [a] => match repr fuel w a with Some s => Some ("(" ++ s ++ ",)") | None => None end
      | VTuple vs => match many vs with Some ss => Some ("(" ++ join ", " ss ++ ")") | None => None end
      | VRef a =>
          match get_obj w a with
          | Some (OList vs _) => match many vs with Some ss => Some ("[" ++ join ", " ss ++ "]") | None => None end
          | Some (ODict kvs _) =>
              match (fix ents (l : list (value * value)) : option (list string) :=
                       match l with
                       | [] => Some []
                       | (k, x) :: r => match repr fuel w k, repr fuel w x, ents r with
                                        | Some a, Some b, Some ss => Some ((a ++ ": " ++ b) :: ss)
                                        | _, _, _ => None end
                       end) kvs with
              | Some ss => Some ("{" ++ join ", " ss ++ "}") | None => None end
          | None => None
          end
      | VRange a b s =>
          if s =? 1 then
            (if a =? 0 then Some ("range(" ++ zstr b ++ ")")
             else Some ("range(" ++ zstr a ++ ", " ++ zstr b ++ ")"))
          else Some ("range(" ++ zstr a ++ ", " ++ zstr b ++ ", " ++ zstr s ++ ")")
      | VFun fid _ _ => Some ("<function " ++ fname fid ++ ">")
      | VBuiltin n => Some ("<built-in function " ++ n ++ ">")
      | VMethod n r => Some ("<built-in method " ++ n ++ " of " ++ type_name r w ++ " value>")
      | VMandatory => Some "mandatory"
      | VCell _ => None
      end
    end.

  Definition to_str (w : world) (v : value) : option string :=
    match v with VStr s => Some s | _ => repr deep_fuel w v end.
End Repr.

(* ---------------------------------------------------------------- unary / binary *)
Definition unary (o : unop) (v : value) : pres value :=
  match o, v with
  | UNeg, VInt z => POk (VInt (- z))
  | UPos, VInt z => POk (VInt z)
  | UTilde, VInt z => POk (VInt (Z.lnot z))
  | _, _ => PErr
  end.

Fixpoint repeat_list {A} (n : nat) (l : list A) : list A :=
  match n with O => [] | S n => l ++ repeat_list n l end.
Fixpoint repeat_str (n : nat) (s : string) : string :=
  match n with O => "" | S n => s ++ repeat_str n s end.

Definition rep_count (n : Z) (len : nat) : pres nat :=
  if n <=? 0 then POk O
  else if 2000 <? n * Z.of_nat len then PUnsup "big-repeat" else POk (Z.to_nat n).

Fixpoint is_substr (fuel : nat) (a s : string) : bool :=
  if String.prefix a s then true else
  match fuel, s with
  | S fuel, String _ r => is_substr fuel a r
  | _, _ => false
  end.

Definition list_mem (w : world) (x : value) : list value -> pres bool :=
  fix go l := match l with
              | [] => POk false
              | a :: r => match veq deep_fuel w x a with
                          | None => PUnsup "deep-eq" | Some true => POk true | Some false => go r end
              end.

Definition in_range (z a b s : Z) : bool :=
  if 0 <? s then (a <=? z) && (z <? b) && ((z - a) mod s =? 0)
  else (b <? z) && (z <=? a) && ((a - z) mod (- s) =? 0).

Definition binary (o : binop) (x y : value) (w : world) : pres (value * world) :=
  let ok v := POk (v, w) in
  match o with
  | Eq => match veq deep_fuel w x y with Some b => ok (VBool b) | None => PUnsup "deep-eq" end
  | Ne => match veq deep_fuel w x y with Some b => ok (VBool (negb b)) | None => PUnsup "deep-eq" end
  | Lt | Le | Gt | Ge => plet b <- vcmp deep_fuel w o x y; ok (VBool b)
  | In | NotIn =>
      let fin (b : bool) := ok (VBool (match o with In => b | _ => negb b end)) in
      match y with
      | VTuple vs => plet b <- list_mem w x vs; fin b
      | VRef a => match get_obj w a with
                  | Some (OList vs _) => plet b <- list_mem w x vs; fin b
                  | Some (ODict kvs _) => need_hashable x (plet r <- dict_find w x kvs; fin (match r with Some _ => true | None => false end))
                  | None => PErr end
      | VStr s => match x with VStr a => fin (is_substr (String.length s) a s) | _ => PErr end
      | VRange a b s => match x with VInt z => fin (in_range z a b s) | _ => PErr end
      | _ => PErr
      end
  | Add =>
      match x, y with
      | VInt a, VInt b => ok (VInt (a + b))
      | VStr a, VStr b => if Nat.ltb big_value (String.length a + String.length b) then PUnsup "big-value"
                          else ok (VStr (a ++ b))
      | VTuple a, VTuple b => if Nat.ltb big_value (length a + length b) then PUnsup "big-value"
                              else ok (VTuple (a ++ b))
      | VRef a, VRef b => match get_obj w a, get_obj w b with
                          | Some (OList xs _), Some (OList ys _) =>
                              if Nat.ltb big_value (length xs + length ys) then PUnsup "big-value"
                              else POk (alloc_list (xs ++ ys) w)
                          | _, _ => PErr end
      | _, _ => PErr
      end
  | Sub => match x, y with VInt a, VInt b => ok (VInt (a - b)) | _, _ => PErr end
  | Mul =>
      let rep_seq (v : value) (n : Z) :=
        match v with
        | VStr s => plet k <- rep_count n (String.length s); ok (VStr (repeat_str k s))
        | VTuple vs => plet k <- rep_count n (length vs); ok (VTuple (repeat_list k vs))
        | VRef a => match get_obj w a with
                    | Some (OList vs _) => plet k <- rep_count n (length vs); POk (alloc_list (repeat_list k vs) w)
                    | _ => PErr end
        | _ => PErr
        end in
      match x, y with
      | VInt a, VInt b => ok (VInt (a * b))
      | VInt a, _ => rep_seq y a
      | _, VInt b => rep_seq x b
      | _, _ => PErr
      end
  | Div => match x, y with
           | VInt a, VInt b => if b =? 0 then PErr else PUnsup "float"
           | _, _ => PErr end
  | FloorDiv => match x, y with
                | VInt a, VInt b => if b =? 0 then PErr else ok (VInt (a / b))
                | _, _ => PErr end
  | Mod => match x, y with
           | VInt a, VInt b => if b =? 0 then PErr else ok (VInt (a mod b))
           | VStr _, _ => PUnsup "string-format"
           | _, _ => PErr end
  | BitAnd => match x, y with VInt a, VInt b => ok (VInt (Z.land a b)) | _, _ => PErr end
  | BitOr => match x, y with
             | VInt a, VInt b => ok (VInt (Z.lor a b))
             | VRef a, VRef b =>
                 match get_obj w a, get_obj w b with
                 | Some (ODict xs _), Some (ODict ys _) =>
                     plet r <- dict_add_all w ys xs; POk (alloc_dict r w)
                 | _, _ => PErr end
             | _, _ => PErr end
  | BitXor => match x, y with VInt a, VInt b => ok (VInt (Z.lxor a b)) | _, _ => PErr end
  | Shl => match x, y with
           | VInt a, VInt b => if (b <? 0) || (512 <=? b) then PErr else ok (VInt (Z.shiftl a b))
           | _, _ => PErr end
  | Shr => match x, y with
           | VInt a, VInt b => if b <? 0 then PErr else ok (VInt (Z.shiftr a b))
           | _, _ => PErr end
  end.

(* ---------------------------------------------------------------- iteration *)
Fixpoint range_elems (n : nat) (a s : Z) : list value :=
  match n with O => [] | S n => VInt a :: range_elems n (a + s) s end.

(* snapshot of the elements, the object that stays locked while the iterator is
   live, and the world with the lock taken *)
Definition iterate (v : value) (w : world) : pres (list value * option nat * world) :=
  match v with
  | VTuple vs => POk (vs, None, w)
  | VRef a =>
      match get_obj w a with
      | Some (OList vs n) => POk (vs, Some a, put_obj w a (OList vs (S n)))
      | Some (ODict kvs n) => POk (map fst kvs, Some a, put_obj w a (ODict kvs (S n)))
      | None => PErr
      end
  | VRange a b s =>
      let n := range_len a b s in
      if 5000 <? n then PUnsup "big-range" else POk (range_elems (Z.to_nat n) a s, None, w)
  | _ => PErr
  end.

Definition release (lock : option nat) (w : world) : world :=
  match lock with
  | None => w
  | Some a => match get_obj w a with
              | Some (OList vs n) => put_obj w a (OList vs (pred n))
              | Some (ODict kvs n) => put_obj w a (ODict kvs (pred n))
              | None => w end
  end.

(* elements of an iterable without keeping a lock *)
Definition elements (v : value) (w : world) : pres (list value) :=
  plet r <- iterate v w; let '(vs, _, _) := r in POk vs.

(* ---------------------------------------------------------------- indexing *)
Definition norm_index (i : Z) (n : nat) : option nat :=
  let i' := if i <? 0 then i + Z.of_nat n else i in
  if (i' <? 0) || (Z.of_nat n <=? i') then None else Some (Z.to_nat i').

Definition index_get (x i : value) (w : world) : pres value :=
  match x with
  | VTuple vs => match i with
                 | VInt z => match norm_index z (length vs) with
                             | Some k => match nth_error vs k with Some v => POk v | None => PErr end
                             | None => PErr end
                 | _ => PErr end
  | VStr s => match i with
              | VInt z => match norm_index z (String.length s) with
                          | Some k => POk (VStr (substring k 1 s)) | None => PErr end
              | _ => PErr end
  | VRange a b s => match i with
                    | VInt z => match norm_index z (Z.to_nat (range_len a b s)) with
                                | Some k => POk (VInt (a + Z.of_nat k * s)) | None => PErr end
                    | _ => PErr end
  | VRef a =>
      match get_obj w a with
      | Some (OList vs _) => match i with
                             | VInt z => match norm_index z (length vs) with
                                         | Some k => match nth_error vs k with Some v => POk v | None => PErr end
                                         | None => PErr end
                             | _ => PErr end
      | Some (ODict kvs _) =>
          need_hashable i (plet r <- dict_find w i kvs; match r with Some v => POk v | None => PErr end)
      | None => PErr
      end
  | _ => PErr
  end.

Definition index_set (x i v : value) (w : world) : pres world :=
  match x with
  | VRef a =>
      match get_obj w a with
      | Some (OList vs n) =>
          if negb (Nat.eqb n 0) then PErr else
          match i with
          | VInt z => match norm_index z (length vs) with
                      | Some k => POk (put_obj w a (OList (upd_nth k v vs) n))
                      | None => PErr end
          | _ => PErr end
      | Some (ODict kvs n) =>
          need_hashable i (
            if negb (Nat.eqb n 0) then PErr else
            plet kvs' <- dict_put w i v kvs; POk (put_obj w a (ODict kvs' n)))
      | None => PErr
      end
  | _ => PErr
  end.

(* x[lo:hi:step] *)
Definition as_index (v : value) (n : Z) (dflt : Z) : pres Z :=
  match v with
  | VNone => POk dflt
  | VInt i => POk (if i <? 0 then i + n else i)
  | _ => PErr
  end.

Fixpoint slice_up (fuel : nat) (i e s : Z) : list nat :=
  match fuel with
  | O => []
  | S fuel => if i <? e then Z.to_nat i :: slice_up fuel (i + s) e s else []
  end.
Fixpoint slice_down (fuel : nat) (i e s : Z) : list nat :=
  match fuel with
  | O => []
  | S fuel => if e <? i then Z.to_nat i :: slice_down fuel (i + s) e s else []
  end.

Definition slice_indices (n : nat) (lo hi step : value) : pres (list nat) :=
  let zn := Z.of_nat n in
  plet st <- (match step with VNone => POk 1 | VInt s => if s =? 0 then PErr else POk s | _ => PErr end);
  if 0 <? st then
    plet a <- as_index lo zn 0;
    plet b <- as_index hi zn zn;
    let a := Z.max 0 (Z.min a zn) in
    let b := Z.max 0 (Z.min b zn) in
    POk (slice_up n a b st)
  else
    plet a <- as_index lo zn (zn - 1);
    plet b <- as_index hi zn (-1);
    let a := if zn <=? a then zn - 1 else a in
    let b := if b <? -1 then -1 else b in
    POk (slice_down n a b st).

Definition pick {A} (l : list A) (ix : list nat) : list A :=
  flat_map (fun i => match nth_error l i with Some a => [a] | None => [] end) ix.

Definition slice_op (x lo hi step : value) (w : world) : pres (value * world) :=
  match x with
  | VStr s => plet ix <- slice_indices (String.length s) lo hi step;
              POk (VStr (String.concat "" (map (fun i => substring i 1 s) ix)), w)
  | VTuple vs => plet ix <- slice_indices (length vs) lo hi step; POk (VTuple (pick vs ix), w)
  | VRef a => match get_obj w a with
              | Some (OList vs _) => plet ix <- slice_indices (length vs) lo hi step; POk (alloc_list (pick vs ix) w)
              | _ => PErr end
  | VRange _ _ _ => PUnsup "range-slice"
  | _ => PErr
  end.

(* is k a key of dict d?  (used for the duplicate-key rule of dict displays) *)
Definition index_get_opt (d k : value) (w : world) : pres bool :=
  match d with
  | VRef a => match get_obj w a with
              | Some (ODict kvs _) =>
                  need_hashable k (plet r <- dict_find w k kvs; POk (match r with Some _ => true | None => false end))
              | _ => PErr end
  | _ => PErr
  end.

(* x += y : lists are extended in place, everything else is x + y *)
Definition inplace_add (x y : value) (w : world) : pres (value * world) :=
  match x with
  | VRef a =>
      match get_obj w a with
      | Some (OList vs n) =>
          match iterate y w with
          | POk (ys, lock, w1) =>
              let w2 := release lock w1 in
              if negb (Nat.eqb n 0) then PErr
              else match get_obj w2 a with
                   | Some (OList vs2 n2) =>
                       if Nat.ltb big_value (length vs2 + length ys) then PUnsup "big-value"
                       else POk (x, put_obj w2 a (OList (vs2 ++ ys) n2))
                   | _ => PErr end
          | PErr => binary Add x y w
          | PUnsup t => PUnsup t
          end
      | _ => binary Add x y w
      end
  | _ => binary Add x y w
  end.

(* UNPACK n: exactly n elements *)
Definition unpack (n : nat) (v : value) (w : world) : pres (list value) :=
  match v with
  | VStr _ => PErr
  | _ => plet vs <- elements v w; if Nat.eqb (length vs) n then POk vs else PErr
  end.

(* ---------------------------------------------------------------- attributes and built-ins *)
Definition str_in (s : string) (l : list string) : bool := existsb (String.eqb s) l.

Definition list_methods := ["append"; "clear"; "extend"; "index"; "insert"; "pop"; "remove"].
Definition dict_methods := ["clear"; "get"; "items"; "keys"; "pop"; "popitem"; "setdefault"; "update"; "values"].
Definition string_methods :=
  ["capitalize"; "codepoint_ords"; "codepoints"; "count"; "elem_ords"; "elems"; "endswith"; "find"; "format";
   "index"; "isalnum"; "isalpha"; "isdigit"; "islower"; "isspace"; "istitle"; "isupper"; "join"; "lower";
   "lstrip"; "partition"; "removeprefix"; "removesuffix"; "replace"; "rfind"; "rindex"; "rpartition";
   "rsplit"; "rstrip"; "split"; "splitlines"; "startswith"; "strip"; "title"; "upper"].

Definition getattr (x : value) (name : string) (w : world) : pres value :=
  match x with
  | VStr _ => if str_in name string_methods then POk (VMethod name x) else PErr
  | VRef a => match get_obj w a with
              | Some (OList _ _) => if str_in name list_methods then POk (VMethod name x) else PErr
              | Some (ODict _ _) => if str_in name dict_methods then POk (VMethod name x) else PErr
              | None => PErr end
  | VFun _ _ _ => PUnsup "function-attr"
  | _ => PErr
  end.

Definition universe_names : list string :=
  ["None"; "True"; "False"; "abs"; "any"; "all"; "bool"; "bytes"; "chr"; "dict"; "dir"; "enumerate"; "fail";
   "float"; "getattr"; "hasattr"; "hash"; "int"; "len"; "list"; "max"; "min"; "ord"; "print"; "range";
   "repr"; "reversed"; "set"; "sorted"; "str"; "tuple"; "type"; "zip"].

Definition universal (x : string) : option value :=
  if String.eqb x "None" then Some VNone
  else if String.eqb x "True" then Some (VBool true)
  else if String.eqb x "False" then Some (VBool false)
  else if str_in x universe_names then Some (VBuiltin x) else None.

Definition predeclared_names : list string := ["trace"].

(* ASCII string helpers for the few string methods the generator uses *)
Definition is_lower (c : ascii) : bool := let n := nat_of_ascii c in (Nat.leb 97 n && Nat.leb n 122)%bool.
Definition is_upper (c : ascii) : bool := let n := nat_of_ascii c in (Nat.leb 65 n && Nat.leb n 90)%bool.
Definition is_ascii (c : ascii) : bool := Nat.leb (nat_of_ascii c) 127.
Definition to_upper (c : ascii) : ascii := if is_lower c then ascii_of_nat (nat_of_ascii c - 32) else c.
Definition to_lower (c : ascii) : ascii := if is_upper c then ascii_of_nat (nat_of_ascii c + 32) else c.
Definition is_space (c : ascii) : bool :=
  let n := nat_of_ascii c in (Nat.eqb n 32 || (Nat.leb 9 n && Nat.leb n 13))%bool.
Fixpoint smap (f : ascii -> ascii) (s : string) : string :=
  match s with EmptyString => EmptyString | String c r => String (f c) (smap f r) end.
Fixpoint all_ascii (s : string) : bool :=
  match s with EmptyString => true | String c r => is_ascii c && all_ascii r end.
Fixpoint lstrip (s : string) : string :=
  match s with String c r => if is_space c then lstrip r else s | EmptyString => s end.
Fixpoint srev (s acc : string) : string :=
  match s with EmptyString => acc | String c r => srev r (String c acc) end.
Definition strip (s : string) : string := srev (lstrip (srev (lstrip s) "")) "".
Fixpoint title_from (prev_alpha : bool) (s : string) : string :=
  match s with
  | EmptyString => EmptyString
  | String c r =>
      let alpha := (is_lower c || is_upper c)%bool in
      String (if alpha then (if prev_alpha then to_lower c else to_upper c) else c) (title_from alpha r)
  end.

(* stable insertion sort by `<`; an incomparable pair is an error *)
Fixpoint sort_insert (w : world) (x : value) (l : list value) : pres (list value) :=
  match l with
  | [] => POk [x]
  | y :: r => plet lt <- vcmp deep_fuel w Lt y x;
              if (lt : bool) then plet r' <- sort_insert w x r; POk (y :: r') else POk (x :: y :: r)
  end.
Fixpoint sort_values (w : world) (l : list value) : pres (list value) :=
  match l with
  | [] => POk []
  | x :: r => plet r' <- sort_values w r; sort_insert w x r'
  end.

Section Builtins.
  Variable fname : nat -> string.

  Definition render_all (w : world) (vs : list value) : option (list string) :=
    (fix go l := match l with
                 | [] => Some []
                 | a :: r => match repr fname deep_fuel w a, go r with
                             | Some s, Some ss => Some (s :: ss) | _, _ => None end
                 end) vs.

  Definition render_kw (w : world) (kvs : list (string * value)) : option (list (string * string)) :=
    (fix go l := match l with
                 | [] => Some []
                 | (k, a) :: r => match repr fname deep_fuel w a, go r with
                                  | Some s, Some ss => Some ((k, s) :: ss) | _, _ => None end
                 end) kvs.

  Definition as_int (v : value) : pres Z := match v with VInt z => POk z | _ => PErr end.

  (* call of a built-in function (recv = None) or bound method (recv = Some r) *)
  Definition call_builtin (name : string) (recv : option value) (args : list value)
             (kwargs : list (string * value)) (w : world) : pres (value * world) :=
    let nokw {A} (k : pres A) : pres A := match kwargs with [] => k | _ => PErr end in
    match recv with
    | None =>
      if String.eqb name "trace" then
        match render_all w args, render_kw w kwargs with
        | Some a, Some k => POk (match args with v :: _ => v | [] => VNone end, add_event (a, k) w)
        | _, _ => PUnsup "render"
        end
      else if String.eqb name "len" then
        nokw (match args with
              | [VStr s] => POk (VInt (Z.of_nat (String.length s)), w)
              | [VTuple vs] => POk (VInt (Z.of_nat (length vs)), w)
              | [VRange a b s] => POk (VInt (range_len a b s), w)
              | [VRef a] => match get_obj w a with
                            | Some (OList vs _) => POk (VInt (Z.of_nat (length vs)), w)
                            | Some (ODict kvs _) => POk (VInt (Z.of_nat (length kvs)), w)
                            | None => PErr end
              | _ => PErr end)
      else if String.eqb name "range" then
        nokw (match args with
              | [VInt b] => POk (VRange 0 b 1, w)
              | [VInt a; VInt b] => POk (VRange a b 1, w)
              | [VInt a; VInt b; VInt s] => if s =? 0 then PErr else POk (VRange a b s, w)
              | _ => PErr end)
      else if String.eqb name "bool" then
        nokw (match args with
              | [] => POk (VBool false, w)
              | [v] => POk (VBool (truth v w), w)
              | _ => PErr end)
      else if String.eqb name "type" then
        nokw (match args with [v] => POk (VStr (type_name v w), w) | _ => PErr end)
      else if String.eqb name "list" then
        nokw (match args with
              | [] => POk (alloc_list [] w)
              | [v] => plet vs <- elements v w; POk (alloc_list vs w)
              | _ => PErr end)
      else if String.eqb name "tuple" then
        nokw (match args with
              | [] => POk (VTuple [], w)
              | [v] => plet vs <- elements v w; POk (VTuple vs, w)
              | _ => PErr end)
      else if String.eqb name "str" then
        nokw (match args with
              | [v] => match to_str fname w v with Some s => POk (VStr s, w) | None => PUnsup "render" end
              | _ => PErr end)
      else if String.eqb name "repr" then
        nokw (match args with
              | [v] => match repr fname deep_fuel w v with Some s => POk (VStr s, w) | None => PUnsup "render" end
              | _ => PErr end)
      else if String.eqb name "sorted" then
        match kwargs with
        | _ :: _ => PUnsup "sorted-kwargs"
        | [] => match args with
                | [v] => plet vs <- elements v w;
                         (* the real sort compares from the right; a stable sort by < gives the same result *)
                         plet r <- sort_values w vs; POk (alloc_list r w)
                | _ => PErr end
        end
      else PUnsup ("builtin:" ++ name)
    | Some r =>
      match r with
      | VStr s =>
          if negb (all_ascii s) then PUnsup "non-ascii" else
          if String.eqb name "upper" then nokw (match args with [] => POk (VStr (smap to_upper s), w) | _ => PErr end)
          else if String.eqb name "lower" then nokw (match args with [] => POk (VStr (smap to_lower s), w) | _ => PErr end)
          else if String.eqb name "title" then nokw (match args with [] => POk (VStr (title_from false s), w) | _ => PErr end)
          else if String.eqb name "strip" then
            nokw (match args with [] => POk (VStr (strip s), w) | [_] => PUnsup "strip-chars" | _ => PErr end)
          else PUnsup ("method:" ++ name)
      | VRef a =>
        match get_obj w a with
        | Some (OList vs n) =>
          if String.eqb name "append" then
            nokw (match args with
                  | [v] => if negb (Nat.eqb n 0) then PErr else POk (VNone, put_obj w a (OList (vs ++ [v]) n))
                  | _ => PErr end)
          else if String.eqb name "extend" then
            nokw (match args with
                  | [v] => plet ys <- elements v w;
                           if negb (Nat.eqb n 0) then PErr else POk (VNone, put_obj w a (OList (vs ++ ys) n))
                  | _ => PErr end)
          else if String.eqb name "pop" then
            nokw (match args with
                  | [] => if negb (Nat.eqb n 0) then PErr else
                          match rev vs with
                          | [] => PErr
                          | x :: r' => POk (x, put_obj w a (OList (rev r') n)) end
                  | [VInt i] =>
                      match norm_index i (length vs) with
                      | None => PErr
                      | Some k => if negb (Nat.eqb n 0) then PErr else
                                  match nth_error vs k with
                                  | Some x => POk (x, put_obj w a (OList (firstn k vs ++ skipn (S k) vs) n))
                                  | None => PErr end
                      end
                  | _ => PErr end)
          else PUnsup ("method:" ++ name)
        | Some (ODict kvs n) =>
          if String.eqb name "keys" then
            nokw (match args with [] => POk (alloc_list (map fst kvs) w) | _ => PErr end)
          else if String.eqb name "values" then
            nokw (match args with [] => POk (alloc_list (map snd kvs) w) | _ => PErr end)
          else if String.eqb name "items" then
            nokw (match args with [] => POk (alloc_list (map (fun kv => VTuple [fst kv; snd kv]) kvs) w) | _ => PErr end)
          else if String.eqb name "get" then
            nokw (match args with
                  | [k] => need_hashable k (plet r <- dict_find w k kvs; POk (match r with Some v => v | None => VNone end, w))
                  | [k; d] => need_hashable k (plet r <- dict_find w k kvs; POk (match r with Some v => v | None => d end, w))
                  | _ => PErr end)
          else PUnsup ("method:" ++ name)
        | None => PErr
        end
      | _ => PUnsup ("method:" ++ name)
      end
    end.
End Builtins.

(* ---------------------------------------------------------------- binding arguments to parameters *)
(* Shape of a parameter list: names of the ordinary parameters in order
   (positional-or-keyword first, then keyword-only), how many of them are
   keyword-only, and the names of *args / **kwargs if present. *)
Record signature := { sg_names : list string; sg_kwonly : nat; sg_varargs : option string; sg_kwargs : option string }.

Fixpoint sig_scan (ps : list param) (seen_star : bool) (names : list string) (kwonly : nat)
         (va kw : option string) : signature :=
  match ps with
  | [] => {| sg_names := rev names; sg_kwonly := kwonly; sg_varargs := va; sg_kwargs := kw |}
  | PPlain x :: r | PDefault x _ :: r =>
      sig_scan r seen_star (x :: names) (if seen_star then S kwonly else kwonly) va kw
  | PStar x :: r => sig_scan r true names kwonly x kw
  | PStarStar x :: r => sig_scan r seen_star names kwonly va (Some x)
  end.
Definition signature_of (ps : list param) : signature := sig_scan ps false [] 0%nat None None.

(* names of the parameters in the order of their local slots *)
Definition param_names (ps : list param) : list string :=
  let s := signature_of ps in
  sg_names s ++ (match sg_varargs s with Some x => [x] | None => [] end)
             ++ (match sg_kwargs s with Some x => [x] | None => [] end).

Fixpoint index_of (x : string) (l : list string) : option nat :=
  match l with
  | [] => None
  | y :: r => if String.eqb x y then Some O else option_map S (index_of x r)
  end.

Fixpoint fill_defaults (slots : list (option value)) (i nparams : nat) (defaults : list value) : pres (list value) :=
  match slots with
  | [] => POk []
  | s :: r =>
      plet v <- (match s with
                 | Some v => POk v
                 | None =>
                     let first := (nparams - length defaults)%nat in
                     if Nat.ltb i first then PErr
                     else match nth_error defaults (i - first) with
                          | Some VMandatory => PErr
                          | Some d => POk d
                          | None => PErr end
                 end);
      plet vs <- fill_defaults r (S i) nparams defaults;
      POk (v :: vs)
  end.

Fixpoint place_kwargs (names : list string) (slots : list (option value)) (extra : list (string * value))
         (kws : list (string * value)) : pres (list (option value) * list (string * value)) :=
  match kws with
  | [] => POk (slots, extra)
  | (k, v) :: r =>
      match index_of k names with
      | Some i => match nth_error slots i with
                  | Some None => place_kwargs names (upd_nth i (Some v) slots) extra r
                  | _ => PErr end
      | None => if existsb (fun e => String.eqb (fst e) k) extra then PErr
                else place_kwargs names slots (extra ++ [(k, v)]) r
      end
  end.

(* initial values of the parameter slots, in slot order *)
Definition bind_args (ps : list param) (defaults : list value) (args : list value)
           (kwargs : list (string * value)) (w : world) : pres (list value * world) :=
  let s := signature_of ps in
  let n := length (sg_names s) in
  let npos := (n - sg_kwonly s)%nat in
  if (match sg_varargs s with None => Nat.ltb npos (length args) | Some _ => false end) then PErr else
  let slots := (map Some (firstn npos args) ++ repeat None (n - Nat.min npos (length args)))%list in
  plet r <- place_kwargs (sg_names s) slots [] kwargs;
  let '(slots, extra) := r in
  if (match sg_kwargs s with None => negb (Nat.eqb (length extra) 0) | Some _ => false end) then PErr else
  plet vs <- fill_defaults slots 0 n defaults;
  let vs := (vs ++ (match sg_varargs s with Some _ => [VTuple (skipn npos args)] | None => [] end))%list in
  match sg_kwargs s with
  | Some _ => let '(d, w') := alloc_dict (map (fun e => (VStr (fst e), snd e)) extra) w in POk ((vs ++ [d])%list, w')
  | None => POk (vs, w)
  end.

(* ---------------------------------------------------------------- shared small definitions *)
Fixpoint strs_eqb (a b : list string) : bool :=
  match a, b with
  | [], [] => true
  | x :: a, y :: b => String.eqb x y && strs_eqb a b
  | _, _ => false
  end.


(* the first n slots of a fresh locals array: the given initial values, then unbound *)
Fixpoint pad_init (n : nat) (init : list (option value)) : list (option value) :=
  match n with
  | O => []
  | S n => match init with v :: r => v :: pad_init n r | [] => None :: pad_init n [] end
  end.

Definition genv := list (option value).

Fixpoint assoc {A} (x : string) (l : list (string * A)) : option A :=
  match l with [] => None | (y, a) :: r => if String.eqb x y then Some a else assoc x r end.
Fixpoint assoc_set {A} (x : string) (a : A) (l : list (string * A)) : list (string * A) :=
  match l with
  | [] => []
  | (y, b) :: r => if String.eqb x y then (y, a) :: r else (y, b) :: assoc_set x a r
  end.

(* the module a load statement can name in this property's harness *)
Definition load_module (m : string) : option (list (string * value)) :=
  if String.eqb m "m.star" then Some [("a", VInt 10); ("b", VStr "bee"); ("fl", VRef 0); ("fd", VRef 1)] else None.

Fixpoint kw_of_dict (kvs : list (value * value)) : option (list (string * value)) :=
  match kvs with
  | [] => Some []
  | (VStr k, v) :: r => match kw_of_dict r with Some l => Some ((k, v) :: l) | None => None end
  | _ => None
  end.


(* the extra positional / named arguments supplied by *args and **kwargs  *)
Definition star_args (star : option value) (w : world) : pres (list value) :=
  match star with None => POk [] | Some v => elements v w end.
Definition starstar_args (ss : option value) (w : world) : pres (list (string * value)) :=
  match ss with
  | None => POk []
  | Some (VRef d) => match get_obj w d with
                     | Some (ODict kvs _) => match kw_of_dict kvs with Some l => POk l | None => PErr end
                     | _ => PErr end
  | Some _ => PErr
  end.

(* x |= y *)
(* dict |= dict updates the left dict in place: an attempt to update it, which fails when the
   dict may not be mutated (frozen or being iterated) WHATEVER the right operand contains *)
Definition inplace_pipe (x y : value) (w : world) : pres (value * world) :=
  match x, y with
  | VRef a, VRef b =>
      match get_obj w a, get_obj w b with
      | Some (ODict xs n), Some (ODict ys _) =>
          if negb (Nat.eqb n 0) then PErr
          else plet r <- dict_add_all w ys xs; POk (x, put_obj w a (ODict r n))
      | _, _ => binary BitOr x y w
      end
  | _, _ => binary BitOr x y w
  end.

(* ---------------------------------------------------------------- what a host can see *)
Inductive verdict :=
| Success (globals : genv)
| Failure (p : pos) (incall : bool)
| OutOfFuel
| Unsupported (tag : string).

Record observation := { ob_trace : list event; ob_heap : list obj; ob_cells : list (option value); ob_verdict : verdict }.

