(* C01 -- closures: simulation of assignment, of the clauses of a comprehension and of the loop of a
   for clause (scripts of ProofsCompComp.v for the code generator of CompileClos.v). *)
From Coq Require Import ZArith String List Bool Lia.
From SV Require Import C01.Syntax C01.Values C01.Ref C01.VM C01.Compile C01.Frag C01.ProofsVM C01.ProofsEnv
     C01.SimDefs C01.ProofsExpr C01.ProofsCompFrag C01.ProofsCompEnv
     C01.CompileClos C01.FragClos C01.ProofsClosEnv C01.ProofsClosBase C01.ProofsClosDefs C01.ProofsClosExpr.
Import ListNotations.
Open Scope string_scope.
Open Scope list_scope.
Open Scope nat_scope.

Global Opaque get_obj put_obj.

Section Comp3.
  Variable p : program.
  Notation cp := (compile_prog3 p).
  Notation fn := (fname p).

  Lemma As3_step : forall n, E3 p n -> Aq3 p n -> As3 p (S n).
  Proof.
    intros n IHE IHQ.
    unfold As3; intros stk lo ls cs U ρ L t v ps s fid C fv K pc σ I brk cont Hok HR Hstk Hcode.
    destruct t; simpl in Hok.
    - (* TName *)
      simpl assign. change (gen_ct p ls cs (TName x p0) ps) with [gen_set3 p ls cs x] in *.
      apply pcode_cons in Hcode. destruct Hcode as [Hf _].
      pose proof (set_sim3 p lo ls cs U ρ L x v s fid C fv K pc σ I brk cont HR Hok Hf) as Hs.
      destruct (set_var p ρ x v s) as [[ρ1 s1]| | |]; cbn [sim fst snd] in *; auto.
      destruct Hs as (L1 & HR1 & Hs). exists L1. split; auto. chain Hs. fin.
    - (* TIndex *)
      apply andb_true_iff in Hok. destruct Hok as [Hx Hy].
      change (gen_ct p ls cs (TIndex x y p0) ps)
        with (gen_e p ls cs x ++ [EXCH] ++ gen_e p ls cs y ++ [EXCH; SETINDEX p0]) in *.
      pcode_split.
      codeof3 x ltac:(fun Hc => pose proof (IHE stk lo ls cs U ρ L x s fid C fv K pc (v :: σ) I brk cont Hx HR Hstk Hc) as IH1).
      simpl assign.
      destruct (eval p n stk ρ x s) as [[vx s1]| | |]; cbn [sim fst snd] in *; auto.
      destruct IH1 as (L1 & HR1 & IH1).
      codeof3 y ltac:(fun Hc => pose proof (IHE stk lo ls cs U ρ L1 y s1 fid C fv K _ (v :: vx :: σ) I brk cont Hy HR1 Hstk Hc) as IH2).
      assert (Hpre : star cp fn (S3 fid C fv K pc (v :: σ) L I s)
                       (S3 fid C fv K (pc + length (gen_e p ls cs x) + 1) (v :: vx :: σ) L1 I s1)).
      { chain IH1. vstep. fin. }
      destruct (eval p n stk ρ y s1) as [[vy s2]| | |]; cbn [sim fst snd] in *; auto;
        try (hstar Hpre; hchain IH2).
      destruct IH2 as (L2 & HR2 & IH2).
      destruct (index_set vx vy v (rw s2)) as [w'| |t] eqn:Eb; cbn [lift sim fst snd].
      + exists L2. split; auto. chain Hpre. chain IH2. vstep. vstep1 Eb. fin.
      + hstar Hpre. hstar IH2. eapply halts_star; [ vstep; apply star_refl | vstop1 Eb ].
      + hstar Hpre. hstar IH2. eapply halts_star; [ vstep; apply star_refl | vstop1 Eb ].
    - (* TDot: no value of the model has assignable fields *)
      change (gen_ct p ls cs (TDot x name p0) ps) with (gen_e p ls cs x ++ [EXCH; SETFIELD name p0]) in *.
      pcode_split.
      codeof3 x ltac:(fun Hc => pose proof (IHE stk lo ls cs U ρ L x s fid C fv K pc (v :: σ) I brk cont Hok HR Hstk Hc) as IH1).
      simpl assign.
      destruct (eval p n stk ρ x s) as [[vx s1]| | |]; cbn [sim fst snd] in *; auto.
      destruct IH1 as (L1 & HR1 & IH1).
      hstar IH1. eapply halts_star; [ vstep; apply star_refl | vstop ].
    - (* TSeq *)
      change (gen_ct p ls cs (TSeq ts) ps) with (UNPACK (length ts) ps :: flat_map (fun t => gen_ct p ls cs t ps) ts) in *.
      pcode_split.
      simpl assign.
      destruct (unpack (length ts) v (rw s)) as [vs| |t] eqn:Eu; cbn [lift sim fst snd].
      2: { vstop1 Eu. }
      2: { vstop1 Eu. }
      pose proof (unpack_length _ _ _ _ Eu) as Hlen.
      match goal with Hc : pcode_at C ?q (flat_map _ ts) _ _ |- _ =>
        pose proof (IHQ stk lo ls cs U ρ L ts vs ps s fid C fv K q σ I brk cont Hok Hlen HR Hstk Hc) as IH1 end.
      destruct (assign_seq p n stk ρ ts vs ps s) as [[ρ1 s1]| | |]; cbn [sim fst snd] in *; auto.
      + destruct IH1 as (L1 & HR1 & IH1). exists L1. split; auto. vstep1 Eu. chain IH1. fin.
      + eapply halts_star; [ vstep1 Eu; apply star_refl | ]. hchain IH1.
      + eapply halts_star; [ vstep1 Eu; apply star_refl | ]. hchain IH1.
  Qed.

  Lemma Aq3_step : forall n, As3 p n -> Aq3 p n -> Aq3 p (S n).
  Proof.
    intros n IHA IHQ.
    unfold Aq3; intros stk lo ls cs U ρ L ts vs ps s fid C fv K pc σ I brk cont Hok Hlen HR Hstk Hcode.
    destruct ts as [|t ts]; destruct vs as [|v vs]; simpl in Hlen; try discriminate; simpl assign_seq.
    - cbn [sim fst snd]. exists L. split; auto. fin.
    - simpl in Hok. apply andb_true_iff in Hok. destruct Hok as [Ht Hts].
      simpl in Hcode. pcode_split.
      match goal with Hc : pcode_at C pc (gen_ct _ _ _ t _) _ _ |- _ =>
        pose proof (IHA stk lo ls cs U ρ L t v ps s fid C fv K pc (vs ++ σ) I brk cont Ht HR Hstk Hc) as IH1 end.
      destruct (assign p n stk ρ t v ps s) as [[ρ1 s1]| | |]; cbn [sim fst snd] in *; auto.
      destruct IH1 as (L1 & HR1 & IH1).
      match goal with Hc : pcode_at C ?q (flat_map _ ts) _ _ |- _ =>
        pose proof (IHQ stk lo ls cs U ρ1 L1 ts vs ps s1 fid C fv K _ σ I brk cont Hts ltac:(lia) HR1 Hstk Hc) as IH2 end.
      destruct (assign_seq p n stk ρ1 ts vs ps s1) as [[ρ2 s2]| | |]; cbn [sim fst snd] in *; auto.
      + destruct IH2 as (L2 & HR2 & IH2). exists L2. split; auto.
        chain IH1. chain IH2. simpl flat_map. fin.
      + hstar IH1. hchain IH2.
      + hstar IH1. hchain IH2.
  Qed.

  Lemma comp_none : forall n stk ρ t e ps r acc curly body bodyv cq s,
    comp p (S n) stk ρ None (CFor t e ps :: r) acc curly body bodyv cq s =
    match eval p n stk ρ e s with
    | Ok (v, s1) => comp p (S n) stk ρ (Some v) (CFor t e ps :: r) acc curly body bodyv cq s1
    | Fail a b c => Fail a b c | Oof => Oof | Unsup u => Unsup u
    end.
  Proof. intros. simpl. destruct (eval p n stk ρ e s) as [[v s1]| | |]; reflexivity. Qed.

  Lemma Cm3_step : forall n, E3 p n -> Cn3 p n -> Cm3 p n -> Cl3 p n -> Cm3 p (S n).
  Proof.
    intros n IHE IHC IHM IHL.
    unfold Cm3; intros stk lo ls cs U V ρ L first cls acc curly body bodyv cq s fid C fv K pc σ I brk cont Hok Hacc HR Hstk Hcode.
    destruct cls as [|[t e ps|c] r].
    - (* the body *)
      destruct first as [v0|]; [discriminate Hok|].
      cbn [ok_cls_from ok_cls] in Hok. cbn [optl app].
      destruct curly.
      + apply andb_true_iff in Hok. destruct Hok as [Hb Hbv].
        change (gen_cls_from p ls cs true body bodyv cq None [])
          with ([DUP] ++ gen_e p ls cs body ++ gen_e p ls cs bodyv ++ [SETDICT cq]) in *.
        pcode_split.
        assert (Hpre : star cp fn (S3 fid C fv K pc (acc :: σ) L I s) (S3 fid C fv K (pc + 1) (acc :: acc :: σ) L I s)).
        { vstep. fin. }
        codeof3 body ltac:(fun Hc => pose proof (IHE stk lo ls cs U ρ L body s fid C fv K _ (acc :: acc :: σ) I brk cont Hb HR Hstk Hc) as IH1).
        simpl comp.
        destruct (eval p n stk ρ body s) as [[vk s1]| | |]; cbn [sim fst snd] in *; auto;
          try (hstar Hpre; hchain IH1).
        destruct IH1 as (L1 & HR1 & IH1).
        codeof3 bodyv ltac:(fun Hc => pose proof (IHE stk lo ls cs U ρ L1 bodyv s1 fid C fv K _ (vk :: acc :: acc :: σ) I brk cont Hbv HR1 Hstk Hc) as IH2).
        destruct (eval p n stk ρ bodyv s1) as [[vv s2]| | |]; cbn [sim fst snd] in *; auto;
          try (hstar Hpre; hstar IH1; hchain IH2).
        destruct IH2 as (L2 & HR2 & IH2).
        destruct (index_set acc vk vv (rw s2)) as [w'| |t] eqn:Es; cbn [lift sim fst snd].
        * exists L2. split; auto. chain Hpre. chain IH1. chain IH2. vstep1 Es. fin.
        * hstar Hpre. hstar IH1. hstar IH2. vstop1 Es.
        * hstar Hpre. hstar IH1. hstar IH2. vstop1 Es.
      + apply andb_true_iff in Hok. destruct Hok as [Hok _].
        destruct (Hacc eq_refl) as [a ->].
        change (gen_cls_from p ls cs false body bodyv cq None [])
          with ([DUP] ++ gen_e p ls cs body ++ [APPEND]) in *.
        pcode_split.
        assert (Hpre : star cp fn (S3 fid C fv K pc (VRef a :: σ) L I s) (S3 fid C fv K (pc + 1) (VRef a :: VRef a :: σ) L I s)).
        { vstep. fin. }
        codeof3 body ltac:(fun Hc => pose proof (IHE stk lo ls cs U ρ L body s fid C fv K _ (VRef a :: VRef a :: σ) I brk cont Hok HR Hstk Hc) as IH1).
        simpl comp.
        destruct (eval p n stk ρ body s) as [[v s1]| | |]; cbn [sim fst snd] in *; auto;
          try (hstar Hpre; hchain IH1).
        destruct IH1 as (L1 & HR1 & IH1).
        destruct (get_obj (rw s1) a) as [[vs k|kvs k]|] eqn:Eg; cbn [sim fst snd].
        * exists L1. split; auto. chain Hpre. chain IH1. vstep1 Eg. fin.
        * hstar Hpre. hstar IH1. vstop1 Eg.
        * hstar Hpre. hstar IH1. vstop1 Eg.
    - (* for clause *)
      assert (Hsome : forall v0 s1 L1 q,
                ok_target3 p lo ls U (map snd cs) t = true -> forallb (fun x => str_in x V) (target_names t) = true ->
                ok_cls3 p lo ls V (map snd cs) body bodyv (rm (target_names t) U) r = true ->
                R3 fv lo ls cs U ρ L1 ->
                pcode_at C q (loop_tail (gen_ct p ls cs t ps) (gen_cls p ls cs curly body bodyv cq r) ps) brk cont ->
                sim p (comp p (S n) stk ρ (Some v0) (CFor t e ps :: r) acc curly body bodyv cq s1)
                    (S3 fid C fv K q (v0 :: acc :: σ) L1 I s1)
                    (fun r' => exists L', R3 fv lo ls cs U (fst r') L' /\
                       star cp fn (S3 fid C fv K q (v0 :: acc :: σ) L1 I s1)
                            (S3 fid C fv K (q + length (loop_tail (gen_ct p ls cs t ps) (gen_cls p ls cs curly body bodyv cq r) ps))
                                (acc :: σ) L' I (snd r')))).
      { intros v0 s1 L1 q Htg Htn Hcls HR1 Hq.
        pose proof Hq as Hq'. unfold loop_tail in Hq. pcode_split.
        simpl comp.
        destruct (iterate v0 (rw s1)) as [[[vs lock] w1]| |t0] eqn:Ei; cbn [lift sim fst snd].
        2: { vstop1 Ei. }
        2: { vstop1 Ei. }
        pose proof (IHL stk lo ls cs U V ρ L1 t ps vs lock r acc curly body bodyv cq (with_w s1 w1) fid C fv K q σ I brk cont
                        Htg Htn Hcls Hacc HR1 Hstk Hq') as IHl.
        cbv zeta in IHl.
        assert (Hpre : star cp fn (S3 fid C fv K q (v0 :: acc :: σ) L1 I s1)
                         (S3 fid C fv K (q + 1) (acc :: σ) L1 ({| it_rem := vs; it_lock := lock |} :: I) (with_w s1 w1))).
        { vstep1 Ei. fin. }
        destruct (comp_loop p n stk ρ t ps vs r acc curly body bodyv cq (with_w s1 w1)) as [[ρ2 s2]| | |];
          cbn [sim fst snd] in *; auto; try (hstar Hpre; hchain IHl).
        destruct IHl as (L2 & rem & HR2 & IHl). exists L2. split; auto.
        chain Hpre. chain IHl. norm_state. unfold loop_tail. len_norm. vstep. fin. }
      destruct first as [v0|].
      + (* the first clause: the iterable is on the stack *)
        cbn [ok_cls_from] in Hok. apply andb_true_iff in Hok. destruct Hok as [Hok Hcls].
        apply andb_true_iff in Hok. destruct Hok as [Htg Htn].
        exact (Hsome v0 s L pc Htg Htn Hcls HR Hcode).
      + cbn [ok_cls_from ok_cls] in Hok. apply andb_true_iff in Hok. destruct Hok as [Hok Hcls].
        apply andb_true_iff in Hok. destruct Hok as [Hok Htn]. apply andb_true_iff in Hok. destruct Hok as [He Htg].
        change (gen_cls_from p ls cs curly body bodyv cq None (CFor t e ps :: r))
          with (gen_e p ls cs e ++ loop_tail (gen_ct p ls cs t ps) (gen_cls p ls cs curly body bodyv cq r) ps) in *.
        cbn [optl app]. apply pcode_app in Hcode. destruct Hcode as [Hce Hcl].
        pose proof (IHE stk lo ls cs U ρ L e s fid C fv K pc (acc :: σ) I brk cont He HR Hstk Hce) as IH1.
        rewrite comp_none.
        destruct (eval p n stk ρ e s) as [[v s1]| | |]; cbn [sim fst snd] in *; auto.
        destruct IH1 as (L1 & HR1 & IH1).
        pose proof (Hsome v s1 L1 _ Htg Htn Hcls HR1 Hcl) as IH2.
        eapply sim_move; [ exact IH1 | exact IH2 | ].
        intros r' (L2 & HR2 & H2). exists L2. split; auto.
        eapply star_trans; [ exact IH1 | ]. eapply star_trans; [ exact H2 | ].
        norm_state. apply star_eq. apply St_eq; [ rewrite app_length; lia | reflexivity ].
    - (* if clause *)
      destruct first as [v0|]; [discriminate Hok|].
      cbn [ok_cls_from ok_cls] in Hok. apply andb_true_iff in Hok. destruct Hok as [Hc Hcls].
      change (gen_cls_from p ls cs curly body bodyv cq None (CIf c :: r))
        with (gen_c p ls cs c 0 (length (gen_cls p ls cs curly body bodyv cq r)) ++ gen_cls p ls cs curly body bodyv cq r) in *.
      cbn [optl app]. apply pcode_app in Hcode. destruct Hcode as [Hcc Hcr].
      pose proof (IHC stk lo ls cs U ρ L c s fid C fv K pc (acc :: σ) I brk cont _ _ Hc HR Hstk Hcc) as IHc.
      simpl comp.
      destruct (eval p n stk ρ c s) as [[vc s1]| | |]; cbn [sim fst snd] in *; auto.
      destruct IHc as (L1 & HR1 & IHc).
      destruct (truth vc (rw s1)) eqn:Et.
      + assert (Hokr : ok_cls_from p lo ls V (map snd cs) curly body bodyv U None r = true) by (destruct r; exact Hcls).
        assert (Hcr' : pcode_at C (pc + length (gen_c p ls cs c 0 (length (gen_cls p ls cs curly body bodyv cq r))) + 0)
                         (gen_cls_from p ls cs curly body bodyv cq None r) brk cont).
        { rewrite Nat.add_0_r. destruct r; exact Hcr. }
        pose proof (IHM stk lo ls cs U V ρ L1 None r acc curly body bodyv cq s1 fid C fv K _ σ I brk cont Hokr Hacc HR1 Hstk Hcr') as IH2.
        cbn [optl app] in IH2.
        eapply sim_move; [ exact IHc | exact IH2 | ].
        intros r' (L2 & HR2 & H2). exists L2. split; auto.
        eapply star_trans; [ exact IHc | ]. eapply star_trans; [ exact H2 | ].
        assert (Hg : gen_cls_from p ls cs curly body bodyv cq None r = gen_cls p ls cs curly body bodyv cq r) by (destruct r; reflexivity).
        rewrite Hg. fin.
      + cbn [sim fst snd]. exists L1. split; auto. chain IHc. fin.
  Qed.

  Lemma Cl3_step : forall n, As3 p n -> Cm3 p n -> Cl3 p n -> Cl3 p (S n).
  Proof.
    intros n IHA IHM IHL.
    unfold Cl3; intros stk lo ls cs U V ρ L t ps vs lock r acc curly body bodyv cq s fid C fv K pc σ I brk cont
                       Htg Htn Hcls Hacc HR Hstk Hcode.
    cbv zeta.
    pose proof Hcode as Hloop.
    unfold loop_tail in Hcode. pcode_split.
    destruct vs as [|v vs']; simpl comp_loop.
    - cbn [sim fst snd]. exists L, []. split; auto. vstep. unfold loop_tail. fin.
    - match goal with Hc : pcode_at _ ?q (gen_ct _ _ _ _ _) _ _ |- _ =>
        pose proof (IHA stk lo ls cs U ρ L t v ps s fid C fv K q (acc :: σ) ({| it_rem := vs'; it_lock := lock |} :: I) brk cont
                        Htg HR Hstk Hc) as IH1 end.
      assert (Hpre : star cp fn (S3 fid C fv K (pc + 1) (acc :: σ) L ({| it_rem := v :: vs'; it_lock := lock |} :: I) s)
                       (S3 fid C fv K (pc + 2) (v :: acc :: σ) L ({| it_rem := vs'; it_lock := lock |} :: I) s)).
      { vstep. fin. }
      destruct (assign p n stk ρ t v ps s) as [[ρ1 s1]| | |] eqn:Eas; cbn [sim fst snd] in *; auto.
      2: { hstar Hpre. hchain IH1. }
      2: { hstar Hpre. hchain IH1. }
      destruct IH1 as (L1 & HR1 & IH1).
      (* the names of the target are bound now *)
      assert (HR1' : R3 fv lo ls cs (rm (target_names t) U) ρ1 L1).
      { destruct HR as [Hre Hrl]. destruct HR1 as [Hre1 Hrl1]. split; auto.
        destruct (assigned3 p n) as [Aa _].
        destruct (Aa _ _ _ _ _ _ _ _ Eas) as (_ & Mono & Tg).
        intros x i Hx Hu. rewrite str_in_rm in Hu. apply andb_false_iff in Hu.
        pose proof (Rloc3_lookup _ _ _ _ _ _ Hrl x) as Hlk. rewrite Hx in Hlk. destruct Hlk as [_ [ov [Hb _]]].
        destruct Hu as [Hu|Hu].
        - apply Mono. apply (Hre x i Hx Hu).
        - apply negb_false_iff in Hu. apply Tg; [ apply str_in_iff; auto | eauto ]. }
      assert (Hokr : ok_cls_from p lo ls V (map snd cs) curly body bodyv (rm (target_names t) U) None r = true) by (destruct r; exact Hcls).
      match goal with Hc : pcode_at _ ?q (gen_cls _ _ _ _ _ _ _ r) _ _ |- _ =>
        assert (Hcr : pcode_at C q (gen_cls_from p ls cs curly body bodyv cq None r) brk cont) by (destruct r; exact Hc) end.
      pose proof (IHM stk lo ls cs (rm (target_names t) U) V ρ1 L1 None r acc curly body bodyv cq s1 fid C fv K _ σ
                      ({| it_rem := vs'; it_lock := lock |} :: I) brk cont Hokr Hacc HR1' Hstk Hcr) as IH2.
      cbn [optl app] in IH2.
      assert (Hg : gen_cls_from p ls cs curly body bodyv cq None r = gen_cls p ls cs curly body bodyv cq r) by (destruct r; reflexivity).
      rewrite Hg in IH2.
      assert (Hpre2 : star cp fn (S3 fid C fv K (pc + 1) (acc :: σ) L ({| it_rem := v :: vs'; it_lock := lock |} :: I) s)
                        (S3 fid C fv K (pc + 2 + length (gen_ct p ls cs t ps)) (acc :: σ) L1 ({| it_rem := vs'; it_lock := lock |} :: I) s1)).
      { chain Hpre. chain IH1. fin. }
      destruct (comp p n stk ρ1 None r acc curly body bodyv cq s1) as [[ρ2 s2]| | |]; cbn [sim fst snd] in *; auto.
      2: { hstar Hpre2. hchain IH2. }
      2: { hstar Hpre2. hchain IH2. }
      destruct IH2 as (L2 & HR2 & IH2).
      assert (HR2w : R3 fv lo ls cs U ρ2 L2) by (eapply R3_weaken; [ exact HR2 | apply rm_sub ]).
      pose proof (IHL stk lo ls cs U V ρ2 L2 t ps vs' lock r acc curly body bodyv cq s2 fid C fv K pc σ I brk cont
                      Htg Htn Hcls Hacc HR2w Hstk Hloop) as IH3.
      cbv zeta in IH3.
      assert (Hpre3 : star cp fn (S3 fid C fv K (pc + 1) (acc :: σ) L ({| it_rem := v :: vs'; it_lock := lock |} :: I) s)
                        (S3 fid C fv K (pc + 1) (acc :: σ) L2 ({| it_rem := vs'; it_lock := lock |} :: I) s2)).
      { chain Hpre2. chain IH2. vstep. fin. }
      eapply sim_move; [ exact Hpre3 | exact IH3 | ].
      intros r' (L3 & rem & HR3 & Hs3). exists L3, rem. split; auto.
      eapply star_trans; [ exact Hpre3 | exact Hs3 ].
  Qed.
End Comp3.
