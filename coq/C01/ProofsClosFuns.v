(* C01 -- closures: function ids.  Every function the evaluator can find by its id (Ref.find_def) occurs in
   CompileClos.all_fids, so the table of compiled functions (one entry per id, compiled with the scope
   find_def gives) agrees with find_def on EVERY id; with the boolean check funs_ok3b on the ids that occur
   this gives FragClos.funs_ok3. *)
From Coq Require Import ZArith String List Bool Lia.
From SV Require Import C01.Syntax C01.Values C01.Ref C01.VM C01.Compile C01.Frag C01.ProofsCompFrag
     C01.CompileClos C01.FragClos C01.ProofsClosEnv.
Import ListNotations.
Open Scope string_scope.
Open Scope list_scope.
Open Scope nat_scope.

Section Complete.
  Variable fid : nat.

  Fixpoint fd_expr_in (e : expr) {struct e} :
    forall encl d, fd_expr fid encl e = Some d -> List.In fid (fids_expr e)
  with fd_target_in (t : target) {struct t} :
    forall encl d, fd_target fid encl t = Some d -> List.In fid (fids_target t).
  Proof.
    - intros encl d H. destruct e; simpl in H |- *; try discriminate.
      + (* EParen *) eapply fd_expr_in; eauto.
      + (* EUnary *) eapply fd_expr_in; eauto.
      + (* EBinary *)
        apply in_app_iff. destruct (fd_expr fid encl e1) eqn:E1; [left|right]; eapply fd_expr_in; eauto.
      + (* EAnd *)
        apply in_app_iff. destruct (fd_expr fid encl e1) eqn:E1; [left|right]; eapply fd_expr_in; eauto.
      + (* EOr *)
        apply in_app_iff. destruct (fd_expr fid encl e1) eqn:E1; [left|right]; eapply fd_expr_in; eauto.
      + (* ECond *)
        apply in_app_iff. destruct (fd_expr fid encl e1) eqn:E1; [left; eapply fd_expr_in; eauto|right].
        apply in_app_iff. destruct (fd_expr fid encl e2) eqn:E2; [left|right]; eapply fd_expr_in; eauto.
      + (* ETuple *)
        induction es as [|a es IH]; simpl in *; [discriminate|].
        apply in_app_iff. destruct (fd_expr fid encl a) eqn:Ea; [left; eapply fd_expr_in; eauto | right; apply IH; auto].
      + (* EList *)
        induction es as [|a es IH]; simpl in *; [discriminate|].
        apply in_app_iff. destruct (fd_expr fid encl a) eqn:Ea; [left; eapply fd_expr_in; eauto | right; apply IH; auto].
      + (* EDict *)
        induction kvs as [|[[k v] cp] kvs IH]; simpl in *; [discriminate|].
        apply in_app_iff. destruct (fd_expr fid encl k) eqn:Ek.
        { left. apply in_app_iff. left. eapply fd_expr_in; eauto. }
        destruct (fd_expr fid encl v) eqn:Ev.
        { left. apply in_app_iff. right. eapply fd_expr_in; eauto. }
        right. apply IH; auto.
      + (* EIndex *)
        apply in_app_iff. destruct (fd_expr fid encl e1) eqn:E1; [left|right]; eapply fd_expr_in; eauto.
      + (* EDot *) eapply fd_expr_in; eauto.
      + (* ECall *)
        apply in_app_iff. destruct (fd_expr fid encl e) eqn:E1; [left; eapply fd_expr_in; eauto|right].
        clear E1. induction args as [|a args IH]; simpl in *; [discriminate|].
        apply in_app_iff.
        destruct a as [x|nm x|x|x]; (destruct (fd_expr fid encl x) eqn:Ea; [left; eapply fd_expr_in; eauto | right; apply IH; auto]).
      + (* ELambda *)
        destruct (Nat.eqb fid0 fid) eqn:Eid.
        { left. apply Nat.eqb_eq. auto. }
        right. apply in_app_iff.
        destruct (first_some (fun q => match q with PDefault _ e0 => fd_expr fid encl e0 | _ => None end) params) eqn:Ed.
        * left. clear H. induction params as [|q params IH]; simpl in *; [discriminate|].
          apply in_app_iff. destruct q as [x|x e0|x|x]; try solve [right; apply IH; auto].
          destruct (fd_expr fid encl e0) eqn:E0; [left; eapply fd_expr_in; eauto | right; apply IH; auto].
        * right. eapply fd_expr_in; eauto.
      + (* EComp *)
        apply in_app_iff. destruct (fd_expr fid (encl ++ comp_vars cls) e1) eqn:E1; [left; eapply fd_expr_in; eauto|right].
        apply in_app_iff. destruct (fd_expr fid (encl ++ comp_vars cls) e2) eqn:E2; [left; eapply fd_expr_in; eauto|right].
        clear E1 E2. generalize dependent (encl ++ comp_vars cls). intros encl' H.
        induction cls as [|c cls IH]; simpl in *; [discriminate|].
        apply in_app_iff. destruct c as [t e0 ps|c0].
        * destruct (fd_target fid encl' t) eqn:Et.
          { left. apply in_app_iff. left. eapply fd_target_in; eauto. }
          destruct (fd_expr fid encl' e0) eqn:E0.
          { left. apply in_app_iff. right. eapply fd_expr_in; eauto. }
          right. apply IH; auto.
        * destruct (fd_expr fid encl' c0) eqn:E0; [left; eapply fd_expr_in; eauto | right; apply IH; auto].
      + (* ESlice *)
        apply in_app_iff. destruct (fd_expr fid encl e) eqn:E1; [left; eapply fd_expr_in; eauto|right].
        apply in_app_iff. destruct lo as [l0|].
        { destruct (fd_expr fid encl l0) eqn:El; [left; eapply fd_expr_in; eauto|right].
          apply in_app_iff. destruct hi as [h0|].
          - destruct (fd_expr fid encl h0) eqn:Eh; [left; eapply fd_expr_in; eauto|right].
            destruct step as [s0|]; [eapply fd_expr_in; eauto | discriminate].
          - right. destruct step as [s0|]; [eapply fd_expr_in; eauto | discriminate]. }
        right. apply in_app_iff. destruct hi as [h0|].
        * destruct (fd_expr fid encl h0) eqn:Eh; [left; eapply fd_expr_in; eauto|right].
          destruct step as [s0|]; [eapply fd_expr_in; eauto | discriminate].
        * right. destruct step as [s0|]; [eapply fd_expr_in; eauto | discriminate].
    - intros encl d H. destruct t; simpl in H |- *; try discriminate.
      + apply in_app_iff. destruct (fd_expr fid encl x) eqn:E1; [left|right]; eapply fd_expr_in; eauto.
      + eapply fd_expr_in; eauto.
      + induction ts as [|a ts IH]; simpl in *; [discriminate|].
        apply in_app_iff. destruct (fd_target fid encl a) eqn:Ea; [left; eapply fd_target_in; eauto | right; apply IH; auto].
  Qed.

  Lemma dflts_in : forall encl ps d,
    first_some (fun q => match q with PDefault _ e0 => fd_expr fid encl e0 | _ => None end) ps = Some d ->
    List.In fid (flat_map (fun q => match q with PDefault _ e0 => fids_expr e0 | _ => [] end) ps).
  Proof.
    induction ps as [|q ps IH]; intros d H; simpl in *; [discriminate|].
    apply in_app_iff. destruct q as [x|x e0|x|x]; try solve [right; eapply IH; eauto].
    destruct (fd_expr fid encl e0) eqn:E0; [left; eapply fd_expr_in; eauto | right; eapply IH; eauto].
  Qed.

  Fixpoint fd_stmt_in (s : stmt) {struct s} :
    forall encl d, fd_stmt fid encl s = Some d -> List.In fid (fids_stmt s).
  Proof.
    intros encl d H. destruct s; simpl in H |- *; try discriminate.
    - (* SExpr *) eapply fd_expr_in; eauto.
    - (* SAssign *)
      apply in_app_iff. destruct (fd_expr fid encl e) eqn:E1; [left; eapply fd_expr_in; eauto | right; eapply fd_target_in; eauto].
    - (* SAug *)
      apply in_app_iff. destruct (fd_expr fid encl e) eqn:E1; [left; eapply fd_expr_in; eauto | right; eapply fd_target_in; eauto].
    - (* SIf *)
      apply in_app_iff. destruct (fd_expr fid encl c) eqn:E1; [left; eapply fd_expr_in; eauto|right].
      apply in_app_iff. destruct (first_some (fd_stmt fid encl) tb) eqn:Et.
      + left. clear H. induction tb as [|a tb IH]; simpl in *; [discriminate|].
        apply in_app_iff. destruct (fd_stmt fid encl a) eqn:Ea; [left; eapply fd_stmt_in; eauto | right; apply IH; auto].
      + right. clear Et. induction fb as [|a fb IH]; simpl in *; [discriminate|].
        apply in_app_iff. destruct (fd_stmt fid encl a) eqn:Ea; [left; eapply fd_stmt_in; eauto | right; apply IH; auto].
    - (* SWhile *)
      apply in_app_iff. destruct (fd_expr fid encl c) eqn:E1; [left; eapply fd_expr_in; eauto|right].
      induction body as [|a body IH]; simpl in *; [discriminate|].
      apply in_app_iff. destruct (fd_stmt fid encl a) eqn:Ea; [left; eapply fd_stmt_in; eauto | right; apply IH; auto].
    - (* SFor *)
      apply in_app_iff. destruct (fd_expr fid encl e) eqn:E1; [left; eapply fd_expr_in; eauto|right].
      apply in_app_iff. destruct (fd_target fid encl t) eqn:Et; [left; eapply fd_target_in; eauto|right].
      induction body as [|a body IH]; simpl in *; [discriminate|].
      apply in_app_iff. destruct (fd_stmt fid encl a) eqn:Ea; [left; eapply fd_stmt_in; eauto | right; apply IH; auto].
    - (* SReturn *)
      destruct e as [e|]; [eapply fd_expr_in; eauto | discriminate].
    - (* SDef *)
      destruct (Nat.eqb fid0 fid) eqn:Eid.
      { left. apply Nat.eqb_eq. auto. }
      right. apply in_app_iff.
      destruct (first_some (fun q => match q with PDefault _ e0 => fd_expr fid encl e0 | _ => None end) params) eqn:Ed.
      + left. eapply dflts_in; eauto.
      + right. clear Ed.
        generalize dependent (encl ++ locals_of {| fd_name := name; fd_params := params; fd_body := body; fd_pos := p |}).
        intros encl' H.
        induction body as [|a body IH]; simpl in *; [discriminate|].
        apply in_app_iff. destruct (fd_stmt fid encl' a) eqn:Ea; [left; eapply fd_stmt_in; eauto | right; apply IH; auto].
  Qed.

  Lemma find_def_in : forall p d, find_def p fid = Some d -> List.In fid (all_fids p).
  Proof.
    intros p d H. unfold find_def in H. unfold all_fids.
    generalize dependent (file_names p). intros encl H.
    induction (p_body p) as [|a l IH]; simpl in *; [discriminate|].
    apply in_app_iff. destruct (fd_stmt fid encl a) eqn:Ea; [left; eapply fd_stmt_in; eauto | right; apply IH; auto].
  Qed.
End Complete.

(* the table of compiled functions, looked up by id *)
Lemma find_code_table : forall p ids fid,
  find_code (flat_map (fun i => match find_def p i with
                                | Some (fd, encl) => [(i, compile_fun3 p fd encl)]
                                | None => [] end) ids) fid
  = if nat_mem fid ids then match find_def p fid with
                            | Some (fd, encl) => Some (compile_fun3 p fd encl)
                            | None => None end
    else None.
Proof.
  induction ids as [|i ids IH]; intros fid; [reflexivity|].
  cbn [flat_map]. unfold nat_mem. cbn [existsb]. fold (nat_mem fid ids).
  destruct (Nat.eqb fid i) eqn:E.
  - apply Nat.eqb_eq in E. subst i. cbn [orb].
    destruct (find_def p fid) as [[fd encl]|] eqn:Ed.
    + cbn [app find_code]. rewrite Nat.eqb_refl. reflexivity.
    + cbn [app]. rewrite IH, Ed. destruct (nat_mem fid ids); reflexivity.
  - cbn [orb]. destruct (find_def p i) as [[fd encl]|].
    + cbn [app find_code]. rewrite Nat.eqb_sym, E. apply IH.
    + cbn [app]. apply IH.
Qed.

Theorem funs_ok3_of_b : forall p, funs_ok3b p = true -> funs_ok3 p.
Proof.
  intros p H fid. unfold compile_prog3; cbn [cp_funs]. rewrite find_code_table.
  destruct (find_def p fid) as [[fd encl]|] eqn:Ed.
  - pose proof (find_def_in fid p _ Ed) as Hin.
    rewrite (proj2 (nat_mem_iff fid (all_fids p)) Hin). split; auto.
    unfold funs_ok3b in H. rewrite forallb_forall in H. specialize (H fid Hin). rewrite Ed in H. exact H.
  - destruct (nat_mem fid (all_fids p)); reflexivity.
Qed.
