(* C01 -- the fragment `in_fragment3` for which the code generator with closures
   (CompileClos.v) is proved correct (milestone 3): the fragment of
   ProofsCompFrag.v (all expressions incl. comprehensions, all statements except
   load) plus
   * LAMBDA expressions (outside comprehensions) and
   * DEFS NESTED IN DEFS (and lambdas nested in defs / lambdas, to any depth),
   CAPTURING variables of the enclosing functions: parameters and locals,
   read by the nested function, reassigned by the owner before or after the
   closure is made, passed on through intermediate functions.

   THE GUARDS (each a boolean check on the syntax):
   (g1) the free variables of a function are first mentioned, in the evaluator's traversal of the
        function's syntax, in the order in which the resolver numbers them (they differ only where a
        comprehension's clauses are visited after its body); any number of free variables;
   (g2) no shadowing across function boundaries: a name that a nested function
        mentions and that an enclosing block binds is a free variable of the
        nested function (it does not bind the name itself);
   (g3) a lambda is not inside a comprehension; comprehension variables are not
        captured (the corner of the known finding, already excluded by
        ProofsCompFrag.ok_expr2);
   (g4) the cells of a frame are those of the function-level names the
        evaluator boxes, in the same order (cells_match), no load.
   No proofs in this file. *)
From Coq Require Import ZArith String List Bool.
From SV Require Import C01.Syntax C01.Values C01.Ref C01.VM C01.Compile C01.Frag C01.ProofsCompFrag C01.CompileClos.
Import ListNotations.
Open Scope string_scope.
Open Scope list_scope.
Open Scope nat_scope.

Fixpoint nats_eqb3 (a b : list nat) : bool :=
  match a, b with
  | [], [] => true
  | x :: a, y :: b => Nat.eqb x y && nats_eqb3 a b
  | _, _ => false
  end.

Fixpoint nodup_str (l : list string) : bool :=
  match l with [] => true | a :: r => negb (str_in a r) && nodup_str r end.

Section Ok3.
  Variable p : program.
  Variable lo : list string.     (* the function-level names of the activation (Ref.locals_of; [] at module level) *)
  Variable sc : scope.           (* what the generator knows about the function (CompileClos.scope_of) *)

  (* a name that is READ: a function-level name, or not a slot name and then either a free variable of the
     function or not bound by any enclosing block (global / predeclared / universal) *)
  Definition jok3 (x : string) : bool :=
    str_in x lo || (negb (str_in x (sc_ls sc)) && (str_in x (sc_fr sc) || negb (str_in x (sc_encl sc)))).
  (* a name that is ASSIGNED: never a free variable *)
  Definition jokt3 (x : string) : bool :=
    str_in x lo || (negb (str_in x (sc_ls sc)) && negb (str_in x (sc_encl sc))).
  (* slot i exists, is not the slot of a function-level name and is not a cell *)
  Definition junkb3 (i : nat) : bool :=
    match nth_error (sc_ls sc) i with Some nm => negb (str_in nm lo) | None => false end && negb (is_cell sc i).

  (* making the function fid, whose syntax mentions `names`, in this scope *)
  Definition mk_ok3 (names : list string) (fid : nat) : bool :=
    let fr := fun_free p fid in
    (* the free variables are mentioned in the order in which the generator captures them *)
    strs_eqb (filter (fun z => str_in z fr) (add_all names [])) fr
    && forallb (fun y => jok3 y
                         && (match index_of y (sc_ls sc) with Some i => is_cell sc i | None => true end)
                         && (str_in y lo || str_in y (sc_fr sc))) fr
    && forallb (fun z => str_in z fr || negb (str_in z lo || str_in z (sc_encl sc))) names.

  Fixpoint ok_expr3 (U : list string) (used : list nat) (e : expr) {struct e} : bool :=
    match e with
    | EName x _ => negb (str_in x U) && jok3 x
    | EInt _ | EStr _ | EUnsup _ => true
    | EParen e | EUnary _ _ e | EDot e _ _ => ok_expr3 U used e
    | EBinary _ _ x y | EAnd x y | EOr x y | EIndex x y _ => ok_expr3 U used x && ok_expr3 U used y
    | ECond c t f => ok_expr3 U used c && ok_expr3 U used t && ok_expr3 U used f
    | ETuple es | EList es => forallb (ok_expr3 U used) es
    | ECall fn args _ =>
        ok_expr3 U used fn
        && forallb (fun a => match a with APos e | ANamed _ e | AStar e | AStarStar e => ok_expr3 U used e end) args
        && pos_then_named args
    | ESlice x lo_ hi st _ =>
        ok_expr3 U used x && match lo_ with Some e => ok_expr3 U used e | None => true end
                          && match hi with Some e => ok_expr3 U used e | None => true end
                          && match st with Some e => ok_expr3 U used e | None => true end
    | EDict kvs => forallb (fun kv => ok_expr3 U used (fst (fst kv)) && ok_expr3 U used (snd (fst kv))) kvs
    | ELambda fid ps body _ =>
        is_nil used && is_nil U
        && forallb (fun q => match q with PDefault _ d => ok_expr3 [] [] d | _ => true end) ps
        && mk_ok3 (mentioned ps [SReturn (Some body)]) fid
    | EComp curly body bodyv cp cls slots =>
        match cls with
        | CFor t e0 ps :: rest =>
            let V := comp_vars cls in
            let used' := slots ++ used in
            let okc := fix okc (U1 : list string) (l : list clause) {struct l} : bool :=
                  match l with
                  | [] => ok_expr3 U1 used' body && ok_expr3 U1 used' bodyv
                  | CIf c :: r => ok_expr3 U1 used' c && okc U1 r
                  | CFor t1 e1 _ :: r =>
                      ok_expr3 U1 used' e1 && ok_target3 U1 used' t1
                      && forallb (fun x => str_in x V) (target_names t1)
                      && okc (rm (target_names t1) U1) r
                  end in
            is_nil (nm_expr false e)
            && Nat.eqb (length slots) (length V) && nodup_nat slots
            && forallb (fun i => negb (nat_in i used)) slots && forallb junkb3 slots
            && ok_expr3 U used e0
            && ok_target3 (V ++ U) used' t && forallb (fun x => str_in x V) (target_names t)
            && okc (rm (target_names t) (V ++ U)) rest
        | _ => false
        end
    end
  with ok_target3 (U : list string) (used : list nat) (t : target) {struct t} : bool :=
    match t with
    | TName x _ => jokt3 x
    | TIndex x y _ => ok_expr3 U used x && ok_expr3 U used y
    | TDot x _ _ => ok_expr3 U used x
    | TSeq ts => forallb (ok_target3 U used) ts
    end.

  Section Clauses.
    Variable V : list string.
    Variable used' : list nat.
    Variable curly : bool.
    Variables body bodyv : expr.
    Fixpoint ok_cls3 (U1 : list string) (l : list clause) {struct l} : bool :=
      match l with
      | [] => ok_expr3 U1 used' body && ok_expr3 U1 used' bodyv
      | CIf c :: r => ok_expr3 U1 used' c && ok_cls3 U1 r
      | CFor t1 e1 _ :: r =>
          ok_expr3 U1 used' e1 && ok_target3 U1 used' t1
          && forallb (fun x => str_in x V) (target_names t1)
          && ok_cls3 (rm (target_names t1) U1) r
      end.
  End Clauses.

  Definition ok_param3 (q : param) : bool := match q with PDefault _ e => ok_expr3 [] [] e | _ => true end.

  (* statements: the body of a nested def is checked where the def is found (funs_ok3) *)
  Fixpoint ok_stmt3 (s : stmt) {struct s} : bool :=
    match s with
    | SExpr e => ok_expr3 [] [] e
    | SAssign t e _ => ok_target3 [] [] t && ok_expr3 [] [] e
    | SAug o t e _ => ok_target3 [] [] t && ok_expr3 [] [] e && negb (binop_eqb o NotIn)
    | SIf c tb fb => ok_expr3 [] [] c && forallb ok_stmt3 tb && forallb ok_stmt3 fb
    | SWhile c b => ok_expr3 [] [] c && forallb ok_stmt3 b
    | SFor t e b _ => ok_target3 [] [] t && ok_expr3 [] [] e && forallb ok_stmt3 b
    | SBreak | SContinue | SPass | SReturn None => true
    | SReturn (Some e) => ok_expr3 [] [] e
    | SDef fid name ps body _ => forallb ok_param3 ps && jokt3 name && mk_ok3 (mentioned ps body) fid
    | SLoad _ _ _ | SUnsup _ => false
    end.
End Ok3.

(* the cells of the frame are the slots of the boxed function-level names, in the order the evaluator allocates them *)
Definition cells_match (lo : list string) (sc : scope) (bx : list string) : bool :=
  nats_eqb3 (sc_cells sc)
            (flat_map (fun x => if str_in x bx then match index_of x (sc_ls sc) with Some i => [i] | None => [] end else []) lo).

(* a function found in the program under its id, with the names the enclosing blocks bind *)
Definition ok_fundef3 (p : program) (fd : fundef) (encl : list string) : bool :=
  let lo := locals_of fd in
  let sc := scope_of fd encl in
  forallb (ok_stmt3 p lo sc) (fd_body fd)
  && layout_ok lo (sc_ls sc) (length (param_names (fd_params fd)))
  && cells_match lo sc (boxed_names (fd_body fd))
  && nodup_str lo
  && nodup_str (sc_fr sc)
  && forallb (fun y => str_in y encl && negb (str_in y lo)) (sc_fr sc).

Definition ok_prog3 (p : program) : bool :=
  forallb (ok_stmt3 p [] (scope_top p)) (p_body p) && is_nil (sc_cells (scope_top p)).

(* every function of the program, as the evaluator finds it by its id, is in the fragment *)
Definition funs_ok3b (p : program) : bool :=
  forallb (fun fid => match find_def p fid with Some (fd, encl) => ok_fundef3 p fd encl | None => true end) (all_fids p).

(* THE FRAGMENT: the module level and every function *)
Definition in_fragment3 (p : program) : bool := ok_prog3 p && funs_ok3b p.

(* what the simulation uses (ProofsClosFuns.funs_ok3_of_b derives it from funs_ok3b): every function the
   evaluator finds by its id is in the fragment and is the function compiled under that id *)
Definition funs_ok3 (p : program) : Prop :=
  forall fid,
    match find_def p fid with
    | Some (fd, encl) => ok_fundef3 p fd encl = true
                         /\ find_code (cp_funs (compile_prog3 p)) fid = Some (compile_fun3 p fd encl)
    | None => find_code (cp_funs (compile_prog3 p)) fid = None
    end.
