(* C01 -- abstract syntax of the core language after parsing (mirror of package
   syntax, positions kept only where an operation can fail dynamically).
   No proofs in this file. *)
From Coq Require Import ZArith String List Bool.
Import ListNotations.
Open Scope string_scope.

Definition pos := (nat * nat)%type.   (* line, column *)

Inductive unop := UNeg | UPos | UNot | UTilde.

(* strict binary operators (and/or are separate constructors) *)
Inductive binop :=
| Add | Sub | Mul | Div | FloorDiv | Mod | BitAnd | BitOr | BitXor | Shl | Shr
| Lt | Gt | Ge | Le | Eq | Ne | In | NotIn.

Inductive expr :=
| EName (x : string) (p : pos)
| EInt (z : Z)
| EStr (s : string)
| EUnsup (tag : string)                      (* float / bytes literals, slices *)
| EParen (e : expr)
| EUnary (o : unop) (p : pos) (e : expr)
| EBinary (o : binop) (p : pos) (x y : expr)
| EAnd (x y : expr)
| EOr (x y : expr)
| ECond (c t f : expr)
| ETuple (es : list expr)
| EList (es : list expr)
| EDict (kvs : list (expr * expr * pos))
| EIndex (x y : expr) (p : pos)
| EDot (x : expr) (name : string) (p : pos)
| ECall (fn : expr) (args : list arg) (p : pos)
| ELambda (fid : nat) (params : list param) (body : expr) (p : pos)
| EComp (curly : bool) (body : expr) (bodyv : expr) (cp : pos) (cls : list clause) (slots : list nat)
    (* list comprehension: body, bodyv ignored; dict comprehension: body = key, bodyv = value, cp = colon;
       slots: local slots of the comprehension's variables, filled by Compile.number_* (ignored by Ref) *)
| ESlice (x : expr) (lo hi step : option expr) (p : pos)
with arg :=
| APos (e : expr)
| ANamed (name : string) (e : expr)
| AStar (e : expr)
| AStarStar (e : expr)
with param :=
| PPlain (x : string)
| PDefault (x : string) (e : expr)
| PStar (x : option string)                  (* *args or bare * *)
| PStarStar (x : string)
with clause :=
| CFor (t : target) (e : expr) (p : pos)
| CIf (c : expr)
with target :=
| TName (x : string) (p : pos)
| TIndex (x y : expr) (p : pos)
| TDot (x : expr) (name : string) (p : pos)
| TSeq (ts : list target).

Inductive stmt :=
| SExpr (e : expr)
| SAssign (t : target) (e : expr) (p : pos)
| SAug (o : binop) (t : target) (e : expr) (p : pos)
| SIf (c : expr) (tb fb : list stmt)
| SWhile (c : expr) (body : list stmt)
| SFor (t : target) (e : expr) (body : list stmt) (p : pos)
| SBreak
| SContinue
| SPass
| SReturn (e : option expr)
| SDef (fid : nat) (name : string) (params : list param) (body : list stmt) (p : pos)
| SLoad (module : string) (names : list (string * string)) (p : pos)   (* (to, from) *)
| SUnsup (tag : string).

(* dialect options of the property's quantifier *)
Record options := { o_set : bool; o_while : bool; o_recursion : bool; o_toplevel : bool }.

Record program := { p_opts : options; p_body : list stmt }.

(* A function definition (def or lambda) found in the program. *)
Record fundef := { fd_name : string; fd_params : list param; fd_body : list stmt; fd_pos : pos }.

Definition unop_eqb (a b : unop) : bool :=
  match a, b with UNeg, UNeg | UPos, UPos | UNot, UNot | UTilde, UTilde => true | _, _ => false end.

Definition binop_tag (o : binop) : nat :=
  match o with
  | Add => 0 | Sub => 1 | Mul => 2 | Div => 3 | FloorDiv => 4 | Mod => 5 | BitAnd => 6 | BitOr => 7
  | BitXor => 8 | Shl => 9 | Shr => 10 | Lt => 11 | Gt => 12 | Ge => 13 | Le => 14 | Eq => 15
  | Ne => 16 | In => 17 | NotIn => 18
  end.
Definition binop_eqb (a b : binop) : bool := Nat.eqb (binop_tag a) (binop_tag b).

Definition pos_eqb (a b : pos) : bool := Nat.eqb (fst a) (fst b) && Nat.eqb (snd a) (snd b).

(* ---- searching the program for the definition with a given id *)
Definition first_some {A B} (f : A -> option B) : list A -> option B :=
  fix go l := match l with [] => None | a :: r => match f a with Some b => Some b | None => go r end end.

Fixpoint find_fun_expr (fid : nat) (e : expr) {struct e} : option fundef :=
  match e with
  | EName _ _ | EInt _ | EStr _ | EUnsup _ => None
  | EParen e => find_fun_expr fid e
  | EUnary _ _ e => find_fun_expr fid e
  | EBinary _ _ x y | EAnd x y | EOr x y =>
      match find_fun_expr fid x with Some d => Some d | None => find_fun_expr fid y end
  | ECond c t f =>
      match find_fun_expr fid c with Some d => Some d | None =>
      match find_fun_expr fid t with Some d => Some d | None => find_fun_expr fid f end end
  | ETuple es | EList es => first_some (find_fun_expr fid) es
  | EDict kvs => first_some (fun kv => match find_fun_expr fid (fst (fst kv)) with Some d => Some d
                                       | None => find_fun_expr fid (snd (fst kv)) end) kvs
  | EIndex x y _ => match find_fun_expr fid x with Some d => Some d | None => find_fun_expr fid y end
  | EDot x _ _ => find_fun_expr fid x
  | ECall fn args _ =>
      match find_fun_expr fid fn with Some d => Some d | None =>
        first_some (fun a => match a with APos e | ANamed _ e | AStar e | AStarStar e => find_fun_expr fid e end) args end
  | ELambda id ps body p =>
      if Nat.eqb id fid then Some {| fd_name := "lambda"; fd_params := ps; fd_body := [SReturn (Some body)]; fd_pos := p |}
      else match first_some (fun q => match q with PDefault _ e => find_fun_expr fid e | _ => None end) ps with
           | Some d => Some d | None => find_fun_expr fid body end
  | EComp _ b bv _ cls _ =>
      match find_fun_expr fid b with Some d => Some d | None =>
      match find_fun_expr fid bv with Some d => Some d | None =>
        first_some (fun c => match c with
                             | CFor t e _ => match find_fun_target fid t with Some d => Some d | None => find_fun_expr fid e end
                             | CIf c => find_fun_expr fid c end) cls end end
  | ESlice x lo hi st _ =>
      let o (e : option expr) := match e with Some e => find_fun_expr fid e | None => None end in
      match find_fun_expr fid x with Some d => Some d | None =>
      match o lo with Some d => Some d | None =>
      match o hi with Some d => Some d | None => o st end end end
  end
with find_fun_target (fid : nat) (t : target) {struct t} : option fundef :=
  match t with
  | TName _ _ => None
  | TIndex x y _ => match find_fun_expr fid x with Some d => Some d | None => find_fun_expr fid y end
  | TDot x _ _ => find_fun_expr fid x
  | TSeq ts => first_some (find_fun_target fid) ts
  end.

Fixpoint find_fun_stmt (fid : nat) (s : stmt) {struct s} : option fundef :=
  match s with
  | SExpr e => find_fun_expr fid e
  | SAssign t e _ | SAug _ t e _ =>
      match find_fun_expr fid e with Some d => Some d | None => find_fun_target fid t end
  | SIf c tb fb =>
      match find_fun_expr fid c with Some d => Some d | None =>
      match first_some (find_fun_stmt fid) tb with Some d => Some d | None => first_some (find_fun_stmt fid) fb end end
  | SWhile c b => match find_fun_expr fid c with Some d => Some d | None => first_some (find_fun_stmt fid) b end
  | SFor t e b _ =>
      match find_fun_expr fid e with Some d => Some d | None =>
      match find_fun_target fid t with Some d => Some d | None => first_some (find_fun_stmt fid) b end end
  | SBreak | SContinue | SPass | SLoad _ _ _ | SUnsup _ => None
  | SReturn None => None
  | SReturn (Some e) => find_fun_expr fid e
  | SDef id name ps body p =>
      if Nat.eqb id fid then Some {| fd_name := name; fd_params := ps; fd_body := body; fd_pos := p |}
      else match first_some (fun q => match q with PDefault _ e => find_fun_expr fid e | _ => None end) ps with
           | Some d => Some d | None => first_some (find_fun_stmt fid) body end
  end.

Definition find_fun (p : program) (fid : nat) : option fundef :=
  first_some (find_fun_stmt fid) (p_body p).
