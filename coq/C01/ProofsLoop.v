(* C01 -- simulation: blocks, while and for loops. *)
From Coq Require Import ZArith String List Bool Lia.
From SV Require Import C01.Syntax C01.Values C01.Ref C01.VM C01.Compile C01.Frag C01.ProofsVM C01.ProofsEnv C01.SimDefs C01.ProofsExpr C01.ProofsStmt.
Import ListNotations.
Open Scope string_scope.
Open Scope list_scope.
Open Scope nat_scope.

Section Loop.
  Variable p : program.
  Notation cp := (compile_prog p).
  Notation fn := (fname p).

  Lemma keeps_trans : forall ρ ρ1 r, wf ρ1 -> map fst ρ1 = map fst ρ -> keeps ρ1 r -> keeps ρ r.
  Proof. unfold keeps; intros ρ ρ1 r _ Hm [H1 H2]. split; auto. congruence. Qed.

  Lemma B_step : forall n, X p n -> B p n -> B p (S n).
  Proof.
    intros n IHX IHB.
    unfold B; intros stk ρ ss s fid C fv K pc I brk cont Hok Hwf Hstk Hcode.
    destruct ss as [|st r]; simpl exec_block.
    - cbn [sim]. split; [split; auto|]. unfold after. fin.
    - simpl in Hok. apply andb_true_iff in Hok. destruct Hok as [Hst Hr].
      rewrite gb_cons in *. pcode_split.
      match goal with Hc : pcode_at _ _ (gen_stmt _ _ st) _ _ |- _ =>
        pose proof (IHX stk ρ st s fid C fv K pc I brk cont Hst Hwf Hstk Hc) as IH1 end.
      destruct (exec p n stk ρ st s) as [[[out ρ1] s1]| | |]; cbn [sim fst snd] in *; auto.
      destruct IH1 as [[Hw Hm] Ha]. cbn [fst snd] in *.
      destruct out.
      + unfold after in Ha.
        match goal with Hc : pcode_at _ ?q (gen_block _ _ r) _ _ |- _ => rewrite <- Hm in Hc;
          pose proof (IHB stk ρ1 r s1 fid C fv K _ I brk cont Hr Hw Hstk Hc) as IH2 end.
        rewrite <- Hm in *.
        eapply sim_move; [ exact Ha | exact IH2 | ].
        intros r' [Hk Ha']. split; [ eapply keeps_trans; eauto; congruence | ].
        eapply after_pre; [ exact Ha | exact Ha' | ].
        intros ρ' s'. fin.
      + split; [split; auto|]. exact Ha.
      + split; [split; auto|]. exact Ha.
      + split; [split; auto|]. exact Ha.
  Qed.

  Lemma W_step : forall n, Cn p n -> B p n -> W p n -> W p (S n).
  Proof.
    intros n IHC IHB IHW.
    unfold W; intros stk ρ c body s fid C fv K pc I brk cont Hc Hb Hwf Hstk Hcode.
    pose proof Hcode as Hwhile.
    (* continuing with the next iteration from the loop head *)
    assert (Hnext : forall ρ2 s2, wf ρ2 -> map fst ρ2 = map fst ρ ->
              star cp fn (S1 fid C fv K pc [] ρ I s) (S1 fid C fv K pc [] ρ2 I s2) ->
              sim p (exec_while p n stk ρ2 c body s2) (S1 fid C fv K pc [] ρ I s)
                (fun r => keeps ρ r /\
                   let S0 := S1 fid C fv K pc [] ρ I s in
                   let '(out, ρ', s') := r in
                   match out with
                   | ONormal => star cp fn S0 (S1 fid C fv K (pc + length (gen_stmt p (map fst ρ) (SWhile c body))) [] ρ' I s')
                   | OReturn v => exists pcr Ix wv,
                         star cp fn S0 (St (Fr fid C pcr [v] (env_vals ρ') (Ix ++ I) fv) K (rg s') wv)
                         /\ nth_error C pcr = Some RETURN /\ release_all Ix wv = rw s'
                   | _ => False
                   end)).
    { intros ρ2 s2 Hw2 Hm2 Hs.
      assert (Hc2 : pcode_at C pc (gen_stmt p (map fst ρ2) (SWhile c body)) brk cont) by (rewrite Hm2; exact Hwhile).
      pose proof (IHW stk ρ2 c body s2 fid C fv K pc I brk cont Hc Hb Hw2 Hstk Hc2) as IH.
      eapply sim_move; [ exact Hs | exact IH | ].
      intros [[out ρ'] s'] [Hk Ha]. split; [ eapply keeps_trans; eauto | ].
      rewrite Hm2 in Ha.
      destruct out; auto.
      - eapply star_trans; eauto.
      - destruct Ha as [pcr [Ix [wv [H1 [H2 H3]]]]]. exists pcr, Ix, wv. repeat split; auto.
        eapply star_trans; eauto. }
    rewrite gs_while in Hcode. pcode_split. rewrite ?patch_loop_length in *.
    condof c ltac:(fun Hcc => pose proof (IHC stk ρ c s fid C fv K pc [] I brk cont _ _ Hc Hwf Hstk Hcc) as IHc).
    simpl exec_while.
    destruct (eval p n stk ρ c s) as [[vc s1]| | |]; cbn [sim fst snd] in *; auto.
    destruct (truth vc (rw s1)) eqn:Et.
    - match goal with Hp : pcode_at C ?bs (patch_loop _ _ _) _ _ |- _ =>
        pose proof (pcode_patch C bs _ _ _ _ _ Hp ltac:(lia)) as Hbody end.
      pose proof (IHB stk ρ body s1 fid C fv K _ I _ _ Hb Hwf Hstk Hbody) as IH2.
      assert (Hpre : star cp fn (S1 fid C fv K pc [] ρ I s)
                       (S1 fid C fv K (pc + length (gen_cond p (map fst ρ) c 0 (length (gen_block p (map fst ρ) body) + 1))) [] ρ I s1)).
      { chain IHc. fin. }
      destruct (exec_block p n stk ρ body s1) as [[[out ρ2] s2]| | |]; cbn [sim fst snd] in *; auto.
      + destruct IH2 as [[Hw2 Hm2] Ha]. cbn [fst snd] in *. unfold after in Ha.
        destruct out.
        * apply Hnext; auto. chain Hpre. chain Ha. vstep. fin.
        * cbn [sim]. split; [split; auto|]. rewrite gs_while. chain Hpre. chain Ha. fin.
        * apply Hnext; auto. chain Hpre. chain Ha. fin.
        * cbn [sim]. split; [split; auto|].
          destruct Ha as [pcr [Ix [wv [H1' [H2' H3']]]]]. exists pcr, Ix, wv. repeat split; auto.
          chain Hpre. exact H1'.
      + hstar Hpre. hchain IH2.
      + hstar Hpre. hchain IH2.
    - cbn [sim]. split; [split; auto|]. rewrite gs_while. chain IHc. fin.
  Qed.

  Lemma F_step : forall n, As p n -> B p n -> F p n -> F p (S n).
  Proof.
    intros n IHA IHB IHF.
    unfold F; intros stk ρ t ps vs lock body s fid C fv K pc I brk cont e Ht Hb Hwf Hstk Hcode.
    cbv zeta.
    pose proof Hcode as Hfor.
    set (head := pc + length (gen_expr p (map fst ρ) e) + 1) in *.
    (* continuing with the next element from the loop head *)
    assert (Hnext : forall ρ2 s2 vs', wf ρ2 -> map fst ρ2 = map fst ρ ->
              star cp fn (S1 fid C fv K head [] ρ ({| it_rem := vs; it_lock := lock |} :: I) s)
                         (S1 fid C fv K head [] ρ2 ({| it_rem := vs'; it_lock := lock |} :: I) s2) ->
              sim p (exec_for p n stk ρ2 t ps vs' body s2)
                (S1 fid C fv K head [] ρ ({| it_rem := vs; it_lock := lock |} :: I) s)
                (fun r => keeps ρ r /\
                   let '(out, ρ', s') := r in
                   match out with
                   | ONormal => exists rem,
                       star cp fn (S1 fid C fv K head [] ρ ({| it_rem := vs; it_lock := lock |} :: I) s)
                            (S1 fid C fv K (pc + length (gen_stmt p (map fst ρ) (SFor t e body ps)) - 1) [] ρ'
                                ({| it_rem := rem; it_lock := lock |} :: I) s')
                   | OReturn v => exists pcr Ix rem wv,
                       star cp fn (S1 fid C fv K head [] ρ ({| it_rem := vs; it_lock := lock |} :: I) s)
                            (St (Fr fid C pcr [v] (env_vals ρ') (Ix ++ {| it_rem := rem; it_lock := lock |} :: I) fv) K (rg s') wv)
                       /\ nth_error C pcr = Some RETURN /\ release_all Ix wv = rw s'
                   | _ => False
                   end)).
    { intros ρ2 s2 vs' Hw2 Hm2 Hs.
      assert (Hc2 : pcode_at C pc (gen_stmt p (map fst ρ2) (SFor t e body ps)) brk cont) by (rewrite Hm2; exact Hfor).
      pose proof (IHF stk ρ2 t ps vs' lock body s2 fid C fv K pc I brk cont e Ht Hb Hw2 Hstk Hc2) as IH.
      cbv zeta in IH. rewrite Hm2 in IH. fold head in IH.
      eapply sim_move; [ exact Hs | exact IH | ].
      intros [[out ρ'] s'] [Hk Ha]. split; [ eapply keeps_trans; eauto | ].
      destruct out; auto.
      - destruct Ha as [rem Ha]. exists rem. eapply star_trans; eauto.
      - destruct Ha as [pcr [Ix [rem [wv [H1 [H2 H3]]]]]]. exists pcr, Ix, rem, wv. repeat split; auto.
        eapply star_trans; eauto. }
    rewrite gs_for in Hcode. pcode_split. rewrite ?patch_loop_length in *.
    destruct vs as [|v vs']; simpl exec_for.
    - cbn [sim]. split; [split; auto|]. exists []. rewrite gs_for. unfold head. vstep. fin.
    - match goal with Hc : pcode_at _ ?q (gen_assign _ _ _ _) _ _ |- _ =>
        pose proof (IHA stk ρ t v ps s fid C fv K q [] ({| it_rem := vs'; it_lock := lock |} :: I) brk cont Ht Hwf Hstk Hc) as IH1 end.
      assert (Hpre : star cp fn (S1 fid C fv K head [] ρ ({| it_rem := v :: vs'; it_lock := lock |} :: I) s)
                       (S1 fid C fv K (head + 1) [v] ρ ({| it_rem := vs'; it_lock := lock |} :: I) s)).
      { unfold head. vstep. fin. }
      destruct (assign p n stk ρ t v ps s) as [[ρ1 s1]| | |]; cbn [sim fst snd] in *; auto.
      2: { hstar Hpre. unfold head. hchain IH1. }
      2: { hstar Hpre. unfold head. hchain IH1. }
      destruct IH1 as [Hw1 [Hm1 IH1]].
      match goal with Hp : pcode_at C ?bs (patch_loop _ _ _) _ _ |- _ =>
        pose proof (pcode_patch C bs _ _ _ _ _ Hp ltac:(lia)) as Hbody end.
      rewrite <- Hm1 in Hbody.
      pose proof (IHB stk ρ1 body s1 fid C fv K _ ({| it_rem := vs'; it_lock := lock |} :: I) _ _ Hb Hw1 Hstk Hbody) as IH2.
      rewrite Hm1 in IH2.
      assert (Hpre2 : star cp fn (S1 fid C fv K head [] ρ ({| it_rem := v :: vs'; it_lock := lock |} :: I) s)
                        (S1 fid C fv K (head + 1 + length (gen_assign p (map fst ρ) t ps)) [] ρ1
                            ({| it_rem := vs'; it_lock := lock |} :: I) s1)).
      { chain Hpre. unfold head. chain IH1. unfold head. fin. }
      destruct (exec_block p n stk ρ1 body s1) as [[[out ρ2] s2]| | |]; cbn [sim fst snd] in *; auto.
      + destruct IH2 as [[Hw2 Hm2] Ha]. cbn [fst snd] in *. unfold after in Ha.
        assert (Hm : map fst ρ2 = map fst ρ) by congruence.
        destruct out.
        * apply Hnext; auto. chain Hpre2. unfold head. chain Ha. unfold head. vstep. fin.
        * cbn [sim]. split; [split; auto|]. exists vs'. rewrite gs_for. chain Hpre2. unfold head. chain Ha. unfold head. fin.
        * apply Hnext; auto. chain Hpre2. unfold head. chain Ha. unfold head. fin.
        * cbn [sim]. split; [split; auto|].
          destruct Ha as [pcr [Ix [wv [H1' [H2' H3']]]]]. exists pcr, Ix, vs', wv. repeat split; auto.
          chain Hpre2. unfold head. eapply star_from_eq; [ | exact H1' ]. state_eq.
      + hstar Hpre2. unfold head. hchain IH2.
      + hstar Hpre2. unfold head. hchain IH2.
  Qed.
End Loop.
