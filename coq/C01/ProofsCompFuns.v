(* C01 -- comprehensions: function ids are consistent for the programs of in_fragment2
   (ProofsFuns.v for the larger fragment: expressions with comprehensions still
   contain no function definition). *)
From Coq Require Import ZArith String List Bool Lia.
From SV Require Import C01.Syntax C01.Values C01.Ref C01.VM C01.Compile C01.Frag C01.ProofsFuns C01.ProofsCompFrag.
Import ListNotations.
Open Scope string_scope.
Open Scope list_scope.
Open Scope nat_scope.

Lemma ok_comp' : forall lo ls U used curly body bodyv cp t e0 ps rest slots,
  ok_expr2 lo ls U used (EComp curly body bodyv cp (CFor t e0 ps :: rest) slots) =
  (is_nil (nm_expr false (EComp curly body bodyv cp (CFor t e0 ps :: rest) slots))
   && Nat.eqb (length slots) (length (comp_vars (CFor t e0 ps :: rest))) && nodup_nat slots
   && forallb (fun i => negb (nat_in i used)) slots && forallb (junkb lo ls) slots
   && ok_expr2 lo ls U used e0
   && ok_target2 lo ls (comp_vars (CFor t e0 ps :: rest) ++ U) (slots ++ used) t
   && forallb (fun x => str_in x (comp_vars (CFor t e0 ps :: rest))) (target_names t)
   && ok_cls lo ls (comp_vars (CFor t e0 ps :: rest)) (slots ++ used) body bodyv
             (rm (target_names t) (comp_vars (CFor t e0 ps :: rest) ++ U)) rest).
Proof. reflexivity. Qed.

Lemma ok_cls_body : forall lo ls V used body bodyv l U,
  ok_cls lo ls V used body bodyv U l = true ->
  exists U2, ok_expr2 lo ls U2 used body = true /\ ok_expr2 lo ls U2 used bodyv = true.
Proof.
  induction l as [|[t e ps|c] l IH]; intros U H; simpl in H.
  - apply andb_true_iff in H. exists U. tauto.
  - apply andb_true_iff in H. destruct H as [_ H]. eauto.
  - apply andb_true_iff in H. destruct H as [_ H]. eauto.
Qed.

(* expressions of the fragment contain no function definition *)
Fixpoint fd_expr_none2 (e : expr) {struct e} :
  forall lo ls U used, ok_expr2 lo ls U used e = true -> forall fid encl, fd_expr fid encl e = None
with fd_target_none2 (t : target) {struct t} :
  forall lo ls U used, ok_target2 lo ls U used t = true -> forall fid encl, fd_target fid encl t = None.
Proof.
  - intros lo ls U used Hok fid encl.
    destruct e; try (simpl in Hok; discriminate).
    + reflexivity.
    + reflexivity.
    + reflexivity.
    + reflexivity.
    + simpl in *. eapply fd_expr_none2; eauto.
    + simpl in *. eapply fd_expr_none2; eauto.
    + simpl in *. apply andb_true_iff in Hok. destruct Hok as [H1 H2].
      rewrite (fd_expr_none2 e1 _ _ _ _ H1). eapply fd_expr_none2; eauto.
    + simpl in *. apply andb_true_iff in Hok. destruct Hok as [H1 H2].
      rewrite (fd_expr_none2 e1 _ _ _ _ H1). eapply fd_expr_none2; eauto.
    + simpl in *. apply andb_true_iff in Hok. destruct Hok as [H1 H2].
      rewrite (fd_expr_none2 e1 _ _ _ _ H1). eapply fd_expr_none2; eauto.
    + simpl in *. apply andb_true_iff in Hok. destruct Hok as [H1 H3]. apply andb_true_iff in H1. destruct H1 as [H1 H2].
      rewrite (fd_expr_none2 e1 _ _ _ _ H1), (fd_expr_none2 e2 _ _ _ _ H2). eapply fd_expr_none2; eauto.
    + (* ETuple *)
      simpl in *. induction es as [|a es IH]; simpl in *; auto.
      apply andb_true_iff in Hok. destruct Hok as [Ha Hes].
      rewrite (fd_expr_none2 a _ _ _ _ Ha). apply IH; auto.
    + (* EList *)
      simpl in *. induction es as [|a es IH]; simpl in *; auto.
      apply andb_true_iff in Hok. destruct Hok as [Ha Hes].
      rewrite (fd_expr_none2 a _ _ _ _ Ha). apply IH; auto.
    + (* EDict *)
      simpl in *. induction kvs as [|[[k v] cp] kvs IH]; simpl in *; auto.
      apply andb_true_iff in Hok. destruct Hok as [Hkv Hr]. apply andb_true_iff in Hkv. destruct Hkv as [Hk Hv].
      rewrite (fd_expr_none2 k _ _ _ _ Hk), (fd_expr_none2 v _ _ _ _ Hv). apply IH; auto.
    + (* EIndex *)
      simpl in *. apply andb_true_iff in Hok. destruct Hok as [H1 H2].
      rewrite (fd_expr_none2 e1 _ _ _ _ H1). eapply fd_expr_none2; eauto.
    + (* EDot *)
      simpl in *. eapply fd_expr_none2; eauto.
    + (* ECall *)
      simpl in *. apply andb_true_iff in Hok. destruct Hok as [Hok _]. apply andb_true_iff in Hok. destruct Hok as [Hf Hargs].
      rewrite (fd_expr_none2 e _ _ _ _ Hf).
      clear - fd_expr_none2 Hargs.
      induction args as [|a args IH]; simpl in *; auto.
      apply andb_true_iff in Hargs. destruct Hargs as [Ha Hr].
      destruct a; rewrite (fd_expr_none2 e _ _ _ _ Ha); apply IH; auto.
    + (* EComp *)
      destruct cls as [|[t e0 ps|c0] rest]; try (simpl in Hok; discriminate).
      rewrite ok_comp' in Hok.
      apply andb_true_iff in Hok. destruct Hok as [Hok Hcls].
      apply andb_true_iff in Hok. destruct Hok as [Hok _].
      apply andb_true_iff in Hok. destruct Hok as [Hok Htg].
      apply andb_true_iff in Hok. destruct Hok as [_ He0].
      destruct (ok_cls_body _ _ _ _ _ _ _ _ Hcls) as [U2 [Hb Hbv]].
      cbn [fd_expr].
      rewrite (fd_expr_none2 e1 _ _ _ _ Hb), (fd_expr_none2 e2 _ _ _ _ Hbv).
      cbn [first_some].
      rewrite (fd_target_none2 t _ _ _ _ Htg), (fd_expr_none2 e0 _ _ _ _ He0).
      clear - fd_expr_none2 fd_target_none2 Hcls.
      revert Hcls. generalize (rm (target_names t) (comp_vars (CFor t e0 ps :: rest) ++ U)) as U1.
      generalize (comp_vars (CFor t e0 ps :: rest)) as V.
      induction rest as [|[t1 e1' ps1|c1] rest IH]; intros V U1 Hcls; simpl in *; auto.
      * apply andb_true_iff in Hcls. destruct Hcls as [Hcls Hr]. apply andb_true_iff in Hcls. destruct Hcls as [Hcls _].
        apply andb_true_iff in Hcls. destruct Hcls as [He Ht].
        rewrite (fd_target_none2 t1 _ _ _ _ Ht), (fd_expr_none2 e1' _ _ _ _ He). eapply IH; eauto.
      * apply andb_true_iff in Hcls. destruct Hcls as [Hc Hr].
        rewrite (fd_expr_none2 c1 _ _ _ _ Hc). eapply IH; eauto.
    + (* ESlice *)
      simpl in *. apply andb_true_iff in Hok. destruct Hok as [Hok Hst]. apply andb_true_iff in Hok. destruct Hok as [Hok Hhi].
      apply andb_true_iff in Hok. destruct Hok as [Hx Hlo].
      rewrite (fd_expr_none2 e _ _ _ _ Hx).
      destruct lo0 as [l0|]; [rewrite (fd_expr_none2 l0 _ _ _ _ Hlo)|];
      (destruct hi as [h0|]; [rewrite (fd_expr_none2 h0 _ _ _ _ Hhi)|]);
      (destruct step as [st|]; [eapply fd_expr_none2; eauto | reflexivity]).
  - intros lo ls U used Hok fid encl. destruct t; simpl in *; auto.
    + apply andb_true_iff in Hok. destruct Hok as [Hx Hy].
      rewrite (fd_expr_none2 x _ _ _ _ Hx). eapply fd_expr_none2; eauto.
    + eapply fd_expr_none2; eauto.
    + induction ts as [|a ts IH]; simpl in *; auto.
      apply andb_true_iff in Hok. destruct Hok as [Ha Hts].
      rewrite (fd_target_none2 a _ _ _ _ Ha). apply IH; auto.
Qed.

Lemma plain_no_defaults2 : forall lo ls ps fid encl, forallb (ok_param2 lo ls) ps = true ->
  first_some (fun q => match q with PDefault _ d => fd_expr fid encl d | _ => None end) ps = None.
Proof.
  induction ps as [|q ps IH]; intros; simpl in *; auto.
  apply andb_true_iff in H. destruct H as [Hq Hps]. destruct q; simpl in *; try (apply IH; auto).
  rewrite (fd_expr_none2 e _ _ _ _ Hq). apply IH; auto.
Qed.

Definition nodef_prop2 (s : stmt) : Prop :=
  forall lo ls, ok_stmt2 lo ls s = true -> no_defs_stmt s = true ->
  (forall fid encl, fd_stmt fid encl s = None) /\ defs_stmt s = [].

Lemma nodef_list2 : forall l, Forall nodef_prop2 l ->
  forall lo ls, forallb (ok_stmt2 lo ls) l = true -> forallb no_defs_stmt l = true ->
  (forall fid encl, first_some (fd_stmt fid encl) l = None) /\ flat_map defs_stmt l = [].
Proof.
  induction 1 as [|x l Hx Hl IH]; intros lo ls Ho Hn; simpl in *; [split; auto|].
  apply andb_true_iff in Ho. destruct Ho as [Ho1 Ho2]. apply andb_true_iff in Hn. destruct Hn as [Hn1 Hn2].
  destruct (Hx lo ls Ho1 Hn1) as [H1 H2]. destruct (IH lo ls Ho2 Hn2) as [H3 H4].
  split; [intros; rewrite H1; apply H3 | rewrite H2, H4; reflexivity].
Qed.

Ltac none_all :=
  repeat match goal with
  | H : ok_expr2 _ _ _ _ ?e = true |- context [fd_expr _ _ ?e] => rewrite (fd_expr_none2 e _ _ _ _ H)
  | H : ok_target2 _ _ _ _ ?t = true |- context [fd_target _ _ ?t] => rewrite (fd_target_none2 t _ _ _ _ H)
  end.

(* statements without defs *)
Lemma nodef_stmt2 : forall s, nodef_prop2 s.
Proof.
  apply stmt_ind'; unfold nodef_prop2; intros; simpl in *; try discriminate;
    repeat match goal with H : _ && _ = true |- _ => apply andb_true_iff in H; destruct H end;
    try (solve [ split; [ intros; none_all; auto | auto ] ]).
  - (* SIf *)
    destruct (nodef_list2 tb H lo ls) as [A1 A2]; auto. destruct (nodef_list2 fb H0 lo ls) as [B1 B2]; auto.
    split; [ intros; none_all; rewrite A1; apply B1 | rewrite A2, B2; reflexivity ].
  - (* SWhile *)
    destruct (nodef_list2 b H lo ls) as [A1 A2]; auto.
    split; [ intros; none_all; apply A1 | exact A2 ].
  - (* SFor *)
    destruct (nodef_list2 b H lo ls) as [A1 A2]; auto.
    split; [ intros; none_all; apply A1 | exact A2 ].
  - (* SReturn *)
    destruct e; split; auto. intros. none_all. reflexivity.
Qed.

Definition flat_prop2 (s : stmt) : Prop :=
  forall lo ls, ok_stmt2 lo ls s = true -> flat_stmt s = true ->
  (forall fid encl, fd_stmt fid encl s = found fid encl (defs_stmt s))
  /\ Forall (fun d => ok_fundef2 (snd d) = true) (defs_stmt s).

Lemma flat_list2 : forall l, Forall flat_prop2 l ->
  forall lo ls, forallb (ok_stmt2 lo ls) l = true -> forallb flat_stmt l = true ->
  (forall fid encl, first_some (fd_stmt fid encl) l = found fid encl (flat_map defs_stmt l))
  /\ Forall (fun d => ok_fundef2 (snd d) = true) (flat_map defs_stmt l).
Proof.
  induction 1 as [|x l Hx Hl IH]; intros lo ls Ho Hn; simpl in *; [split; auto|].
  apply andb_true_iff in Ho. destruct Ho as [Ho1 Ho2]. apply andb_true_iff in Hn. destruct Hn as [Hn1 Hn2].
  destruct (Hx lo ls Ho1 Hn1) as [H1 H2]. destruct (IH lo ls Ho2 Hn2) as [H3 H4].
  split.
  - intros. rewrite H1, H3. unfold found. rewrite first_def_app. destruct (first_def fid (defs_stmt x)); reflexivity.
  - apply Forall_app; auto.
Qed.

Lemma ok_sdef' : forall lo ls fid name ps body pp,
  ok_stmt2 lo ls (SDef fid name ps body pp) =
  forallb (ok_param2 lo ls) ps && jok lo ls name
  && ok_fundef2 {| fd_name := name; fd_params := ps; fd_body := body; fd_pos := pp |}.
Proof. reflexivity. Qed.

Lemma flat_stmt_ok2 : forall s, flat_prop2 s.
Proof.
  apply stmt_ind'; unfold flat_prop2; intros;
    try (rewrite ok_sdef' in *);
    try (simpl in *; discriminate).
  all: try (simpl in *;
    repeat match goal with H : _ && _ = true |- _ => apply andb_true_iff in H; destruct H end;
    solve [ split; [ intros; none_all; auto | constructor ] ]).
  - (* SIf *)
    simpl in *. repeat match goal with H : _ && _ = true |- _ => apply andb_true_iff in H; destruct H end.
    destruct (flat_list2 tb H lo ls) as [A1 A2]; auto. destruct (flat_list2 fb H0 lo ls) as [B1 B2]; auto.
    split; [ | apply Forall_app; auto ].
    intros. none_all. rewrite A1, B1. unfold found. rewrite first_def_app.
    destruct (first_def fid (flat_map defs_stmt tb)); reflexivity.
  - (* SWhile *)
    simpl in *. repeat match goal with H : _ && _ = true |- _ => apply andb_true_iff in H; destruct H end.
    destruct (flat_list2 b H lo ls) as [A1 A2]; auto.
    split; auto. intros. none_all. apply A1.
  - (* SFor *)
    simpl in *. repeat match goal with H : _ && _ = true |- _ => apply andb_true_iff in H; destruct H end.
    destruct (flat_list2 b H lo ls) as [A1 A2]; auto.
    split; auto. intros. none_all. apply A1.
  - (* SReturn *)
    destruct e; simpl in *; split; try constructor; auto. intros. none_all. reflexivity.
  - (* SDef *)
    match goal with H : _ && _ = true |- _ => apply andb_true_iff in H; destruct H as [Hpj Hfd] end.
    apply andb_true_iff in Hpj. destruct Hpj as [Hps Hj].
    pose proof Hfd as Hfd0.
    unfold ok_fundef2 in Hfd. cbn [fd_body fd_params] in Hfd.
    apply andb_true_iff in Hfd. destruct Hfd as [Hfd _]. apply andb_true_iff in Hfd. destruct Hfd as [Hbody _].
    assert (Hall : Forall nodef_prop2 body) by (apply Forall_forall; intros; apply nodef_stmt2).
    simpl in H1.
    destruct (nodef_list2 body Hall _ _ Hbody H1) as [A1 A2].
    split.
    + intros. unfold found. simpl. destruct (Nat.eqb fid fid0); auto.
      rewrite (plain_no_defaults2 _ _ _ _ _ Hps). rewrite A1, A2. reflexivity.
    + simpl. rewrite A2. constructor; [ exact Hfd0 | constructor ].
Qed.

Lemma no_loads2 : forall lo ls ss, forallb (ok_stmt2 lo ls) ss = true -> flat_map load_binds ss = [].
Proof.
  induction ss as [|s ss IH]; intros H; simpl in *; auto.
  apply andb_true_iff in H. destruct H as [Hs Hss]. rewrite (IH Hss).
  destruct s; try discriminate; reflexivity.
Qed.

(* function ids are consistent for every program of the fragment whose defs are
   not nested inside other defs *)
Lemma funs_ok2_flat : forall p, ok_prog2 p = true -> flat_prog p = true -> funs_ok2 p.
Proof.
  intros p Hf Hflat fid. unfold ok_prog2 in Hf.
  assert (Hall : Forall flat_prop2 (p_body p)) by (apply Forall_forall; intros; apply flat_stmt_ok2).
  destruct (flat_list2 (p_body p) Hall _ _ Hf Hflat) as [A1 A2].
  unfold find_def. rewrite A1. unfold found.
  assert (Hfn : file_names p = []) by (unfold file_names; rewrite (no_loads2 _ _ _ Hf); reflexivity).
  rewrite Hfn.
  unfold compile_prog; cbn [cp_funs]. rewrite find_code_map. unfold all_defs.
  destruct (first_def fid (flat_map defs_stmt (p_body p))) as [fd|] eqn:E; simpl; auto.
  repeat split; auto.
  apply first_def_in in E. rewrite Forall_forall in A2. apply (A2 _ E).
Qed.
