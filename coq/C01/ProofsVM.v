(* C01 -- lemmas about the machine: execution sequences, determinism of `run`,
   code placement (pcode_at), jump resolution and loop patching. *)
From Coq Require Import ZArith String List Bool Lia.
From SV Require Import C01.Syntax C01.Values C01.Ref C01.VM C01.Compile.
Import ListNotations.
Open Scope string_scope.
Open Scope list_scope.
Open Scope nat_scope.

Definition Fr (fid : option nat) (C : list insn) (pc : nat) (σ : list value) (L : list (option value))
           (I : list iter) (fv : list (string * nat)) : frame :=
  {| fr_fid := fid; fr_code := C; fr_pc := pc; fr_stack := σ; fr_locals := L; fr_iters := I; fr_free := fv |}.

Definition St (F : frame) (K : list frame) (g : genv) (w : world) : vstate :=
  {| vs_frames := F :: K; vs_g := g; vs_w := w |}.

Section Machine.
  Variable cp : cprog.
  Variable fn : nat -> string.

  Notation step := (step cp fn).

  Inductive star : vstate -> vstate -> Prop :=
  | star_refl : forall s, star s s
  | star_step : forall s s' s'', step s = Next s' -> star s' s'' -> star s s''.

  Lemma star_trans : forall a b c, star a b -> star b c -> star a c.
  Proof. induction 1; intros; auto. econstructor; eauto. Qed.

  Lemma star_one : forall s s', step s = Next s' -> star s s'.
  Proof. intros. econstructor; eauto. constructor. Qed.

  Definition halts (s : vstate) (r : vresult) : Prop := exists s', star s s' /\ step s' = Stop r.

  Lemma halts_star : forall a b r, star a b -> halts b r -> halts a r.
  Proof. intros a b r H [s' [H1 H2]]. exists s'. split; auto. eapply star_trans; eauto. Qed.

  Lemma halts_now : forall s r, step s = Stop r -> halts s r.
  Proof. intros. exists s. split; auto. constructor. Qed.

  (* `run` follows an execution sequence *)
  Lemma run_star : forall a b, star a b ->
    forall fuel n x, run_from cp fn fuel n a = Some x -> exists fuel' n', run_from cp fn fuel' n' b = Some x.
  Proof.
    induction 1; intros fuel n x Hr.
    - eauto.
    - destruct fuel as [|fuel]; simpl in Hr; [discriminate|].
      rewrite H in Hr. eapply IHstar; eauto.
  Qed.

  Lemma run_halts : forall s r, halts s r ->
    forall fuel x, run cp fn fuel s = Some x -> fst x = r.
  Proof.
    intros s r [s' [Hs Hstop]] fuel x Hr. unfold run in Hr.
    destruct (run_star _ _ Hs _ _ _ Hr) as [fuel' [n' Hr']].
    destruct fuel' as [|fuel']; simpl in Hr'; [discriminate|].
    rewrite Hstop in Hr'. inversion Hr'. reflexivity.
  Qed.

  Lemma step_at : forall fid C pc σ L I fv K g w i,
    nth_error C pc = Some i ->
    step (St (Fr fid C pc σ L I fv) K g w) = exec_insn cp fn i (Fr fid C pc σ L I fv) K g w.
  Proof. intros. unfold VM.step, St, Fr. simpl. rewrite H. reflexivity. Qed.
End Machine.

(* ---------------------------------------------------------------- code placement *)
Definition resolve (brk cont : option nat) (k : nat) (i : insn) : insn :=
  match i with
  | BRK => match brk with Some b => JMP b | None => UNSUPPORTED "static:break-outside-loop" end
  | CONT => match cont with Some c => JMP c | None => UNSUPPORTED "static:break-outside-loop" end
  | _ => final_insn k i
  end.

(* the final code C holds, from index pc, the generated code c with its jumps
   resolved and its BRK / CONT placeholders bound to brk / cont *)
Definition pcode_at (C : list insn) (pc : nat) (c : list insn) (brk cont : option nat) : Prop :=
  forall j i, nth_error c j = Some i -> nth_error C (pc + j) = Some (resolve brk cont (pc + j) i).

Lemma pcode_app : forall C pc c1 c2 b c,
  pcode_at C pc (c1 ++ c2) b c -> pcode_at C pc c1 b c /\ pcode_at C (pc + length c1) c2 b c.
Proof.
  unfold pcode_at; intros; split; intros j i Hn.
  - apply H. rewrite nth_error_app1; auto. apply nth_error_Some. congruence.
  - replace (pc + length c1 + j) with (pc + (length c1 + j)) by lia.
    apply H. rewrite nth_error_app2 by lia. replace (length c1 + j - length c1) with j by lia. auto.
Qed.

Lemma pcode_cons : forall C pc i c b k,
  pcode_at C pc (i :: c) b k -> nth_error C pc = Some (resolve b k pc i) /\ pcode_at C (S pc) c b k.
Proof.
  unfold pcode_at; intros; split.
  - specialize (H 0 i eq_refl). rewrite Nat.add_0_r in H. auto.
  - intros j i' Hn. specialize (H (S j) i' Hn). replace (S pc + j) with (pc + S j) by lia. auto.
Qed.

Lemma pcode_nil_at : forall C pc b k, pcode_at C pc [] b k.
Proof. unfold pcode_at; intros. destruct j; discriminate. Qed.

Lemma finalize_from_nth : forall c k j i,
  nth_error c j = Some i -> nth_error (finalize_from k c) j = Some (final_insn (k + j) i).
Proof.
  induction c; intros k j i Hn; destruct j; simpl in *; try discriminate.
  - inversion Hn. rewrite Nat.add_0_r. reflexivity.
  - rewrite (IHc (S k) j i Hn). f_equal. f_equal. lia.
Qed.

Lemma pcode_finalize : forall c, pcode_at (finalize c) 0 c None None.
Proof.
  unfold pcode_at, finalize; intros. simpl.
  rewrite (finalize_from_nth c 0 j i H). simpl. destruct i; reflexivity.
Qed.

Definition patch_insn (j n after before : nat) (x : insn) : insn :=
  match x with
  | BRK => RJMP (n - j - 1 + after)
  | CONT => RJMPB (j + 1 + before)
  | _ => x
  end.

Lemma patch_from_nth : forall c i n a b j x,
  nth_error c j = Some x -> nth_error (patch_from i n a b c) j = Some (patch_insn (i + j) n a b x).
Proof.
  induction c; intros i n a0 b j x Hn; destruct j; simpl in *; try discriminate.
  - inversion Hn; subst. rewrite Nat.add_0_r. destruct x; reflexivity.
  - replace (i + S j) with (S i + j) by lia.
    destruct a; simpl; apply IHc; auto.
Qed.

Lemma patch_from_length : forall c i n a b, length (patch_from i n a b c) = length c.
Proof. induction c; intros; simpl; auto. destruct a; simpl; rewrite IHc; auto. Qed.

Lemma patch_loop_length : forall a b c, length (patch_loop a b c) = length c.
Proof. intros. apply patch_from_length. Qed.

(* inside a patched loop body, BRK / CONT are bound to the loop's exits *)
Lemma pcode_patch : forall C pc after before cb brk cont,
  pcode_at C pc (patch_loop after before cb) brk cont ->
  before <= pc ->
  pcode_at C pc cb (Some (pc + length cb + after)) (Some (pc - before)).
Proof.
  unfold pcode_at, patch_loop; intros C pc a b cb brk cont H Hle j i Hn.
  assert (Hj : j < length cb) by (apply nth_error_Some; congruence).
  rewrite (H j _ (patch_from_nth cb 0 (length cb) a b j i Hn)).
  f_equal. simpl. destruct i; simpl; try reflexivity.
  - f_equal. lia.
  - f_equal. lia.
Qed.
