(* C01 -- closures: the statements of the simulation (those of ProofsCompDefs.v) for the code
   generator of CompileClos.v: `ls` is now the generator's scope (slot layout, cell slots,
   free variables, names of the enclosing blocks), the machine's frame (locals L, captured
   cells fv) is related to the evaluator's environment by ProofsClosEnv.R3, and execution
   sequences are those of ProofsClosBase.v (up to a forged closure).  Generated from
   ProofsCompDefs.v; name_sim3 / set_sim3 are new (cells and free variables). *)
From Coq Require Import ZArith String List Bool Lia.
From SV Require Import C01.Syntax C01.Values C01.Ref C01.VM C01.Compile C01.Frag C01.ProofsVM C01.ProofsEnv
     C01.SimDefs C01.ProofsExpr C01.ProofsCompFrag C01.ProofsCompEnv
     C01.CompileClos C01.FragClos C01.ProofsClosEnv C01.ProofsClosBase.
Import ListNotations.
Open Scope string_scope.
Open Scope list_scope.
Open Scope nat_scope.

(* ---------------------------------------------------------------- the code generator, by parts *)
Section Gen2.
  Variable p : program.
  Variable ls : scope.

  Definition gen_e (cs : list (string * nat)) (e : expr) : list insn := fst (gen3 p ls cs e).
  Definition gen_c (cs : list (string * nat)) (e : expr) (t f : nat) : list insn := snd (gen3 p ls cs e) t f.

  Definition loop_tail (ca inner : list insn) (ps : pos) : list insn :=
    [ITERPUSH ps; RITERJMP (length ca + length inner + 1)] ++ ca ++ inner
    ++ [RJMPB (length ca + length inner + 2); ITERPOP].

  Section InComp.
    Variable cs : list (string * nat).

    (* fcomp.assign for the target of a for clause / a statement *)
    Fixpoint gen_ct (t : target) (ps : pos) {struct t} : list insn :=
      match t with
      | TName x _ => [gen_set3 p ls cs x]
      | TIndex x y pi => fst (gen3 p ls cs x) ++ [EXCH] ++ fst (gen3 p ls cs y) ++ [EXCH; SETINDEX pi]
      | TDot x name pd => fst (gen3 p ls cs x) ++ [EXCH; SETFIELD name pd]
      | TSeq ts => UNPACK (length ts) ps :: flat_map (fun t => gen_ct t ps) ts
      end.

    Section Clauses.
      Variable curly : bool.
      Variables body bodyv : expr.
      Variable cp : pos.
      Fixpoint gen_cls (l : list clause) {struct l} : list insn :=
        match l with
        | [] => if curly then DUP :: fst (gen3 p ls cs body) ++ fst (gen3 p ls cs bodyv) ++ [SETDICT cp]
                else DUP :: fst (gen3 p ls cs body) ++ [APPEND]
        | CIf c :: r => let inner := gen_cls r in snd (gen3 p ls cs c) 0 (length inner) ++ inner
        | CFor t e ps :: r => fst (gen3 p ls cs e) ++ loop_tail (gen_ct t ps) (gen_cls r) ps
        end.

      (* the code of `comp first cls`: with the first iterable already evaluated, the loop without its head *)
      Definition gen_cls_from (first : option value) (l : list clause) : list insn :=
        match first, l with
        | Some _, CFor t e ps :: r => loop_tail (gen_ct t ps) (gen_cls r) ps
        | _, _ => gen_cls l
        end.
    End Clauses.
  End InComp.

  Lemma gen_comp : forall cs curly body bodyv cp t e0 ps r slots,
    gen_e cs (EComp curly body bodyv cp (CFor t e0 ps :: r) slots)
    = (if curly then [MAKEDICT] else [MAKELIST 0]) ++ gen_e cs e0
      ++ loop_tail (gen_ct (combine (comp_vars (CFor t e0 ps :: r)) slots ++ cs) t ps)
                   (gen_cls (combine (comp_vars (CFor t e0 ps :: r)) slots ++ cs) curly body bodyv cp r) ps.
  Proof. intros. destruct curly; reflexivity. Qed.

  Lemma gen_assign_ct : forall t ps, gen_assign3 p ls t ps = gen_ct [] t ps.
  Proof. reflexivity. Qed.
End Gen2.

Ltac codeof3 e k := match goal with Hc : pcode_at _ _ (gen_e _ _ _ e) _ _ |- _ => k Hc end.
Ltac condof3 e k := match goal with Hc : pcode_at _ _ (gen_c _ _ _ e _ _) _ _ |- _ => k Hc end.
(* the relation for the current locals: the most recent one *)
Ltac curR k := match goal with HR : R _ _ _ _ _ _ |- _ => k HR end.
Ltac done_with L HR := exists L; split; [exact HR|].

Section Sim3.
  Variable p : program.
  Notation cp := (compile_prog3 p).
  Notation fn := (fname p).
  Notation star := (star cp fn).
  Notation halts := (halts cp fn).
  Notation sim := (sim p).

  (* ---- expressions *)
  Definition E3 (n : nat) : Prop :=
    forall stk lo ls cs U ρ L e s fid C fv K pc σ I brk cont,
      ok_expr3 p lo ls U (map snd cs) e = true -> R3 fv lo ls cs U ρ L -> stk_ok stk fid K ->
      pcode_at C pc (gen_e p ls cs e) brk cont ->
      sim (eval p n stk ρ e s) (S3 fid C fv K pc σ L I s)
          (fun r => exists L', R3 fv lo ls cs U ρ L' /\
                    star (S3 fid C fv K pc σ L I s)
                         (S3 fid C fv K (pc + length (gen_e p ls cs e)) (fst r :: σ) L' I (snd r))).

  Definition Cn3 (n : nat) : Prop :=
    forall stk lo ls cs U ρ L e s fid C fv K pc σ I brk cont t f,
      ok_expr3 p lo ls U (map snd cs) e = true -> R3 fv lo ls cs U ρ L -> stk_ok stk fid K ->
      pcode_at C pc (gen_c p ls cs e t f) brk cont ->
      sim (eval p n stk ρ e s) (S3 fid C fv K pc σ L I s)
          (fun r => exists L', R3 fv lo ls cs U ρ L' /\
                    star (S3 fid C fv K pc σ L I s)
                         (S3 fid C fv K (pc + length (gen_c p ls cs e t f) + (if truth (fst r) (rw (snd r)) then t else f))
                             σ L' I (snd r))).

  Definition Ls3 (n : nat) : Prop :=
    forall stk lo ls cs U ρ L es s fid C fv K pc σ I brk cont,
      forallb (ok_expr3 p lo ls U (map snd cs)) es = true -> R3 fv lo ls cs U ρ L -> stk_ok stk fid K ->
      pcode_at C pc (flat_map (gen_e p ls cs) es) brk cont ->
      sim (evals p n stk ρ es s) (S3 fid C fv K pc σ L I s)
          (fun r => exists L', R3 fv lo ls cs U ρ L' /\
                    star (S3 fid C fv K pc σ L I s)
                         (S3 fid C fv K (pc + length (flat_map (gen_e p ls cs) es)) (rev (fst r) ++ σ) L' I (snd r))).

  Definition arg_code3 (ls : scope) (cs : list (string * nat)) (a : arg) : list insn :=
    match a with
    | APos e | AStar e | AStarStar e => gen_e p ls cs e
    | ANamed k e => CONSTANT (VStr k) :: gen_e p ls cs e
    end.
  Definition ok_args3 (lo : list string) (ls : scope) (U : list string) (used : list nat) (args : list arg) : bool :=
    forallb (fun a => match a with APos e | ANamed _ e | AStar e | AStarStar e => ok_expr3 p lo ls U used e end) args.

  Definition Ar3 (n : nat) : Prop :=
    forall stk lo ls cs U ρ L args acc nacc sa0 ss0 s fid C fv K pc σ I brk cont,
      ok_args3 lo ls U (map snd cs) args = true -> R3 fv lo ls cs U ρ L -> stk_ok stk fid K ->
      pcode_at C pc (flat_map (arg_code3 ls cs) args) brk cont ->
      sim (eval_args p n stk ρ args acc nacc sa0 ss0 s) (S3 fid C fv K pc σ L I s)
          (fun r => exists vs nm sa ss s', r = (acc ++ vs, nacc ++ nm, sa, ss, s') /\
                    length vs = count_pos args /\ length nm = count_named args /\
                    (if has_star args then sa <> None else sa = sa0) /\
                    (if has_ss args then ss <> None else ss = ss0) /\
                    (pos_then_named args = true ->
                     exists L', R3 fv lo ls cs U ρ L' /\
                     star (S3 fid C fv K pc σ L I s)
                          (S3 fid C fv K (pc + length (flat_map (arg_code3 ls cs) args))
                              ((if has_ss args then optl ss else []) ++ (if has_star args then optl sa else [])
                               ++ rev (flatkw nm) ++ rev vs ++ σ) L' I s'))).

  Definition entry_code3 (ls : scope) (cs : list (string * nat)) (kv : expr * expr * pos) : list insn :=
    DUP :: gen_e p ls cs (fst (fst kv)) ++ gen_e p ls cs (snd (fst kv)) ++ [SETDICTUNIQ (snd kv)].
  Definition ok_entry3 (lo : list string) (ls : scope) (U : list string) (used : list nat) (kv : expr * expr * pos) : bool :=
    ok_expr3 p lo ls U used (fst (fst kv)) && ok_expr3 p lo ls U used (snd (fst kv)).
  Definition En3 (n : nat) : Prop :=
    forall stk lo ls cs U ρ L d kvs s fid C fv K pc σ I brk cont,
      forallb (ok_entry3 lo ls U (map snd cs)) kvs = true -> R3 fv lo ls cs U ρ L -> stk_ok stk fid K ->
      pcode_at C pc (flat_map (entry_code3 ls cs) kvs) brk cont ->
      sim (eval_entries p n stk ρ d kvs s) (S3 fid C fv K pc (d :: σ) L I s)
          (fun s' => exists L', R3 fv lo ls cs U ρ L' /\
                     star (S3 fid C fv K pc (d :: σ) L I s)
                          (S3 fid C fv K (pc + length (flat_map (entry_code3 ls cs) kvs)) (d :: σ) L' I s')).

  (* default values: always at statement level *)
  Definition Df3 (n : nat) : Prop :=
    forall stk lo ls ρ L ps seen s fid C fv K pc σ I brk cont,
      forallb (ok_param3 p lo ls) ps = true -> R3 fv lo ls [] [] ρ L -> stk_ok stk fid K ->
      pcode_at C pc (fst (gen_defaults3 p ls ps seen)) brk cont ->
      sim (eval_defaults p n stk ρ ps seen s) (S3 fid C fv K pc σ L I s)
          (fun r => length (fst r) = snd (gen_defaults3 p ls ps seen) /\
                    exists L', R3 fv lo ls [] [] ρ L' /\
                    star (S3 fid C fv K pc σ L I s)
                         (S3 fid C fv K (pc + length (fst (gen_defaults3 p ls ps seen))) (rev (fst r) ++ σ) L' I (snd r))).

  (* ---- calls: the caller's locals are not touched *)
  Definition Ca3 (n : nat) : Prop :=
    forall stk f args nm sa ss ps s fid C fv K pc σ L I,
      stk_ok stk fid K ->
      nth_error C pc = Some (CALL (mode_of sa ss) (length args) (length nm) ps) ->
      sim (ref_call p n stk f args nm sa ss ps s)
          (S3 fid C fv K pc (optl ss ++ optl sa ++ rev (flatkw nm) ++ rev args ++ f :: σ) L I s)
          (fun r => star (S3 fid C fv K pc (optl ss ++ optl sa ++ rev (flatkw nm) ++ rev args ++ f :: σ) L I s)
                         (S3 fid C fv K (S pc) (fst r :: σ) L I (snd r))).

  (* ---- assignment of the value on top of the stack *)
  Definition As3 (n : nat) : Prop :=
    forall stk lo ls cs U ρ L t v ps s fid C fv K pc σ I brk cont,
      ok_target3 p lo ls U (map snd cs) t = true -> R3 fv lo ls cs U ρ L -> stk_ok stk fid K ->
      pcode_at C pc (gen_ct p ls cs t ps) brk cont ->
      sim (assign p n stk ρ t v ps s) (S3 fid C fv K pc (v :: σ) L I s)
          (fun r => exists L', R3 fv lo ls cs U (fst r) L' /\
                    star (S3 fid C fv K pc (v :: σ) L I s)
                         (S3 fid C fv K (pc + length (gen_ct p ls cs t ps)) σ L' I (snd r))).

  Definition Aq3 (n : nat) : Prop :=
    forall stk lo ls cs U ρ L ts vs ps s fid C fv K pc σ I brk cont,
      forallb (ok_target3 p lo ls U (map snd cs)) ts = true -> length vs = length ts -> R3 fv lo ls cs U ρ L -> stk_ok stk fid K ->
      pcode_at C pc (flat_map (fun t => gen_ct p ls cs t ps) ts) brk cont ->
      sim (assign_seq p n stk ρ ts vs ps s) (S3 fid C fv K pc (vs ++ σ) L I s)
          (fun r => exists L', R3 fv lo ls cs U (fst r) L' /\
                    star (S3 fid C fv K pc (vs ++ σ) L I s)
                         (S3 fid C fv K (pc + length (flat_map (fun t => gen_ct p ls cs t ps) ts)) σ L' I (snd r))).

  (* ---- the clauses of a comprehension: the accumulator stays on the stack.
          V: the comprehension's variables, cs includes them *)
  Definition ok_cls_from (lo : list string) (ls : scope) (V : list string) (used : list nat) (curly : bool) (body bodyv : expr)
             (U : list string) (first : option value) (cls : list clause) : bool :=
    match first, cls with
    | Some _, CFor t e ps :: r =>
        ok_target3 p lo ls U used t && forallb (fun x => str_in x V) (target_names t)
        && ok_cls3 p lo ls V used body bodyv (rm (target_names t) U) r
    | Some _, _ => false
    | None, _ => ok_cls3 p lo ls V used body bodyv U cls
    end.

  Definition Cm3 (n : nat) : Prop :=
    forall stk lo ls cs U V ρ L first cls acc curly body bodyv cp s fid C fv K pc σ I brk cont,
      ok_cls_from lo ls V (map snd cs) curly body bodyv U first cls = true ->
      (curly = false -> exists a, acc = VRef a) ->
      R3 fv lo ls cs U ρ L -> stk_ok stk fid K ->
      pcode_at C pc (gen_cls_from p ls cs curly body bodyv cp first cls) brk cont ->
      sim (comp p n stk ρ first cls acc curly body bodyv cp s) (S3 fid C fv K pc (optl first ++ acc :: σ) L I s)
          (fun r => exists L', R3 fv lo ls cs U (fst r) L' /\
                    star (S3 fid C fv K pc (optl first ++ acc :: σ) L I s)
                         (S3 fid C fv K (pc + length (gen_cls_from p ls cs curly body bodyv cp first cls)) (acc :: σ) L' I (snd r))).

  (* the loop of a for clause: the machine is at the ITERJMP with the iterator on the iterator stack;
     on completion it is at the ITERPOP with the iterator still there *)
  Definition Cl3 (n : nat) : Prop :=
    forall stk lo ls cs U V ρ L t ps vs lock r acc curly body bodyv cp s fid C fv K pc σ I brk cont,
      ok_target3 p lo ls U (map snd cs) t = true -> forallb (fun x => str_in x V) (target_names t) = true ->
      ok_cls3 p lo ls V (map snd cs) body bodyv (rm (target_names t) U) r = true ->
      (curly = false -> exists a, acc = VRef a) ->
      R3 fv lo ls cs U ρ L -> stk_ok stk fid K ->
      pcode_at C pc (loop_tail (gen_ct p ls cs t ps) (gen_cls p ls cs curly body bodyv cp r) ps) brk cont ->
      let len := length (loop_tail (gen_ct p ls cs t ps) (gen_cls p ls cs curly body bodyv cp r) ps) in
      let S0 := S3 fid C fv K (pc + 1) (acc :: σ) L ({| it_rem := vs; it_lock := lock |} :: I) s in
      sim (comp_loop p n stk ρ t ps vs r acc curly body bodyv cp s) S0
          (fun r' => exists L' rem, R3 fv lo ls cs U (fst r') L' /\
                     star S0 (S3 fid C fv K (pc + len - 1) (acc :: σ) L' ({| it_rem := rem; it_lock := lock |} :: I) (snd r'))).

  (* ---- statements: cs = [], no comprehension variable in scope *)
  Definition after3 (fid : option nat) (C : list insn) (fv : list (string * nat)) (K : list frame) (lo : list string) (ls : scope)
             (S0 : vstate) (pc len : nat) (I : list iter) (brk cont : option nat)
             (r : outcome * env * rst) : Prop :=
    let '(out, ρ', s') := r in
    match out with
    | ONormal => exists L', R3 fv lo ls [] [] ρ' L' /\ star S0 (S3 fid C fv K (pc + len) [] L' I s')
    | OBreak => match brk with
                | Some b => exists L', R3 fv lo ls [] [] ρ' L' /\ star S0 (S3 fid C fv K b [] L' I s')
                | None => halts S0 (VUnsup "static:break-outside-loop") end
    | OContinue => match cont with
                   | Some c => exists L', R3 fv lo ls [] [] ρ' L' /\ star S0 (S3 fid C fv K c [] L' I s')
                   | None => halts S0 (VUnsup "static:break-outside-loop") end
    | OReturn v => exists pcr Ix wv L',
          star S0 (St (Fr fid C pcr [v] L' (Ix ++ I) fv) K (rg s') wv)
          /\ nth_error C pcr = Some RETURN /\ release_all Ix wv = rw s'
    end.

  Definition X3 (n : nat) : Prop :=
    forall stk lo ls ρ L st s fid C fv K pc I brk cont,
      ok_stmt3 p lo ls st = true -> R3 fv lo ls [] [] ρ L -> stk_ok stk fid K ->
      pcode_at C pc (gen_stmt3 p ls st) brk cont ->
      sim (exec p n stk ρ st s) (S3 fid C fv K pc [] L I s)
          (after3 fid C fv K lo ls (S3 fid C fv K pc [] L I s) pc (length (gen_stmt3 p ls st)) I brk cont).

  Definition B3 (n : nat) : Prop :=
    forall stk lo ls ρ L ss s fid C fv K pc I brk cont,
      forallb (ok_stmt3 p lo ls) ss = true -> R3 fv lo ls [] [] ρ L -> stk_ok stk fid K ->
      pcode_at C pc (gen_block3 p ls ss) brk cont ->
      sim (exec_block p n stk ρ ss s) (S3 fid C fv K pc [] L I s)
          (after3 fid C fv K lo ls (S3 fid C fv K pc [] L I s) pc (length (gen_block3 p ls ss)) I brk cont).

  Definition W3 (n : nat) : Prop :=
    forall stk lo ls ρ L c body s fid C fv K pc I brk cont,
      ok_expr3 p lo ls [] [] c = true -> forallb (ok_stmt3 p lo ls) body = true -> R3 fv lo ls [] [] ρ L -> stk_ok stk fid K ->
      pcode_at C pc (gen_stmt3 p ls (SWhile c body)) brk cont ->
      sim (exec_while p n stk ρ c body s) (S3 fid C fv K pc [] L I s)
          (fun r =>
             let S0 := S3 fid C fv K pc [] L I s in
             let '(out, ρ', s') := r in
             match out with
             | ONormal => exists L', R3 fv lo ls [] [] ρ' L' /\
                                     star S0 (S3 fid C fv K (pc + length (gen_stmt3 p ls (SWhile c body))) [] L' I s')
             | OReturn v => exists pcr Ix wv L',
                   star S0 (St (Fr fid C pcr [v] L' (Ix ++ I) fv) K (rg s') wv)
                   /\ nth_error C pcr = Some RETURN /\ release_all Ix wv = rw s'
             | _ => False
             end).

  Definition F3 (n : nat) : Prop :=
    forall stk lo ls ρ L t ps vs lock body s fid C fv K pc I brk cont e,
      ok_target3 p lo ls [] [] t = true -> forallb (ok_stmt3 p lo ls) body = true -> R3 fv lo ls [] [] ρ L -> stk_ok stk fid K ->
      pcode_at C pc (gen_stmt3 p ls (SFor t e body ps)) brk cont ->
      let head := pc + length (gen_expr3 p ls e) + 1 in
      let len := length (gen_stmt3 p ls (SFor t e body ps)) in
      let S0 := S3 fid C fv K head [] L ({| it_rem := vs; it_lock := lock |} :: I) s in
      sim (exec_for p n stk ρ t ps vs body s) S0
          (fun r =>
             let '(out, ρ', s') := r in
             match out with
             | ONormal => exists L' rem, R3 fv lo ls [] [] ρ' L' /\
                                         star S0 (S3 fid C fv K (pc + len - 1) [] L' ({| it_rem := rem; it_lock := lock |} :: I) s')
             | OReturn v => exists pcr Ix rem wv L',
                   star S0 (St (Fr fid C pcr [v] L' (Ix ++ {| it_rem := rem; it_lock := lock |} :: I) fv) K (rg s') wv)
                   /\ nth_error C pcr = Some RETURN /\ release_all Ix wv = rw s'
             | _ => False
             end).

  (* ---------------------------------------------------------------- names *)
  Lemma name_sim3 : forall lo ls cs U ρ L x ps s fid C fv K pc σ I brk cont,
    R3 fv lo ls cs U ρ L -> negb (str_in x U) && jok3 lo ls x = true ->
    nth_error C pc = Some (resolve brk cont pc (gen_name3 p ls cs x ps)) ->
    sim (lookup p ρ x ps s) (S3 fid C fv K pc σ L I s)
        (fun v => star (S3 fid C fv K pc σ L I s) (S3 fid C fv K (S pc) (v :: σ) L I s)).
  Proof.
    intros lo ls cs U ρ L x ps s fid C fv K pc σ I brk cont [Hre Hrl] Hok Hf.
    apply andb_true_iff in Hok. destruct Hok as [Hu Hj]. apply negb_true_iff in Hu.
    pose proof (Rloc3_lookup _ _ _ _ _ _ Hrl x) as Hx.
    unfold lookup, gen_name3 in *.
    destruct (assoc x cs) as [i|] eqn:Ec.
    - destruct (Hre x i Ec Hu) as [v Hv]. destruct Hx as [Hcell [ov [H1 H2]]]. rewrite Hv in H1. inversion H1; subst ov.
      rewrite Hv. rewrite Hcell in Hf. simpl in Hf. specialize (H2 v eq_refl). simpl. vstep1 H2. apply star_refl.
    - destruct (assoc x ρ) as [[ov|c]|] eqn:Ea.
      + (* a function-level variable, not a cell *)
        destruct Hx as [Hlo [i [Hi [Hcell Hn]]]]. rewrite Hi, Hcell in Hf. simpl in Hf.
        destruct ov as [v|]; simpl.
        * vstep1 Hn. apply star_refl.
        * vstop1 Hn.
      + destruct Hx as [[Hlo [i [Hi [Hcell Hn]]]] | [Hlo [Henc Hfv]]].
        * (* a cell of this function *)
          rewrite Hi, Hcell in Hf. simpl in Hf.
          destruct (get_cell (rw s) c) as [v|] eqn:Eg; simpl.
          -- vstep2 Hn Eg. apply star_refl.
          -- vstop2 Hn Eg.
        * (* a captured cell *)
          unfold jok3 in Hj. rewrite Hlo in Hj. simpl in Hj. apply andb_true_iff in Hj. destruct Hj as [Hls Hj].
          apply negb_true_iff in Hls. rewrite (index_of_none _ _ Hls) in Hf.
          destruct (index_of x (sc_fr ls)) as [j|] eqn:Ej.
          -- simpl in Hf. pose proof (Hfv j eq_refl) as En.
             destruct (get_cell (rw s) c) as [v|] eqn:Eg; simpl.
             ++ vstep2 En Eg. apply star_refl.
             ++ vstop2 En Eg.
          -- exfalso. assert (Hnf : str_in x (sc_fr ls) = false).
             { destruct (str_in x (sc_fr ls)) eqn:E; auto. destruct (index_of_some _ _ E). congruence. }
             rewrite Hnf, Henc in Hj. discriminate.
      + destruct Hx as [Hlo Hnf].
        unfold jok3 in Hj. rewrite Hlo in Hj. simpl in Hj. apply andb_true_iff in Hj. destruct Hj as [Hls Hj].
        apply negb_true_iff in Hls. rewrite (index_of_none _ _ Hls), Hnf in Hf.
        destruct (gidx p x) as [j|] eqn:Eg.
        * simpl in Hf. destruct (nth_error (rg s) j) as [[v|]|] eqn:En; simpl.
          -- vstep1 En. apply star_refl.
          -- vstop1 En.
          -- vstop1 En.
        * destruct (str_in x predeclared_names) eqn:Ep.
          -- simpl in Hf. simpl. vstep1 Ep. apply star_refl.
          -- destruct (universal x) as [v|] eqn:Eu; simpl in Hf; simpl.
             ++ vstep1 Eu. apply star_refl.
             ++ vstop.
  Qed.

  Lemma rm_one_sub : forall x U y, str_in y (rm [x] U) = true -> str_in y U = true.
  Proof. intros. eapply rm_sub; eauto. Qed.

  Lemma jokt3_jok3 : forall lo ls x, jokt3 lo ls x = true -> jok3 lo ls x = true.
  Proof.
    unfold jokt3, jok3. intros lo ls x H. destruct (str_in x lo); auto. simpl in *.
    apply andb_true_iff in H. destruct H as [H1 H2]. rewrite H1, H2. simpl. apply orb_true_r.
  Qed.

  Lemma set_sim3 : forall lo ls cs U ρ L x v s fid C fv K pc σ I brk cont,
    R3 fv lo ls cs U ρ L -> jokt3 lo ls x = true ->
    nth_error C pc = Some (resolve brk cont pc (gen_set3 p ls cs x)) ->
    sim (set_var p ρ x v s) (S3 fid C fv K pc (v :: σ) L I s)
        (fun r => exists L', R3 fv lo ls cs U (fst r) L' /\
                  star (S3 fid C fv K pc (v :: σ) L I s) (S3 fid C fv K (S pc) σ L' I (snd r))).
  Proof.
    intros lo ls cs U ρ L x v s fid C fv K pc σ I brk cont [Hre Hrl] Hj Hf.
    pose proof (Rloc3_lookup _ _ _ _ _ _ Hrl x) as Hx.
    unfold set_var, gen_set3 in *.
    destruct (assoc x cs) as [i|] eqn:Ec.
    - destruct Hx as [Hcell [ov [H1 _]]]. rewrite H1. rewrite Hcell in Hf. simpl in Hf. cbn [sim fst snd].
      exists (upd_nth i (Some v) L). split.
      + split.
        * eapply Renv_weaken; [ eapply Renv_set; eauto | apply rm_one_sub ].
        * apply Rloc3_set_cs; auto.
      + vstep. apply star_refl.
    - destruct (assoc x ρ) as [[ov|c]|] eqn:Ea.
      + destruct Hx as [Hlo [i [Hi [Hcell Hn]]]]. rewrite Hi, Hcell in Hf. simpl in Hf. cbn [sim fst snd].
        exists (upd_nth i (Some v) L). split.
        * split.
          -- eapply Renv_weaken; [ eapply Renv_set; eauto | apply rm_one_sub ].
          -- eapply Rloc3_set_fn; eauto.
        * vstep. apply star_refl.
      + destruct Hx as [[Hlo [i [Hi [Hcell Hn]]]] | [Hlo [Henc _]]].
        * (* a cell of this function: the cell is updated, environment and locals stay *)
          rewrite Hi, Hcell in Hf. simpl in Hf. cbn [sim fst snd].
          exists L. split; [split; auto|]. vstep1 Hn. apply star_refl.
        * exfalso. unfold jokt3 in Hj. rewrite Hlo, Henc in Hj. simpl in Hj. rewrite andb_false_r in Hj. discriminate.
      + destruct Hx as [Hlo _]. unfold jokt3 in Hj. rewrite Hlo in Hj. simpl in Hj.
        apply andb_true_iff in Hj. destruct Hj as [Hls _]. apply negb_true_iff in Hls.
        rewrite (index_of_none _ _ Hls) in Hf.
        destruct (gidx p x) as [j|] eqn:Eg; simpl in Hf; cbn [sim fst snd].
        * exists L. split; [split; auto|]. vstep. apply star_refl.
        * vstop.
  Qed.
End Sim3.
