(* C01 -- name resolution to slots and code generation, mirroring
   resolve/resolve.go (bind / use / lookupLexical for the constructs covered) and
   internal/compile/compile.go (fcomp.stmt / expr / assign / call / ifelse).

   compile.go builds a graph of blocks and linearises it afterwards; here the
   generator emits straight-line code with RELATIVE jumps (RJMP, RCJMP, RITERJMP,
   RJMPB) and BRK / CONT placeholders which the enclosing loop patches, and
   `finalize` turns relative targets into absolute instruction indexes.  The
   instructions emitted per construct, their order and their operands are those
   of compile.go; only block placement differs (checked modulo layout by the
   tie, see checks/c01.py).
   No proofs in this file. *)
From Coq Require Import ZArith String List Bool.
From SV Require Import C01.Syntax C01.Values C01.Ref C01.VM.
Import ListNotations.
Open Scope string_scope.
Open Scope list_scope.
Open Scope nat_scope.

(* patch the placeholders of a loop body: at index i of a body of length n,
   BRK jumps `after` instructions past the end of the body, CONT jumps back to
   `before` instructions ahead of the body's start *)
Fixpoint patch_from (i n after before : nat) (c : list insn) : list insn :=
  match c with
  | [] => []
  | BRK :: r => RJMP (n - i - 1 + after) :: patch_from (S i) n after before r
  | CONT :: r => RJMPB (i + 1 + before) :: patch_from (S i) n after before r
  | x :: r => x :: patch_from (S i) n after before r
  end.
Definition patch_loop (after before : nat) (c : list insn) : list insn := patch_from 0 (length c) after before c.

(* resolve relative jumps at absolute index i *)
Definition final_insn (i : nat) (x : insn) : insn :=
  match x with
  | RJMP k => JMP (i + 1 + k)
  | RCJMP k => CJMP (i + 1 + k)
  | RITERJMP k => ITERJMP (i + 1 + k)
  | RJMPB k => JMP (i + 1 - k)
  | BRK | CONT => UNSUPPORTED "static:break-outside-loop"
  | _ => x
  end.
Fixpoint finalize_from (i : nat) (c : list insn) : list insn :=
  match c with [] => [] | x :: r => final_insn i x :: finalize_from (S i) r end.
Definition finalize (c : list insn) : list insn := finalize_from 0 c.

Section Gen.
  Variable p : program.
  Variable locals : list string.      (* the function's (or file's) local slots, by index; slots of comprehension
                                         variables appear under names no identifier can have *)

  (* cs: the variables of the enclosing comprehensions (innermost first) with their slots *)
  Definition gen_name (cs : list (string * nat)) (x : string) (ps : pos) : insn :=
    match assoc x cs with
    | Some i => LOCAL i ps
    | None =>
    match index_of x locals with
    | Some i => LOCAL i ps
    | None => match gidx p x with
              | Some j => GLOBAL j ps
              | None => if str_in x predeclared_names then PREDECLARED x
                        else match universal x with Some _ => UNIVERSAL x | None => UNSUPPORTED "static:undefined" end
              end
    end end.

  Definition gen_set (cs : list (string * nat)) (x : string) : insn :=
    match assoc x cs with
    | Some i => SETLOCAL i
    | None =>
    match index_of x locals with
    | Some i => SETLOCAL i
    | None => match gidx p x with Some j => SETGLOBAL j | None => UNSUPPORTED "static:unbound-assignment" end
    end end.

  Definition aug_insn (o : binop) (ps : pos) : list insn :=
    match o with
    | Add => [INPLACE_ADD ps]
    | BitOr => [INPLACE_PIPE ps]
    | NotIn => [UNSUPPORTED "static:augmented-operator"]
    | _ => [BINARY o ps]
    end.

  (* code of an expression, and of the same expression as a branch condition
     (fcomp.ifelse): `snd (gen cs e) t f` continues t instructions past its end when
     e is true and f past its end otherwise *)
  Definition dflt (c : list insn) : list insn * (nat -> nat -> list insn) :=
    (c, fun t f => c ++ [RCJMP (1 + t); RJMP f]).

  Fixpoint gen (cs : list (string * nat)) (e : expr) {struct e} : list insn * (nat -> nat -> list insn) :=
    match e with
    | EName x ps => dflt [gen_name cs x ps]
    | EInt z => dflt [CONSTANT (VInt z)]
    | EStr s => dflt [CONSTANT (VStr s)]
    | EUnsup t => dflt [UNSUPPORTED t]
    | EParen e => dflt (fst (gen cs e))
    | EUnary UNot _ x => (fst (gen cs x) ++ [NOT], fun t f => snd (gen cs x) f t)
    | EUnary o ps x => dflt (fst (gen cs x) ++ [UNARY o ps])
    | EBinary NotIn ps x y =>
        let c := fst (gen cs x) ++ fst (gen cs y) in
        (c ++ [BINARY In ps; NOT], fun t f => c ++ [BINARY In ps; RCJMP (1 + f); RJMP t])
    | EBinary o ps x y => dflt (fst (gen cs x) ++ fst (gen cs y) ++ [BINARY o ps])
    | EOr x y =>
        let cy := fst (gen cs y) in
        (fst (gen cs x) ++ [DUP; RCJMP (1 + length cy); POP] ++ cy,
         fun t f => let c := snd (gen cs y) t f in snd (dflt (fst (gen cs x))) (length c + t) 0 ++ c)
    | EAnd x y =>
        let cy := fst (gen cs y) in
        (fst (gen cs x) ++ [DUP; RCJMP 1; RJMP (1 + length cy); POP] ++ cy,
         fun t f => let c := snd (gen cs y) t f in snd (dflt (fst (gen cs x))) 0 (length c + f) ++ c)
    | ECond c t f =>
        let ct := fst (gen cs t) in
        let cf := fst (gen cs f) in
        dflt (snd (gen cs c) 0 (length ct + 1) ++ ct ++ [RJMP (length cf)] ++ cf)
    | ETuple es => dflt (flat_map (fun e => fst (gen cs e)) es ++ [MAKETUPLE (length es)])
    | EList es => dflt (flat_map (fun e => fst (gen cs e)) es ++ [MAKELIST (length es)])
    | EDict kvs =>
        dflt (MAKEDICT :: flat_map (fun kv => DUP :: fst (gen cs (fst (fst kv))) ++ fst (gen cs (snd (fst kv))) ++ [SETDICTUNIQ (snd kv)]) kvs)
    | EIndex x y ps => dflt (fst (gen cs x) ++ fst (gen cs y) ++ [INDEX ps])
    | EDot x name ps => dflt (fst (gen cs x) ++ [ATTR name ps])
    | ECall fn args ps =>
        let is_pos a := match a with APos _ => true | _ => false end in
        let is_named a := match a with ANamed _ _ => true | _ => false end in
        let is_star a := match a with AStar _ => true | _ => false end in
        let is_ss a := match a with AStarStar _ => true | _ => false end in
        let code a := match a with
                      | APos e | AStar e | AStarStar e => fst (gen cs e)
                      | ANamed k e => CONSTANT (VStr k) :: fst (gen cs e) end in
        dflt (fst (gen cs fn)
        ++ flat_map (fun a => if is_pos a || is_named a then code a else []) args
        ++ flat_map (fun a => if is_star a then code a else []) args
        ++ flat_map (fun a => if is_ss a then code a else []) args
        ++ [CALL ((if existsb is_star args then 1 else 0) + (if existsb is_ss args then 2 else 0))
                 (length (filter is_pos args)) (length (filter is_named args)) ps])
    | ELambda _ _ _ _ => dflt [UNSUPPORTED "compile:lambda"]
    | EComp curly body bodyv cp cls slots =>
        (* fcomp.comprehension: accumulator, then the clauses as nested loops / tests *)
        let cs' := combine (comp_vars cls) slots ++ cs in
        let ga := fix ga (t : target) (ps : pos) {struct t} : list insn :=
                    match t with
                    | TName x _ => [gen_set cs' x]
                    | TIndex x y pi => fst (gen cs' x) ++ [EXCH] ++ fst (gen cs' y) ++ [EXCH; SETINDEX pi]
                    | TDot x name pd => fst (gen cs' x) ++ [EXCH; SETFIELD name pd]
                    | TSeq ts => UNPACK (length ts) ps :: flat_map (fun t => ga t ps) ts
                    end in
        let loop (ce ca inner : list insn) (ps : pos) :=
              ce ++ [ITERPUSH ps; RITERJMP (length ca + length inner + 1)] ++ ca ++ inner
              ++ [RJMPB (length ca + length inner + 2); ITERPOP] in
        let rest := fix cc (l : list clause) {struct l} : list insn :=
                      match l with
                      | [] => if curly then DUP :: fst (gen cs' body) ++ fst (gen cs' bodyv) ++ [SETDICT cp]
                              else DUP :: fst (gen cs' body) ++ [APPEND]
                      | CIf c :: r => let inner := cc r in snd (gen cs' c) 0 (length inner) ++ inner
                      | CFor t e ps :: r => loop (fst (gen cs' e)) (ga t ps) (cc r) ps
                      end in
        match cls with
        | CFor t e0 ps :: r =>
            dflt ((if curly then [MAKEDICT] else [MAKELIST 0]) ++ loop (fst (gen cs e0)) (ga t ps) (rest r) ps)
        | _ => dflt [UNSUPPORTED "static:comprehension"]
        end
    | ESlice x lo hi st ps =>
        let o (e : option expr) := match e with Some e => fst (gen cs e) | None => [NONE] end in
        dflt (fst (gen cs x) ++ o lo ++ o hi ++ o st ++ [SLICE ps])
    end.

  (* outside comprehensions *)
  Definition gen_expr (e : expr) : list insn := fst (gen [] e).
  Definition gen_cond (e : expr) (t f : nat) : list insn := snd (gen [] e) t f.

  Fixpoint gen_assign (t : target) (ps : pos) {struct t} : list insn :=
    match t with
    | TName x _ => [gen_set [] x]
    | TIndex x y pi => gen_expr x ++ [EXCH] ++ gen_expr y ++ [EXCH; SETINDEX pi]
    | TDot x name pd => gen_expr x ++ [EXCH; SETFIELD name pd]
    | TSeq ts => UNPACK (length ts) ps :: flat_map (fun t => gen_assign t ps) ts
    end.

  Fixpoint gen_defaults (ps : list param) (seen_star : bool) : list insn * nat :=
    match ps with
    | [] => ([], 0)
    | PDefault _ e :: r => let '(c, n) := gen_defaults r seen_star in (gen_expr e ++ c, S n)
    | PPlain _ :: r => let '(c, n) := gen_defaults r seen_star in
                       if seen_star then (MANDATORY :: c, S n) else (c, n)
    | PStar _ :: r | PStarStar _ :: r => gen_defaults r true
    end.

  Fixpoint gen_stmt (s : stmt) {struct s} : list insn :=
    match s with
    | SExpr (EInt _) | SExpr (EStr _) => []
    | SExpr e => gen_expr e ++ [POP]
    | SAssign t e ps => gen_expr e ++ gen_assign t ps
    | SAug o (TName x px) e ps => [gen_name [] x px] ++ gen_expr e ++ aug_insn o ps ++ [gen_set [] x]
    | SAug o (TIndex x y pi) e ps =>
        gen_expr x ++ gen_expr y ++ [DUP2; INDEX pi] ++ gen_expr e ++ aug_insn o ps ++ [SETINDEX pi]
    | SAug o (TDot x name pd) e ps =>
        gen_expr x ++ [DUP; ATTR name pd] ++ gen_expr e ++ aug_insn o ps ++ [SETFIELD name pd]
    | SAug _ (TSeq _) _ _ => [UNSUPPORTED "static:augmented-sequence"]
    | SIf c tb fb =>
        let ct := flat_map gen_stmt tb in
        let cf := flat_map gen_stmt fb in
        gen_cond c 0 (length ct + 1) ++ ct ++ [RJMP (length cf)] ++ cf
    | SWhile c body =>
        let cb := flat_map gen_stmt body in
        let cc := gen_cond c 0 (length cb + 1) in
        cc ++ patch_loop 1 (length cc) cb ++ [RJMPB (length cc + length cb + 1)]
    | SFor t e body ps =>
        let ca := gen_assign t ps in
        let cb := flat_map gen_stmt body in
        gen_expr e ++ [ITERPUSH ps; RITERJMP (length ca + length cb + 1)]
        ++ ca ++ patch_loop 1 (length ca + 1) cb ++ [RJMPB (length ca + length cb + 2); ITERPOP]
    | SBreak => [BRK]
    | SContinue => [CONT]
    | SPass => []
    | SReturn None => [NONE; RETURN]
    | SReturn (Some e) => gen_expr e ++ [RETURN]
    | SDef fid name ps _ _ =>
        let '(c, n) := gen_defaults ps false in
        c ++ [MAKETUPLE n; MAKEFUNC fid; gen_set [] name]
    | SLoad m names ps =>
        map (fun tf => CONSTANT (VStr (snd tf))) names ++ [CONSTANT (VStr m); LOAD (length names) ps]
        ++ map (fun tf => gen_set [] (fst tf)) (rev names)
    | SUnsup t => [UNSUPPORTED t]
    end.

  Definition gen_block (ss : list stmt) : list insn := flat_map gen_stmt ss.

  Definition gen_body (ss : list stmt) : list insn := finalize (gen_block ss ++ [NONE; RETURN]).
End Gen.

(* ---------------------------------------------------------------- fcomp.plus: folding of adjacent literals in + chains
   ((a+b)+...)+z is flattened (through parentheses), runs of adjacent string
   literals / list displays / tuple displays are merged into one literal or
   display, and the chain is rebuilt.  Done as a source-to-source pass. *)
Fixpoint unparen (e : expr) : expr := match e with EParen x => unparen x | _ => e end.

Fixpoint flatten_plus (fuel : nat) (e : expr) : list (expr * pos) :=
  match fuel with
  | O => [(e, (0, 0))]
  | S fuel => match unparen e with
              | EBinary Add ps x y => flatten_plus fuel x ++ [(unparen y, ps)]
              | e' => [(e', (0, 0))]
              end
  end.

Definition addable (e : expr) : nat :=
  match e with EStr _ => 1 | EList _ => 2 | ETuple _ => 3 | _ => 0 end.

Definition merge2 (a b : expr) : expr :=
  match a, b with
  | EStr x, EStr y => EStr (x ++ y)%string
  | EList x, EList y => EList (x ++ y)
  | ETuple x, ETuple y => ETuple (x ++ y)
  | _, _ => a
  end.

(* cur = the summand being accumulated *)
Fixpoint merge_runs (cur : expr * pos) (rest : list (expr * pos)) : list (expr * pos) :=
  match rest with
  | [] => [cur]
  | (x, ps) :: r =>
      if negb (Nat.eqb (addable (fst cur)) 0) && Nat.eqb (addable (fst cur)) (addable x)
      then merge_runs (merge2 (fst cur) x, snd cur) r
      else cur :: merge_runs (x, ps) r
  end.

Definition rebuild_plus (l : list (expr * pos)) : expr :=
  match l with
  | [] => EUnsup "internal:plus"
  | (a, _) :: r => fold_left (fun acc xp => EBinary Add (snd xp) acc (fst xp)) r a
  end.

Fixpoint fold_expr (fuel : nat) (e : expr) {struct fuel} : expr :=
  match fuel with
  | O => e
  | S fuel =>
    let f := fold_expr fuel in
    let ft := fold_target fuel in
    match e with
    | EName _ _ | EInt _ | EStr _ | EUnsup _ => e
    | EParen x => EParen (f x)
    | EUnary o ps x => EUnary o ps (f x)
    | EBinary Add ps x y =>
        match flatten_plus 1000 e with
        | [] => e
        | a :: r => rebuild_plus (map (fun xp => (f (fst xp), snd xp)) (merge_runs a r))
        end
    | EBinary o ps x y => EBinary o ps (f x) (f y)
    | EAnd x y => EAnd (f x) (f y)
    | EOr x y => EOr (f x) (f y)
    | ECond c t e' => ECond (f c) (f t) (f e')
    | ETuple es => ETuple (map f es)
    | EList es => EList (map f es)
    | EDict kvs => EDict (map (fun kv => (f (fst (fst kv)), f (snd (fst kv)), snd kv)) kvs)
    | EIndex x y ps => EIndex (f x) (f y) ps
    | EDot x name ps => EDot (f x) name ps
    | ECall fn args ps =>
        ECall (f fn) (map (fun a => match a with
                                    | APos x => APos (f x) | ANamed k x => ANamed k (f x)
                                    | AStar x => AStar (f x) | AStarStar x => AStarStar (f x) end) args) ps
    | ELambda fid ps body pp =>
        ELambda fid (map (fun q => match q with PDefault x d => PDefault x (f d) | _ => q end) ps) (f body) pp
    | EComp c b bv cp cls sl =>
        EComp c (f b) (f bv) cp (map (fun cl => match cl with
                                               | CFor t x ps => CFor (ft t) (f x) ps
                                               | CIf x => CIf (f x) end) cls) sl
    | ESlice x lo hi st ps => ESlice (f x) (option_map f lo) (option_map f hi) (option_map f st) ps
    end
  end
with fold_target (fuel : nat) (t : target) {struct fuel} : target :=
  match fuel with
  | O => t
  | S fuel =>
    match t with
    | TName _ _ => t
    | TIndex x y ps => TIndex (fold_expr fuel x) (fold_expr fuel y) ps
    | TDot x name ps => TDot (fold_expr fuel x) name ps
    | TSeq ts => TSeq (map (fold_target fuel) ts)
    end
  end.

Fixpoint fold_stmt (fuel : nat) (s : stmt) {struct fuel} : stmt :=
  match fuel with
  | O => s
  | S fuel =>
    let f := fold_expr 1000 in
    let ft := fold_target 1000 in
    let fs := map (fold_stmt fuel) in
    match s with
    | SExpr e => SExpr (f e)
    | SAssign t e ps => SAssign (ft t) (f e) ps
    | SAug o t e ps => SAug o (ft t) (f e) ps
    | SIf c tb fb => SIf (f c) (fs tb) (fs fb)
    | SWhile c b => SWhile (f c) (fs b)
    | SFor t e b ps => SFor (ft t) (f e) (fs b) ps
    | SReturn (Some e) => SReturn (Some (f e))
    | SDef fid name ps body pp =>
        SDef fid name (map (fun q => match q with PDefault x d => PDefault x (f d) | _ => q end) ps) (fs body) pp
    | _ => s
    end
  end.

Definition fold_prog (p : program) : program :=
  {| p_opts := p_opts p; p_body := map (fold_stmt 1000) (p_body p) |}.

(* ---------------------------------------------------------------- slot assignment (resolve.go: bind / bindLocal)
   One traversal in the resolver's order: a function-level name gets the next
   slot when first bound; every comprehension variable gets a fresh slot when
   first bound in its block (recorded under a name no identifier can have).
   The traversal returns the slot names and the syntax with each comprehension
   annotated with the slots of its variables.  Nested function bodies are
   numbered when they are compiled themselves. *)
Definition mangle (x : string) : string := ("." ++ x)%string.

Definition bind_fn (top : bool) (x : string) (ls : list string) : list string :=
  if top then ls else if str_in x ls then ls else ls ++ [x].

Fixpoint num_list {A} (f : list string -> A -> A * list string) (ls : list string) (l : list A) : list A * list string :=
  match l with
  | [] => ([], ls)
  | a :: r => let '(a', ls1) := f ls a in let '(r', ls2) := num_list f ls1 r in (a' :: r', ls2)
  end.

Definition num_opt (f : list string -> expr -> expr * list string) (ls : list string) (o : option expr) : option expr * list string :=
  match o with Some e => let '(e', ls1) := f ls e in (Some e', ls1) | None => (None, ls) end.

Fixpoint num_expr (fuel : nat) (ls : list string) (e : expr) {struct fuel} : expr * list string :=
  match fuel with
  | O => (e, ls)
  | S fuel =>
    let ne := num_expr fuel in
    match e with
    | EName _ _ | EInt _ | EStr _ | EUnsup _ => (e, ls)
    | EParen x => let '(x', l1) := ne ls x in (EParen x', l1)
    | EUnary o ps x => let '(x', l1) := ne ls x in (EUnary o ps x', l1)
    | EBinary o ps x y => let '(x', l1) := ne ls x in let '(y', l2) := ne l1 y in (EBinary o ps x' y', l2)
    | EAnd x y => let '(x', l1) := ne ls x in let '(y', l2) := ne l1 y in (EAnd x' y', l2)
    | EOr x y => let '(x', l1) := ne ls x in let '(y', l2) := ne l1 y in (EOr x' y', l2)
    | ECond c t f => let '(c', l1) := ne ls c in let '(t', l2) := ne l1 t in let '(f', l3) := ne l2 f in (ECond c' t' f', l3)
    | ETuple es => let '(es', l1) := num_list ne ls es in (ETuple es', l1)
    | EList es => let '(es', l1) := num_list ne ls es in (EList es', l1)
    | EDict kvs =>
        let '(kvs', l1) := num_list (fun l kv => let '(k', a) := ne l (fst (fst kv)) in
                                                 let '(v', b) := ne a (snd (fst kv)) in ((k', v', snd kv), b)) ls kvs in
        (EDict kvs', l1)
    | EIndex x y ps => let '(x', l1) := ne ls x in let '(y', l2) := ne l1 y in (EIndex x' y' ps, l2)
    | EDot x name ps => let '(x', l1) := ne ls x in (EDot x' name ps, l1)
    | ECall fn args ps =>
        let '(fn', l1) := ne ls fn in
        let '(args', l2) := num_list (fun l a => match a with
                                                 | APos x => let '(x', b) := ne l x in (APos x', b)
                                                 | ANamed k x => let '(x', b) := ne l x in (ANamed k x', b)
                                                 | AStar x => let '(x', b) := ne l x in (AStar x', b)
                                                 | AStarStar x => let '(x', b) := ne l x in (AStarStar x', b) end) l1 args in
        (ECall fn' args' ps, l2)
    | ELambda fid ps body pp =>
        let '(ps', l1) := num_list (fun l q => match q with
                                               | PDefault x d => let '(d', b) := ne l d in (PDefault x d', b)
                                               | _ => (q, l) end) ls ps in
        (ELambda fid ps' body pp, l1)
    | ESlice x lo hi st ps =>
        let '(x', l1) := ne ls x in let '(lo', l2) := num_opt ne l1 lo in
        let '(hi', l3) := num_opt ne l2 hi in let '(st', l4) := num_opt ne l3 st in
        (ESlice x' lo' hi' st' ps, l4)
    | EComp c b bv cp cls _ =>
        (* targets of for clauses bind in the comprehension's block: state (slot names, block variables) *)
        let ct := fix ct (st : list string * list (string * nat)) (t : target) {struct t} : target * (list string * list (string * nat)) :=
                    match t with
                    | TName x _ => (t, if str_in x (map fst (snd st)) then st
                                       else ((fst st ++ [mangle x])%list, (snd st ++ [(x, length (fst st))])%list))
                    | TIndex x y pi => let '(x', l1) := ne (fst st) x in let '(y', l2) := ne l1 y in (TIndex x' y' pi, (l2, snd st))
                    | TDot x name pd => let '(x', l1) := ne (fst st) x in (TDot x' name pd, (l1, snd st))
                    | TSeq ts => let r := (fix go (st : list string * list (string * nat)) (l : list target) :=
                                             match l with
                                             | [] => ([], st)
                                             | a :: r => let '(a', s1) := ct st a in let '(r', s2) := go s1 r in (a' :: r', s2)
                                             end) st ts in (TSeq (fst r), snd r)
                    end in
        match cls with
        | CFor t e0 ps :: rest =>
            let '(e0', l1) := ne ls e0 in
            let '(t', st1) := ct (l1, []) t in
            let '(rest', st2) :=
              (fix go (st : list string * list (string * nat)) (l : list clause) :=
                 match l with
                 | [] => ([], st)
                 | CIf x :: r => let '(x', l2) := ne (fst st) x in
                                 let '(r', s2) := go (l2, snd st) r in (CIf x' :: r', s2)
                 | CFor t1 e1 p1 :: r =>
                     let '(t1', s1) := ct st t1 in
                     let '(e1', l2) := ne (fst s1) e1 in
                     let '(r', s2) := go (l2, snd s1) r in (CFor t1' e1' p1 :: r', s2)
                 end) st1 rest in
            let '(b', l3) := ne (fst st2) b in
            let '(bv', l4) := ne l3 bv in
            (EComp c b' bv' cp (CFor t' e0' ps :: rest') (map snd (snd st2)), l4)
        | _ => (e, ls)
        end
    end
  end.

Fixpoint num_target (top : bool) (ls : list string) (t : target) {struct t} : target * list string :=
  match t with
  | TName x _ => (t, bind_fn top x ls)
  | TIndex x y pi => let '(x', l1) := num_expr 1000 ls x in let '(y', l2) := num_expr 1000 l1 y in (TIndex x' y' pi, l2)
  | TDot x name pd => let '(x', l1) := num_expr 1000 ls x in (TDot x' name pd, l1)
  | TSeq ts => let '(ts', l1) := (fix go (ls : list string) (l : list target) :=
                                    match l with
                                    | [] => ([], ls)
                                    | a :: r => let '(a', l1) := num_target top ls a in
                                                let '(r', l2) := go l1 r in (a' :: r', l2)
                                    end) ls ts in (TSeq ts', l1)
  end.

Fixpoint num_stmt (fuel : nat) (top : bool) (ls : list string) (s : stmt) {struct fuel} : stmt * list string :=
  match fuel with
  | O => (s, ls)
  | S fuel =>
    let ne := num_expr 1000 in
    let nb := num_list (num_stmt fuel top) in
    match s with
    | SExpr e => let '(e', l1) := ne ls e in (SExpr e', l1)
    | SAssign t e ps => let '(e', l1) := ne ls e in let '(t', l2) := num_target top l1 t in (SAssign t' e' ps, l2)
    | SAug o t e ps => let '(e', l1) := ne ls e in let '(t', l2) := num_target top l1 t in (SAug o t' e' ps, l2)
    | SIf c tb fb => let '(c', l1) := ne ls c in let '(tb', l2) := nb l1 tb in let '(fb', l3) := nb l2 fb in (SIf c' tb' fb', l3)
    | SWhile c b => let '(c', l1) := ne ls c in let '(b', l2) := nb l1 b in (SWhile c' b', l2)
    | SFor t e b ps =>
        let '(e', l1) := ne ls e in let '(t', l2) := num_target top l1 t in let '(b', l3) := nb l2 b in (SFor t' e' b' ps, l3)
    | SReturn (Some e) => let '(e', l1) := ne ls e in (SReturn (Some e'), l1)
    | SDef fid name ps body pp =>
        let l0 := bind_fn top name ls in
        let '(ps', l1) := num_list (fun l q => match q with
                                               | PDefault x d => let '(d', b) := ne l d in (PDefault x d', b)
                                               | _ => (q, l) end) l0 ps in
        (SDef fid name ps' body pp, l1)
    | SLoad m names ps => (s, fold_left (fun l tf => if str_in (fst tf) l then l else l ++ [fst tf]) names ls)
    | _ => (s, ls)
    end
  end.

(* slot names of a function (parameters first) and its body with comprehension slots filled in *)
Definition number_fun (fd : fundef) : list stmt * list string :=
  num_list (num_stmt 1000 false) (add_all (param_names (fd_params fd)) []) (fd_body fd).
Definition layout (fd : fundef) : list string := snd (number_fun fd).
Definition number_top (p : program) : list stmt * list string := num_list (num_stmt 1000 true) [] (p_body p).
Definition layout_top (p : program) : list string := snd (number_top p).

(* annotate every comprehension of the program: first the bodies of the defs nested in a statement ... *)
Fixpoint number_defs (fuel : nat) (s : stmt) {struct fuel} : stmt :=
  match fuel with
  | O => s
  | S fuel =>
    let nd := map (number_defs fuel) in
    match s with
    | SIf c tb fb => SIf c (nd tb) (nd fb)
    | SWhile c b => SWhile c (nd b)
    | SFor t e b ps => SFor t e (nd b) ps
    | SDef fid name ps body pp =>
        let body1 := nd body in
        SDef fid name ps (fst (num_list (num_stmt 1000 false) (add_all (param_names ps) []) body1)) pp
    | _ => s
    end
  end.
(* ... then the module level itself *)
Definition number_prog (p : program) : program :=
  {| p_opts := p_opts p;
     p_body := fst (num_list (num_stmt 1000 true) [] (map (number_defs 1000) (p_body p))) |}.

Definition unmangle (x : string) : string :=
  match x with String c r => if Nat.eqb (Ascii.nat_of_ascii c) 46 then r else x | _ => x end.

(* every def of the program, at any statement depth *)
Fixpoint defs_stmt (s : stmt) : list (nat * fundef) :=
  match s with
  | SIf _ tb fb => flat_map defs_stmt tb ++ flat_map defs_stmt fb
  | SWhile _ b | SFor _ _ b _ => flat_map defs_stmt b
  | SDef fid name ps body pp =>
      (fid, {| fd_name := name; fd_params := ps; fd_body := body; fd_pos := pp |}) :: flat_map defs_stmt body
  | _ => []
  end.
Definition all_defs (p : program) : list (nat * fundef) := flat_map defs_stmt (p_body p).

Definition compile_fun (p : program) (fd : fundef) : funcode :=
  let ls := layout fd in
  {| fc_name := fd_name fd; fc_code := gen_body p ls (fd_body fd); fc_nlocals := length ls;
     fc_params := fd_params fd; fc_cells := []; fc_free := [] |}.

Definition compile_prog (p : program) : cprog :=
  let ls := layout_top p in
  {| cp_top := {| fc_name := "<toplevel>"; fc_code := gen_body p ls (p_body p); fc_nlocals := length ls;
                  fc_params := []; fc_cells := []; fc_free := [] |};
     cp_funs := map (fun d => (fst d, compile_fun p (snd d))) (all_defs p);
     cp_recursion := o_recursion (p_opts p) |}.

Definition run_compiled (p : program) (fuel : nat) : option (vresult * nat) :=
  let cp := compile_prog (number_prog (fold_prog p)) in
  run cp (fname p) fuel (init_state cp (length (global_names p))).
