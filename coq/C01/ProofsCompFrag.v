(* C01 -- the larger fragment `in_fragment2` for which codegen_correct is proved
   (milestone 2): the fragment of Frag.v plus list and dict COMPREHENSIONS
   anywhere an expression may stand (for / if clauses, any number, nested in
   each other, inside functions and at module level), their variables living
   in block-local slots of the enclosing frame as Compile.v assigns them.

   Because the program carries the slot annotations of its comprehensions
   (Syntax.EComp ... slots, filled in by Compile.number_prog), the predicate
   checks them against the frame layout that compile_prog computes:
   every comprehension has one slot per variable, the slots of one
   comprehension are pairwise distinct, distinct from the slots of the
   comprehensions around it, lie inside the frame and are not slots of
   function-level names.

   THE GUARD (what excludes the known divergence codegen_correct_refuted):
   every use of a comprehension variable is dominated by the clause that binds
   it -- an expression in a clause (or the body) may mention a variable x of
   an enclosing comprehension only if a `for` clause binding x precedes it
   (`U` below is the list of the variables in scope that are not yet bound;
   expressions inside the target of a `for` clause are checked before the
   clause's own names are bound; the second body expression, which only a
   dict comprehension evaluates, is checked in list comprehensions too).  Under the specification an undominated use
   is a dynamic error; the real code reads the slot's value from a previous
   evaluation.
   No proofs in this file. *)
From Coq Require Import ZArith String List Bool.
From SV Require Import C01.Syntax C01.Values C01.Ref C01.VM C01.Compile C01.Frag.
Import ListNotations.
Open Scope string_scope.
Open Scope list_scope.
Open Scope nat_scope.

(* remove the names xs from U *)
Definition rm (xs : list string) (U : list string) : list string := filter (fun y => negb (str_in y xs)) U.

Definition nat_in (i : nat) (l : list nat) : bool := existsb (Nat.eqb i) l.
Fixpoint nodup_nat (l : list nat) : bool :=
  match l with [] => true | a :: r => negb (nat_in a r) && nodup_nat r end.

Section Ok2.
  Variable lo : list string.     (* the function-level names of the activation (Ref.locals_of; [] at module level) *)
  Variable ls : list string.     (* the frame layout (Compile.layout / layout_top) *)

  (* the name x is resolved by name: it is a function-level name or not a slot name at all
     (slots of comprehension variables are recorded in the layout under names no identifier has) *)
  Definition jok (x : string) : bool := str_in x lo || negb (str_in x ls).
  (* slot i exists and is not the slot of a function-level name *)
  Definition junkb (i : nat) : bool :=
    match nth_error ls i with Some nm => negb (str_in nm lo) | None => false end.

  (* U: comprehension variables in scope that are not bound yet; used: slots of the enclosing comprehensions *)
  Fixpoint ok_expr2 (U : list string) (used : list nat) (e : expr) {struct e} : bool :=
    match e with
    | EName x _ => negb (str_in x U) && jok x
    | EInt _ | EStr _ | EUnsup _ => true
    | EParen e | EUnary _ _ e | EDot e _ _ => ok_expr2 U used e
    | EBinary _ _ x y | EAnd x y | EOr x y | EIndex x y _ => ok_expr2 U used x && ok_expr2 U used y
    | ECond c t f => ok_expr2 U used c && ok_expr2 U used t && ok_expr2 U used f
    | ETuple es | EList es => forallb (ok_expr2 U used) es
    | ECall fn args _ =>
        ok_expr2 U used fn
        && forallb (fun a => match a with APos e | ANamed _ e | AStar e | AStarStar e => ok_expr2 U used e end) args
        && pos_then_named args
    | ESlice x lo_ hi st _ =>
        ok_expr2 U used x && match lo_ with Some e => ok_expr2 U used e | None => true end
                          && match hi with Some e => ok_expr2 U used e | None => true end
                          && match st with Some e => ok_expr2 U used e | None => true end
    | EDict kvs => forallb (fun kv => ok_expr2 U used (fst (fst kv)) && ok_expr2 U used (snd (fst kv))) kvs
    | ELambda _ _ _ _ => false
    | EComp curly body bodyv cp cls slots =>
        match cls with
        | CFor t e0 ps :: rest =>
            let V := comp_vars cls in
            let used' := slots ++ used in
            let okc := fix okc (U1 : list string) (l : list clause) {struct l} : bool :=
                  match l with
                  | [] => ok_expr2 U1 used' body && ok_expr2 U1 used' bodyv
                  | CIf c :: r => ok_expr2 U1 used' c && okc U1 r
                  | CFor t1 e1 _ :: r =>
                      ok_expr2 U1 used' e1 && ok_target2 U1 used' t1
                      && forallb (fun x => str_in x V) (target_names t1)
                      && okc (rm (target_names t1) U1) r
                  end in
            is_nil (nm_expr false e)
            && Nat.eqb (length slots) (length V) && nodup_nat slots
            && forallb (fun i => negb (nat_in i used)) slots && forallb junkb slots
            && ok_expr2 U used e0                                   (* the first iterable: outside the block *)
            && ok_target2 (V ++ U) used' t && forallb (fun x => str_in x V) (target_names t)
            && okc (rm (target_names t) (V ++ U)) rest
        | _ => false
        end
    end
  with ok_target2 (U : list string) (used : list nat) (t : target) {struct t} : bool :=
    match t with
    | TName x _ => jok x
    | TIndex x y _ => ok_expr2 U used x && ok_expr2 U used y
    | TDot x _ _ => ok_expr2 U used x
    | TSeq ts => forallb (ok_target2 U used) ts
    end.

  (* the clauses after the first, and the body, of a comprehension with variables V and slots ++ outer slots = used' *)
  Section Clauses.
    Variable V : list string.
    Variable used' : list nat.
    Variable curly : bool.
    Variables body bodyv : expr.
    Fixpoint ok_cls (U1 : list string) (l : list clause) {struct l} : bool :=
      match l with
      | [] => ok_expr2 U1 used' body && ok_expr2 U1 used' bodyv
      | CIf c :: r => ok_expr2 U1 used' c && ok_cls U1 r
      | CFor t1 e1 _ :: r =>
          ok_expr2 U1 used' e1 && ok_target2 U1 used' t1
          && forallb (fun x => str_in x V) (target_names t1)
          && ok_cls (rm (target_names t1) U1) r
      end.
  End Clauses.

  Definition ok_param2 (q : param) : bool := match q with PDefault _ e => ok_expr2 [] [] e | _ => true end.
End Ok2.

(* the layout ls places the function-level names lo consistently with the evaluator's activation record:
   the first k names (the parameters) at the same index, the others at or beyond index k *)
Definition layout_ok (lo ls : list string) (k : nat) : bool :=
  forallb (fun x => match index_of x lo, index_of x ls with
                    | Some j, Some i => Nat.eqb i j || (Nat.leb k i && Nat.leb k j)
                    | _, _ => false end) lo.

Fixpoint ok_stmt2 (lo ls : list string) (s : stmt) {struct s} : bool :=
  match s with
  | SExpr e => ok_expr2 lo ls [] [] e
  | SAssign t e _ => ok_target2 lo ls [] [] t && ok_expr2 lo ls [] [] e
  | SAug o t e _ => ok_target2 lo ls [] [] t && ok_expr2 lo ls [] [] e && negb (binop_eqb o NotIn)
  | SIf c tb fb => ok_expr2 lo ls [] [] c && forallb (ok_stmt2 lo ls) tb && forallb (ok_stmt2 lo ls) fb
  | SWhile c b => ok_expr2 lo ls [] [] c && forallb (ok_stmt2 lo ls) b
  | SFor t e b _ => ok_target2 lo ls [] [] t && ok_expr2 lo ls [] [] e && forallb (ok_stmt2 lo ls) b
  | SBreak | SContinue | SPass | SReturn None => true
  | SReturn (Some e) => ok_expr2 lo ls [] [] e
  | SDef _ name ps body pp =>
      forallb (ok_param2 lo ls) ps && jok lo ls name
      && (let fd := {| fd_name := name; fd_params := ps; fd_body := body; fd_pos := pp |} in
          forallb (ok_stmt2 (locals_of fd) (layout fd)) body && is_nil (boxed_names body)
          && layout_ok (locals_of fd) (layout fd) (length (param_names ps)))
  | SLoad _ _ _ | SUnsup _ => false
  end.

Definition ok_fundef2 (fd : fundef) : bool :=
  forallb (ok_stmt2 (locals_of fd) (layout fd)) (fd_body fd) && is_nil (boxed_names (fd_body fd))
  && layout_ok (locals_of fd) (layout fd) (length (param_names (fd_params fd))).

Definition ok_prog2 (p : program) : bool := forallb (ok_stmt2 [] (layout_top p)) (p_body p).

(* THE FRAGMENT (a superset of Frag.in_fragment, see ProofsCompSub.in_fragment_sub) *)
Definition in_fragment2 (p : program) : bool := ok_prog2 p && flat_prog p.

Definition funs_ok2 (p : program) : Prop :=
  forall fid,
    match find_def p fid with
    | Some (fd, encl) => ok_fundef2 fd = true /\ encl = [] /\ find_code (cp_funs (compile_prog p)) fid = Some (compile_fun p fd)
    | None => find_code (cp_funs (compile_prog p)) fid = None
    end.
