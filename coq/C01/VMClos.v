(* C01 -- the machine with a guard on entering closures.  VM.v (and interp.go) pass the cells a
   closure captured BY POSITION: FREE j / FREECELL j index the frame's list of cells.  The value
   domain has function values with an arbitrary list of captured cells; MAKEFUNC builds only
   well-formed ones (one cell per free variable of the function, in order).  `step_chk` is VM.step
   that stops with VUnsup "forged-closure" when a step pushes a frame whose captured cells are not
   named exactly as the free variables of the function's code: the run-time condition under which the
   positional and the by-name reading of captured variables agree.  run_chk agrees with VM.run on every
   run in which the guard never fires (ProofsClosBase.run_chk_agrees) -- and nothing in the model can
   make it fire: no primitive builds a function value.  No proofs in this file. *)
From Coq Require Import ZArith String List Bool.
From SV Require Import C01.Syntax C01.Values C01.Ref C01.VM C01.Compile C01.CompileClos.
Import ListNotations.
Open Scope string_scope.

Definition forged_result : vresult := VUnsup "forged-closure".

Section Chk.
  Variable cp : cprog.
  Variable fname : nat -> string.

  (* the step from s to s' pushed a frame whose captured cells are not those of a closure MAKEFUNC built *)
  Definition bad_entry (s s' : vstate) : bool :=
    Nat.ltb (length (vs_frames s)) (length (vs_frames s'))
    && match vs_frames s' with
       | f :: _ => match fr_fid f with
                   | Some fid => match find_code (cp_funs cp) fid with
                                 | Some fc => negb (strs_eqb (map fst (fr_free f)) (fc_free fc))
                                 | None => false
                                 end
                   | None => false
                   end
       | [] => false
       end.

  Definition step_chk (s : vstate) : stepres :=
    match step cp fname s with
    | Next s' => if bad_entry s s' then Stop forged_result else Next s'
    | Stop r => Stop r
    end.

  Fixpoint run_chk_from (fuel : nat) (n : nat) (s : vstate) : option (vresult * nat) :=
    match fuel with
    | O => None
    | S fuel => match step_chk s with Next s' => run_chk_from fuel (S n) s' | Stop r => Some (r, S n) end
    end.
  Definition run_chk (fuel : nat) (s : vstate) : option (vresult * nat) := run_chk_from fuel 0 s.
End Chk.

(* the guarded machine on the code of CompileClos.v *)
Definition run_chk3 (p : program) (fuel : nat) : option (vresult * nat) :=
  let cp := compile_prog3 p in
  run_chk cp (fname p) fuel (init_state cp (length (global_names p))).

Definition run_chk_compiled3 (p : program) (fuel : nat) : option (vresult * nat) :=
  run_chk3 (number_prog (fold_prog p)) fuel.
