(* C01 -- comprehensions: the relation between the reference evaluator's environment
   (function-level variables, shadowed by the fresh variables of the enclosing
   comprehensions) and the machine's locals array (function-level slots and the
   block-local slots of comprehension variables), and facts about the evaluator
   that do not involve the machine. *)
From Coq Require Import ZArith String List Bool Lia.
From SV Require Import C01.Syntax C01.Values C01.Ref C01.VM C01.Compile C01.Frag C01.ProofsVM C01.ProofsEnv C01.ProofsCompFrag.
Import ListNotations.
Open Scope string_scope.
Open Scope list_scope.
Open Scope nat_scope.

(* ---------------------------------------------------------------- lists, names *)
Lemma str_in_iff : forall x l, str_in x l = true <-> List.In x l.
Proof.
  unfold str_in. intros. rewrite existsb_exists. split.
  - intros [y [Hy He]]. apply String.eqb_eq in He. subst; auto.
  - intros H. exists x. split; auto. apply String.eqb_refl.
Qed.

Lemma str_in_app : forall x a b, str_in x (a ++ b) = str_in x a || str_in x b.
Proof. unfold str_in. intros. apply existsb_app. Qed.

Lemma str_in_cons : forall x y l, str_in x (y :: l) = String.eqb x y || str_in x l.
Proof. reflexivity. Qed.

Lemma str_in_rm : forall y xs U, str_in y (rm xs U) = str_in y U && negb (str_in y xs).
Proof.
  unfold rm. induction U as [|a U IH]; [reflexivity|].
  cbn [filter]. rewrite (str_in_cons y a U).
  destruct (str_in a xs) eqn:Ea; cbn [negb].
  - rewrite IH. destruct (String.eqb y a) eqn:E; cbn [orb]; auto.
    apply String.eqb_eq in E. subst. rewrite Ea. cbn [negb]. rewrite andb_false_r. reflexivity.
  - rewrite str_in_cons, IH. destruct (String.eqb y a) eqn:E; cbn [orb]; auto.
    apply String.eqb_eq in E. subst. rewrite Ea. reflexivity.
Qed.

Lemma index_of_nth : forall x l i, index_of x l = Some i -> nth_error l i = Some x.
Proof.
  induction l as [|y l IH]; intros i H; simpl in *; [discriminate|].
  destruct (String.eqb x y) eqn:E.
  - inversion H; subst. apply String.eqb_eq in E. subst. reflexivity.
  - destruct (index_of x l) as [j|]; simpl in H; [|discriminate]. inversion H; subst. simpl. auto.
Qed.

Lemma index_of_none : forall x l, str_in x l = false -> index_of x l = None.
Proof.
  induction l as [|y l IH]; intros H; [reflexivity|].
  rewrite str_in_cons in H. apply orb_false_iff in H. destruct H as [H1 H2]. cbn [index_of]. rewrite H1, (IH H2). reflexivity.
Qed.

Lemma index_of_in : forall x l i, index_of x l = Some i -> str_in x l = true.
Proof. intros. apply str_in_iff. apply index_of_nth in H. eapply nth_error_In; eauto. Qed.

Lemma index_of_some : forall x l, str_in x l = true -> exists i, index_of x l = Some i.
Proof.
  intros. destruct (index_of x l) eqn:E; eauto.
  assert (str_in x l = false).
  { clear H. induction l as [|y l IH]; [reflexivity|]. cbn [index_of] in E. rewrite str_in_cons.
    destruct (String.eqb x y); [discriminate|]. destruct (index_of x l); [discriminate|]. auto. }
  congruence.
Qed.

Lemma upd_nth_length : forall A n (x : A) l, length (upd_nth n x l) = length l.
Proof. induction n; destruct l; simpl; auto. Qed.

Lemma upd_nth_same : forall A n (x : A) l, n < length l -> nth_error (upd_nth n x l) n = Some x.
Proof. induction n; destruct l; simpl; intros; try lia; auto. apply IHn. lia. Qed.

Lemma upd_nth_other : forall A n m (x : A) l, n <> m -> nth_error (upd_nth n x l) m = nth_error l m.
Proof. induction n; destruct l, m; simpl; intros; try congruence; auto. Qed.

Lemma nat_in_iff : forall i l, nat_in i l = true <-> List.In i l.
Proof.
  unfold nat_in. intros. rewrite existsb_exists. split.
  - intros [y [Hy He]]. apply Nat.eqb_eq in He. subst; auto.
  - intros H. exists i. split; auto. apply Nat.eqb_refl.
Qed.

Lemma nodup_nat_ok : forall l, nodup_nat l = true -> NoDup l.
Proof.
  induction l; simpl; intros H; constructor.
  - apply andb_true_iff in H. destruct H as [H _]. apply negb_true_iff in H.
    intros Hin. apply nat_in_iff in Hin. congruence.
  - apply IHl. apply andb_true_iff in H. tauto.
Qed.

Lemma NoDup_app_intro : forall (a b : list nat), NoDup a -> NoDup b -> (forall i, List.In i a -> ~ List.In i b) -> NoDup (a ++ b).
Proof.
  induction a; simpl; intros; auto.
  inversion H; subst. constructor.
  - rewrite in_app_iff. intros [Hi|Hi]; auto. eapply H1; eauto.
  - apply IHa; auto.
Qed.

Lemma app_eq_len : forall A (a c b d : list A), a ++ b = c ++ d -> length a = length c -> a = c /\ b = d.
Proof.
  induction a; destruct c; simpl; intros; try discriminate; auto.
  inversion H; subst. destruct (IHa c b d H3); auto. subst; auto.
Qed.

(* ---------------------------------------------------------------- association lists *)
Lemma assoc_app : forall A x (a b : list (string * A)),
  assoc x (a ++ b) = match assoc x a with Some v => Some v | None => assoc x b end.
Proof. induction a as [|[y v] a IH]; intros; simpl; auto. destruct (String.eqb x y); auto. Qed.

Lemma assoc_in_names : forall A x (a : list (string * A)) v, assoc x a = Some v -> List.In x (map fst a).
Proof.
  induction a as [|[y w] a IH]; intros v H; simpl in *; [discriminate|].
  destruct (String.eqb x y) eqn:E; [left; apply String.eqb_eq in E; auto | right; eauto].
Qed.

Lemma assoc_not_in : forall A x (a : list (string * A)), assoc x a = None -> ~ List.In x (map fst a).
Proof.
  induction a as [|[y w] a IH]; intros H; simpl in *; auto.
  destruct (String.eqb x y) eqn:E; [discriminate|]. intros [Hy|Hin].
  - subst. rewrite String.eqb_refl in E. discriminate.
  - apply IH; auto.
Qed.

Lemma assoc_names_some : forall A x (a : list (string * A)), List.In x (map fst a) -> assoc x a <> None.
Proof. intros A x a Hin Hn. apply assoc_not_in in Hn. auto. Qed.

Lemma assoc_In_pair : forall A x (a : list (string * A)) v, assoc x a = Some v -> List.In (x, v) a.
Proof.
  induction a as [|[y w] a IH]; intros v H; simpl in *; [discriminate|].
  destruct (String.eqb x y) eqn:E.
  - apply String.eqb_eq in E. inversion H; subst. auto.
  - right; auto.
Qed.

Lemma assoc_set_same : forall A x (a b : A) (l : list (string * A)), assoc x l = Some b -> assoc x (assoc_set x a l) = Some a.
Proof.
  induction l as [|[y w] l IH]; intros H; simpl in *; [discriminate|].
  destruct (String.eqb x y) eqn:E; simpl; rewrite E; auto.
Qed.

Lemma assoc_set_other : forall A x y (a : A) (l : list (string * A)), y <> x -> assoc y (assoc_set x a l) = assoc y l.
Proof.
  induction l as [|[z w] l IH]; intros H; simpl in *; auto.
  destruct (String.eqb x z) eqn:E; simpl.
  - apply String.eqb_eq in E. subst. destruct (String.eqb y z) eqn:E2; auto.
    apply String.eqb_eq in E2. congruence.
  - destruct (String.eqb y z); auto.
Qed.

Lemma assoc_set_names : forall A x (a : A) (l : list (string * A)), map fst (assoc_set x a l) = map fst l.
Proof. induction l as [|[z w] l IH]; simpl; auto. destruct (String.eqb x z); simpl; congruence. Qed.

Lemma assoc_set_app_l : forall A x (a : A) (l r : list (string * A)),
  assoc x l <> None -> assoc_set x a (l ++ r) = assoc_set x a l ++ r.
Proof.
  induction l as [|[z w] l IH]; intros r H; simpl in *; [congruence|].
  destruct (String.eqb x z); simpl; auto. rewrite IH; auto.
Qed.

Lemma assoc_set_app_r : forall A x (a : A) (l r : list (string * A)),
  assoc x l = None -> assoc_set x a (l ++ r) = l ++ assoc_set x a r.
Proof.
  induction l as [|[z w] l IH]; intros r H; simpl in *; auto.
  destruct (String.eqb x z); [discriminate|]. rewrite IH; auto.
Qed.

Lemma all_direct_app : forall a b, all_direct (a ++ b) <-> all_direct a /\ all_direct b.
Proof. unfold all_direct. intros. apply Forall_app. Qed.

Lemma all_direct_set : forall (ρ : env) x v, all_direct ρ -> all_direct (assoc_set x (Direct v) ρ).
Proof.
  unfold all_direct. induction ρ as [|[y s] ρ IH]; intros x v H; simpl; auto.
  inversion H; subst. destruct (String.eqb x y); constructor; auto. eexists; reflexivity.
Qed.

(* ---------------------------------------------------------------- the relation *)
(* slot i of the layout is not the slot of a function-level name *)
Definition junk (lo ls : list string) (i : nat) : Prop :=
  exists nm, nth_error ls i = Some nm /\ str_in nm lo = false.

Lemma junkb_ok : forall lo ls i, junkb lo ls i = true -> junk lo ls i.
Proof.
  unfold junkb, junk. intros lo ls i H. destruct (nth_error ls i) as [nm|]; [|discriminate].
  exists nm. split; auto. apply negb_true_iff in H. auto.
Qed.

(* one comprehension variable (an entry of the environment) against its slot *)
Definition Pc (L : list (option value)) (xs : string * slot) (yi : string * nat) : Prop :=
  fst xs = fst yi /\ exists ov, snd xs = Direct ov /\ (forall v, ov = Some v -> nth_error L (snd yi) = Some (Some v)).

(* the function-level variables *)
Definition Rf (lo ls : list string) (ρf : env) (L : list (option value)) : Prop :=
  all_direct ρf /\
  forall x, match assoc x ρf with
            | Some sl => str_in x lo = true /\ exists i ov, sl = Direct ov /\ index_of x ls = Some i /\ nth_error L i = Some ov
            | None => str_in x lo = false
            end.

(* cs: the variables of the enclosing comprehensions, innermost first, with their slots (as in Compile.gen):
   the environment is those variables, in the same order, followed by the function-level variables.  An
   unbound comprehension variable says nothing about its slot (it may hold a value from an earlier
   evaluation of the comprehension) *)
Definition Rloc (lo ls : list string) (cs : list (string * nat)) (ρ : env) (L : list (option value)) : Prop :=
  exists ρc ρf, ρ = ρc ++ ρf /\ Forall2 (Pc L) ρc cs /\ Rf lo ls ρf L /\ NoDup (map snd cs)
                /\ Forall (junk lo ls) (map snd cs) /\ length L = length ls.

(* the comprehension variables in scope that the static check takes as bound are bound *)
Definition Renv (cs : list (string * nat)) (U : list string) (ρ : env) : Prop :=
  forall x i, assoc x cs = Some i -> str_in x U = false -> exists v, assoc x ρ = Some (Direct (Some v)).

Definition R (lo ls : list string) (cs : list (string * nat)) (U : list string) (ρ : env) (L : list (option value)) : Prop :=
  Renv cs U ρ /\ Rloc lo ls cs ρ L.

Lemma Forall2_Pc_direct : forall L ρc cs, Forall2 (Pc L) ρc cs -> all_direct ρc.
Proof.
  induction 1; constructor; auto. destruct H as [_ [ov [H _]]]. exists ov. auto.
Qed.

Lemma Rloc_wf : forall lo ls cs ρ L, Rloc lo ls cs ρ L -> all_direct ρ.
Proof.
  intros lo ls cs ρ L [ρc [ρf [-> [H2 [[Hd _] _]]]]]. apply all_direct_app. split; auto.
  eapply Forall2_Pc_direct; eauto.
Qed.

Lemma R_wf : forall lo ls cs U ρ L, R lo ls cs U ρ L -> all_direct ρ.
Proof. intros lo ls cs U ρ L [_ H]. eapply Rloc_wf; eauto. Qed.

Lemma junk_lt : forall lo ls i (L : list (option value)), junk lo ls i -> length L = length ls -> i < length L.
Proof. intros lo ls i L [nm [H _]] Hl. rewrite Hl. apply nth_error_Some. congruence. Qed.

(* what a name resolves to on both sides *)
Lemma Rloc_lookup : forall lo ls cs ρ L, Rloc lo ls cs ρ L ->
  forall x,
    match assoc x cs with
    | Some i => exists ov, assoc x ρ = Some (Direct ov) /\ (forall v, ov = Some v -> nth_error L i = Some (Some v))
    | None => match assoc x ρ with
              | Some sl => str_in x lo = true /\ exists i ov, sl = Direct ov /\ index_of x ls = Some i /\ nth_error L i = Some ov
              | None => str_in x lo = false
              end
    end.
Proof.
  intros lo ls cs ρ L [ρc [ρf [-> [H2 [[_ Hf] _]]]]] x.
  induction H2 as [|[x' sl] [y' i'] ρc cs Hp H2 IH]; simpl.
  - apply Hf.
  - destruct Hp as [Hn [ov [Hs Hv]]]. simpl in *. subst x' sl.
    destruct (String.eqb x y'); auto. exists ov. auto.
Qed.

Lemma Pc_upd_other : forall L xs yi i a, Pc L xs yi -> snd yi <> i -> Pc (upd_nth i a L) xs yi.
Proof.
  intros L xs yi i a [Hn [ov [Hs Hv]]] Hne. split; auto. exists ov. split; auto.
  intros v Hov. rewrite upd_nth_other by auto. auto.
Qed.

Lemma Forall2_Pc_upd : forall L ρc cs i a, Forall2 (Pc L) ρc cs -> ~ List.In i (map snd cs) -> Forall2 (Pc (upd_nth i a L)) ρc cs.
Proof.
  induction 1; intros Hn; constructor.
  - apply Pc_upd_other; auto. intros He. apply Hn. left. auto.
  - apply IHForall2. intros Hi. apply Hn. right. auto.
Qed.

Lemma Rf_upd_junk : forall lo ls ρf L i a, Rf lo ls ρf L -> junk lo ls i -> Rf lo ls ρf (upd_nth i a L).
Proof.
  intros lo ls ρf L i a [Hd Hf] [nm [Hnm Hlo]]. split; auto.
  intros x. specialize (Hf x). destruct (assoc x ρf) as [sl|]; auto.
  destruct Hf as [Hx [j [ov [H1 [H2 H3]]]]]. split; auto. exists j, ov. repeat split; auto.
  rewrite upd_nth_other; auto. intros ->. apply index_of_nth in H2. congruence.
Qed.

Lemma Forall2_Pc_set : forall L ρf x v ρc cs i,
  Forall2 (Pc L) ρc cs -> NoDup (map snd cs) -> (forall j, List.In j (map snd cs) -> j < length L) ->
  assoc x cs = Some i ->
  exists ρc', assoc_set x (Direct (Some v)) (ρc ++ ρf) = ρc' ++ ρf /\ Forall2 (Pc (upd_nth i (Some v) L)) ρc' cs.
Proof.
  intros L ρf x v ρc cs i H2. revert i.
  induction H2 as [|[x' sl] [y' i'] ρc cs Hp H2 IH]; intros i Hnd Hlt Ha; simpl in *; [discriminate|].
  destruct Hp as [Hn [ov [Hs Hv]]]. simpl in *. subst x' sl. inversion Hnd; subst.
  destruct (String.eqb x y') eqn:E.
  - inversion Ha; subst i'. exists ((y', Direct (Some v)) :: ρc). split; auto.
    constructor.
    + split; auto. exists (Some v). split; auto. intros v0 Hv0. inversion Hv0; subst.
      simpl. apply upd_nth_same. apply Hlt. auto.
    + apply Forall2_Pc_upd; auto.
  - destruct (IH i H3 (fun j Hj => Hlt j (or_intror Hj)) Ha) as [ρc' [He Hf]].
    exists ((y', Direct ov) :: ρc'). split; [rewrite He; reflexivity|].
    constructor; auto.
    apply Pc_upd_other; [split; auto; exists ov; auto|]. simpl. intros ->.
    apply H1. apply assoc_In_pair in Ha. apply (in_map snd) in Ha. auto.
Qed.

(* assignment to a comprehension variable *)
Lemma Rloc_set_cs : forall lo ls cs ρ L x i v,
  Rloc lo ls cs ρ L -> assoc x cs = Some i ->
  Rloc lo ls cs (assoc_set x (Direct (Some v)) ρ) (upd_nth i (Some v) L).
Proof.
  intros lo ls cs ρ L x i v [ρc [ρf [-> [H2 [Hf [Hnd [Hj Hl]]]]]]] Ha.
  assert (Hlt : forall j, List.In j (map snd cs) -> j < length L).
  { intros j Hin. rewrite Forall_forall in Hj. eapply junk_lt; eauto. }
  destruct (Forall2_Pc_set L ρf x v ρc cs i H2 Hnd Hlt Ha) as [ρc' [He H2']].
  exists ρc', ρf. rewrite He. repeat split; auto.
  - apply Hf.
  - apply Rf_upd_junk; auto. rewrite Forall_forall in Hj. apply Hj.
    apply assoc_In_pair in Ha. apply (in_map snd) in Ha. auto.
  - rewrite upd_nth_length. auto.
Qed.

Lemma Forall2_names_none : forall L ρc cs x, Forall2 (Pc L) ρc cs -> assoc x cs = None -> assoc x ρc = None.
Proof.
  induction 1 as [|[x' sl] [y' i'] ρc cs Hp H2 IH]; simpl; auto.
  destruct Hp as [Hn _]. simpl in Hn. subst. destruct (String.eqb x y'); auto. discriminate.
Qed.

(* assignment to a function-level variable *)
Lemma Rloc_set_fn : forall lo ls cs ρ L x i v,
  Rloc lo ls cs ρ L -> assoc x cs = None -> assoc x ρ <> None -> index_of x ls = Some i ->
  Rloc lo ls cs (assoc_set x (Direct (Some v)) ρ) (upd_nth i (Some v) L).
Proof.
  intros lo ls cs ρ L x i v [ρc [ρf [-> [H2 [Hf [Hnd [Hj Hl]]]]]]] Ha Hb Hi.
  pose proof (Forall2_names_none _ _ _ x H2 Ha) as Hn.
  rewrite assoc_app, Hn in Hb.
  rewrite assoc_set_app_r by auto.
  destruct Hf as [Hd Hf].
  pose proof (Hf x) as Hx. destruct (assoc x ρf) as [sl|] eqn:Ea; [|congruence].
  destruct Hx as [Hxlo [i0 [ov [-> [Hi0 Hn0]]]]]. rewrite Hi in Hi0. inversion Hi0; subst i0.
  assert (Hnin : ~ List.In i (map snd cs)).
  { intros Hin. rewrite Forall_forall in Hj. destruct (Hj i Hin) as [nm [H1 H3]].
    apply index_of_nth in Hi. congruence. }
  exists ρc, (assoc_set x (Direct (Some v)) ρf). repeat split; auto.
  - apply Forall2_Pc_upd; auto.
  - apply all_direct_set; auto.
  - intros y. destruct (String.eqb y x) eqn:E.
    + apply String.eqb_eq in E. subst y. rewrite (assoc_set_same _ _ _ _ _ Ea). split; auto.
      exists i, (Some v). repeat split; auto. apply upd_nth_same. apply nth_error_Some. congruence.
    + apply String.eqb_neq in E. rewrite assoc_set_other by auto.
      specialize (Hf y). destruct (assoc y ρf) as [sl|]; auto.
      destruct Hf as [Hy [j [ov' [H1 [H3 H4]]]]]. split; auto. exists j, ov'. repeat split; auto.
      rewrite upd_nth_other; auto. intros ->. apply index_of_nth in H3. apply index_of_nth in Hi. congruence.
  - rewrite upd_nth_length. auto.
Qed.

Definition fresh_env (V : list string) : env := map (fun x => (x, Direct None)) V.

Lemma fresh_names : forall V, map fst (fresh_env V) = V.
Proof. induction V; simpl; congruence. Qed.

Lemma combine_snd : forall (V : list string) (sl : list nat), length sl = length V -> map snd (combine V sl) = sl.
Proof. induction V; destruct sl; simpl; intros; try discriminate; auto. f_equal. auto. Qed.

Lemma combine_fst : forall (V : list string) (sl : list nat), length sl = length V -> map fst (combine V sl) = V.
Proof. induction V; destruct sl; simpl; intros; try discriminate; auto. f_equal. auto. Qed.

(* entering a comprehension with variables V in slots sl *)
Lemma Rloc_enter : forall lo ls cs ρ L V sl,
  Rloc lo ls cs ρ L -> length sl = length V -> NoDup sl -> (forall i, List.In i sl -> ~ List.In i (map snd cs)) ->
  Forall (junk lo ls) sl ->
  Rloc lo ls (combine V sl ++ cs) (fresh_env V ++ ρ) L.
Proof.
  intros lo ls cs ρ L V sl [ρc [ρf [-> [H2 [Hf [Hnd [Hj Hl]]]]]]] Hlen Hnd2 Hdis Hj2.
  exists (fresh_env V ++ ρc), ρf. rewrite app_assoc. repeat split; auto; try apply Hf.
  - apply Forall2_app; auto. clear - Hlen.
    revert sl Hlen. induction V; destruct sl; simpl; intros; try discriminate; constructor; auto.
    split; auto. exists None. split; auto. discriminate.
  - rewrite map_app, combine_snd by auto. apply NoDup_app_intro; auto.
  - rewrite map_app, combine_snd by auto. apply Forall_app. auto.
Qed.

Lemma NoDup_app_tail : forall (a b : list nat), NoDup (a ++ b) -> NoDup b.
Proof. induction a; simpl; intros; auto. inversion H; auto. Qed.

Lemma Forall2_len : forall A B (P : A -> B -> Prop) l l', Forall2 P l l' -> length l = length l'.
Proof. induction 1; simpl; auto. Qed.

(* leaving it *)
Lemma Rloc_exit : forall lo ls cs' cs ρc' ρ L,
  Rloc lo ls (cs' ++ cs) (ρc' ++ ρ) L -> length ρc' = length cs' -> Rloc lo ls cs ρ L.
Proof.
  intros lo ls cs' cs ρc' ρ L [ρc [ρf [He [H2 [Hf [Hnd [Hj Hl]]]]]]] Hlen.
  apply Forall2_app_inv_r in H2. destruct H2 as [l1 [l2 [H21 [H22 ->]]]].
  rewrite <- app_assoc in He. apply app_eq_len in He.
  2: { rewrite Hlen. symmetry. eapply Forall2_len; eauto. }
  destruct He as [_ ->].
  exists l2, ρf. rewrite map_app in *. repeat split; auto; try apply Hf.
  - eapply NoDup_app_tail; eauto.
  - apply Forall_app in Hj. tauto.
Qed.

Lemma Renv_weaken : forall cs U U' ρ, Renv cs U ρ -> (forall x, str_in x U = true -> str_in x U' = true) -> Renv cs U' ρ.
Proof.
  unfold Renv. intros cs U U' ρ H Hs x i Ha Hu. apply (H x i Ha).
  destruct (str_in x U) eqn:E; auto. rewrite (Hs x E) in Hu. discriminate.
Qed.

Lemma rm_sub : forall xs U x, str_in x (rm xs U) = true -> str_in x U = true.
Proof. intros. rewrite str_in_rm in H. apply andb_true_iff in H. tauto. Qed.

Lemma R_weaken : forall lo ls cs U U' ρ L, R lo ls cs U ρ L -> (forall x, str_in x U = true -> str_in x U' = true) -> R lo ls cs U' ρ L.
Proof. intros lo ls cs U U' ρ L [H1 H2] Hs. split; auto. eapply Renv_weaken; eauto. Qed.

Lemma Renv_set : forall cs U ρ x v sl, Renv cs U ρ -> assoc x ρ = Some sl ->
  Renv cs (rm [x] U) (assoc_set x (Direct (Some v)) ρ).
Proof.
  unfold Renv. intros cs U ρ x v sl H Hb y i Ha Hu.
  destruct (String.eqb y x) eqn:E.
  - apply String.eqb_eq in E. subst y. exists v. eapply assoc_set_same; eauto.
  - rewrite str_in_rm, (str_in_cons y x []), E in Hu. change (str_in y []) with false in Hu. cbn [orb negb] in Hu.
    rewrite andb_true_r in Hu. apply String.eqb_neq in E.
    rewrite assoc_set_other by auto. eauto.
Qed.

Lemma assoc_combine_in : forall (V : list string) (sl : list nat) x i, assoc x (combine V sl) = Some i -> str_in x V = true.
Proof.
  intros. apply assoc_in_names in H. apply str_in_iff.
  clear - H. revert sl H. induction V; destruct sl; simpl in *; intros; try tauto. destruct H; auto. right. eauto.
Qed.

Lemma assoc_fresh_none : forall V x, str_in x V = false -> assoc x (fresh_env V) = None.
Proof.
  induction V; intros x H; [reflexivity|]. rewrite str_in_cons in H. apply orb_false_iff in H. destruct H as [H1 H2].
  cbn [fresh_env map assoc]. rewrite H1. apply IHV. auto.
Qed.

Lemma Renv_enter : forall cs U ρ V sl, Renv cs U ρ -> Renv (combine V sl ++ cs) (V ++ U) (fresh_env V ++ ρ).
Proof.
  unfold Renv. intros cs U ρ V sl H x i Ha Hu.
  rewrite str_in_app in Hu. apply orb_false_iff in Hu. destruct Hu as [Hv Hu].
  rewrite assoc_app in Ha. destruct (assoc x (combine V sl)) eqn:E.
  - apply assoc_combine_in in E. congruence.
  - rewrite assoc_app, (assoc_fresh_none V x Hv). eauto.
Qed.

(* ---------------------------------------------------------------- fresh variables *)
Section P.
  Variable p : program.

  Lemma new_vars_fresh : forall V w, new_vars V [] [] w = (fresh_env V, w).
  Proof. induction V; intros; simpl; auto. rewrite IHV. reflexivity. Qed.

  (* the activation record of a call, by name *)
  Lemma new_vars_assoc : forall xs init w,
    exists ρ, new_vars xs init [] w = (ρ, w) /\ all_direct ρ /\
      forall x, assoc x ρ = match index_of x xs with Some j => Some (Direct (nth j init None)) | None => None end.
  Proof.
    induction xs as [|y xs IH]; intros init w; simpl.
    - exists []. repeat split; auto. constructor.
    - destruct (IH (match init with _ :: t => t | [] => [] end) w) as [ρ [H1 [H2 H3]]].
      rewrite H1. eexists. split; [reflexivity|]. split.
      + constructor; auto. eexists; reflexivity.
      + intros x. simpl. destruct (String.eqb x y).
        * destruct init; reflexivity.
        * rewrite H3. destruct (index_of x xs) as [j|]; simpl; auto. destruct init; simpl; auto. destruct j; reflexivity.
  Qed.

  Lemma pad_init_nth : forall n init i, i < n -> nth_error (pad_init n init) i = Some (nth i init None).
  Proof.
    induction n; intros init i H; [lia|]. simpl. destruct init as [|v r]; destruct i; simpl; auto.
    - rewrite IHn by lia. destruct i; reflexivity.
    - apply IHn. lia.
  Qed.

  Lemma pad_init_length : forall n init, length (pad_init n init) = n.
  Proof. induction n; intros; simpl; auto. destruct init; simpl; rewrite IHn; auto. Qed.

  (* at function entry the relation holds *)
  Lemma R_entry : forall lo ls (params : list value) w k,
    layout_ok lo ls k = true -> length params = k ->
    exists ρ, new_vars lo (map Some params) [] w = (ρ, w) /\
              R lo ls [] [] ρ (pad_init (length ls) (map Some params)).
  Proof.
    intros lo ls params w k Hlay Hk.
    destruct (new_vars_assoc lo (map Some params) w) as [ρ [H1 [H2 H3]]].
    exists ρ. split; auto. split; [intros x i Ha; discriminate|].
    exists [], ρ. repeat split; auto; try constructor.
    - intros x. rewrite H3. destruct (index_of x lo) as [j|] eqn:Ej.
      + pose proof (index_of_in _ _ _ Ej) as Hin. split; auto.
        unfold layout_ok in Hlay. rewrite forallb_forall in Hlay.
        specialize (Hlay x (proj1 (str_in_iff _ _) Hin)). rewrite Ej in Hlay.
        destruct (index_of x ls) as [i|] eqn:Ei; [|discriminate].
        exists i, (nth j (map Some params) None). repeat split; auto.
        rewrite pad_init_nth.
        2: { apply index_of_nth in Ei. apply nth_error_Some. congruence. }
        f_equal. apply orb_true_iff in Hlay. destruct Hlay as [Hlay|Hlay].
        * apply Nat.eqb_eq in Hlay. subst. reflexivity.
        * apply andb_true_iff in Hlay. destruct Hlay as [Ha Hb]. apply Nat.leb_le in Ha, Hb.
          rewrite !nth_overflow; auto; rewrite map_length; lia.
      + destruct (str_in x lo) eqn:E; auto. destruct (index_of_some _ _ E). congruence.
    - apply pad_init_length.
  Qed.

  (* ---------------------------------------------------------------- the environment below the comprehension's variables is not touched *)
  Definition cls_names (cls : list clause) : list string :=
    flat_map (fun c => match c with CFor t _ _ => target_names t | CIf _ => [] end) cls.

  Definition tail_ok (ρa ρb ρ' : env) : Prop := exists ρa', ρ' = ρa' ++ ρb /\ map fst ρa' = map fst ρa.

  Lemma tail_ok_refl : forall ρa ρb, tail_ok ρa ρb (ρa ++ ρb).
  Proof. intros. exists ρa. auto. Qed.

  Lemma set_var_tail : forall ρa ρb x v s ρ' s',
    set_var p (ρa ++ ρb) x v s = Ok (ρ', s') -> List.In x (map fst ρa) -> tail_ok ρa ρb ρ'.
  Proof.
    intros ρa ρb x v s ρ' s' H Hin. unfold set_var in H.
    pose proof (assoc_names_some _ _ _ Hin) as Hs.
    rewrite assoc_app in H. destruct (assoc x ρa) as [sl|] eqn:E; [|congruence].
    destruct sl; inversion H; subst.
    - rewrite assoc_set_app_l by congruence. eexists. split; [reflexivity|]. apply assoc_set_names.
    - apply tail_ok_refl.
  Qed.

  Definition T_assign (n : nat) : Prop :=
    forall stk ρa ρb t v ps s ρ' s',
      assign p n stk (ρa ++ ρb) t v ps s = Ok (ρ', s') ->
      (forall x, List.In x (target_names t) -> List.In x (map fst ρa)) -> tail_ok ρa ρb ρ'.
  Definition T_seq (n : nat) : Prop :=
    forall stk ρa ρb ts vs ps s ρ' s',
      assign_seq p n stk (ρa ++ ρb) ts vs ps s = Ok (ρ', s') ->
      (forall x, List.In x (flat_map target_names ts) -> List.In x (map fst ρa)) -> tail_ok ρa ρb ρ'.
  Definition T_comp (n : nat) : Prop :=
    forall stk ρa ρb first cls acc curly body bodyv cp s ρ' s',
      comp p n stk (ρa ++ ρb) first cls acc curly body bodyv cp s = Ok (ρ', s') ->
      (forall x, List.In x (cls_names cls) -> List.In x (map fst ρa)) -> tail_ok ρa ρb ρ'.
  Definition T_loop (n : nat) : Prop :=
    forall stk ρa ρb t ps vs r acc curly body bodyv cp s ρ' s',
      comp_loop p n stk (ρa ++ ρb) t ps vs r acc curly body bodyv cp s = Ok (ρ', s') ->
      (forall x, List.In x (target_names t ++ cls_names r) -> List.In x (map fst ρa)) -> tail_ok ρa ρb ρ'.

  Ltac inv_ok H := match type of H with
    | match ?X with Ok _ => _ | Fail _ _ _ => _ | Oof => _ | Unsup _ => _ end = Ok _ =>
        let E := fresh "E" in destruct X eqn:E; try discriminate
    end.

  Lemma tails : forall n, T_assign n /\ T_seq n /\ T_comp n /\ T_loop n.
  Proof.
    induction n as [|n [IHa [IHs [IHc IHl]]]].
    - repeat split; red; intros; simpl in *; discriminate.
    - repeat split; red.
      + (* assign *)
        intros stk ρa ρb t v ps s ρ' s' H Hb. simpl in H. destruct t.
        * eapply set_var_tail; eauto. apply Hb. simpl. auto.
        * inv_ok H. destruct a as [vx s1]. inv_ok H. destruct a as [vy s2]. inv_ok H.
          inversion H; subst. apply tail_ok_refl.
        * inv_ok H. destruct a. discriminate.
        * inv_ok H. eapply IHs; eauto.
      + (* assign_seq *)
        intros stk ρa ρb ts vs ps s ρ' s' H Hb. simpl in H.
        destruct ts as [|t ts]; [inversion H; subst; apply tail_ok_refl|].
        destruct vs as [|v vs]; [inversion H; subst; apply tail_ok_refl|].
        inv_ok H. destruct a as [ρ1 s1].
        destruct (IHa _ _ _ _ _ _ _ _ _ E) as [ρa1 [-> Hn1]].
        { intros x Hx. apply Hb. simpl. apply in_app_iff. auto. }
        destruct (IHs _ _ _ _ _ _ _ _ _ H) as [ρa2 [-> Hn2]].
        { intros x Hx. rewrite Hn1. apply Hb. simpl. apply in_app_iff. auto. }
        exists ρa2. split; auto. congruence.
      + (* comp *)
        intros stk ρa ρb first cls acc curly body bodyv cp s ρ' s' H Hb. simpl in H.
        destruct cls as [|[t e ps|c] r].
        * destruct curly.
          -- inv_ok H. destruct a. inv_ok H. destruct a. inv_ok H. inversion H; subst. apply tail_ok_refl.
          -- inv_ok H. destruct a. destruct acc; try discriminate.
             destruct (get_obj (rw r) a) as [[vs k|]|]; try discriminate. inversion H; subst. apply tail_ok_refl.
        * inv_ok H. destruct a as [v s1]. inv_ok H. destruct a as [[vs lock] w1]. inv_ok H. destruct a as [ρ2 s2].
          inversion H; subst. eapply IHl; eauto.
        * inv_ok H. destruct a as [vc s1]. destruct (truth vc (rw s1)).
          -- eapply IHc; eauto.
          -- inversion H; subst. apply tail_ok_refl.
      + (* comp_loop *)
        intros stk ρa ρb t ps vs r acc curly body bodyv cp s ρ' s' H Hb. simpl in H.
        destruct vs as [|v vs]; [inversion H; subst; apply tail_ok_refl|].
        inv_ok H. destruct a as [ρ1 s1].
        destruct (IHa _ _ _ _ _ _ _ _ _ E) as [ρa1 [-> Hn1]].
        { intros x Hx. apply Hb. apply in_app_iff. auto. }
        inv_ok H. destruct a as [ρ2 s2].
        destruct (IHc _ _ _ _ _ _ _ _ _ _ _ _ _ E0) as [ρa2 [-> Hn2]].
        { intros x Hx. rewrite Hn1. apply Hb. apply in_app_iff. auto. }
        destruct (IHl _ _ _ _ _ _ _ _ _ _ _ _ _ _ _ H) as [ρa3 [-> Hn3]].
        { intros x Hx. rewrite Hn2, Hn1. apply Hb. auto. }
        exists ρa3. split; auto. congruence.
  Qed.
  (* ---------------------------------------------------------------- assignment binds its names and unbinds nothing *)
  Definition asg (ρ : env) (x : string) : Prop := exists v, assoc x ρ = Some (Direct (Some v)).

  Lemma set_var_asg : forall ρ x v s ρ' s',
    set_var p ρ x v s = Ok (ρ', s') -> all_direct ρ ->
    all_direct ρ' /\ map fst ρ' = map fst ρ /\ (forall y, asg ρ y -> asg ρ' y)
    /\ (List.In x (map fst ρ) -> asg ρ' x).
  Proof.
    intros ρ x v s ρ' s' H Hd. unfold set_var in H.
    destruct (assoc x ρ) as [sl|] eqn:E.
    - destruct (assoc_local ρ x sl Hd E) as [i [ov [-> _]]]. inversion H; subst.
      split; [apply all_direct_set; auto|]. split; [apply assoc_set_names|]. split.
      + intros y [v0 Hy]. destruct (String.eqb y x) eqn:Eq.
        * apply String.eqb_eq in Eq. subst y. exists v. eapply assoc_set_same; eauto.
        * apply String.eqb_neq in Eq. exists v0. rewrite assoc_set_other; auto.
      + intros _. exists v. eapply assoc_set_same; eauto.
    - destruct (gidx p x); inversion H; subst. repeat split; auto.
      intros Hin. apply assoc_not_in in E. contradiction.
  Qed.

  Definition A_assign (n : nat) : Prop :=
    forall stk ρ t v ps s ρ' s',
      assign p n stk ρ t v ps s = Ok (ρ', s') -> all_direct ρ ->
      all_direct ρ' /\ map fst ρ' = map fst ρ /\ (forall y, asg ρ y -> asg ρ' y)
      /\ (forall x, List.In x (target_names t) -> List.In x (map fst ρ) -> asg ρ' x).
  Definition A_seq (n : nat) : Prop :=
    forall stk ρ ts vs ps s ρ' s',
      assign_seq p n stk ρ ts vs ps s = Ok (ρ', s') -> length vs = length ts -> all_direct ρ ->
      all_direct ρ' /\ map fst ρ' = map fst ρ /\ (forall y, asg ρ y -> asg ρ' y)
      /\ (forall x, List.In x (flat_map target_names ts) -> List.In x (map fst ρ) -> asg ρ' x).

  Lemma assigned : forall n, A_assign n /\ A_seq n.
  Proof.
    induction n as [|n [IHa IHs]].
    - split; red; intros; simpl in *; discriminate.
    - split; red.
      + intros stk ρ t v ps s ρ' s' H Hd. simpl in H. destruct t.
        * destruct (set_var_asg _ _ _ _ _ _ H Hd) as [H1 [H2 [H3 H4]]]. repeat split; auto.
          intros y [Hy|[]] Hin. subst. auto.
        * inv_ok H. destruct a as [vx s1]. inv_ok H. destruct a as [vy s2]. inv_ok H.
          inversion H; subst. repeat split; auto. intros z [].
        * inv_ok H. destruct a. discriminate.
        * inv_ok H. simpl. eapply IHs; eauto.
          unfold lift in E. destruct (unpack (length ts) v (rw s)) eqn:Eu; try discriminate. inversion E; subst.
          unfold unpack in Eu.
          destruct v; try discriminate;
            (destruct (elements _ (rw s)) as [l| |]; simpl in Eu; try discriminate;
             destruct (Nat.eqb (length l) (length ts)) eqn:El; try discriminate; inversion Eu; subst; apply Nat.eqb_eq; auto).
      + intros stk ρ ts vs ps s ρ' s' H Hlen Hd. simpl in H.
        destruct ts as [|t ts]; destruct vs as [|v vs]; simpl in Hlen; try discriminate.
        * inversion H; subst. repeat split; auto. intros x [].
        * inv_ok H. destruct a as [ρ1 s1].
          destruct (IHa _ _ _ _ _ _ _ _ E Hd) as [D1 [N1 [M1 T1]]].
          destruct (IHs _ _ _ _ _ _ _ _ H ltac:(lia) D1) as [D2 [N2 [M2 T2]]].
          repeat split; auto; try congruence.
          intros x Hx Hin. simpl in Hx. apply in_app_iff in Hx. destruct Hx as [Hx|Hx].
          -- apply M2. apply T1; auto.
          -- apply T2; auto. congruence.
  Qed.
End P.

Lemma alloc_list_ref : forall vs w v w', alloc_list vs w = (v, w') -> exists a, v = VRef a.
Proof. intros vs w v w' H. unfold alloc_list in H. inversion H. eauto. Qed.

(* ---------------------------------------------------------------- argument binding fills exactly the parameter slots *)
Lemma place_kwargs_length : forall names kws slots extra r e,
  place_kwargs names slots extra kws = POk (r, e) -> length r = length slots.
Proof.
  induction kws as [|[k v] kws IH]; intros slots extra r e H; simpl in H.
  - inversion H; subst; auto.
  - destruct (index_of k names).
    + destruct (nth_error slots n) as [[|]|]; try discriminate.
      apply IH in H. rewrite upd_nth_length in H. auto.
    + destruct (existsb _ extra); try discriminate. eauto.
Qed.

Lemma fill_defaults_length : forall slots i n ds vs, fill_defaults slots i n ds = POk vs -> length vs = length slots.
Proof.
  induction slots as [|s slots IH]; intros i n ds vs H; simpl in H.
  - inversion H; auto.
  - unfold pbind in H.
    destruct (match s with Some v => POk v | None => _ end) as [v| |]; try discriminate.
    destruct (fill_defaults slots (S i) n ds) as [vs'| |] eqn:E; try discriminate.
    inversion H; subst. simpl. f_equal. eauto.
Qed.

Lemma bind_args_length : forall ps ds args kw w vs w',
  bind_args ps ds args kw w = POk (vs, w') -> length vs = length (param_names ps).
Proof.
  intros ps ds args kw w vs w' H. unfold bind_args, param_names in *.
  set (sg := signature_of ps) in *.
  destruct (match sg_varargs sg with None => _ | Some _ => false end); [discriminate|].
  unfold pbind in H.
  destruct (place_kwargs _ _ _ _) as [[slots extra]| |] eqn:Ep; try discriminate.
  apply place_kwargs_length in Ep.
  destruct (match sg_kwargs sg with None => _ | Some _ => false end); [discriminate|].
  destruct (fill_defaults slots 0 _ ds) as [vs0| |] eqn:Ef; try discriminate.
  apply fill_defaults_length in Ef.
  assert (Hn : length vs0 = length (sg_names sg)).
  { rewrite Ef, Ep. rewrite app_length, map_length, firstn_length, repeat_length. lia. }
  destruct (sg_kwargs sg).
  - destruct (alloc_dict _ w) as [d w1]. inversion H; subst.
    rewrite !app_length. simpl. destruct (sg_varargs sg); simpl; lia.
  - inversion H; subst. rewrite !app_length. destruct (sg_varargs sg); simpl; lia.
Qed.
