(* C01 -- comprehensions: the simulation for all fuel and the theorem on whole programs
   of in_fragment2. *)
From Coq Require Import ZArith String List Bool Lia.
From SV Require Import C01.Syntax C01.Values C01.Ref C01.VM C01.Compile C01.Frag C01.ProofsVM C01.ProofsEnv
     C01.SimDefs C01.ProofsExpr C01.ProofsStmt C01.Proofs C01.ProofsCompFrag C01.ProofsCompEnv C01.ProofsCompDefs
     C01.ProofsCompExpr C01.ProofsCompComp C01.ProofsCompStmt C01.ProofsCompCall C01.ProofsCompFuns.
Import ListNotations.
Open Scope string_scope.
Open Scope list_scope.
Open Scope nat_scope.

Section Main2.
  Variable p : program.
  Notation cp := (compile_prog p).
  Notation fn := (fname p).
  Hypothesis Hfuns : funs_ok2 p.

  Definition P2 (n : nat) : Prop :=
    E2 p n /\ Cn2 p n /\ Ls2 p n /\ Ar2 p n /\ Ca2 p n /\ As2 p n /\ X2 p n /\ B2 p n /\ W2 p n /\ F2 p n
    /\ Df2 p n /\ Aq2 p n /\ En2 p n /\ Cm2 p n /\ Cl2 p n.

  Lemma P2_all : forall n, P2 n.
  Proof.
    induction n.
    - unfold P2. repeat split;
        try (unfold E2, Cn2, Ls2, Ar2, As2, X2, B2, W2, F2, Df2, Aq2, En2, Cm2, Cl2; intros; simpl; exact Logic.I).
      apply Ca2_zero.
    - destruct IHn as [HE [HC [HL [HA [HCa [HAs [HX [HB [HW [HF [HD [HQ [HN [HM HCl]]]]]]]]]]]]]].
      assert (HE' : E2 p (S n)) by (apply E2_step; auto).
      unfold P2. repeat split; auto.
      + apply Cn2_step; auto.
      + apply Ls2_step; auto.
      + apply Ar2_step; auto.
      + apply Ca2_step; auto.
      + apply As2_step; auto.
      + apply X2_step; auto.
      + apply B2_step; auto.
      + apply W2_step; auto.
      + apply F2_step; auto.
      + apply Df2_step; auto.
      + apply Aq2_step; auto.
      + apply En2_step; auto.
      + apply Cm2_step; auto.
      + apply Cl2_step; auto.
  Qed.

  Hypothesis Hfrag : ok_prog2 p = true.

  Lemma file_names_nil2 : file_names p = [].
  Proof. unfold file_names. unfold ok_prog2 in Hfrag. rewrite (no_loads2 _ _ _ Hfrag). reflexivity. Qed.

  Definition init2 : vstate := init_state cp (length (global_names p)).

  Lemma module_sim2 : forall n,
    match run_module p n with
    | Ok s' => halts cp fn init2 (VDone (rg s') (rw s'))
    | Fail ps ic w => halts cp fn init2 (VFail ps ic w)
    | Unsup t => halts cp fn init2 (VUnsup t)
    | Oof => True
    end.
  Proof.
    intros n. destruct (P2_all n) as [_ [_ [_ [_ [_ [_ [_ [HB _]]]]]]]].
    set (ls := layout_top p).
    set (L0 := repeat (@None value) (length ls)).
    assert (Hinit : init2 = St (Fr None (gen_body p ls (p_body p)) 0 [] L0 [] []) [] (repeat None (length (global_names p))) empty_world).
    { reflexivity. }
    rewrite Hinit. unfold run_module. rewrite file_names_nil2. simpl new_vars. cbv iota beta.
    assert (Hcode : pcode_at (gen_body p ls (p_body p)) 0 (gen_block p ls (p_body p) ++ [NONE; RETURN]) None None).
    { apply pcode_finalize. }
    apply pcode_app in Hcode. destruct Hcode as [Hcb Hct]. pcode_split.
    assert (HR : R [] ls [] [] [] L0).
    { split; [intros x i Ha; discriminate|].
      exists [], []. split; [reflexivity|]. split; [constructor|]. split.
      { split; [constructor|]. intros x. simpl. apply str_in_nil. }
      split; [constructor|]. split; [constructor|]. unfold L0. apply repeat_length. }
    pose proof (HB [] [] ls [] L0 (p_body p) (with_w (init_rst p) empty_world) None (gen_body p ls (p_body p)) [] [] 0 [] None None
                   Hfrag HR eq_refl Hcb) as IH.
    unfold S2, with_w, init_rst in IH. cbn [rg rw] in IH.
    unfold with_w, init_rst. cbn [rg rw].
    destruct (exec_block p n [] [] (p_body p) _) as [[[out ρ2] s2]| | |]; cbn [sim fst snd] in *; auto.
    unfold after2 in IH.
    destruct out; cbn [fst].
    - destruct IH as (L' & _ & Ha).
      eapply halts_star; [ exact Ha | ].
      eapply halts_star; [ vstep; apply star_refl | ]. vstop.
    - exact IH.
    - exact IH.
    - destruct IH as [pcr [Ix [wv [L' [H1 [H2 H3]]]]]].
      eapply halts_star; [ exact H1 | ]. rewrite app_nil_r in *.
      norm_state. apply halts_now. rewrite (step_lit _ _ _ _ _ _ _ _ _ _ _ _ _ H2). simpl. rewrite H3. reflexivity.
  Qed.

  Lemma codegen_correct_partial2_lemma : forall n m,
    ob_verdict (observe_ref (run_module p n)) <> OutOfFuel ->
    ob_verdict (observe_vm (run_vm p m)) <> OutOfFuel ->
    observe_vm (run_vm p m) = observe_ref (run_module p n).
  Proof.
    intros n m Hr Hv. pose proof (module_sim2 n) as Hs.
    unfold run_vm in *. fold init2 in *.
    destruct (run cp fn m init2) as [[r k]|] eqn:Er; [ | simpl in Hv; congruence ].
    destruct (run_module p n) as [s'|ps ic w| |t]; simpl in Hr; try congruence;
      pose proof (run_halts cp fn _ _ Hs _ _ Er) as Heq; simpl in Heq; subst r; reflexivity.
  Qed.

  Lemma never_stuck2_lemma : forall n m r k,
    ob_verdict (observe_ref (run_module p n)) <> OutOfFuel ->
    run_vm p m = Some (r, k) ->
    forall why, r <> VStuck why.
  Proof.
    intros n m r k Hr Hv why. pose proof (module_sim2 n) as Hs.
    unfold run_vm in *. fold init2 in *.
    destruct (run_module p n) as [s'|ps ic w| |t]; simpl in Hr; try congruence;
      pose proof (run_halts cp fn _ _ Hs _ _ Hv) as Heq; simpl in Heq; subst r; discriminate.
  Qed.
End Main2.

Lemma codegen_correct_partial2_folded_lemma :
  forall p : program,
    ok_prog2 p = true -> funs_ok2 p -> number_prog (fold_prog p) = p ->
    forall n m : nat,
      ob_verdict (observe_ref (run_module p n)) <> OutOfFuel ->
      ob_verdict (observe_vm (run_compiled p m)) <> OutOfFuel ->
      observe_vm (run_compiled p m) = observe_ref (run_module p n).
Proof.
  intros p Hf Hk Hfold n m. unfold run_compiled. rewrite Hfold.
  exact (codegen_correct_partial2_lemma p Hk Hf n m).
Qed.
