(* C01 -- closures: the relation between the reference evaluator's environment and the
   machine's frame (locals array and captured cells), extending ProofsCompEnv.R:
     ρ = (variables of the enclosing comprehensions) ++ (function-level variables)
         ++ (the cells the closure captured, by name)
   * a function-level variable is Direct (its slot holds the value, the slot is not a
     cell) or Boxed c (its slot is a cell slot and holds VCell c);
   * the captured cells G are those of the function value that was called (filtered by
     the names of the enclosing blocks); the frame's list fv is related to them only
     where it has an entry: a free variable x at index j with nth_error fv j = (_, c)
     is Boxed c in G (established when a function is entered with well-formed captured
     cells: ProofsClosBase's guarded machine stops otherwise).
   The contents of cells live in the world, which both sides share, so the relation
   does not mention them. *)
From Coq Require Import ZArith String List Bool Lia.
From SV Require Import C01.Syntax C01.Values C01.Ref C01.VM C01.Compile C01.Frag C01.ProofsVM C01.ProofsEnv
     C01.ProofsCompFrag C01.ProofsCompEnv C01.CompileClos C01.FragClos.
Import ListNotations.
Open Scope string_scope.
Open Scope list_scope.
Open Scope nat_scope.

Global Opaque get_cell set_cell alloc_cell.

(* ---------------------------------------------------------------- small facts *)
Lemma nat_mem_iff : forall i l, nat_mem i l = true <-> List.In i l.
Proof.
  unfold nat_mem. intros. rewrite existsb_exists. split.
  - intros [y [Hy He]]. apply Nat.eqb_eq in He. subst; auto.
  - intros H. exists i. split; auto. apply Nat.eqb_refl.
Qed.

Lemma nats_eqb3_eq : forall a b, nats_eqb3 a b = true -> a = b.
Proof.
  induction a; destruct b; simpl; intros H; try discriminate; auto.
  apply andb_true_iff in H. destruct H as [H1 H2]. apply Nat.eqb_eq in H1. subst. f_equal. auto.
Qed.

Lemma nodup_str_ok : forall l, nodup_str l = true -> NoDup l.
Proof.
  induction l; simpl; intros H; constructor.
  - apply andb_true_iff in H. destruct H as [H _]. apply negb_true_iff in H.
    intros Hin. apply str_in_iff in Hin. congruence.
  - apply IHl. apply andb_true_iff in H. tauto.
Qed.

Lemma index_of_inj : forall x y l i, index_of x l = Some i -> index_of y l = Some i -> x = y.
Proof. intros x y l i Hx Hy. apply index_of_nth in Hx. apply index_of_nth in Hy. congruence. Qed.

Lemma index_of_nodup : forall l k x, NoDup l -> nth_error l k = Some x -> index_of x l = Some k.
Proof.
  induction l as [|y l IH]; intros k x Hnd Hn; destruct k; simpl in *; try discriminate.
  - inversion Hn; subst. rewrite String.eqb_refl. reflexivity.
  - inversion Hnd; subst. destruct (String.eqb x y) eqn:E.
    + apply String.eqb_eq in E. subst. exfalso. apply H1. eapply nth_error_In; eauto.
    + rewrite (IH k x H2 Hn). reflexivity.
Qed.

Lemma str_in_false_iff : forall x l, str_in x l = false <-> ~ List.In x l.
Proof.
  intros. split.
  - intros H Hin. apply str_in_iff in Hin. congruence.
  - intros H. destruct (str_in x l) eqn:E; auto. apply str_in_iff in E. contradiction.
Qed.

Definition mapB (G : list (string * nat)) : env := map (fun xc => (fst xc, Boxed (snd xc))) G.

Lemma assoc_mapB : forall x G, assoc x (mapB G) = option_map Boxed (assoc x G).
Proof. induction G as [|[y c] G IH]; simpl; auto. destruct (String.eqb x y); auto. Qed.

(* ---------------------------------------------------------------- the relation *)
Definition junk3 (lo : list string) (sc : scope) (i : nat) : Prop :=
  junk lo (sc_ls sc) i /\ is_cell sc i = false.

Lemma junkb3_ok : forall lo sc i, junkb3 lo sc i = true -> junk3 lo sc i.
Proof.
  unfold junkb3, junk3, junk. intros lo sc i H. apply andb_true_iff in H. destruct H as [H1 H2].
  apply negb_true_iff in H2. split; auto.
  destruct (nth_error (sc_ls sc) i) as [nm|]; [|discriminate].
  exists nm. split; auto. apply negb_true_iff in H1. auto.
Qed.

(* the function-level variables *)
Definition Rf3 (lo : list string) (sc : scope) (ρf : env) (L : list (option value)) : Prop :=
  forall x, match assoc x ρf with
            | Some sl => str_in x lo = true /\ exists i, index_of x (sc_ls sc) = Some i /\
                match sl with
                | Direct ov => is_cell sc i = false /\ nth_error L i = Some ov
                | Boxed c => is_cell sc i = true /\ nth_error L i = Some (Some (VCell c))
                end
            | None => str_in x lo = false
            end.

(* the captured cells: by name (G, the evaluator) and by position (fv, the machine) *)
Definition Rfv (sc : scope) (fv G : list (string * nat)) : Prop :=
  (forall y c, List.In (y, c) G -> str_in y (sc_encl sc) = true) /\
  (forall x j, index_of x (sc_fr sc) = Some j -> exists c, nth_error fv j = Some (x, c) /\ assoc x G = Some c).

Definition Rt (fv : list (string * nat)) (lo : list string) (sc : scope) (ρt : env) (L : list (option value)) : Prop :=
  exists ρf G, ρt = ρf ++ mapB G /\ Rf3 lo sc ρf L /\ Rfv sc fv G.

Definition Rloc3 (fv : list (string * nat)) (lo : list string) (sc : scope) (cs : list (string * nat))
           (ρ : env) (L : list (option value)) : Prop :=
  exists ρc ρt, ρ = ρc ++ ρt /\ Forall2 (Pc L) ρc cs /\ Rt fv lo sc ρt L /\ NoDup (map snd cs)
                /\ Forall (junk3 lo sc) (map snd cs) /\ length L = length (sc_ls sc).

Definition R3 (fv : list (string * nat)) (lo : list string) (sc : scope) (cs : list (string * nat)) (U : list string)
           (ρ : env) (L : list (option value)) : Prop :=
  Renv cs U ρ /\ Rloc3 fv lo sc cs ρ L.

(* what a name of the tail (function-level variables and captured cells) resolves to on both sides *)
Lemma Rt_lookup : forall fv lo sc ρt L, Rt fv lo sc ρt L ->
  forall x,
    match assoc x ρt with
    | Some (Direct ov) =>
        str_in x lo = true /\ exists i, index_of x (sc_ls sc) = Some i /\ is_cell sc i = false /\ nth_error L i = Some ov
    | Some (Boxed c) =>
        (str_in x lo = true /\ exists i, index_of x (sc_ls sc) = Some i /\ is_cell sc i = true
                                         /\ nth_error L i = Some (Some (VCell c)))
        \/ (str_in x lo = false /\ str_in x (sc_encl sc) = true
            /\ forall j, index_of x (sc_fr sc) = Some j -> nth_error fv j = Some (x, c))
    | None => str_in x lo = false /\ index_of x (sc_fr sc) = None
    end.
Proof.
  intros fv lo sc ρt L [ρf [G [-> [Hf [Hg1 Hg2]]]]] x.
  rewrite assoc_app. specialize (Hf x).
  destruct (assoc x ρf) as [sl|] eqn:Ea.
  - destruct Hf as [Hlo [i [Hi Hs]]]. destruct sl as [ov|c].
    + destruct Hs. split; auto. exists i. auto.
    + destruct Hs. left. split; auto. exists i. auto.
  - rewrite assoc_mapB. destruct (assoc x G) as [c|] eqn:Eg; simpl.
    + right. split; auto. split.
      * apply (Hg1 x c). apply assoc_In_pair. auto.
      * intros j Hj. destruct (Hg2 x j Hj) as [c' [Hn Ha]]. congruence.
    + split; auto. destruct (index_of x (sc_fr sc)) as [j|] eqn:Ej; auto.
      destruct (Hg2 x j Ej) as [c' [_ Ha]]. congruence.
Qed.

Lemma Rloc3_lookup : forall fv lo sc cs ρ L, Rloc3 fv lo sc cs ρ L ->
  forall x,
    match assoc x cs with
    | Some i => is_cell sc i = false
                /\ exists ov, assoc x ρ = Some (Direct ov) /\ (forall v, ov = Some v -> nth_error L i = Some (Some v))
    | None =>
        match assoc x ρ with
        | Some (Direct ov) =>
            str_in x lo = true /\ exists i, index_of x (sc_ls sc) = Some i /\ is_cell sc i = false /\ nth_error L i = Some ov
        | Some (Boxed c) =>
            (str_in x lo = true /\ exists i, index_of x (sc_ls sc) = Some i /\ is_cell sc i = true
                                             /\ nth_error L i = Some (Some (VCell c)))
            \/ (str_in x lo = false /\ str_in x (sc_encl sc) = true
                /\ forall j, index_of x (sc_fr sc) = Some j -> nth_error fv j = Some (x, c))
        | None => str_in x lo = false /\ index_of x (sc_fr sc) = None
        end
    end.
Proof.
  intros fv lo sc cs ρ L [ρc [ρt [-> [H2 [Ht [_ [Hj _]]]]]]] x.
  pose proof (Rt_lookup _ _ _ _ _ Ht x) as Hx. clear Ht.
  induction H2 as [|[x' sl] [y' i'] ρc cs Hp H2 IH]; simpl.
  - exact Hx.
  - destruct Hp as [Hn [ov [Hs Hv]]]. simpl in *. subst x' sl.
    inversion Hj; subst.
    destruct (String.eqb x y').
    + split; [apply H1|]. exists ov. auto.
    + apply IH; auto.
Qed.

Lemma Rf3_upd_junk : forall lo sc ρf L i a, Rf3 lo sc ρf L -> junk3 lo sc i -> Rf3 lo sc ρf (upd_nth i a L).
Proof.
  intros lo sc ρf L i a Hf [[nm [Hnm Hlo]] _] x.
  specialize (Hf x). destruct (assoc x ρf) as [sl|]; auto.
  destruct Hf as [Hx [j [Hj Hs]]]. split; auto. exists j. split; auto.
  assert (Hne : i <> j). { intros ->. apply index_of_nth in Hj. congruence. }
  destruct sl; destruct Hs; split; auto; rewrite upd_nth_other; auto.
Qed.

Lemma Rt_upd_junk : forall fv lo sc ρt L i a, Rt fv lo sc ρt L -> junk3 lo sc i -> Rt fv lo sc ρt (upd_nth i a L).
Proof.
  intros fv lo sc ρt L i a [ρf [G [-> [Hf Hg]]]] Hj. exists ρf, G. repeat split; auto; try apply Hg.
  apply Rf3_upd_junk; auto.
Qed.

(* assignment to a comprehension variable *)
Lemma Rloc3_set_cs : forall fv lo sc cs ρ L x i v,
  Rloc3 fv lo sc cs ρ L -> assoc x cs = Some i ->
  Rloc3 fv lo sc cs (assoc_set x (Direct (Some v)) ρ) (upd_nth i (Some v) L).
Proof.
  intros fv lo sc cs ρ L x i v [ρc [ρt [-> [H2 [Ht [Hnd [Hj Hl]]]]]]] Ha.
  assert (Hlt : forall j, List.In j (map snd cs) -> j < length L).
  { intros j Hin. rewrite Forall_forall in Hj. destruct (Hj j Hin) as [Hjk _]. eapply junk_lt; eauto. }
  destruct (Forall2_Pc_set L ρt x v ρc cs i H2 Hnd Hlt Ha) as [ρc' [He H2']].
  exists ρc', ρt. rewrite He. split; [reflexivity|]. split; [exact H2'|]. split.
  - apply Rt_upd_junk; auto. rewrite Forall_forall in Hj. apply Hj.
    apply assoc_In_pair in Ha. apply (in_map snd) in Ha. auto.
  - split; auto. split; auto. rewrite upd_nth_length. auto.
Qed.

(* assignment to a function-level variable that is not a cell *)
Lemma Rloc3_set_fn : forall fv lo sc cs ρ L x i v ov,
  Rloc3 fv lo sc cs ρ L -> assoc x cs = None -> assoc x ρ = Some (Direct ov) -> index_of x (sc_ls sc) = Some i ->
  Rloc3 fv lo sc cs (assoc_set x (Direct (Some v)) ρ) (upd_nth i (Some v) L).
Proof.
  intros fv lo sc cs ρ L x i v ov [ρc [ρt [-> [H2 [Ht [Hnd [Hj Hl]]]]]]] Ha Hb Hi.
  pose proof (Forall2_names_none _ _ _ x H2 Ha) as Hn.
  rewrite assoc_app, Hn in Hb.
  rewrite assoc_set_app_r by auto.
  destruct Ht as [ρf [G [-> [Hf Hg]]]].
  rewrite assoc_app in Hb.
  pose proof (Hf x) as Hx.
  destruct (assoc x ρf) as [sl|] eqn:Ea.
  2: { rewrite assoc_mapB in Hb. destruct (assoc x G); discriminate. }
  inversion Hb; subst sl.
  destruct Hx as [Hxlo [i0 [Hi0 [Hc0 Hn0]]]]. rewrite Hi in Hi0. inversion Hi0; subst i0.
  assert (Hnin : ~ List.In i (map snd cs)).
  { intros Hin. rewrite Forall_forall in Hj. destruct (Hj i Hin) as [[nm [H1 H3]] _].
    apply index_of_nth in Hi. congruence. }
  exists ρc, (assoc_set x (Direct (Some v)) ρf ++ mapB G). split.
  { rewrite assoc_set_app_l by congruence. reflexivity. }
  split; [apply Forall2_Pc_upd; auto|]. split.
  - exists (assoc_set x (Direct (Some v)) ρf), G. split; [reflexivity|]. split; [|exact Hg].
    intros y. destruct (String.eqb y x) eqn:E.
    + apply String.eqb_eq in E. subst y. rewrite (assoc_set_same _ _ _ _ _ Ea). split; auto.
      exists i. split; auto. split; auto. apply upd_nth_same. apply nth_error_Some. congruence.
    + apply String.eqb_neq in E. rewrite assoc_set_other by auto.
      specialize (Hf y). destruct (assoc y ρf) as [sl|]; auto.
      destruct Hf as [Hy [j [Hjy Hs]]]. split; auto. exists j. split; auto.
      assert (Hne : i <> j). { intros ->. apply E. eapply index_of_inj; eauto. }
      destruct sl; destruct Hs; split; auto; rewrite upd_nth_other; auto.
  - split; auto. split; auto. rewrite upd_nth_length. auto.
Qed.

(* entering a comprehension with variables V in slots sl *)
Lemma Rloc3_enter : forall fv lo sc cs ρ L V sl,
  Rloc3 fv lo sc cs ρ L -> length sl = length V -> NoDup sl -> (forall i, List.In i sl -> ~ List.In i (map snd cs)) ->
  Forall (junk3 lo sc) sl ->
  Rloc3 fv lo sc (combine V sl ++ cs) (fresh_env V ++ ρ) L.
Proof.
  intros fv lo sc cs ρ L V sl [ρc [ρt [-> [H2 [Ht [Hnd [Hj Hl]]]]]]] Hlen Hnd2 Hdis Hj2.
  exists (fresh_env V ++ ρc), ρt. rewrite app_assoc. split; [reflexivity|]. split.
  - apply Forall2_app; auto. clear - Hlen.
    revert sl Hlen. induction V; destruct sl; simpl; intros; try discriminate; constructor; auto.
    split; auto. exists None. split; auto. discriminate.
  - split; [exact Ht|]. split.
    + rewrite map_app, combine_snd by auto. apply NoDup_app_intro; auto.
    + split; auto. rewrite map_app, combine_snd by auto. apply Forall_app. auto.
Qed.

(* leaving it *)
Lemma Rloc3_exit : forall fv lo sc cs' cs ρc' ρ L,
  Rloc3 fv lo sc (cs' ++ cs) (ρc' ++ ρ) L -> length ρc' = length cs' -> Rloc3 fv lo sc cs ρ L.
Proof.
  intros fv lo sc cs' cs ρc' ρ L [ρc [ρt [He [H2 [Ht [Hnd [Hj Hl]]]]]]] Hlen.
  apply Forall2_app_inv_r in H2. destruct H2 as [l1 [l2 [H21 [H22 ->]]]].
  rewrite <- app_assoc in He. apply app_eq_len in He.
  2: { rewrite Hlen. symmetry. eapply Forall2_len; eauto. }
  destruct He as [_ ->].
  exists l2, ρt. rewrite map_app in *. split; [reflexivity|]. split; [exact H22|]. split; [exact Ht|]. split.
  - eapply NoDup_app_tail; eauto.
  - split; auto. apply Forall_app in Hj. tauto.
Qed.

Lemma R3_weaken : forall fv lo sc cs U U' ρ L,
  R3 fv lo sc cs U ρ L -> (forall x, str_in x U = true -> str_in x U' = true) -> R3 fv lo sc cs U' ρ L.
Proof. intros fv lo sc cs U U' ρ L [H1 H2] Hs. split; auto. eapply Renv_weaken; eauto. Qed.

(* without comprehension variables in scope the set of unbound ones is irrelevant *)
Lemma R3_nil_U : forall fv lo sc U U' ρ L, R3 fv lo sc [] U ρ L -> R3 fv lo sc [] U' ρ L.
Proof. intros fv lo sc U U' ρ L [H1 H2]. split; auto. intros x i Ha. discriminate. Qed.

(* ---------------------------------------------------------------- assignment binds its names and unbinds nothing
   (ProofsCompEnv.assigned without the assumption that every variable is Direct) *)
Section P3.
  Variable p : program.

  Lemma set_var_asg3 : forall ρ x v s ρ' s',
    set_var p ρ x v s = Ok (ρ', s') ->
    map fst ρ' = map fst ρ /\ (forall y, asg ρ y -> asg ρ' y)
    /\ ((exists ov, assoc x ρ = Some (Direct ov)) -> asg ρ' x).
  Proof.
    intros ρ x v s ρ' s' H. unfold set_var in H.
    destruct (assoc x ρ) as [sl|] eqn:E.
    - destruct sl as [ov|c]; inversion H; subst.
      + split; [apply assoc_set_names|]. split.
        * intros y [v0 Hy]. destruct (String.eqb y x) eqn:Eq.
          -- apply String.eqb_eq in Eq. subst y. exists v. eapply assoc_set_same; eauto.
          -- apply String.eqb_neq in Eq. exists v0. rewrite assoc_set_other; auto.
        * intros _. exists v. eapply assoc_set_same; eauto.
      + repeat split; auto. intros [ov Hov]. congruence.
    - destruct (gidx p x); inversion H; subst. repeat split; auto.
      intros [ov Hov]. congruence.
  Qed.

  Definition A_assign3 (n : nat) : Prop :=
    forall stk ρ t v ps s ρ' s',
      assign p n stk ρ t v ps s = Ok (ρ', s') ->
      map fst ρ' = map fst ρ /\ (forall y, asg ρ y -> asg ρ' y)
      /\ (forall x, List.In x (target_names t) -> (exists ov, assoc x ρ = Some (Direct ov)) -> asg ρ' x).
  Definition A_seq3 (n : nat) : Prop :=
    forall stk ρ ts vs ps s ρ' s',
      assign_seq p n stk ρ ts vs ps s = Ok (ρ', s') -> length vs = length ts ->
      map fst ρ' = map fst ρ /\ (forall y, asg ρ y -> asg ρ' y)
      /\ (forall x, List.In x (flat_map target_names ts) -> (exists ov, assoc x ρ = Some (Direct ov)) -> asg ρ' x).

  Ltac inv_ok H := match type of H with
    | match ?X with Ok _ => _ | Fail _ _ _ => _ | Oof => _ | Unsup _ => _ end = Ok _ =>
        let E := fresh "E" in destruct X eqn:E; try discriminate
    end.

  (* a Direct variable stays Direct *)
  Lemma set_var_direct : forall ρ x v s ρ' s' y,
    set_var p ρ x v s = Ok (ρ', s') -> (exists ov, assoc y ρ = Some (Direct ov)) -> exists ov, assoc y ρ' = Some (Direct ov).
  Proof.
    intros ρ x v s ρ' s' y H [ov Hy]. unfold set_var in H.
    destruct (assoc x ρ) as [sl|] eqn:E.
    - destruct sl as [ov0|c]; inversion H; subst; eauto.
      destruct (String.eqb y x) eqn:Eq.
      + apply String.eqb_eq in Eq. subst y. exists (Some v). eapply assoc_set_same; eauto.
      + apply String.eqb_neq in Eq. exists ov. rewrite assoc_set_other; auto.
    - destruct (gidx p x); inversion H; subst; eauto.
  Qed.

  Definition D_assign (n : nat) : Prop :=
    forall stk ρ t v ps s ρ' s' y,
      assign p n stk ρ t v ps s = Ok (ρ', s') -> (exists ov, assoc y ρ = Some (Direct ov)) -> exists ov, assoc y ρ' = Some (Direct ov).
  Definition D_seq (n : nat) : Prop :=
    forall stk ρ ts vs ps s ρ' s' y,
      assign_seq p n stk ρ ts vs ps s = Ok (ρ', s') -> (exists ov, assoc y ρ = Some (Direct ov)) -> exists ov, assoc y ρ' = Some (Direct ov).

  Lemma directs : forall n, D_assign n /\ D_seq n.
  Proof.
    induction n as [|n [IHa IHs]].
    - split; red; intros; simpl in *; discriminate.
    - split; red.
      + intros stk ρ t v ps s ρ' s' y H Hy. simpl in H. destruct t.
        * eapply set_var_direct; eauto.
        * inv_ok H. destruct a as [vx s1]. inv_ok H. destruct a as [vy s2]. inv_ok H. inversion H; subst. auto.
        * inv_ok H. destruct a. discriminate.
        * inv_ok H. eapply IHs; eauto.
      + intros stk ρ ts vs ps s ρ' s' y H Hy. simpl in H.
        destruct ts as [|t ts]; [inversion H; subst; auto|].
        destruct vs as [|v vs]; [inversion H; subst; auto|].
        inv_ok H. destruct a as [ρ1 s1]. eapply IHs; eauto.
  Qed.

  Lemma assigned3 : forall n, A_assign3 n /\ A_seq3 n.
  Proof.
    induction n as [|n [IHa IHs]].
    - split; red; intros; simpl in *; discriminate.
    - split; red.
      + intros stk ρ t v ps s ρ' s' H. simpl in H. destruct t.
        * destruct (set_var_asg3 _ _ _ _ _ _ H) as [H2 [H3 H4]]. repeat split; auto.
          intros y [Hy|[]] Hin. subst. auto.
        * inv_ok H. destruct a as [vx s1]. inv_ok H. destruct a as [vy s2]. inv_ok H.
          inversion H; subst. repeat split; auto. intros z [].
        * inv_ok H. destruct a. discriminate.
        * inv_ok H. simpl. eapply IHs; eauto.
          unfold lift in E. destruct (unpack (length ts) v (rw s)) eqn:Eu; try discriminate. inversion E; subst.
          unfold unpack in Eu.
          destruct v; try discriminate;
            (destruct (elements _ (rw s)) as [l| |]; simpl in Eu; try discriminate;
             destruct (Nat.eqb (length l) (length ts)) eqn:El; try discriminate; inversion Eu; subst; apply Nat.eqb_eq; auto).
      + intros stk ρ ts vs ps s ρ' s' H Hlen. simpl in H.
        destruct ts as [|t ts]; destruct vs as [|v vs]; simpl in Hlen; try discriminate.
        * inversion H; subst. repeat split; auto. intros x [].
        * inv_ok H. destruct a as [ρ1 s1].
          destruct (IHa _ _ _ _ _ _ _ _ E) as [N1 [M1 T1]].
          destruct (IHs _ _ _ _ _ _ _ _ H ltac:(lia)) as [N2 [M2 T2]].
          repeat split; auto; try congruence.
          intros x Hx Hd. simpl in Hx. apply in_app_iff in Hx. destruct Hx as [Hx|Hx].
          -- apply M2. apply T1; auto.
          -- apply T2; auto. destruct (directs n) as [Da _]. eapply Da; eauto.
  Qed.
End P3.

(* ---------------------------------------------------------------- function entry: the evaluator's fresh variables (cells for
   the boxed names) against the machine's spilling of the cell slots *)
Fixpoint spill_names (ls bx : list string) (xs : list string) (L : list (option value)) (w : world) : list (option value) * world :=
  match xs with
  | [] => (L, w)
  | x :: r =>
      if str_in x bx then
        match index_of x ls with
        | Some i => let '(c, w1) := alloc_cell (match nth_error L i with Some v => v | None => None end) w in
                    spill_names ls bx r (upd_nth i (Some (VCell c)) L) w1
        | None => spill_names ls bx r L w
        end
      else spill_names ls bx r L w
  end.

Lemma spill_app : forall a b L w, spill (a ++ b) L w = let '(L1, w1) := spill a L w in spill b L1 w1.
Proof.
  induction a as [|i a IH]; intros b L w; simpl.
  - reflexivity.
  - match goal with |- context [alloc_cell ?v w] => destruct (alloc_cell v w) as [c w1] end. apply IH.
Qed.

Lemma spill_names_eq : forall ls bx xs L w,
  spill (flat_map (fun x => if str_in x bx then match index_of x ls with Some i => [i] | None => [] end else []) xs) L w
  = spill_names ls bx xs L w.
Proof.
  induction xs as [|x xs IH]; intros L w; simpl.
  - reflexivity.
  - rewrite spill_app. destruct (str_in x bx).
    + destruct (index_of x ls) as [i|].
      * simpl. match goal with |- context [alloc_cell ?v w] => destruct (alloc_cell v w) as [c w1] end. apply IH.
      * simpl. apply IH.
    + simpl. apply IH.
Qed.

Lemma nth_tl : forall (A : Type) k (l : list A) d, nth (S k) l d = nth k (match l with _ :: t => t | [] => [] end) d.
Proof. intros. destruct l; simpl; auto. destruct k; auto. Qed.

Lemma entry_gen : forall ls bx xs init L w,
  NoDup xs ->
  (forall k x, nth_error xs k = Some x -> exists i, index_of x ls = Some i /\ nth_error L i = Some (nth k init None)) ->
  exists ρl L' w', new_vars xs init bx w = (ρl, w') /\ spill_names ls bx xs L w = (L', w') /\ length L' = length L
    /\ map fst ρl = xs
    /\ (forall x, List.In x xs -> exists i, index_of x ls = Some i /\
           match assoc x ρl with
           | Some (Direct ov) => str_in x bx = false /\ nth_error L' i = Some ov
           | Some (Boxed c) => str_in x bx = true /\ nth_error L' i = Some (Some (VCell c))
           | None => False end)
    /\ (forall i, (forall x, List.In x xs -> index_of x ls <> Some i) -> nth_error L' i = nth_error L i).
Proof.
  induction xs as [|x xs IH]; intros init L w Hnd Hh.
  - exists [], L, w. simpl. repeat split; auto. intros x [].
  - inversion Hnd as [|? ? Hnx Hnd']; subst.
    destruct (Hh 0 x eq_refl) as [i [Hi Hv]].
    assert (Hv0 : nth 0 init None = match init with v :: _ => v | [] => None end) by (destruct init; reflexivity).
    rewrite Hv0 in Hv.
    assert (Hlt : i < length L) by (apply nth_error_Some; congruence).
    assert (Hother : forall y, List.In y xs -> index_of y ls <> Some i).
    { intros y Hy Hiy. assert (y = x) by (eapply index_of_inj; eauto). subst. contradiction. }
    simpl new_vars. simpl spill_names. destruct (str_in x bx) eqn:Eb.
    + rewrite Hi, Hv.
      destruct (alloc_cell (match init with v :: _ => v | [] => None end) w) as [c w1] eqn:Ea.
      destruct (IH (match init with _ :: t => t | [] => [] end) (upd_nth i (Some (VCell c)) L) w1 Hnd') as
          [ρl [L' [w' [H1 [H2 [H3 [H4 [H5 H6]]]]]]]].
      { intros k y Hk. destruct (Hh (S k) y Hk) as [i' [Hi' Hv']].
        exists i'. split; auto. rewrite upd_nth_other.
        - rewrite Hv'. f_equal. apply nth_tl.
        - intros ->. apply (Hother y); auto. eapply nth_error_In; eauto. }
      rewrite H1. exists ((x, Boxed c) :: ρl), L', w'. split; [reflexivity|]. split; [exact H2|].
      split; [rewrite H3; apply upd_nth_length|]. split; [simpl; congruence|]. split.
      * intros y [Hy|Hy].
        -- subst y. exists i. split; auto. simpl. rewrite String.eqb_refl. split; auto.
           rewrite (H6 i Hother). apply upd_nth_same. auto.
        -- destruct (H5 y Hy) as [i' [Hi' Hm]]. exists i'. split; auto. simpl.
           destruct (String.eqb y x) eqn:E; auto. apply String.eqb_eq in E. subst. contradiction.
      * intros i0 Hi0. rewrite H6 by (intros y Hy; apply Hi0; right; auto).
        apply upd_nth_other. intros ->. apply (Hi0 x); auto. left; auto.
    + destruct (IH (match init with _ :: t => t | [] => [] end) L w Hnd') as
          [ρl [L' [w' [H1 [H2 [H3 [H4 [H5 H6]]]]]]]].
      { intros k y Hk. destruct (Hh (S k) y Hk) as [i' [Hi' Hv']].
        exists i'. split; auto. rewrite Hv'. f_equal. apply nth_tl. }
      rewrite H1. exists ((x, Direct (match init with v :: _ => v | [] => None end)) :: ρl), L', w'.
      split; [reflexivity|]. split; [exact H2|]. split; [exact H3|]. split; [simpl; congruence|]. split.
      * intros y [Hy|Hy].
        -- subst y. exists i. split; auto. simpl. rewrite String.eqb_refl. split; auto.
           rewrite (H6 i Hother). auto.
        -- destruct (H5 y Hy) as [i' [Hi' Hm]]. exists i'. split; auto. simpl.
           destruct (String.eqb y x) eqn:E; auto. apply String.eqb_eq in E. subst. contradiction.
      * intros i0 Hi0. apply H6. intros y Hy. apply Hi0. right; auto.
Qed.

(* at function entry the relation holds *)
Lemma R3_entry : forall lo sc bx (params : list value) w k fv G,
  layout_ok lo (sc_ls sc) k = true -> length params = k ->
  cells_match lo sc bx = true -> nodup_str lo = true -> Rfv sc fv G ->
  exists ρl L' w', new_vars lo (map Some params) bx w = (ρl, w')
     /\ spill (sc_cells sc) (pad_init (length (sc_ls sc)) (map Some params)) w = (L', w')
     /\ R3 fv lo sc [] [] (ρl ++ mapB G) L'.
Proof.
  intros lo sc bx params w k fv G Hlay Hk Hcm Hnd Hg.
  apply nodup_str_ok in Hnd. apply nats_eqb3_eq in Hcm.
  set (L0 := pad_init (length (sc_ls sc)) (map Some params)).
  destruct (entry_gen (sc_ls sc) bx lo (map Some params) L0 w Hnd) as [ρl [L' [w' [H1 [H2 [H3 [H4 [H5 H6]]]]]]]].
  { intros j x Hj. pose proof (index_of_nodup _ _ _ Hnd Hj) as Ej.
    assert (Hin : List.In x lo) by (eapply nth_error_In; eauto).
    unfold layout_ok in Hlay. rewrite forallb_forall in Hlay. specialize (Hlay x Hin). rewrite Ej in Hlay.
    destruct (index_of x (sc_ls sc)) as [i|] eqn:Ei; [|discriminate].
    exists i. split; auto. unfold L0. rewrite pad_init_nth.
    2: { apply index_of_nth in Ei. apply nth_error_Some. congruence. }
    f_equal. apply orb_true_iff in Hlay. destruct Hlay as [Hlay|Hlay].
    - apply Nat.eqb_eq in Hlay. subst. reflexivity.
    - apply andb_true_iff in Hlay. destruct Hlay as [Ha Hb]. apply Nat.leb_le in Ha, Hb.
      rewrite !nth_overflow; auto; rewrite map_length; lia. }
  exists ρl, L', w'. split; [exact H1|]. split.
  { rewrite Hcm. rewrite spill_names_eq. exact H2. }
  split; [intros x i Ha; discriminate|].
  exists [], (ρl ++ mapB G). split; [reflexivity|]. split; [constructor|]. split.
  - exists ρl, G. split; [reflexivity|]. split; [|exact Hg].
    intros x. destruct (assoc x ρl) as [sl|] eqn:Ea.
    + assert (Hin : List.In x lo). { rewrite <- H4. eapply assoc_in_names; eauto. }
      split; [apply str_in_iff; auto|].
      destruct (H5 x Hin) as [i [Hi Hm]]. rewrite Ea in Hm. exists i. split; auto.
      destruct sl as [ov|c]; destruct Hm as [Hb Hn]; split; auto.
      * (* not a cell *)
        destruct (is_cell sc i) eqn:Ec; auto. unfold is_cell in Ec. apply nat_mem_iff in Ec.
        rewrite Hcm in Ec. apply in_flat_map in Ec. destruct Ec as [y [Hy Hiy]].
        destruct (str_in y bx) eqn:Eyb; [|destruct Hiy].
        destruct (index_of y (sc_ls sc)) as [iy|] eqn:Eiy; [|destruct Hiy].
        destruct Hiy as [->|[]]. assert (y = x) by (eapply index_of_inj; eauto). subst. congruence.
      * unfold is_cell. apply nat_mem_iff. rewrite Hcm. apply in_flat_map. exists x. split; auto.
        rewrite Hb, Hi. left; auto.
    + apply str_in_false_iff. rewrite <- H4. apply assoc_not_in. auto.
  - split; [constructor|]. split; [constructor|]. rewrite H3. unfold L0. apply pad_init_length.
Qed.

(* ---------------------------------------------------------------- the cells a new closure captures *)
Lemma NoDup_snoc : forall (l : list string) x, NoDup l -> ~ List.In x l -> NoDup (l ++ [x]).
Proof.
  induction l; simpl; intros x Hnd Hx.
  - constructor; [intros []|constructor].
  - inversion Hnd; subst. constructor.
    + rewrite in_app_iff. intros [H|[H|[]]]; [contradiction | subst; apply Hx; left; reflexivity].
    + apply IHl; auto.
Qed.

Lemma add_all_nodup : forall xs l, NoDup l -> NoDup (add_all xs l).
Proof.
  unfold add_all. induction xs as [|x xs IH]; intros l Hl; simpl; auto.
  apply IH. unfold add_new. destruct (str_in x l) eqn:E; auto.
  apply NoDup_snoc; auto. apply str_in_false_iff. auto.
Qed.

Lemma add_all_in : forall xs l z, List.In z (add_all xs l) -> List.In z xs \/ List.In z l.
Proof.
  unfold add_all. induction xs as [|x xs IH]; intros l z H; simpl in *; auto.
  destruct (IH _ _ H) as [H1|H1]; auto.
  unfold add_new in H1. destruct (str_in x l); auto.
  apply in_app_iff in H1. destruct H1 as [H1|[H1|[]]]; auto.
Qed.

Lemma add_all_keeps : forall xs l z, List.In z l -> List.In z (add_all xs l).
Proof.
  unfold add_all. induction xs as [|x xs IH]; intros l z H; simpl; auto.
  apply IH. unfold add_new. destruct (str_in x l); auto. apply in_app_iff. auto.
Qed.

Lemma add_all_has : forall xs l z, List.In z xs -> List.In z (add_all xs l).
Proof.
  unfold add_all. induction xs as [|x xs IH]; intros l z H; simpl in *; [destruct H|].
  destruct H as [->|H]; [|apply IH; auto].
  apply (add_all_keeps xs). unfold add_new. destruct (str_in z l) eqn:E.
  - apply str_in_iff. auto.
  - apply in_app_iff. right. left. auto.
Qed.

Lemma flat_map_nil_all : forall (A B : Type) (g : A -> list B) l, (forall z, List.In z l -> g z = []) -> flat_map g l = [].
Proof. induction l; simpl; intros; auto. rewrite H by auto. simpl. apply IHl. auto. Qed.

Lemma flat_map_single : forall (B : Type) (g : string -> list B) l y,
  NoDup l -> List.In y l -> (forall z, List.In z l -> z <> y -> g z = []) -> flat_map g l = g y.
Proof.
  induction l as [|a l IH]; intros y Hnd Hin Hz; [destruct Hin|].
  inversion Hnd; subst. simpl. destruct Hin as [->|Hin].
  - rewrite (flat_map_nil_all _ _ g l); [apply app_nil_r|].
    intros z Hzl. apply Hz; [right; auto|]. intros ->. contradiction.
  - rewrite (Hz a); [|left; auto|intros ->; contradiction]. simpl. apply IH; auto.
    intros z Hzl. apply Hz. right; auto.
Qed.

(* names: the names the new function mentions; fr: its free variables (at most one); every mentioned name
   that is not a free variable is not bound in the environment *)
Lemma capture_none : forall (ρ : env) names,
  (forall z, List.In z names -> assoc z ρ = None) -> capture ρ names = [].
Proof.
  intros ρ names H. unfold capture. apply flat_map_nil_all.
  intros z Hz. destruct (add_all_in _ _ _ Hz) as [Hz'|[]]. rewrite (H z Hz'). reflexivity.
Qed.

Lemma capture_one : forall (ρ : env) names y c,
  List.In y names -> assoc y ρ = Some (Boxed c) ->
  (forall z, List.In z names -> z <> y -> assoc z ρ = None) -> capture ρ names = [(y, c)].
Proof.
  intros ρ names y c Hy Hc H. unfold capture.
  rewrite (flat_map_single _ _ (add_all names []) y).
  - rewrite Hc. reflexivity.
  - apply add_all_nodup. constructor.
  - apply add_all_has. auto.
  - intros z Hz Hne. destruct (add_all_in _ _ _ Hz) as [Hz'|[]]. rewrite (H z Hz' Hne). reflexivity.
Qed.

(* the cells a closure with several free variables captures *)
Lemma flat_map_filter : forall (B : Type) (g : string -> list B) (f : string -> bool) l,
  (forall z, List.In z l -> f z = false -> g z = []) -> flat_map g l = flat_map g (filter f l).
Proof.
  induction l as [|a l IH]; intros H; simpl; auto.
  destruct (f a) eqn:E; simpl.
  - rewrite IH; auto. intros; apply H; auto. right; auto.
  - rewrite (H a); auto; [|left; auto]. simpl. apply IH. intros; apply H; auto. right; auto.
Qed.

Lemma capture_many : forall (ρ : env) names fr cs,
  Forall2 (fun y c => assoc y ρ = Some (Boxed c)) fr cs ->
  filter (fun z => str_in z fr) (add_all names []) = fr ->
  (forall z, List.In z names -> str_in z fr = false -> assoc z ρ = None) ->
  capture ρ names = combine fr cs.
Proof.
  intros ρ names fr cs H2 Hord Hunb. unfold capture.
  rewrite (flat_map_filter _ _ (fun z => str_in z fr)).
  - rewrite Hord. clear Hord Hunb. induction H2 as [|y c fr cs Hy H2 IH]; simpl; auto.
    rewrite Hy. simpl. f_equal. exact IH.
  - intros z Hz Hf. destruct (add_all_in _ _ _ Hz) as [Hz'|[]]. rewrite (Hunb z Hz' Hf). reflexivity.
Qed.

Lemma assoc_filter_in : forall x (f : string -> bool) (l : list (string * nat)),
  f x = true -> assoc x (filter (fun xc => f (fst xc)) l) = assoc x l.
Proof.
  induction l as [|[z c] l IH]; intros Hx; cbn [filter fst assoc]; auto.
  destruct (f z) eqn:Ez; cbn [assoc].
  - destruct (String.eqb x z); auto.
  - destruct (String.eqb x z) eqn:E; auto. apply String.eqb_eq in E. subst. congruence.
Qed.

Lemma assoc_nodup : forall (l : list (string * nat)) x c, NoDup (map fst l) -> List.In (x, c) l -> assoc x l = Some c.
Proof.
  induction l as [|[z c0] l IH]; intros x c Hnd Hin; simpl in *; [destruct Hin|].
  inversion Hnd; subst. destruct Hin as [Hin|Hin].
  - inversion Hin; subst. rewrite String.eqb_refl. reflexivity.
  - destruct (String.eqb x z) eqn:E.
    + apply String.eqb_eq in E. subst. exfalso. apply H1. apply (in_map fst) in Hin. exact Hin.
    + apply IH; auto.
Qed.

(* the captured cells of a function value whose cells are named as the function's free variables:
   position agrees with name *)
Lemma Rfv_call : forall sc (free : list (string * nat)),
  map fst (filter (fun xc => str_in (fst xc) (sc_fr sc)) free) = sc_fr sc ->
  NoDup (sc_fr sc) ->
  (forall y, List.In y (sc_fr sc) -> str_in y (sc_encl sc) = true) ->
  Rfv sc (filter (fun xc => str_in (fst xc) (sc_fr sc)) free) (filter (fun xc => str_in (fst xc) (sc_encl sc)) free).
Proof.
  intros sc free Hm Hnd Henc. split.
  - intros y c Hin. apply filter_In in Hin. destruct Hin as [_ H]. exact H.
  - intros x j Hj. apply index_of_nth in Hj.
    assert (Hn : nth_error (map fst (filter (fun xc => str_in (fst xc) (sc_fr sc)) free)) j = Some x) by (rewrite Hm; auto).
    rewrite nth_error_map in Hn.
    destruct (nth_error (filter (fun xc => str_in (fst xc) (sc_fr sc)) free) j) as [[y c]|] eqn:En; simpl in Hn; [|discriminate].
    inversion Hn; subst y. exists c. split; auto.
    assert (Hx : List.In x (sc_fr sc)) by (eapply nth_error_In; eauto).
    rewrite (assoc_filter_in x (fun z => str_in z (sc_encl sc))) by (apply Henc; auto).
    rewrite <- (assoc_filter_in x (fun z => str_in z (sc_fr sc)) free) by (apply str_in_iff; auto).
    apply assoc_nodup; [ rewrite Hm; auto | eapply nth_error_In; eauto ].
Qed.
