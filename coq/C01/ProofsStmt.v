(* C01 -- simulation: assignment, statements, blocks, loops. *)
From Coq Require Import ZArith String List Bool Lia.
From SV Require Import C01.Syntax C01.Values C01.Ref C01.VM C01.Compile C01.Frag C01.ProofsVM C01.ProofsEnv C01.SimDefs C01.ProofsExpr.
Import ListNotations.
Open Scope string_scope.
Open Scope list_scope.
Open Scope nat_scope.

Lemma release_all_app : forall a b w, release_all (a ++ b) w = release_all b (release_all a w).
Proof. induction a; intros; simpl; auto. Qed.

Section Stmt.
  Variable p : program.
  Notation cp := (compile_prog p).
  Notation fn := (fname p).

  (* ---- storing the value on top of the stack into a variable *)
  Lemma set_sim : forall ρ x v s fid C fv K pc σ I brk cont,
    wf ρ ->
    nth_error C pc = Some (resolve brk cont pc (gen_set p (map fst ρ) [] x)) ->
    sim p (set_var p ρ x v s) (S1 fid C fv K pc (v :: σ) ρ I s)
        (fun r => wf (fst r) /\ map fst (fst r) = map fst ρ /\
                  star cp fn (S1 fid C fv K pc (v :: σ) ρ I s) (S1 fid C fv K (S pc) σ (fst r) I (snd r))).
  Proof.
    intros ρ x v s fid C fv K pc σ I brk cont Hwf Hf.
    unfold set_var, gen_set in *. cbn [assoc] in Hf.
    destruct (assoc x ρ) as [sl|] eqn:Ea.
    - destruct (assoc_local ρ x sl Hwf Ea) as [i [ov [-> [Hi Hn]]]].
      destruct (assoc_set_local ρ x ov v Hwf Ea) as [i' [Hi' [Hv [Hm Hd]]]].
      rewrite Hi in Hi'. inversion Hi'; subst i'.
      rewrite Hi in Hf. simpl in Hf. cbn [sim fst snd].
      repeat split; auto.
      vstep. norm_state. rewrite Hv. apply star_refl.
    - rewrite (assoc_none ρ x Ea) in Hf.
      destruct (gidx p x) as [j|] eqn:Eg; simpl in Hf; cbn [sim fst snd].
      + repeat split; auto. vstep. apply star_refl.
      + vstop.
  Qed.

  Section GenEq.
    Variable ls : list string.
    Notation ge := (gen_expr p ls).
    Notation gc := (gen_cond p ls).
    Notation gs := (gen_stmt p ls).
    Notation gb := (gen_block p ls).

    Lemma ga_index : forall x y pi ps, gen_assign p ls (TIndex x y pi) ps = ge x ++ [EXCH] ++ ge y ++ [EXCH; SETINDEX pi].
    Proof. reflexivity. Qed.
    Lemma gs_assign : forall t e ps, gs (SAssign t e ps) = ge e ++ gen_assign p ls t ps. Proof. reflexivity. Qed.
    Lemma gs_aug_name : forall o x px e ps,
      gs (SAug o (TName x px) e ps) = [gen_name p ls [] x px] ++ ge e ++ aug_insn o ps ++ [gen_set p ls [] x].
    Proof. reflexivity. Qed.
    Lemma gs_aug_index : forall o x y pi e ps,
      gs (SAug o (TIndex x y pi) e ps) = ge x ++ ge y ++ [DUP2; INDEX pi] ++ ge e ++ aug_insn o ps ++ [SETINDEX pi].
    Proof. reflexivity. Qed.
    Lemma gs_if : forall c tb fb,
      gs (SIf c tb fb) = gc c 0 (length (gb tb) + 1) ++ gb tb ++ [RJMP (length (gb fb))] ++ gb fb.
    Proof. reflexivity. Qed.
    Lemma gs_while : forall c body,
      gs (SWhile c body) = gc c 0 (length (gb body) + 1)
                           ++ patch_loop 1 (length (gc c 0 (length (gb body) + 1))) (gb body)
                           ++ [RJMPB (length (gc c 0 (length (gb body) + 1)) + length (gb body) + 1)].
    Proof. reflexivity. Qed.
    Lemma gs_for : forall t e body ps,
      gs (SFor t e body ps) = ge e ++ [ITERPUSH ps; RITERJMP (length (gen_assign p ls t ps) + length (gb body) + 1)]
                              ++ gen_assign p ls t ps ++ patch_loop 1 (length (gen_assign p ls t ps) + 1) (gb body)
                              ++ [RJMPB (length (gen_assign p ls t ps) + length (gb body) + 2); ITERPOP].
    Proof. reflexivity. Qed.
    Lemma gs_return : forall e, gs (SReturn (Some e)) = ge e ++ [RETURN]. Proof. reflexivity. Qed.
    Lemma gb_cons : forall s ss, gb (s :: ss) = gs s ++ gb ss. Proof. reflexivity. Qed.
  End GenEq.

  Lemma aug_len : forall o ps, length (aug_insn o ps) = 1.
  Proof. destruct o; reflexivity. Qed.

  (* ---- the instruction of an augmented assignment *)
  Lemma aug_step : forall o ps x y w fid C fv K pc σ L I g brk cont,
    binop_eqb o NotIn = false ->
    pcode_at C pc (aug_insn o ps) brk cont ->
    match apply_aug o x y w with
    | POk (r, w') => star cp fn (St (Fr fid C pc (y :: x :: σ) L I fv) K g w) (St (Fr fid C (S pc) (r :: σ) L I fv) K g w')
    | PErr => halts cp fn (St (Fr fid C pc (y :: x :: σ) L I fv) K g w) (VFail ps false w)
    | PUnsup t => halts cp fn (St (Fr fid C pc (y :: x :: σ) L I fv) K g w) (VUnsup t)
    end.
  Proof.
    intros o ps x y w fid C fv K pc σ L I g brk cont Ho Hc.
    destruct o; simpl in Ho; try discriminate; simpl in Hc; pcode_split; unfold apply_aug;
    match goal with |- match ?P with _ => _ end => destruct P as [[r w']| |t] eqn:Ep end;
    first [ vstep1 Ep; apply star_refl | vstop1 Ep ].
  Qed.

  Lemma ga_seq : forall ls ts ps,
    gen_assign p ls (TSeq ts) ps = UNPACK (length ts) ps :: flat_map (fun t => gen_assign p ls t ps) ts.
  Proof. reflexivity. Qed.

  Lemma As_step : forall n, E p n -> Aq p n -> As p (S n).
  Proof.
    intros n IHE IHQ.
    unfold As; intros stk ρ t v ps s fid C fv K pc σ I brk cont Hok Hwf Hstk Hcode.
    destruct t; simpl in Hok; try discriminate.
    - (* TName *)
      simpl assign. change (gen_assign p (map fst ρ) (TName x p0) ps) with [gen_set p (map fst ρ) [] x] in *.
      apply pcode_cons in Hcode. destruct Hcode as [Hf _].
      pose proof (set_sim ρ x v s fid C fv K pc σ I brk cont Hwf Hf) as Hs.
      destruct (set_var p ρ x v s) as [[ρ1 s1]| | |]; cbn [sim fst snd] in *; auto.
      destruct Hs as [H1 [H2 H3]]. repeat split; auto. chain H3. fin.
    - (* TIndex *)
      apply andb_true_iff in Hok. destruct Hok as [Hx Hy].
      rewrite ga_index in *. pcode_split.
      codeof x ltac:(fun Hc => pose proof (IHE stk ρ x s fid C fv K pc (v :: σ) I brk cont Hx Hwf Hstk Hc) as IH1).
      simpl assign.
      destruct (eval p n stk ρ x s) as [[vx s1]| | |]; cbn [sim fst snd] in *; auto.
      codeof y ltac:(fun Hc => pose proof (IHE stk ρ y s1 fid C fv K _ (v :: vx :: σ) I brk cont Hy Hwf Hstk Hc) as IH2).
      assert (Hpre : star cp fn (S1 fid C fv K pc (v :: σ) ρ I s)
                       (S1 fid C fv K (pc + length (gen_expr p (map fst ρ) x) + 1) (v :: vx :: σ) ρ I s1)).
      { chain IH1. vstep. fin. }
      destruct (eval p n stk ρ y s1) as [[vy s2]| | |]; cbn [sim fst snd] in *; auto;
        try (hstar Hpre; hchain IH2).
      destruct (index_set vx vy v (rw s2)) as [w'| |t] eqn:Eb; cbn [lift sim fst snd].
      + repeat split; auto. chain Hpre. chain IH2. vstep. vstep1 Eb. fin.
      + hstar Hpre. hstar IH2. eapply halts_star; [ vstep; apply star_refl | vstop1 Eb ].
      + hstar Hpre. hstar IH2. eapply halts_star; [ vstep; apply star_refl | vstop1 Eb ].
    - (* TDot: no value of the model has assignable fields *)
      change (gen_assign p (map fst ρ) (TDot x name p0) ps) with (gen_expr p (map fst ρ) x ++ [EXCH; SETFIELD name p0]) in *.
      pcode_split.
      codeof x ltac:(fun Hc => pose proof (IHE stk ρ x s fid C fv K pc (v :: σ) I brk cont Hok Hwf Hstk Hc) as IH1).
      simpl assign.
      destruct (eval p n stk ρ x s) as [[vx s1]| | |]; cbn [sim fst snd] in *; auto.
      hstar IH1. eapply halts_star; [ vstep; apply star_refl | vstop ].
    - (* TSeq *)
      rewrite ga_seq in *. pcode_split.
      simpl assign.
      destruct (unpack (length ts) v (rw s)) as [vs| |t] eqn:Eu; cbn [lift sim fst snd].
      2: { vstop1 Eu. }
      2: { vstop1 Eu. }
      pose proof (unpack_length _ _ _ _ Eu) as Hlen.
      match goal with Hc : pcode_at C ?q (flat_map _ ts) _ _ |- _ =>
        pose proof (IHQ stk ρ ts vs ps s fid C fv K q σ I brk cont Hok Hlen Hwf Hstk Hc) as IH1 end.
      destruct (assign_seq p n stk ρ ts vs ps s) as [[ρ1 s1]| | |]; cbn [sim fst snd] in *; auto.
      + destruct IH1 as [Hw [Hm IH1]]. repeat split; auto. vstep1 Eu. chain IH1. fin.
      + eapply halts_star; [ vstep1 Eu; apply star_refl | ]. hchain IH1.
      + eapply halts_star; [ vstep1 Eu; apply star_refl | ]. hchain IH1.
  Qed.

  Lemma Aq_step : forall n, As p n -> Aq p n -> Aq p (S n).
  Proof.
    intros n IHA IHQ.
    unfold Aq; intros stk ρ ts vs ps s fid C fv K pc σ I brk cont Hok Hlen Hwf Hstk Hcode.
    destruct ts as [|t ts]; destruct vs as [|v vs]; simpl in Hlen; try discriminate; simpl assign_seq.
    - cbn [sim fst snd]. repeat split; auto. fin.
    - simpl in Hok. apply andb_true_iff in Hok. destruct Hok as [Ht Hts].
      simpl in Hcode. pcode_split.
      match goal with Hc : pcode_at C pc (gen_assign _ _ t _) _ _ |- _ =>
        pose proof (IHA stk ρ t v ps s fid C fv K pc (vs ++ σ) I brk cont Ht Hwf Hstk Hc) as IH1 end.
      destruct (assign p n stk ρ t v ps s) as [[ρ1 s1]| | |]; cbn [sim fst snd] in *; auto.
      destruct IH1 as [Hw1 [Hm1 IH1]].
      match goal with Hc : pcode_at C ?q (flat_map _ ts) _ _ |- _ =>
        rewrite <- Hm1 in Hc;
        pose proof (IHQ stk ρ1 ts vs ps s1 fid C fv K _ σ I brk cont Hts ltac:(lia) Hw1 Hstk Hc) as IH2 end.
      rewrite Hm1 in IH2.
      destruct (assign_seq p n stk ρ1 ts vs ps s1) as [[ρ2 s2]| | |]; cbn [sim fst snd] in *; auto.
      + destruct IH2 as [Hw2 [Hm2 IH2]]. repeat split; auto; try congruence.
        chain IH1. chain IH2. fin.
      + hstar IH1. hchain IH2.
      + hstar IH1. hchain IH2.
  Qed.

  Lemma after_pre : forall fid C fv K S0 S0' pc pc' len len' I brk cont r,
    star cp fn S0 S0' ->
    after p fid C fv K S0' pc' len' I brk cont r ->
    (forall ρ' s', star cp fn (S1 fid C fv K (pc' + len') [] ρ' I s') (S1 fid C fv K (pc + len) [] ρ' I s')) ->
    after p fid C fv K S0 pc len I brk cont r.
  Proof.
    intros fid C fv K S0 S0' pc pc' len len' I brk cont [[out ρ'] s'] Hs Ha Hn.
    destruct out; simpl in *.
    - eapply star_trans; [exact Hs|]. eapply star_trans; [exact Ha|]. apply Hn.
    - destruct brk; [eapply star_trans; eauto | eapply halts_star; eauto].
    - destruct cont; [eapply star_trans; eauto | eapply halts_star; eauto].
    - destruct Ha as [pcr [Ix [wv [H1 [H2 H3]]]]]. exists pcr, Ix, wv. repeat split; auto.
      eapply star_trans; eauto.
  Qed.

  Hypothesis Hfuns : funs_ok p.

  Definition is_lit (e : expr) : bool := match e with EInt _ | EStr _ => true | _ => false end.
  Lemma gs_expr_lit : forall ls e, is_lit e = true -> gen_stmt p ls (SExpr e) = [].
  Proof. intros; destruct e; try discriminate; reflexivity. Qed.
  Lemma gs_expr_gen : forall ls e, is_lit e = false -> gen_stmt p ls (SExpr e) = gen_expr p ls e ++ [POP].
  Proof. intros; destruct e; try discriminate; reflexivity. Qed.

  Ltac fin2 := norm_state; apply star_eq; apply St_eq; [ simpl; len_norm; rewrite ?aug_len; lia | reflexivity ].
  Ltac fetch_at q k := match goal with Hf : nth_error _ q = Some _ |- _ => k Hf end.

  Lemma X_step : forall n, E p n -> Cn p n -> As p n -> B p n -> W p n -> F p n -> Df p n -> X p (S n).
  Proof.
    intros n IHE IHC IHA IHB IHW IHF IHD.
    unfold X; intros stk ρ st s fid0 C fv K pc I brk cont Hok Hwf Hstk Hcode.
    destruct st; simpl in Hok; try discriminate.
    - (* SExpr *)
      simpl exec. destruct (is_lit e) eqn:El.
      + rewrite (gs_expr_lit _ _ El) in *.
        destruct e; try discriminate; destruct n; simpl; auto;
          (split; [split; auto|]); unfold after; fin.
      + rewrite (gs_expr_gen _ _ El) in *. pcode_split.
        codeof e ltac:(fun Hc => pose proof (IHE stk ρ e s fid0 C fv K pc [] I brk cont Hok Hwf Hstk Hc) as IH1).
        destruct (eval p n stk ρ e s) as [[v s1]| | |]; cbn [sim fst snd] in *; auto.
        split; [split; auto|]. unfold after. chain IH1. vstep. fin.
    - (* SAssign *)
      apply andb_true_iff in Hok. destruct Hok as [Ht He].
      rewrite gs_assign in *. pcode_split.
      codeof e ltac:(fun Hc => pose proof (IHE stk ρ e s fid0 C fv K pc [] I brk cont He Hwf Hstk Hc) as IH1).
      simpl exec.
      destruct (eval p n stk ρ e s) as [[v s1]| | |]; cbn [sim fst snd] in *; auto.
      match goal with Hc : pcode_at _ ?q (gen_assign _ _ _ _) _ _ |- _ =>
        pose proof (IHA stk ρ t v p0 s1 fid0 C fv K q [] I brk cont Ht Hwf Hstk Hc) as IH2 end.
      destruct (assign p n stk ρ t v p0 s1) as [[ρ1 s2]| | |]; cbn [sim fst snd] in *; auto.
      + destruct IH2 as [Hw [Hm IH2]]. split; [split; auto|]. unfold after. chain IH1. chain IH2. fin.
      + hstar IH1. hchain IH2.
      + hstar IH1. hchain IH2.
    - (* SAug *)
      apply andb_true_iff in Hok. destruct Hok as [Hok Ho]. apply andb_true_iff in Hok. destruct Hok as [Ht He].
      apply negb_true_iff in Ho.
      destruct t; simpl in Ht; try discriminate.
      3: { (* field target *)
           change (gen_stmt p (map fst ρ) (SAug o (TDot x name p1) e p0))
             with (gen_expr p (map fst ρ) x ++ [DUP; ATTR name p1] ++ gen_expr p (map fst ρ) e ++ aug_insn o p0 ++ [SETFIELD name p1]) in *.
           pcode_split. rewrite ?aug_len in *.
           codeof x ltac:(fun Hc => pose proof (IHE stk ρ x s fid0 C fv K pc [] I brk cont Ht Hwf Hstk Hc) as IH1).
           simpl exec.
           destruct (eval p n stk ρ x s) as [[vx s1]| | |]; cbn [sim fst snd] in *; auto.
           destruct (getattr vx name (rw s1)) as [old| |t] eqn:Eg; cbn [lift sim fst snd].
           2: { hstar IH1. eapply halts_star; [ vstep; apply star_refl | vstop1 Eg ]. }
           2: { hstar IH1. eapply halts_star; [ vstep; apply star_refl | vstop1 Eg ]. }
           assert (Hpre : star cp fn (S1 fid0 C fv K pc [] ρ I s)
                            (S1 fid0 C fv K (pc + length (gen_expr p (map fst ρ) x) + 2) [old; vx] ρ I s1)).
           { chain IH1. vstep. vstep1 Eg. fin. }
           codeof e ltac:(fun Hc => pose proof (IHE stk ρ e s1 fid0 C fv K _ [old; vx] I brk cont He Hwf Hstk Hc) as IH3).
           destruct (eval p n stk ρ e s1) as [[ve s3]| | |]; cbn [sim fst snd] in *; auto;
             try (hstar Hpre; hchain IH3).
           match goal with Hc : pcode_at _ ?q (aug_insn _ _) _ _ |- _ =>
             pose proof (aug_step o p0 old ve (rw s3) fid0 C fv K q [vx] (env_vals ρ) I (rg s3) brk cont Ho Hc) as IHa end.
           destruct (apply_aug o old ve (rw s3)) as [[r w]| |t] eqn:Ea; cbn [lift sim fst snd];
             try (hstar Hpre; hstar IH3; hchain IHa).
           hstar Hpre. hstar IH3. hstar IHa. vstop. }
      3: { (* sequence target: rejected statically; both sides report it *)
           change (gen_stmt p (map fst ρ) (SAug o (TSeq ts) e p0)) with [UNSUPPORTED "static:augmented-sequence"] in *.
           pcode_split. simpl exec. cbn [sim]. vstop. }
      + (* name *)
        rewrite gs_aug_name in *. pcode_split. rewrite ?aug_len in *.
        fetch_at pc ltac:(fun Hf => pose proof (name_sim p ρ x p1 s fid0 C fv K pc [] I brk cont Hwf Hf) as IHn).
        simpl exec.
        destruct (lookup p ρ x p1 s) as [vx| | |]; cbn [sim fst snd] in *; auto.
        codeof e ltac:(fun Hc => pose proof (IHE stk ρ e s fid0 C fv K _ [vx] I brk cont He Hwf Hstk Hc) as IH1).
        destruct (eval p n stk ρ e s) as [[ve s1]| | |]; cbn [sim fst snd] in *; auto;
          try (hstar IHn; hchain IH1).
        match goal with Hc : pcode_at _ ?q (aug_insn _ _) _ _ |- _ =>
          pose proof (aug_step o p0 vx ve (rw s1) fid0 C fv K q [] (env_vals ρ) I (rg s1) brk cont Ho Hc) as IHa end.
        destruct (apply_aug o vx ve (rw s1)) as [[r w]| |t] eqn:Ea; cbn [lift sim fst snd];
          try (hstar IHn; hstar IH1; hchain IHa).
        match goal with Hf : nth_error C ?q = Some (resolve _ _ _ (gen_set _ _ _ _)) |- _ =>
          pose proof (set_sim ρ x r (with_w s1 w) fid0 C fv K q [] I brk cont Hwf Hf) as IHs end.
        destruct (set_var p ρ x r (with_w s1 w)) as [[ρ1 s2]| | |]; cbn [sim fst snd] in *; auto.
        * destruct IHs as [Hw [Hm IHs]]. split; [split; auto|]. unfold after.
          chain IHn. chain IH1. chain IHa. chain IHs. fin2.
        * hstar IHn. hstar IH1. hstar IHa. hchain IHs.
        * hstar IHn. hstar IH1. hstar IHa. hchain IHs.
      + (* index *)
        apply andb_true_iff in Ht. destruct Ht as [Hx Hy].
        rewrite gs_aug_index in *. pcode_split. rewrite ?aug_len in *.
        codeof x ltac:(fun Hc => pose proof (IHE stk ρ x s fid0 C fv K pc [] I brk cont Hx Hwf Hstk Hc) as IH1).
        simpl exec.
        destruct (eval p n stk ρ x s) as [[vx s1]| | |]; cbn [sim fst snd] in *; auto.
        codeof y ltac:(fun Hc => pose proof (IHE stk ρ y s1 fid0 C fv K _ [vx] I brk cont Hy Hwf Hstk Hc) as IH2).
        destruct (eval p n stk ρ y s1) as [[vy s2]| | |]; cbn [sim fst snd] in *; auto;
          try (hstar IH1; hchain IH2).
        destruct (index_get vx vy (rw s2)) as [old| |t] eqn:Eg; cbn [lift sim fst snd].
        2: { hstar IH1. hstar IH2. eapply halts_star; [ vstep; apply star_refl | vstop1 Eg ]. }
        2: { hstar IH1. hstar IH2. eapply halts_star; [ vstep; apply star_refl | vstop1 Eg ]. }
        assert (Hpre : star cp fn (S1 fid0 C fv K pc [] ρ I s)
                         (S1 fid0 C fv K (pc + length (gen_expr p (map fst ρ) x) + length (gen_expr p (map fst ρ) y) + 2)
                             [old; vy; vx] ρ I s2)).
        { chain IH1. chain IH2. vstep. vstep1 Eg. fin. }
        codeof e ltac:(fun Hc => pose proof (IHE stk ρ e s2 fid0 C fv K _ [old; vy; vx] I brk cont He Hwf Hstk Hc) as IH3).
        destruct (eval p n stk ρ e s2) as [[ve s3]| | |]; cbn [sim fst snd] in *; auto;
          try (hstar Hpre; hchain IH3).
        match goal with Hc : pcode_at _ ?q (aug_insn _ _) _ _ |- _ =>
          pose proof (aug_step o p0 old ve (rw s3) fid0 C fv K q [vy; vx] (env_vals ρ) I (rg s3) brk cont Ho Hc) as IHa end.
        destruct (apply_aug o old ve (rw s3)) as [[r w]| |t] eqn:Ea; cbn [lift sim fst snd];
          try (hstar Hpre; hstar IH3; hchain IHa).
        destruct (index_set vx vy r w) as [w'| |t] eqn:Es; cbn [lift sim fst snd].
        * split; [split; auto|]. unfold after. chain Hpre. chain IH3. chain IHa. vstep1 Es. fin2.
        * hstar Hpre. hstar IH3. hstar IHa. vstop1 Es.
        * hstar Hpre. hstar IH3. hstar IHa. vstop1 Es.
    - (* SIf *)
      apply andb_true_iff in Hok. destruct Hok as [Hok Hfb]. apply andb_true_iff in Hok. destruct Hok as [Hc Htb].
      rewrite gs_if in *. pcode_split.
      condof c ltac:(fun Hcc => pose proof (IHC stk ρ c s fid0 C fv K pc [] I brk cont _ _ Hc Hwf Hstk Hcc) as IHc).
      simpl exec.
      destruct (eval p n stk ρ c s) as [[vc s1]| | |]; cbn [sim fst snd] in *; auto.
      destruct (truth vc (rw s1)) eqn:Et.
      + match goal with Hcc : pcode_at _ ?q (gen_block _ _ tb) _ _ |- _ =>
          pose proof (IHB stk ρ tb s1 fid0 C fv K q I brk cont Htb Hwf Hstk Hcc) as IH2 end.
        assert (Hpre : star cp fn (S1 fid0 C fv K pc [] ρ I s)
                         (S1 fid0 C fv K (pc + length (gen_cond p (map fst ρ) c 0 (length (gen_block p (map fst ρ) tb) + 1))) [] ρ I s1)).
        { chain IHc. fin. }
        eapply sim_move; [ exact Hpre | exact IH2 | ].
        intros r [Hk Ha]. split; auto.
        eapply after_pre; [ exact Hpre | exact Ha | ].
        intros ρ' s'. vstep. fin.
      + match goal with Hcc : pcode_at _ ?q (gen_block _ _ fb) _ _ |- _ =>
          pose proof (IHB stk ρ fb s1 fid0 C fv K q I brk cont Hfb Hwf Hstk Hcc) as IH2 end.
        assert (Hpre : star cp fn (S1 fid0 C fv K pc [] ρ I s)
                         (S1 fid0 C fv K (pc + length (gen_cond p (map fst ρ) c 0 (length (gen_block p (map fst ρ) tb) + 1))
                                            + length (gen_block p (map fst ρ) tb) + 1) [] ρ I s1)).
        { chain IHc. fin. }
        eapply sim_move; [ exact Hpre | exact IH2 | ].
        intros r [Hk Ha]. split; auto.
        eapply after_pre; [ exact Hpre | exact Ha | ].
        intros ρ' s'. fin.
    - (* SWhile *)
      apply andb_true_iff in Hok. destruct Hok as [Hc Hb].
      simpl exec.
      pose proof (IHW stk ρ c body s fid0 C fv K pc I brk cont Hc Hb Hwf Hstk Hcode) as IH1.
      eapply sim_move; [ apply star_refl | exact IH1 | ].
      intros [[out ρ'] s'] [Hk Ha]. split; auto.
      destruct out; simpl in *; auto; contradiction.
    - (* SFor *)
      apply andb_true_iff in Hok. destruct Hok as [Hok Hb]. apply andb_true_iff in Hok. destruct Hok as [Ht He].
      pose proof (fun vs lock s' => IHF stk ρ t p0 vs lock body s' fid0 C fv K pc I brk cont e Ht Hb Hwf Hstk Hcode) as IHf.
      cbv zeta in IHf.
      rewrite gs_for in *. pcode_split. rewrite ?patch_loop_length in *.
      codeof e ltac:(fun Hc => pose proof (IHE stk ρ e s fid0 C fv K pc [] I brk cont He Hwf Hstk Hc) as IH1).
      simpl exec.
      destruct (eval p n stk ρ e s) as [[v s1]| | |]; cbn [sim fst snd] in *; auto.
      destruct (iterate v (rw s1)) as [[[vs lock] w1]| |t0] eqn:Ei; cbn [lift sim fst snd].
      2: { hstar IH1. vstop1 Ei. }
      2: { hstar IH1. vstop1 Ei. }
      specialize (IHf vs lock (with_w s1 w1)).
      assert (Hpre : star cp fn (S1 fid0 C fv K pc [] ρ I s)
                       (S1 fid0 C fv K (pc + length (gen_expr p (map fst ρ) e) + 1) [] ρ
                           ({| it_rem := vs; it_lock := lock |} :: I) (with_w s1 w1))).
      { chain IH1. vstep1 Ei. fin. }
      destruct (exec_for p n stk ρ t p0 vs body (with_w s1 w1)) as [[[out ρ2] s2]| | |]; cbn [sim fst snd] in *; auto.
      + destruct IHf as [Hk Ha]. split; auto.
        destruct out; try contradiction; unfold after.
        * destruct Ha as [rem Ha]. chain Hpre. chain Ha. norm_state. len_norm. vstep. fin.
        * destruct Ha as [pcr [Ix [rem [wv [Hr1 [Hr2 Hr3]]]]]].
          exists pcr, (Ix ++ [{| it_rem := rem; it_lock := lock |}]), wv. repeat split; auto.
          -- rewrite <- app_assoc. simpl. chain Hpre. exact Hr1.
          -- rewrite release_all_app. simpl. rewrite Hr3. reflexivity.
      + hstar Hpre. hchain IHf.
      + hstar Hpre. hchain IHf.
    - (* SBreak *)
      change (gen_stmt p (map fst ρ) SBreak) with [BRK] in *. simpl exec. cbn [sim].
      split; [split; auto|]. unfold after.
      destruct brk; pcode_split.
      + vstep. apply star_refl.
      + vstop.
    - (* SContinue *)
      change (gen_stmt p (map fst ρ) SContinue) with [CONT] in *. simpl exec. cbn [sim].
      split; [split; auto|]. unfold after.
      destruct cont; pcode_split.
      + vstep. apply star_refl.
      + vstop.
    - (* SPass *)
      simpl exec. cbn [sim]. split; [split; auto|]. unfold after. fin.
    - (* SReturn *)
      destruct e as [e|].
      + rewrite gs_return in *. pcode_split.
        codeof e ltac:(fun Hc => pose proof (IHE stk ρ e s fid0 C fv K pc [] I brk cont Hok Hwf Hstk Hc) as IH1).
        simpl exec.
        destruct (eval p n stk ρ e s) as [[v s1]| | |]; cbn [sim fst snd] in *; auto.
        split; [split; auto|]. unfold after.
        exists (pc + length (gen_expr p (map fst ρ) e)), [], (rw s1). repeat split; auto.
      + change (gen_stmt p (map fst ρ) (SReturn None)) with [NONE; RETURN] in *. pcode_split.
        simpl exec. cbn [sim]. split; [split; auto|]. unfold after.
        exists (S pc), [], (rw s). repeat split; auto.
        vstep. apply star_refl.
    - (* SDef *)
      apply andb_true_iff in Hok. destruct Hok as [Hok Hlay].
      apply andb_true_iff in Hok. destruct Hok as [Hok Hbx]. apply andb_true_iff in Hok. destruct Hok as [Hps Hbody].
      pose proof (IHD stk ρ params false s fid0 C fv K pc [] I brk cont Hps Hwf Hstk) as IH1.
      unfold gen_stmt in Hcode |- *; fold gen_stmt in Hcode |- *.
      destruct (gen_defaults p (map fst ρ) params false) as [c k] eqn:Eg. cbn [fst snd] in *.
      pcode_split.
      match goal with Hc : pcode_at C pc c _ _ |- _ => specialize (IH1 Hc) end.
      simpl exec.
      destruct (eval_defaults p n stk ρ params false s) as [[ds s1]| | |]; cbn [sim fst snd] in *; auto.
      destruct IH1 as [Hlen IH1].
      assert (Hpop : popn k (rev ds ++ []) [] = Some (ds, [])) by (rewrite <- Hlen; apply popn_rev).
      pose proof (Hfuns fid) as Hfid. unfold compile_prog in Hfid; cbn [cp_funs] in Hfid.
      destruct (find_def p fid) as [[fd encl]|].
      2: { cbn [sim]. hstar IH1. eapply halts_star; [ vstep1 Hpop; apply star_refl | ]. vstop1 Hfid. }
      destruct Hfid as [Hfd [Hencl Hfc]].
      rewrite (capture_direct ρ _ Hwf).
      match goal with Hf : nth_error C ?q = Some (resolve _ _ _ (gen_set _ _ _ _)) |- _ =>
        pose proof (set_sim ρ name (VFun fid ds []) s1 fid0 C fv K q [] I brk cont Hwf Hf) as IHs end.
      assert (Hpre : star cp fn (S1 fid0 C fv K pc [] ρ I s)
                       (S1 fid0 C fv K (pc + length c + 2) [VFun fid ds []] ρ I s1)).
      { chain IH1. vstep1 Hpop.
        with_fetch ltac:(fun H => eapply star_step; [ rewrite (step_lit _ _ _ _ _ _ _ _ _ _ _ _ _ H); simpl; rewrite Hfc; simpl;
                                                        rewrite Nat.sub_0_r, firstn_all; reflexivity | ]).
        fin. }
      destruct (set_var p ρ name (VFun fid ds []) s1) as [[ρ1 s2]| | |]; cbn [sim fst snd] in *; auto.
      + destruct IHs as [Hw [Hm IHs]]. split; [split; auto|]. unfold after.
        chain Hpre. chain IHs. fin.
      + hstar Hpre. hchain IHs.
      + hstar Hpre. hchain IHs.
  Qed.
End Stmt.
