(* C01 -- the executable model of the code: slot assignment + code generation
   (Compile.v, mirroring resolve/resolve.go and internal/compile/compile.go) and
   the virtual machine (VM.v, mirroring starlark/interp.go), over the value
   domain and library oracle of Values.v.  No proofs. *)
From SV Require Export C01.Syntax C01.Values C01.VM C01.Compile.
