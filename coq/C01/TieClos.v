(* C01 -- executable comparators for the code generator with closures (CompileClos.v), in the style of
   Tie.v: (a3) the real compiler's bytecode against compile_prog3 (control-flow graphs modulo layout,
   slot layout, CELL slots and FREE VARIABLE names of every function), (d3) compile_prog3 + VM.v end to
   end against the real pipeline.  They cover the programs that Tie.in_compile_scope skips (lambda,
   nested defs, captured variables).  No proofs in this file. *)
From Coq Require Import ZArith String List Bool.
From SV Require Import C01.Syntax C01.Values C01.Ref C01.VM C01.Compile C01.Tie C01.CompileClos.
Import ListNotations.
Open Scope string_scope.
Open Scope list_scope.
Open Scope nat_scope.

Definition prep3 (p : program) : program := number_prog (fold_prog p).

(* does the generator cover the program?  (no UNSUPPORTED instruction anywhere, every MAKEFUNC target compiled) *)
Definition in_compile_scope3 (p : program) : bool :=
  let cp := compile_prog3 (prep3 p) in
  let ok_code (c : list insn) :=
    forallb (fun i => match i with
                      | UNSUPPORTED _ => false
                      | MAKEFUNC f => match find_code (cp_funs cp) f with Some _ => true | None => false end
                      | _ => true end) c in
  ok_code (fc_code (cp_top cp)) && forallb (fun d => ok_code (fc_code (snd d))) (cp_funs cp).

(* the capture of a cell (LOCAL emitted by fcomp.function) carries no position of its own in the real
   line table: compare LOCAL instructions by slot only when the positions differ *)
Definition strip_pos_local (c : list insn) : list insn :=
  map (fun i => match i with LOCAL k _ => LOCAL k (0, 0) | _ => i end) c.

Definition code_equiv3 (real model : list insn) : option (nat * nat) :=
  match cfg_equiv real model with
  | None => None
  | Some _ => cfg_equiv (strip_pos_local real) (strip_pos_local model)
  end.

(* (a3) *)
Definition codegen_check3 (p0 : program) (top : realfun) (funs : list realfun) (globals : list string) : string :=
  let p := prep3 p0 in
  let cp := compile_prog3 p in
  if negb (strs_eqb globals (global_names p)) then "globals-layout" else
  if negb (strs_eqb (rf_locals top) (map unmangle (layout_top p))) then "toplevel-locals-layout" else
  if negb (nats_eqb (fc_cells (rf_code top)) (fc_cells (cp_top cp))) then "cells:<toplevel>" else
  match code_equiv3 (fc_code (rf_code top)) (fc_code (cp_top cp)) with
  | Some (a, b) => ("code:<toplevel>@" ++ zstr (Z.of_nat a) ++ "/" ++ zstr (Z.of_nat b))%string
  | None =>
      (fix each (l : list (nat * funcode)) : string :=
         match l with
         | [] => "ok"
         | (fid, fc) :: r =>
             match find (fun rf => Nat.eqb (rf_id rf) fid) funs with
             | None => "missing-function"
             | Some rf =>
                 match find_def p fid with
                 | None => "missing-function"
                 | Some (fd, _) =>
                     if negb (strs_eqb (rf_locals rf) (map unmangle (layout fd))) then ("locals-layout:" ++ fc_name fc)%string else
                     if negb (nats_eqb (fc_cells (rf_code rf)) (fc_cells fc)) then ("cells:" ++ fc_name fc)%string else
                     if negb (strs_eqb (fc_free (rf_code rf)) (fc_free fc)) then ("freevars:" ++ fc_name fc)%string else
                     match code_equiv3 (fc_code (rf_code rf)) (fc_code fc) with
                     | Some (a, b) => ("code:" ++ fc_name fc ++ "@" ++ zstr (Z.of_nat a) ++ "/" ++ zstr (Z.of_nat b))%string
                     | None => each r
                     end
                 end
             end
         end) (cp_funs cp)
  end.

(* (d3): the model compiler with closures + model machine against the real pipeline (end to end) *)
Definition compiled_check3 (p : program) (tr : list event) (x : expect) : string :=
  compare_obs (fname p) (global_names p) (observe_vm (run_compiled3 p vm_fuel)) tr x.

Definition compiled_check_calls3 (p : program) (calls : list hcall) (tr : list event) (x : expect) : string :=
  let cp := compile_prog3 (prep3 p) in
  compare_obs (fname p) (global_names p)
    (observe_vm (vm_with_calls cp (fname p) (global_names p) calls (run_compiled3 p vm_fuel))) tr x.
