(* C01 -- reference semantics: a fuelled big-step evaluator over NAMES, written
   from doc/spec.md ("Name binding and variables", "Expressions", "Statements",
   "Functions").  It never mentions slots, bytecode or the stack.

   Rules taken from the specification:
   * a name is local to a function iff the function binds it anywhere (parameter,
     assignment, augmented assignment, for-loop variable, def); otherwise it is
     global if the module binds it anywhere at top level, else predeclared, else
     universal; uses before the binding are dynamic errors;
   * load binds file-local names; comprehension variables are local to the
     comprehension block, the first iterable is evaluated outside the block;
   * closures capture VARIABLES: a variable that a nested function mentions lives
     in a cell shared by the outer activation and every closure over it;
   * operands, call arguments, display elements are evaluated left to right;
     `and`, `or`, the conditional expression evaluate only what they need and
     yield the operand itself; `x op= y` evaluates the address of x once;
   * default values are evaluated when the def / lambda is executed.
   No proofs in this file. *)
From Coq Require Import ZArith String List Bool.
From SV Require Import C01.Syntax C01.Values.
Import ListNotations.
Open Scope string_scope.

(* ---------------------------------------------------------------- static name analysis *)
Definition add_new (x : string) (l : list string) : list string :=
  if str_in x l then l else (l ++ [x])%list.
Definition add_all (xs l : list string) : list string := fold_left (fun acc x => add_new x acc) xs l.

Fixpoint target_names (t : target) : list string :=
  match t with
  | TName x _ => [x]
  | TIndex _ _ _ | TDot _ _ _ => []
  | TSeq ts => flat_map target_names ts
  end.

(* names bound by a statement in its own block (not inside nested functions or comprehensions) *)
Fixpoint stmt_binds (s : stmt) : list string :=
  match s with
  | SAssign t _ _ | SAug _ t _ _ => target_names t
  | SIf _ tb fb => (flat_map stmt_binds tb ++ flat_map stmt_binds fb)%list
  | SWhile _ b => flat_map stmt_binds b
  | SFor t _ b _ => (target_names t ++ flat_map stmt_binds b)%list
  | SDef _ name _ _ _ => [name]
  | _ => []
  end.

Definition load_binds (s : stmt) : list string :=
  match s with SLoad _ names _ => map fst names | _ => [] end.

Definition global_names (p : program) : list string := add_all (flat_map stmt_binds (p_body p)) [].
Definition file_names (p : program) : list string := add_all (flat_map load_binds (p_body p)) [].
Definition locals_of (fd : fundef) : list string :=
  add_all (flat_map stmt_binds (fd_body fd)) (add_all (param_names (fd_params fd)) []).

(* nm inn e: the names occurring in e; with inn = false only those inside nested lambdas *)
Fixpoint nm_expr (inn : bool) (e : expr) {struct e} : list string :=
  match e with
  | EName x _ => if inn then [x] else []
  | EInt _ | EStr _ | EUnsup _ => []
  | EParen e | EUnary _ _ e | EDot e _ _ => nm_expr inn e
  | EBinary _ _ x y | EAnd x y | EOr x y | EIndex x y _ => (nm_expr inn x ++ nm_expr inn y)%list
  | ECond c t f => (nm_expr inn c ++ nm_expr inn t ++ nm_expr inn f)%list
  | ETuple es | EList es => flat_map (nm_expr inn) es
  | EDict kvs => flat_map (fun kv => (nm_expr inn (fst (fst kv)) ++ nm_expr inn (snd (fst kv)))%list) kvs
  | ECall fn args _ =>
      (nm_expr inn fn ++ flat_map (fun a => match a with APos e | ANamed _ e | AStar e | AStarStar e => nm_expr inn e end) args)%list
  | ELambda _ ps body _ =>
      (flat_map (fun q => match q with PDefault _ e => nm_expr inn e | _ => [] end) ps ++ nm_expr true body)%list
  | EComp _ b bv _ cls _ =>
      (nm_expr inn b ++ nm_expr inn bv ++
       flat_map (fun c => match c with
                          | CFor t e _ => (nm_target inn t ++ nm_expr inn e)%list
                          | CIf c => nm_expr inn c end) cls)%list
  | ESlice x lo hi st _ =>
      let o (e : option expr) := match e with Some e => nm_expr inn e | None => [] end in
      (nm_expr inn x ++ o lo ++ o hi ++ o st)%list
  end
with nm_target (inn : bool) (t : target) {struct t} : list string :=
  match t with
  | TName x _ => if inn then [x] else []
  | TIndex x y _ => (nm_expr inn x ++ nm_expr inn y)%list
  | TDot x _ _ => nm_expr inn x
  | TSeq ts => flat_map (nm_target inn) ts
  end.

Fixpoint nm_stmt (inn : bool) (s : stmt) {struct s} : list string :=
  match s with
  | SExpr e => nm_expr inn e
  | SAssign t e _ | SAug _ t e _ => (nm_expr inn e ++ nm_target inn t)%list
  | SIf c tb fb => (nm_expr inn c ++ flat_map (nm_stmt inn) tb ++ flat_map (nm_stmt inn) fb)%list
  | SWhile c b => (nm_expr inn c ++ flat_map (nm_stmt inn) b)%list
  | SFor t e b _ => (nm_expr inn e ++ nm_target inn t ++ flat_map (nm_stmt inn) b)%list
  | SReturn (Some e) => nm_expr inn e
  | SDef _ _ ps body _ =>
      (flat_map (fun q => match q with PDefault _ e => nm_expr inn e | _ => [] end) ps ++ flat_map (nm_stmt true) body)%list
  | _ => []
  end.

(* names mentioned by functions nested in a body: those variables live in cells *)
Definition boxed_names (body : list stmt) : list string := flat_map (nm_stmt false) body.
(* every name mentioned inside a function (its own body and nested ones) *)
Definition mentioned (ps : list param) (body : list stmt) : list string :=
  (flat_map (nm_stmt true) body)%list.

(* variables bound by the for clauses of one comprehension *)
Definition comp_vars (cls : list clause) : list string :=
  add_all (flat_map (fun c => match c with CFor t _ _ => target_names t | CIf _ => [] end) cls) [].

Definition lambda_def (ps : list param) (body : expr) (pp : pos) : fundef :=
  {| fd_name := "lambda"; fd_params := ps; fd_body := [SReturn (Some body)]; fd_pos := pp |}.

(* find_def: the definition with a given id together with the names bound by
   the blocks that lexically enclose it (enclosing functions, comprehensions and
   the file block) -- the only variables a closure over it may capture *)
Fixpoint fd_expr (fid : nat) (encl : list string) (e : expr) {struct e} : option (fundef * list string) :=
  let dflts ps := first_some (fun q => match q with PDefault _ d => fd_expr fid encl d | _ => None end) ps in
  match e with
  | EName _ _ | EInt _ | EStr _ | EUnsup _ => None
  | EParen e | EUnary _ _ e | EDot e _ _ => fd_expr fid encl e
  | EBinary _ _ x y | EAnd x y | EOr x y | EIndex x y _ =>
      match fd_expr fid encl x with Some d => Some d | None => fd_expr fid encl y end
  | ECond c t f =>
      match fd_expr fid encl c with Some d => Some d | None =>
      match fd_expr fid encl t with Some d => Some d | None => fd_expr fid encl f end end
  | ETuple es | EList es => first_some (fd_expr fid encl) es
  | EDict kvs => first_some (fun kv => match fd_expr fid encl (fst (fst kv)) with Some d => Some d
                                       | None => fd_expr fid encl (snd (fst kv)) end) kvs
  | ECall f args _ =>
      match fd_expr fid encl f with Some d => Some d | None =>
        first_some (fun a => match a with APos e | ANamed _ e | AStar e | AStarStar e => fd_expr fid encl e end) args end
  | ELambda id ps body pp =>
      if Nat.eqb id fid then Some (lambda_def ps body pp, encl)
      else match dflts ps with
           | Some d => Some d
           | None => fd_expr fid (encl ++ param_names ps)%list body end
  | EComp _ b bv _ cls _ =>
      let encl' := (encl ++ comp_vars cls)%list in
      match fd_expr fid encl' b with Some d => Some d | None =>
      match fd_expr fid encl' bv with Some d => Some d | None =>
        first_some (fun c => match c with
                             | CFor t e _ => match fd_target fid encl' t with Some d => Some d | None => fd_expr fid encl' e end
                             | CIf c => fd_expr fid encl' c end) cls end end
  | ESlice x lo hi st _ =>
      let o (e : option expr) := match e with Some e => fd_expr fid encl e | None => None end in
      match fd_expr fid encl x with Some d => Some d | None =>
      match o lo with Some d => Some d | None =>
      match o hi with Some d => Some d | None => o st end end end
  end
with fd_target (fid : nat) (encl : list string) (t : target) {struct t} : option (fundef * list string) :=
  match t with
  | TName _ _ => None
  | TIndex x y _ => match fd_expr fid encl x with Some d => Some d | None => fd_expr fid encl y end
  | TDot x _ _ => fd_expr fid encl x
  | TSeq ts => first_some (fd_target fid encl) ts
  end.

Fixpoint fd_stmt (fid : nat) (encl : list string) (s : stmt) {struct s} : option (fundef * list string) :=
  match s with
  | SExpr e => fd_expr fid encl e
  | SAssign t e _ | SAug _ t e _ =>
      match fd_expr fid encl e with Some d => Some d | None => fd_target fid encl t end
  | SIf c tb fb =>
      match fd_expr fid encl c with Some d => Some d | None =>
      match first_some (fd_stmt fid encl) tb with Some d => Some d | None => first_some (fd_stmt fid encl) fb end end
  | SWhile c b => match fd_expr fid encl c with Some d => Some d | None => first_some (fd_stmt fid encl) b end
  | SFor t e b _ =>
      match fd_expr fid encl e with Some d => Some d | None =>
      match fd_target fid encl t with Some d => Some d | None => first_some (fd_stmt fid encl) b end end
  | SBreak | SContinue | SPass | SLoad _ _ _ | SUnsup _ | SReturn None => None
  | SReturn (Some e) => fd_expr fid encl e
  | SDef id name ps body pp =>
      let fd := {| fd_name := name; fd_params := ps; fd_body := body; fd_pos := pp |} in
      if Nat.eqb id fid then Some (fd, encl)
      else match first_some (fun q => match q with PDefault _ d => fd_expr fid encl d | _ => None end) ps with
           | Some d => Some d
           | None => first_some (fd_stmt fid (encl ++ locals_of fd)%list) body end
  end.

Definition find_def (p : program) (fid : nat) : option (fundef * list string) :=
  first_some (fd_stmt fid (file_names p)) (p_body p).

(* ---------------------------------------------------------------- results *)

Inductive res (A : Type) :=
| Ok (a : A)
| Fail (p : pos) (incall : bool) (w : world)   (* dynamic error at the operation at p; incall: raised while binding the callee's parameters *)
| Oof                                          (* fuel exhausted: no claim *)
| Unsup (tag : string).                        (* outside the modelled language / library *)
Arguments Ok {A}. Arguments Fail {A}. Arguments Oof {A}. Arguments Unsup {A}.

Notation "'do' x <- a ; b" :=
  (match a with Ok x => b | Fail p_ i_ w_ => Fail p_ i_ w_ | Oof => Oof | Unsup t_ => Unsup t_ end)
  (at level 200, x pattern, a at level 100, b at level 200).

Definition lift {A} (r : pres A) (p : pos) (w : world) : res A :=
  match r with POk a => Ok a | PErr => Fail p false w | PUnsup t => Unsup t end.
Definition lift_call {A} (r : pres A) (p : pos) (w : world) : res A :=
  match r with POk a => Ok a | PErr => Fail p true w | PUnsup t => Unsup t end.

Inductive slot := Direct (v : option value) | Boxed (c : nat).
Definition env := list (string * slot).

Inductive outcome := ONormal | OBreak | OContinue | OReturn (v : value).

Record rst := { rg : genv; rw : world }.
Definition with_w (s : rst) (w : world) : rst := {| rg := rg s; rw := w |}.

Section Ref.
  Variable p : program.

  Definition fname (fid : nat) : string :=
    match find_def p fid with Some d => fd_name (fst d) | None => "?" end.

  Definition gidx (x : string) : option nat := index_of x (global_names p).

  Definition lookup (ρ : env) (x : string) (ps : pos) (s : rst) : res value :=
    match assoc x ρ with
    | Some (Direct (Some v)) => Ok v
    | Some (Direct None) => Fail ps false (rw s)
    | Some (Boxed c) => match get_cell (rw s) c with Some v => Ok v | None => Fail ps false (rw s) end
    | None =>
        match gidx x with
        | Some i => match nth_error (rg s) i with Some (Some v) => Ok v | _ => Fail ps false (rw s) end
        | None => if str_in x predeclared_names then Ok (VBuiltin x)
                  else match universal x with Some v => Ok v | None => Unsup "static:undefined" end
        end
    end.

  Definition set_var (ρ : env) (x : string) (v : value) (s : rst) : res (env * rst) :=
    match assoc x ρ with
    | Some (Direct _) => Ok (assoc_set x (Direct (Some v)) ρ, s)
    | Some (Boxed c) => Ok (ρ, with_w s (set_cell (rw s) c v))
    | None => match gidx x with
              | Some i => Ok (ρ, {| rg := upd_nth i (Some v) (rg s); rw := rw s |})
              | None => Unsup "static:unbound-assignment"
              end
    end.

  (* fresh variables for the names xs; those in boxed get a cell *)
  Fixpoint new_vars (xs : list string) (init : list (option value)) (boxed : list string) (w : world) : env * world :=
    match xs with
    | [] => ([], w)
    | x :: r =>
        let v := match init with v :: _ => v | [] => None end in
        let init' := match init with _ :: t => t | [] => [] end in
        if str_in x boxed then
          let '(c, w1) := alloc_cell v w in
          let '(ρ, w2) := new_vars r init' boxed w1 in ((x, Boxed c) :: ρ, w2)
        else
          let '(ρ, w2) := new_vars r init' boxed w in ((x, Direct v) :: ρ, w2)
    end.

  (* the cells of the enclosing environment that a nested function mentions *)
  Definition capture (ρ : env) (names : list string) : list (string * nat) :=
    flat_map (fun x => match assoc x ρ with Some (Boxed c) => [(x, c)] | _ => [] end) (add_all names []).

  Definition apply_aug (o : binop) (x y : value) (w : world) : pres (value * world) :=
    match o with
    | Add => inplace_add x y w
    | BitOr => inplace_pipe x y w
    | _ => binary o x y w
    end.

  Fixpoint eval (n : nat) (stk : list nat) (ρ : env) (e : expr) (s : rst) {struct n} : res (value * rst) :=
    match n with O => Oof | S n =>
    match e with
    | EName x ps => do v <- lookup ρ x ps s; Ok (v, s)
    | EInt z => Ok (VInt z, s)
    | EStr t => Ok (VStr t, s)
    | EUnsup t => Unsup t
    | EParen e => eval n stk ρ e s
    | EUnary UNot _ e => do (v, s1) <- eval n stk ρ e s; Ok (VBool (negb (truth v (rw s1))), s1)
    | EUnary o ps e => do (v, s1) <- eval n stk ρ e s; do r <- lift (unary o v) ps (rw s1); Ok (r, s1)
    | EBinary o ps x y =>
        do (vx, s1) <- eval n stk ρ x s;
        do (vy, s2) <- eval n stk ρ y s1;
        do (r, w) <- lift (binary o vx vy (rw s2)) ps (rw s2);
        Ok (r, with_w s2 w)
    | EAnd x y => do (vx, s1) <- eval n stk ρ x s; if truth vx (rw s1) then eval n stk ρ y s1 else Ok (vx, s1)
    | EOr x y => do (vx, s1) <- eval n stk ρ x s; if truth vx (rw s1) then Ok (vx, s1) else eval n stk ρ y s1
    | ECond c t f => do (vc, s1) <- eval n stk ρ c s; if truth vc (rw s1) then eval n stk ρ t s1 else eval n stk ρ f s1
    | ETuple es => do (vs, s1) <- evals n stk ρ es s; Ok (VTuple vs, s1)
    | EList es => do (vs, s1) <- evals n stk ρ es s; let '(v, w) := alloc_list vs (rw s1) in Ok (v, with_w s1 w)
    | EDict kvs => let '(d, w) := alloc_dict [] (rw s) in
                   do s1 <- eval_entries n stk ρ d kvs (with_w s w); Ok (d, s1)
    | EIndex x y ps =>
        do (vx, s1) <- eval n stk ρ x s;
        do (vy, s2) <- eval n stk ρ y s1;
        do r <- lift (index_get vx vy (rw s2)) ps (rw s2); Ok (r, s2)
    | EDot x name ps => do (vx, s1) <- eval n stk ρ x s; do r <- lift (getattr vx name (rw s1)) ps (rw s1); Ok (r, s1)
    | ECall fn args ps =>
        do (vf, s1) <- eval n stk ρ fn s;
        do (a, s2) <- eval_args n stk ρ args [] [] None None s1;
        let '(pos_, named, star, starstar) := a in
        (* **kwargs must be a mapping with string keys, *args an iterable *)
        do kw2 <- lift (starstar_args starstar (rw s2)) ps (rw s2);
        do pos2 <- lift (star_args star (rw s2)) ps (rw s2);
        call n stk vf (pos_ ++ pos2)%list (named ++ kw2)%list ps s2
    | ELambda fid ps body _ =>
        do (ds, s1) <- eval_defaults n stk ρ ps false s;
        match find_def p fid with
        | None => Unsup "internal:function-id"
        | Some _ => Ok (VFun fid ds (capture ρ (mentioned ps [SReturn (Some body)])), s1)
        end
    | EComp curly body bodyv cp cls _ as e0 =>
        match cls with
        | CFor t e ps :: rest =>
            let '(acc, w0) := if curly then alloc_dict [] (rw s) else alloc_list [] (rw s) in
            do (v0, s1) <- eval n stk ρ e (with_w s w0);
            let '(ρc, w1) := new_vars (comp_vars cls) [] (nm_expr false e0) (rw s1) in
            do (_, s2) <- comp n stk (ρc ++ ρ)%list (Some v0) cls acc curly body bodyv cp (with_w s1 w1);
            Ok (acc, s2)
        | _ => Unsup "static:comprehension"
        end
    | ESlice x lo hi st ps =>
        let opt (e : option expr) (s : rst) : res (value * rst) :=
          match e with Some e => eval n stk ρ e s | None => Ok (VNone, s) end in
        do (vx, s1) <- eval n stk ρ x s;
        do (vlo, s2) <- opt lo s1;
        do (vhi, s3) <- opt hi s2;
        do (vst, s4) <- opt st s3;
        do (r, w) <- lift (slice_op vx vlo vhi vst (rw s4)) ps (rw s4);
        Ok (r, with_w s4 w)
    end end

  with evals (n : nat) (stk : list nat) (ρ : env) (es : list expr) (s : rst) {struct n} : res (list value * rst) :=
    match n with O => Oof | S n =>
    match es with
    | [] => Ok ([], s)
    | e :: r => do (v, s1) <- eval n stk ρ e s; do (vs, s2) <- evals n stk ρ r s1; Ok (v :: vs, s2)
    end end

  with eval_entries (n : nat) (stk : list nat) (ρ : env) (d : value) (kvs : list (expr * expr * pos)) (s : rst) {struct n} : res rst :=
    match n with O => Oof | S n =>
    match kvs with
    | [] => Ok s
    | (k, v, cp) :: r =>
        do (vk, s1) <- eval n stk ρ k s;
        do (vv, s2) <- eval n stk ρ v s1;
        (* duplicate keys in a dict display are an error *)
        do present <- lift (index_get_opt d vk (rw s2)) cp (rw s2);
        if (present : bool) then Fail cp false (rw s2) else
        do w <- lift (index_set d vk vv (rw s2)) cp (rw s2);
        eval_entries n stk ρ d r (with_w s2 w)
    end end

  with eval_args (n : nat) (stk : list nat) (ρ : env) (args : list arg) (pos_ : list value) (named : list (string * value))
                 (star starstar : option value) (s : rst) {struct n}
       : res (list value * list (string * value) * option value * option value * rst) :=
    match n with O => Oof | S n =>
    match args with
    | [] => Ok (pos_, named, star, starstar, s)
    | APos e :: r => do (v, s1) <- eval n stk ρ e s; eval_args n stk ρ r (pos_ ++ [v])%list named star starstar s1
    | ANamed k e :: r => do (v, s1) <- eval n stk ρ e s; eval_args n stk ρ r pos_ (named ++ [(k, v)])%list star starstar s1
    | AStar e :: r => do (v, s1) <- eval n stk ρ e s; eval_args n stk ρ r pos_ named (Some v) starstar s1
    | AStarStar e :: r => do (v, s1) <- eval n stk ρ e s; eval_args n stk ρ r pos_ named star (Some v) s1
    end end

  with eval_defaults (n : nat) (stk : list nat) (ρ : env) (ps : list param) (seen_star : bool) (s : rst) {struct n} : res (list value * rst) :=
    match n with O => Oof | S n =>
    match ps with
    | [] => Ok ([], s)
    | PDefault _ e :: r => do (v, s1) <- eval n stk ρ e s; do (vs, s2) <- eval_defaults n stk ρ r seen_star s1; Ok (v :: vs, s2)
    | PPlain _ :: r => do (vs, s1) <- eval_defaults n stk ρ r seen_star s;
                       Ok (if seen_star then VMandatory :: vs else vs, s1)
    | PStar _ :: r | PStarStar _ :: r => eval_defaults n stk ρ r true s
    end end

  (* the clauses of a comprehension act like nested for / if statements *)
  with comp (n : nat) (stk : list nat) (ρ : env) (first : option value) (cls : list clause) (acc : value) (curly : bool)
            (body bodyv : expr) (cp : pos) (s : rst) {struct n} : res (env * rst) :=
    match n with O => Oof | S n =>
    match cls with
    | [] =>
        if curly then
          do (vk, s1) <- eval n stk ρ body s;
          do (vv, s2) <- eval n stk ρ bodyv s1;
          do w <- lift (index_set acc vk vv (rw s2)) cp (rw s2);
          Ok (ρ, with_w s2 w)
        else
          do (v, s1) <- eval n stk ρ body s;
          match acc with
          | VRef a => match get_obj (rw s1) a with
                      | Some (OList vs k) => Ok (ρ, with_w s1 (put_obj (rw s1) a (OList (vs ++ [v]) k)))
                      | _ => Unsup "internal:accumulator" end
          | _ => Unsup "internal:accumulator"
          end
    | CIf c :: r =>
        do (vc, s1) <- eval n stk ρ c s;
        if truth vc (rw s1) then comp n stk ρ None r acc curly body bodyv cp s1 else Ok (ρ, s1)
    | CFor t e ps :: r =>
        do (v, s1) <- (match first with Some v => Ok (v, s) | None => eval n stk ρ e s end);
        do (it, w1) <- lift (iterate v (rw s1)) ps (rw s1);
        let '(vs, lock) := it in
        do (ρ2, s2) <- comp_loop n stk ρ t ps vs r acc curly body bodyv cp (with_w s1 w1);
        Ok (ρ2, with_w s2 (release lock (rw s2)))
    end end

  with comp_loop (n : nat) (stk : list nat) (ρ : env) (t : target) (ps : pos) (vs : list value) (r : list clause)
                 (acc : value) (curly : bool) (body bodyv : expr) (cp : pos) (s : rst) {struct n} : res (env * rst) :=
    match n with O => Oof | S n =>
    match vs with
    | [] => Ok (ρ, s)
    | v :: vs' =>
        do (ρ1, s1) <- assign n stk ρ t v ps s;
        do (ρ2, s2) <- comp n stk ρ1 None r acc curly body bodyv cp s1;
        comp_loop n stk ρ2 t ps vs' r acc curly body bodyv cp s2
    end end

  with assign (n : nat) (stk : list nat) (ρ : env) (t : target) (v : value) (ps : pos) (s : rst) {struct n} : res (env * rst) :=
    match n with O => Oof | S n =>
    match t with
    | TName x _ => set_var ρ x v s
    | TIndex x y pi =>
        do (vx, s1) <- eval n stk ρ x s;
        do (vy, s2) <- eval n stk ρ y s1;
        do w <- lift (index_set vx vy v (rw s2)) pi (rw s2);
        Ok (ρ, with_w s2 w)
    | TDot x _ pd => do (vx, s1) <- eval n stk ρ x s; Fail pd false (rw s1)   (* no value of this model has assignable fields *)
    | TSeq ts =>
        do vs <- lift (unpack (length ts) v (rw s)) ps (rw s);
        assign_seq n stk ρ ts vs ps s
    end end

  with assign_seq (n : nat) (stk : list nat) (ρ : env) (ts : list target) (vs : list value) (ps : pos) (s : rst) {struct n} : res (env * rst) :=
    match n with O => Oof | S n =>
    match ts, vs with
    | t :: ts', v :: vs' => do (ρ1, s1) <- assign n stk ρ t v ps s; assign_seq n stk ρ1 ts' vs' ps s1
    | _, _ => Ok (ρ, s)
    end end

  with call (n : nat) (stk : list nat) (f : value) (args : list value) (kwargs : list (string * value)) (ps : pos) (s : rst) {struct n}
       : res (value * rst) :=
    match n with O => Oof | S n =>
    match f with
    | VBuiltin name => do (r, w) <- lift (call_builtin fname name None args kwargs (rw s)) ps (rw s); Ok (r, with_w s w)
    | VMethod name recv => do (r, w) <- lift (call_builtin fname name (Some recv) args kwargs (rw s)) ps (rw s); Ok (r, with_w s w)
    | VFun fid defaults free =>
        match find_def p fid with
        | None => Unsup "internal:function-id"
        | Some (fd, encl) =>
            if negb (o_recursion (p_opts p)) && existsb (Nat.eqb fid) stk then Fail ps true (rw s) else
            do (params, w1) <- lift_call (bind_args (fd_params fd) defaults args kwargs (rw s)) ps (rw s);
            let '(ρl, w2) := new_vars (locals_of fd) (map Some params) (boxed_names (fd_body fd)) w1 in
            (* a closure can only hold variables of lexically enclosing blocks *)
            let free' := filter (fun xc => str_in (fst xc) encl) free in
            let ρ := (ρl ++ map (fun xc => (fst xc, Boxed (snd xc))) free')%list in
            do (o, s1) <- exec_block n (fid :: stk) ρ (fd_body fd) (with_w s w2);
            let '(out, _) := o in
            match out with
            | OReturn v => Ok (v, s1)
            | ONormal => Ok (VNone, s1)
            | _ => Unsup "static:break-outside-loop"
            end
        end
    | _ => Fail ps false (rw s)
    end end

  with exec (n : nat) (stk : list nat) (ρ : env) (st : stmt) (s : rst) {struct n} : res (outcome * env * rst) :=
    match n with O => Oof | S n =>
    match st with
    | SExpr e => do (_, s1) <- eval n stk ρ e s; Ok (ONormal, ρ, s1)
    | SAssign t e ps =>
        do (v, s1) <- eval n stk ρ e s;
        do (ρ1, s2) <- assign n stk ρ t v ps s1; Ok (ONormal, ρ1, s2)
    | SAug o t e ps =>
        match t with
        | TName x px =>
            do vx <- lookup ρ x px s;
            do (ve, s1) <- eval n stk ρ e s;
            do (r, w) <- lift (apply_aug o vx ve (rw s1)) ps (rw s1);
            do (ρ1, s2) <- set_var ρ x r (with_w s1 w); Ok (ONormal, ρ1, s2)
        | TIndex x y pi =>
            do (vx, s1) <- eval n stk ρ x s;
            do (vy, s2) <- eval n stk ρ y s1;
            do old <- lift (index_get vx vy (rw s2)) pi (rw s2);
            do (ve, s3) <- eval n stk ρ e s2;
            do (r, w) <- lift (apply_aug o old ve (rw s3)) ps (rw s3);
            do w' <- lift (index_set vx vy r w) pi w;
            Ok (ONormal, ρ, with_w s3 w')
        | TDot x name pd =>
            do (vx, s1) <- eval n stk ρ x s;
            do old <- lift (getattr vx name (rw s1)) pd (rw s1);
            do (ve, s2) <- eval n stk ρ e s1;
            do (r, w) <- lift (apply_aug o old ve (rw s2)) ps (rw s2);
            Fail pd false w
        | TSeq _ => Unsup "static:augmented-sequence"
        end
    | SIf c tb fb =>
        do (vc, s1) <- eval n stk ρ c s;
        if truth vc (rw s1) then exec_block n stk ρ tb s1 else exec_block n stk ρ fb s1
    | SWhile c body => exec_while n stk ρ c body s
    | SFor t e body ps =>
        do (v, s1) <- eval n stk ρ e s;
        do (it, w1) <- lift (iterate v (rw s1)) ps (rw s1);
        let '(vs, lock) := it in
        do (o, s2) <- exec_for n stk ρ t ps vs body (with_w s1 w1);
        let '(out, ρ2) := o in
        Ok (out, ρ2, with_w s2 (release lock (rw s2)))
    | SBreak => Ok (OBreak, ρ, s)
    | SContinue => Ok (OContinue, ρ, s)
    | SPass => Ok (ONormal, ρ, s)
    | SReturn None => Ok (OReturn VNone, ρ, s)
    | SReturn (Some e) => do (v, s1) <- eval n stk ρ e s; Ok (OReturn v, ρ, s1)
    | SDef fid name ps body _ =>
        do (ds, s1) <- eval_defaults n stk ρ ps false s;
        match find_def p fid with
        | None => Unsup "internal:function-id"
        | Some _ =>
            do (ρ1, s2) <- set_var ρ name (VFun fid ds (capture ρ (mentioned ps body))) s1;
            Ok (ONormal, ρ1, s2)
        end
    | SLoad m names ps =>
        match load_module m with
        | None => Fail ps false (rw s)
        | Some vals =>
            (fix bind_all (l : list (string * string)) (ρ : env) (s : rst) : res (outcome * env * rst) :=
               match l with
               | [] => Ok (ONormal, ρ, s)
               | (to, from) :: r =>
                   match assoc from vals with
                   | None => Fail ps false (rw s)
                   | Some v => do (ρ1, s1) <- set_var ρ to v s; bind_all r ρ1 s1
                   end
               end) names ρ s
        end
    | SUnsup t => Unsup t
    end end

  with exec_block (n : nat) (stk : list nat) (ρ : env) (ss : list stmt) (s : rst) {struct n} : res (outcome * env * rst) :=
    match n with O => Oof | S n =>
    match ss with
    | [] => Ok (ONormal, ρ, s)
    | st :: r =>
        do (o, s1) <- exec n stk ρ st s;
        let '(out, ρ1) := o in
        match out with
        | ONormal => exec_block n stk ρ1 r s1
        | _ => Ok (out, ρ1, s1)
        end
    end end

  with exec_while (n : nat) (stk : list nat) (ρ : env) (c : expr) (body : list stmt) (s : rst) {struct n} : res (outcome * env * rst) :=
    match n with O => Oof | S n =>
      do (vc, s1) <- eval n stk ρ c s;
      if truth vc (rw s1) then
        do (o, s2) <- exec_block n stk ρ body s1;
        let '(out, ρ2) := o in
        match out with
        | OBreak => Ok (ONormal, ρ2, s2)
        | OReturn v => Ok (OReturn v, ρ2, s2)
        | _ => exec_while n stk ρ2 c body s2
        end
      else Ok (ONormal, ρ, s1)
    end

  with exec_for (n : nat) (stk : list nat) (ρ : env) (t : target) (ps : pos) (vs : list value) (body : list stmt) (s : rst) {struct n}
       : res (outcome * env * rst) :=
    match n with O => Oof | S n =>
    match vs with
    | [] => Ok (ONormal, ρ, s)
    | v :: vs' =>
        do (ρ1, s1) <- assign n stk ρ t v ps s;
        do (o, s2) <- exec_block n stk ρ1 body s1;
        let '(out, ρ2) := o in
        match out with
        | OBreak => Ok (ONormal, ρ2, s2)
        | OReturn r => Ok (OReturn r, ρ2, s2)
        | _ => exec_for n stk ρ2 t ps vs' body s2
        end
    end end.

  (* ---------------------------------------------------------------- whole module *)
  Definition init_rst : rst := {| rg := repeat None (length (global_names p)); rw := empty_world |}.

  Definition run_module (n : nat) : res rst :=
    let '(ρ0, w0) := new_vars (file_names p) [] (boxed_names (p_body p)) empty_world in
    do (o, s) <- exec_block n [] ρ0 (p_body p) (with_w init_rst w0);
    match fst o with
    | OBreak | OContinue => Unsup "static:break-outside-loop"
    | _ => Ok s
    end.

  (* ---------------------------------------------------------------- entries through the host API
     After initialisation the host may call a global function directly (starlark.Call on an idle
     thread): the function's activation is then the outermost one.  The result is recorded as a
     host-visible effect, like a call of trace("<result>", v). *)
  Definition result_event (w : world) (v : value) : option event :=
    match repr fname deep_fuel w (VStr "<result>"), repr fname deep_fuel w v with
    | Some a, Some b => Some ([a; b], [])
    | _, _ => None
    end.

  Fixpoint run_calls (n : nat) (calls : list (string * list value)) (s : rst) : res rst :=
    match calls with
    | [] => Ok s
    | (f, args) :: r =>
        match gidx f with
        | Some i =>
            match nth_error (rg s) i with
            | Some (Some fv) =>
                do (v, s1) <- call n [] fv args [] (0, 0)%nat s;
                match result_event (rw s1) v with
                | Some ev => run_calls n r (with_w s1 (add_event ev (rw s1)))
                | None => Unsup "render"
                end
            | _ => Unsup "host-call:no-such-global"
            end
        | None => Unsup "host-call:no-such-global"
        end
    end.

  Definition run_module_calls (n : nat) (calls : list (string * list value)) : res rst :=
    do s <- run_module n;
    match calls with
    | [] => Ok s
    | _ => run_calls n calls {| rg := rg s; rw := freeze_all (rw s) |}
    end.
End Ref.

Definition observe_ref (r : res rst) : observation :=
  match r with
  | Ok s => {| ob_trace := trace (rw s); ob_heap := heap (rw s); ob_cells := cells (rw s); ob_verdict := Success (rg s) |}
  | Fail ps i w => {| ob_trace := trace w; ob_heap := []; ob_cells := []; ob_verdict := Failure ps i |}
  | Oof => {| ob_trace := []; ob_heap := []; ob_cells := []; ob_verdict := OutOfFuel |}
  | Unsup t => {| ob_trace := []; ob_heap := []; ob_cells := []; ob_verdict := Unsupported t |}
  end.
