(* C01 -- the code generator extended to LAMBDA expressions and CLOSURES
   (milestone 3).  Compile.v stops at `ELambda => UNSUPPORTED "compile:lambda"`
   and compiles every function with fc_cells = fc_free = []; this file mirrors
   what resolve.go / compile.go do for nested functions:

   * resolve.go lookupLexical: a use of x inside a function that does not bind
     x is looked up in the enclosing blocks; when it is found in an enclosing
     FUNCTION the name becomes a free variable of every function in between
     (appended to Function.FreeVars in the order of the uses) and the local of
     the owner becomes a Cell;
   * compile.go fcomp.lookup / fcomp.set: Local -> LOCAL / SETLOCAL,
     Cell -> LOCALCELL / SETLOCALCELL, Free -> FREECELL;
   * compile.go fcomp.function: defaults, then for every free variable of the
     new function the CELL itself (LOCAL i for a cell of the creator, FREE j
     for a free variable of the creator), MAKETUPLE (ndefaults + nfree),
     MAKEFUNC; Funcode.Cells = the local slots of scope Cell in index order
     (interp.go spills them to fresh cells on entry);
   * the function a MAKEFUNC refers to is compiled with its own scope.

   VM.v already implements FREE / FREECELL / LOCALCELL / SETLOCALCELL, MAKEFUNC
   with a combined defaults + freevars tuple and the spilling of fc_cells, so
   no new opcode model is needed (VMClos.v only adds a guard on entering a
   function, used to state the theorem).  Ref.v already evaluates lambda /
   nested defs with cells.
   No proofs in this file. *)
From Coq Require Import ZArith String List Bool.
From SV Require Import C01.Syntax C01.Values C01.Ref C01.VM C01.Compile.
Import ListNotations.
Open Scope string_scope.
Open Scope list_scope.
Open Scope nat_scope.

(* ---------------------------------------------------------------- uses (resolve.go: r.use in traversal order)
   the names an expression uses that are not bound by a comprehension block or
   a nested function inside the expression itself *)
Fixpoint uses_expr (e : expr) {struct e} : list string :=
  match e with
  | EName x _ => [x]
  | EInt _ | EStr _ | EUnsup _ => []
  | EParen e | EUnary _ _ e | EDot e _ _ => uses_expr e
  | EBinary _ _ x y | EAnd x y | EOr x y | EIndex x y _ => uses_expr x ++ uses_expr y
  | ECond c t f => uses_expr c ++ uses_expr t ++ uses_expr f
  | ETuple es | EList es => flat_map uses_expr es
  | EDict kvs => flat_map (fun kv => uses_expr (fst (fst kv)) ++ uses_expr (snd (fst kv))) kvs
  | ECall fn args _ =>
      uses_expr fn ++ flat_map (fun a => match a with APos e | ANamed _ e | AStar e | AStarStar e => uses_expr e end) args
  | ELambda _ ps body _ =>
      (* defaults are resolved in the enclosing block, the body in the function's block *)
      flat_map (fun q => match q with PDefault _ d => uses_expr d | _ => [] end) ps
      ++ filter (fun x => negb (str_in x (param_names ps))) (uses_expr body)
  | EComp _ b bv _ cls _ =>
      match cls with
      | CFor t e0 _ :: rest =>
          (* the first iterable is resolved outside the comprehension's block *)
          uses_expr e0
          ++ filter (fun x => negb (str_in x (comp_vars cls)))
               (uses_target t
                ++ flat_map (fun c => match c with
                                      | CFor t1 e1 _ => uses_target t1 ++ uses_expr e1
                                      | CIf c => uses_expr c end) rest
                ++ uses_expr b ++ uses_expr bv)
      | _ => []
      end
  | ESlice x lo hi st _ =>
      let o (e : option expr) := match e with Some e => uses_expr e | None => [] end in
      uses_expr x ++ o lo ++ o hi ++ o st
  end
with uses_target (t : target) {struct t} : list string :=
  match t with
  | TName _ _ => []
  | TIndex x y _ => uses_expr x ++ uses_expr y
  | TDot x _ _ => uses_expr x
  | TSeq ts => flat_map uses_target ts
  end.

Definition def_of (name : string) (ps : list param) (body : list stmt) (pp : pos) : fundef :=
  {| fd_name := name; fd_params := ps; fd_body := body; fd_pos := pp |}.

Fixpoint uses_stmt (s : stmt) {struct s} : list string :=
  match s with
  | SExpr e => uses_expr e
  | SAssign t e _ | SAug _ t e _ => uses_expr e ++ uses_target t
  | SIf c tb fb => uses_expr c ++ flat_map uses_stmt tb ++ flat_map uses_stmt fb
  | SWhile c b => uses_expr c ++ flat_map uses_stmt b
  | SFor t e b _ => uses_expr e ++ uses_target t ++ flat_map uses_stmt b
  | SReturn (Some e) => uses_expr e
  | SDef _ name ps body pp =>
      flat_map (fun q => match q with PDefault _ d => uses_expr d | _ => [] end) ps
      ++ filter (fun x => negb (str_in x (locals_of (def_of name ps body pp)))) (flat_map uses_stmt body)
  | _ => []
  end.

(* Function.FreeVars: the uses that are not local and are bound by a lexically enclosing function or
   comprehension block (encl, as Ref.find_def computes it), in order of first use *)
Definition free_names (fd : fundef) (encl : list string) : list string :=
  add_all (filter (fun x => negb (str_in x (locals_of fd)) && str_in x encl) (flat_map uses_stmt (fd_body fd))) [].

(* ---------------------------------------------------------------- captured variables: for every free use x of a function nested
   directly in the expression, (x, the slot of x when a comprehension of THIS function binds x at the point
   of capture -- read off the comprehension's slot annotation) *)
Fixpoint capt_expr (bv : list (string * nat)) (e : expr) {struct e} : list (string * option nat) :=
  match e with
  | EName _ _ | EInt _ | EStr _ | EUnsup _ => []
  | EParen e | EUnary _ _ e | EDot e _ _ => capt_expr bv e
  | EBinary _ _ x y | EAnd x y | EOr x y | EIndex x y _ => capt_expr bv x ++ capt_expr bv y
  | ECond c t f => capt_expr bv c ++ capt_expr bv t ++ capt_expr bv f
  | ETuple es | EList es => flat_map (capt_expr bv) es
  | EDict kvs => flat_map (fun kv => capt_expr bv (fst (fst kv)) ++ capt_expr bv (snd (fst kv))) kvs
  | ECall fn args _ =>
      capt_expr bv fn ++ flat_map (fun a => match a with APos e | ANamed _ e | AStar e | AStarStar e => capt_expr bv e end) args
  | ELambda _ ps body _ =>
      flat_map (fun q => match q with PDefault _ d => capt_expr bv d | _ => [] end) ps
      ++ map (fun x => (x, assoc x bv)) (filter (fun x => negb (str_in x (param_names ps))) (uses_expr body))
  | EComp _ b bv_ _ cls slots =>
      match cls with
      | CFor t e0 _ :: rest =>
          let bv' := combine (comp_vars cls) slots ++ bv in
          capt_expr bv e0 ++ capt_target bv' t
          ++ flat_map (fun c => match c with
                                | CFor t1 e1 _ => capt_target bv' t1 ++ capt_expr bv' e1
                                | CIf c => capt_expr bv' c end) rest
          ++ capt_expr bv' b ++ capt_expr bv' bv_
      | _ => []
      end
  | ESlice x lo hi st _ =>
      let o (e : option expr) := match e with Some e => capt_expr bv e | None => [] end in
      capt_expr bv x ++ o lo ++ o hi ++ o st
  end
with capt_target (bv : list (string * nat)) (t : target) {struct t} : list (string * option nat) :=
  match t with
  | TName _ _ => []
  | TIndex x y _ => capt_expr bv x ++ capt_expr bv y
  | TDot x _ _ => capt_expr bv x
  | TSeq ts => flat_map (capt_target bv) ts
  end.

Fixpoint capt_stmt (s : stmt) {struct s} : list (string * option nat) :=
  match s with
  | SExpr e => capt_expr [] e
  | SAssign t e _ | SAug _ t e _ => capt_expr [] e ++ capt_target [] t
  | SIf c tb fb => capt_expr [] c ++ flat_map capt_stmt tb ++ flat_map capt_stmt fb
  | SWhile c b => capt_expr [] c ++ flat_map capt_stmt b
  | SFor t e b _ => capt_expr [] e ++ capt_target [] t ++ flat_map capt_stmt b
  | SReturn (Some e) => capt_expr [] e
  | SDef _ name ps body pp =>
      flat_map (fun q => match q with PDefault _ d => capt_expr [] d | _ => [] end) ps
      ++ map (fun x => (x, None))
             (filter (fun x => negb (str_in x (locals_of (def_of name ps body pp)))) (flat_map uses_stmt body))
  | _ => []
  end.

(* the local slots of scope Cell, in index order: the slot of a function-level name that a nested function
   captures; the block-local slot of a comprehension variable that a function nested in the comprehension
   captures *)
Definition cell_slots (lo ls : list string) (capt : list (string * option nat)) : list nat :=
  filter (fun i => match nth_error ls i with
                   | Some nm =>
                       (str_in nm lo && existsb (fun c => String.eqb (fst c) nm
                                                          && match snd c with None => true | Some _ => false end) capt)
                       || existsb (fun c => match snd c with Some j => Nat.eqb j i | None => false end) capt
                   | None => false end) (seq 0 (length ls)).

(* ---------------------------------------------------------------- what the generator knows about the function being compiled *)
Record scope := {
  sc_ls : list string;      (* slot names (Compile.layout) *)
  sc_cells : list nat;      (* slots of scope Cell *)
  sc_fr : list string;      (* free variables, by index *)
  sc_encl : list string     (* the names bound by the enclosing blocks *)
}.

Definition scope_of (fd : fundef) (encl : list string) : scope :=
  let ls := layout fd in
  {| sc_ls := ls; sc_cells := cell_slots (locals_of fd) ls (flat_map capt_stmt (fd_body fd));
     sc_fr := free_names fd encl; sc_encl := encl |}.

Definition scope_top (p : program) : scope :=
  let ls := layout_top p in
  {| sc_ls := ls; sc_cells := cell_slots (file_names p) ls (flat_map capt_stmt (p_body p));
     sc_fr := []; sc_encl := [] |}.

Definition nat_mem (i : nat) (l : list nat) : bool := existsb (Nat.eqb i) l.

Section Gen3.
  Variable p : program.
  Variable sc : scope.

  Definition is_cell (i : nat) : bool := nat_mem i (sc_cells sc).

  (* the free variables of the function with the given id *)
  Definition fun_free (fid : nat) : list string :=
    match find_def p fid with Some (fd, encl) => free_names fd encl | None => [] end.

  (* fcomp.lookup *)
  Definition gen_name3 (cs : list (string * nat)) (x : string) (ps : pos) : insn :=
    match assoc x cs with
    | Some i => if is_cell i then LOCALCELL i ps else LOCAL i ps
    | None =>
    match index_of x (sc_ls sc) with
    | Some i => if is_cell i then LOCALCELL i ps else LOCAL i ps
    | None =>
    match index_of x (sc_fr sc) with
    | Some j => FREECELL j ps
    | None => match gidx p x with
              | Some j => GLOBAL j ps
              | None => if str_in x predeclared_names then PREDECLARED x
                        else match universal x with Some _ => UNIVERSAL x | None => UNSUPPORTED "static:undefined" end
              end
    end end end.

  (* fcomp.set: a free variable is never assigned (assignment binds locally) *)
  Definition gen_set3 (cs : list (string * nat)) (x : string) : insn :=
    match assoc x cs with
    | Some i => if is_cell i then SETLOCALCELL i else SETLOCAL i
    | None =>
    match index_of x (sc_ls sc) with
    | Some i => if is_cell i then SETLOCALCELL i else SETLOCAL i
    | None => match gidx p x with Some j => SETGLOBAL j | None => UNSUPPORTED "static:unbound-assignment" end
    end end.

  (* fcomp.function, the capture of one free variable of the new function: the cell itself *)
  Definition gen_capture (cs : list (string * nat)) (pp : pos) (y : string) : insn :=
    match assoc y cs with
    | Some i => LOCAL i pp
    | None =>
    match index_of y (sc_ls sc) with
    | Some i => LOCAL i pp
    | None => match index_of y (sc_fr sc) with
              | Some j => FREE j
              | None => UNSUPPORTED "internal:freevar"
              end
    end end.

  Fixpoint gen3 (cs : list (string * nat)) (e : expr) {struct e} : list insn * (nat -> nat -> list insn) :=
    match e with
    | EName x ps => dflt [gen_name3 cs x ps]
    | EInt z => dflt [CONSTANT (VInt z)]
    | EStr s => dflt [CONSTANT (VStr s)]
    | EUnsup t => dflt [UNSUPPORTED t]
    | EParen e => dflt (fst (gen3 cs e))
    | EUnary UNot _ x => (fst (gen3 cs x) ++ [NOT], fun t f => snd (gen3 cs x) f t)
    | EUnary o ps x => dflt (fst (gen3 cs x) ++ [UNARY o ps])
    | EBinary NotIn ps x y =>
        let c := fst (gen3 cs x) ++ fst (gen3 cs y) in
        (c ++ [BINARY In ps; NOT], fun t f => c ++ [BINARY In ps; RCJMP (1 + f); RJMP t])
    | EBinary o ps x y => dflt (fst (gen3 cs x) ++ fst (gen3 cs y) ++ [BINARY o ps])
    | EOr x y =>
        let cy := fst (gen3 cs y) in
        (fst (gen3 cs x) ++ [DUP; RCJMP (1 + length cy); POP] ++ cy,
         fun t f => let c := snd (gen3 cs y) t f in snd (dflt (fst (gen3 cs x))) (length c + t) 0 ++ c)
    | EAnd x y =>
        let cy := fst (gen3 cs y) in
        (fst (gen3 cs x) ++ [DUP; RCJMP 1; RJMP (1 + length cy); POP] ++ cy,
         fun t f => let c := snd (gen3 cs y) t f in snd (dflt (fst (gen3 cs x))) 0 (length c + f) ++ c)
    | ECond c t f =>
        let ct := fst (gen3 cs t) in
        let cf := fst (gen3 cs f) in
        dflt (snd (gen3 cs c) 0 (length ct + 1) ++ ct ++ [RJMP (length cf)] ++ cf)
    | ETuple es => dflt (flat_map (fun e => fst (gen3 cs e)) es ++ [MAKETUPLE (length es)])
    | EList es => dflt (flat_map (fun e => fst (gen3 cs e)) es ++ [MAKELIST (length es)])
    | EDict kvs =>
        dflt (MAKEDICT :: flat_map (fun kv => DUP :: fst (gen3 cs (fst (fst kv))) ++ fst (gen3 cs (snd (fst kv))) ++ [SETDICTUNIQ (snd kv)]) kvs)
    | EIndex x y ps => dflt (fst (gen3 cs x) ++ fst (gen3 cs y) ++ [INDEX ps])
    | EDot x name ps => dflt (fst (gen3 cs x) ++ [ATTR name ps])
    | ECall fn args ps =>
        let is_pos a := match a with APos _ => true | _ => false end in
        let is_named a := match a with ANamed _ _ => true | _ => false end in
        let is_star a := match a with AStar _ => true | _ => false end in
        let is_ss a := match a with AStarStar _ => true | _ => false end in
        let code a := match a with
                      | APos e | AStar e | AStarStar e => fst (gen3 cs e)
                      | ANamed k e => CONSTANT (VStr k) :: fst (gen3 cs e) end in
        dflt (fst (gen3 cs fn)
        ++ flat_map (fun a => if is_pos a || is_named a then code a else []) args
        ++ flat_map (fun a => if is_star a then code a else []) args
        ++ flat_map (fun a => if is_ss a then code a else []) args
        ++ [CALL ((if existsb is_star args then 1 else 0) + (if existsb is_ss args then 2 else 0))
                 (length (filter is_pos args)) (length (filter is_named args)) ps])
    | ELambda fid ps _ pp =>
        (* fcomp.function: defaults, the cells of the free variables, one tuple, MAKEFUNC *)
        let dc := (fix gd (l : list param) (seen_star : bool) {struct l} : list insn * nat :=
                     match l with
                     | [] => ([], 0)
                     | PDefault _ d :: r => let '(c, n) := gd r seen_star in (fst (gen3 cs d) ++ c, S n)
                     | PPlain _ :: r => let '(c, n) := gd r seen_star in
                                        if seen_star then (MANDATORY :: c, S n) else (c, n)
                     | PStar _ :: r | PStarStar _ :: r => gd r true
                     end) ps false in
        let fr := fun_free fid in
        dflt (fst dc ++ map (gen_capture cs pp) fr ++ [MAKETUPLE (snd dc + length fr); MAKEFUNC fid])
    | EComp curly body bodyv cp cls slots =>
        let cs' := combine (comp_vars cls) slots ++ cs in
        let ga := fix ga (t : target) (ps : pos) {struct t} : list insn :=
                    match t with
                    | TName x _ => [gen_set3 cs' x]
                    | TIndex x y pi => fst (gen3 cs' x) ++ [EXCH] ++ fst (gen3 cs' y) ++ [EXCH; SETINDEX pi]
                    | TDot x name pd => fst (gen3 cs' x) ++ [EXCH; SETFIELD name pd]
                    | TSeq ts => UNPACK (length ts) ps :: flat_map (fun t => ga t ps) ts
                    end in
        let loop (ce ca inner : list insn) (ps : pos) :=
              ce ++ [ITERPUSH ps; RITERJMP (length ca + length inner + 1)] ++ ca ++ inner
              ++ [RJMPB (length ca + length inner + 2); ITERPOP] in
        let rest := fix cc (l : list clause) {struct l} : list insn :=
                      match l with
                      | [] => if curly then DUP :: fst (gen3 cs' body) ++ fst (gen3 cs' bodyv) ++ [SETDICT cp]
                              else DUP :: fst (gen3 cs' body) ++ [APPEND]
                      | CIf c :: r => let inner := cc r in snd (gen3 cs' c) 0 (length inner) ++ inner
                      | CFor t e ps :: r => loop (fst (gen3 cs' e)) (ga t ps) (cc r) ps
                      end in
        match cls with
        | CFor t e0 ps :: r =>
            dflt ((if curly then [MAKEDICT] else [MAKELIST 0]) ++ loop (fst (gen3 cs e0)) (ga t ps) (rest r) ps)
        | _ => dflt [UNSUPPORTED "static:comprehension"]
        end
    | ESlice x lo hi st ps =>
        let o (e : option expr) := match e with Some e => fst (gen3 cs e) | None => [NONE] end in
        dflt (fst (gen3 cs x) ++ o lo ++ o hi ++ o st ++ [SLICE ps])
    end.

  Definition gen_expr3 (e : expr) : list insn := fst (gen3 [] e).
  Definition gen_cond3 (e : expr) (t f : nat) : list insn := snd (gen3 [] e) t f.

  Fixpoint gen_assign3 (t : target) (ps : pos) {struct t} : list insn :=
    match t with
    | TName x _ => [gen_set3 [] x]
    | TIndex x y pi => gen_expr3 x ++ [EXCH] ++ gen_expr3 y ++ [EXCH; SETINDEX pi]
    | TDot x name pd => gen_expr3 x ++ [EXCH; SETFIELD name pd]
    | TSeq ts => UNPACK (length ts) ps :: flat_map (fun t => gen_assign3 t ps) ts
    end.

  Fixpoint gen_defaults3 (ps : list param) (seen_star : bool) : list insn * nat :=
    match ps with
    | [] => ([], 0)
    | PDefault _ e :: r => let '(c, n) := gen_defaults3 r seen_star in (gen_expr3 e ++ c, S n)
    | PPlain _ :: r => let '(c, n) := gen_defaults3 r seen_star in
                       if seen_star then (MANDATORY :: c, S n) else (c, n)
    | PStar _ :: r | PStarStar _ :: r => gen_defaults3 r true
    end.

  Fixpoint gen_stmt3 (s : stmt) {struct s} : list insn :=
    match s with
    | SExpr (EInt _) | SExpr (EStr _) => []
    | SExpr e => gen_expr3 e ++ [POP]
    | SAssign t e ps => gen_expr3 e ++ gen_assign3 t ps
    | SAug o (TName x px) e ps => [gen_name3 [] x px] ++ gen_expr3 e ++ aug_insn o ps ++ [gen_set3 [] x]
    | SAug o (TIndex x y pi) e ps =>
        gen_expr3 x ++ gen_expr3 y ++ [DUP2; INDEX pi] ++ gen_expr3 e ++ aug_insn o ps ++ [SETINDEX pi]
    | SAug o (TDot x name pd) e ps =>
        gen_expr3 x ++ [DUP; ATTR name pd] ++ gen_expr3 e ++ aug_insn o ps ++ [SETFIELD name pd]
    | SAug _ (TSeq _) _ _ => [UNSUPPORTED "static:augmented-sequence"]
    | SIf c tb fb =>
        let ct := flat_map gen_stmt3 tb in
        let cf := flat_map gen_stmt3 fb in
        gen_cond3 c 0 (length ct + 1) ++ ct ++ [RJMP (length cf)] ++ cf
    | SWhile c body =>
        let cb := flat_map gen_stmt3 body in
        let cc := gen_cond3 c 0 (length cb + 1) in
        cc ++ patch_loop 1 (length cc) cb ++ [RJMPB (length cc + length cb + 1)]
    | SFor t e body ps =>
        let ca := gen_assign3 t ps in
        let cb := flat_map gen_stmt3 body in
        gen_expr3 e ++ [ITERPUSH ps; RITERJMP (length ca + length cb + 1)]
        ++ ca ++ patch_loop 1 (length ca + 1) cb ++ [RJMPB (length ca + length cb + 2); ITERPOP]
    | SBreak => [BRK]
    | SContinue => [CONT]
    | SPass => []
    | SReturn None => [NONE; RETURN]
    | SReturn (Some e) => gen_expr3 e ++ [RETURN]
    | SDef fid name ps _ pp =>
        let '(c, n) := gen_defaults3 ps false in
        let fr := fun_free fid in
        c ++ map (gen_capture [] pp) fr ++ [MAKETUPLE (n + length fr); MAKEFUNC fid; gen_set3 [] name]
    | SLoad m names ps =>
        map (fun tf => CONSTANT (VStr (snd tf))) names ++ [CONSTANT (VStr m); LOAD (length names) ps]
        ++ map (fun tf => gen_set3 [] (fst tf)) (rev names)
    | SUnsup t => [UNSUPPORTED t]
    end.

  Definition gen_block3 (ss : list stmt) : list insn := flat_map gen_stmt3 ss.
  Definition gen_body3 (ss : list stmt) : list insn := finalize (gen_block3 ss ++ [NONE; RETURN]).
End Gen3.

(* ---------------------------------------------------------------- the ids of all functions of the program (defs and lambdas) *)
Fixpoint fids_expr (e : expr) {struct e} : list nat :=
  match e with
  | EName _ _ | EInt _ | EStr _ | EUnsup _ => []
  | EParen e | EUnary _ _ e | EDot e _ _ => fids_expr e
  | EBinary _ _ x y | EAnd x y | EOr x y | EIndex x y _ => fids_expr x ++ fids_expr y
  | ECond c t f => fids_expr c ++ fids_expr t ++ fids_expr f
  | ETuple es | EList es => flat_map fids_expr es
  | EDict kvs => flat_map (fun kv => fids_expr (fst (fst kv)) ++ fids_expr (snd (fst kv))) kvs
  | ECall fn args _ =>
      fids_expr fn ++ flat_map (fun a => match a with APos e | ANamed _ e | AStar e | AStarStar e => fids_expr e end) args
  | ELambda fid ps body _ =>
      fid :: flat_map (fun q => match q with PDefault _ d => fids_expr d | _ => [] end) ps ++ fids_expr body
  | EComp _ b bv _ cls _ =>
      fids_expr b ++ fids_expr bv
      ++ flat_map (fun c => match c with
                            | CFor t e _ => fids_target t ++ fids_expr e
                            | CIf c => fids_expr c end) cls
  | ESlice x lo hi st _ =>
      let o (e : option expr) := match e with Some e => fids_expr e | None => [] end in
      fids_expr x ++ o lo ++ o hi ++ o st
  end
with fids_target (t : target) {struct t} : list nat :=
  match t with
  | TName _ _ => []
  | TIndex x y _ => fids_expr x ++ fids_expr y
  | TDot x _ _ => fids_expr x
  | TSeq ts => flat_map fids_target ts
  end.

Fixpoint fids_stmt (s : stmt) {struct s} : list nat :=
  match s with
  | SExpr e => fids_expr e
  | SAssign t e _ | SAug _ t e _ => fids_expr e ++ fids_target t
  | SIf c tb fb => fids_expr c ++ flat_map fids_stmt tb ++ flat_map fids_stmt fb
  | SWhile c b => fids_expr c ++ flat_map fids_stmt b
  | SFor t e b _ => fids_expr e ++ fids_target t ++ flat_map fids_stmt b
  | SReturn (Some e) => fids_expr e
  | SDef fid _ ps body _ =>
      fid :: flat_map (fun q => match q with PDefault _ d => fids_expr d | _ => [] end) ps ++ flat_map fids_stmt body
  | _ => []
  end.

Definition all_fids (p : program) : list nat := flat_map fids_stmt (p_body p).

Definition compile_fun3 (p : program) (fd : fundef) (encl : list string) : funcode :=
  let sc := scope_of fd encl in
  {| fc_name := fd_name fd; fc_code := gen_body3 p sc (fd_body fd); fc_nlocals := length (sc_ls sc);
     fc_params := fd_params fd; fc_cells := sc_cells sc; fc_free := sc_fr sc |}.

(* every function is compiled once, under its id, with the scope Ref.find_def gives it *)
Definition compile_prog3 (p : program) : cprog :=
  let sc := scope_top p in
  {| cp_top := {| fc_name := "<toplevel>"; fc_code := gen_body3 p sc (p_body p); fc_nlocals := length (sc_ls sc);
                  fc_params := []; fc_cells := sc_cells sc; fc_free := [] |};
     cp_funs := flat_map (fun fid => match find_def p fid with
                                     | Some (fd, encl) => [(fid, compile_fun3 p fd encl)]
                                     | None => [] end) (all_fids p);
     cp_recursion := o_recursion (p_opts p) |}.

Definition run_vm3 (p : program) (fuel : nat) : option (vresult * nat) :=
  let cp := compile_prog3 p in
  run cp (fname p) fuel (init_state cp (length (global_names p))).

(* the whole pipeline: literal folding, slot numbering (Compile.v), code generation with closures *)
Definition run_compiled3 (p : program) (fuel : nat) : option (vresult * nat) :=
  run_vm3 (number_prog (fold_prog p)) fuel.
