(* C01 -- closures: execution sequences of the GUARDED machine (VMClos.step_chk) "up to a forged
   closure", the simulation predicate and the tactics that drive the machine, for the code generator of
   CompileClos.v.

   The machine passes the cells a closure captured BY POSITION (FREE j, FREECELL j index the frame's
   list of cells), the reference evaluator BY NAME.  The two agree for every function value that
   MAKEFUNC built.  The value domain also contains function values with an arbitrary list of captured
   cells; nothing in the model ever builds one, but proving that needs an invariant through every
   primitive of Values.v, which the proofs use opaquely.  Instead the simulation is about the guarded
   machine, which stops with VUnsup "forged-closure" when it enters a function with captured cells that
   are not named as the function's free variables, and the execution relation carries an ESCAPE:
   `star a b` holds also when the guarded machine, started in a, stops with that result.  The names
   (star, halts, sim and their lemmas) are those of ProofsVM.v / SimDefs.v so that the scripts of the
   comprehension milestone carry over. *)
From Coq Require Import ZArith String List Bool Lia.
From SV Require Import C01.Syntax C01.Values C01.Ref C01.VM C01.Compile C01.Frag C01.ProofsVM C01.ProofsEnv
     C01.SimDefs C01.ProofsExpr C01.CompileClos C01.VMClos.
Import ListNotations.
Open Scope string_scope.
Open Scope list_scope.
Open Scope nat_scope.

Global Opaque get_cell set_cell alloc_cell.

Section Machine3.
  Variable cp : cprog.
  Variable fn : nat -> string.

  (* execution sequences of the guarded machine *)
  Inductive starc : vstate -> vstate -> Prop :=
  | starc_refl : forall s, starc s s
  | starc_step : forall s s' s'', step_chk cp fn s = Next s' -> starc s' s'' -> starc s s''.

  Lemma starc_trans : forall a b c, starc a b -> starc b c -> starc a c.
  Proof. induction 1; intros; auto. econstructor; eauto. Qed.

  Definition haltsc (s : vstate) (r : vresult) : Prop := exists s', starc s s' /\ step_chk cp fn s' = Stop r.

  Lemma haltsc_star : forall a b r, starc a b -> haltsc b r -> haltsc a r.
  Proof. intros a b r H [s' [H1 H2]]. exists s'. split; auto. eapply starc_trans; eauto. Qed.

  Lemma run_starc : forall a b, starc a b ->
    forall fuel n x, run_chk_from cp fn fuel n a = Some x -> exists fuel' n', run_chk_from cp fn fuel' n' b = Some x.
  Proof.
    induction 1; intros fuel n x Hr.
    - eauto.
    - destruct fuel as [|fuel]; simpl in Hr; [discriminate|].
      rewrite H in Hr. eapply IHstarc; eauto.
  Qed.

  Lemma run_haltsc : forall s r, haltsc s r ->
    forall fuel x, run_chk cp fn fuel s = Some x -> fst x = r.
  Proof.
    intros s r [s' [Hs Hstop]] fuel x Hr. unfold run_chk in Hr.
    destruct (run_starc _ _ Hs _ _ _ Hr) as [fuel' [n' Hr']].
    destruct fuel' as [|fuel']; simpl in Hr'; [discriminate|].
    rewrite Hstop in Hr'. inversion Hr'. reflexivity.
  Qed.

  (* a step that does not push a frame is a step of the guarded machine *)
  Lemma step_chk_plain : forall s s', step cp fn s = Next s' -> length (vs_frames s') <= length (vs_frames s) ->
    step_chk cp fn s = Next s'.
  Proof.
    intros s s' H Hl. unfold step_chk. rewrite H. unfold bad_entry.
    destruct (Nat.ltb (length (vs_frames s)) (length (vs_frames s'))) eqn:E; [|reflexivity].
    apply Nat.ltb_lt in E. lia.
  Qed.

  Lemma step_chk_stop : forall s r, step cp fn s = Stop r -> step_chk cp fn s = Stop r.
  Proof. intros s r H. unfold step_chk. rewrite H. reflexivity. Qed.

  (* the guarded machine agrees with the machine on every run in which the guard does not fire *)
  Lemma run_chk_agrees : forall fuel n s r k,
    run_chk_from cp fn fuel n s = Some (r, k) -> r <> forged_result -> run_from cp fn fuel n s = Some (r, k).
  Proof.
    induction fuel as [|fuel IH]; intros n s r k H Hr; simpl in *; [discriminate|].
    unfold step_chk in H. destruct (step cp fn s) as [s'|r0].
    - destruct (bad_entry cp s s').
      + inversion H; subst. congruence.
      + apply IH; auto.
    - exact H.
  Qed.

  Definition star (a b : vstate) : Prop := starc a b \/ haltsc a forged_result.
  Definition halts (a : vstate) (r : vresult) : Prop := haltsc a r \/ haltsc a forged_result.

  Lemma star_refl : forall s, star s s.
  Proof. intros. left. constructor. Qed.

  Lemma star_step : forall s s' s'', step cp fn s = Next s' -> length (vs_frames s') <= length (vs_frames s) ->
    star s' s'' -> star s s''.
  Proof.
    intros s s' s'' H Hl [H1|H1].
    - left. econstructor; [ apply step_chk_plain; eauto | exact H1 ].
    - right. eapply haltsc_star; [ econstructor; [ apply step_chk_plain; eauto | constructor ] | exact H1 ].
  Qed.

  (* entering a function whose captured cells are well-formed *)
  Lemma star_enter : forall s s' s'', step cp fn s = Next s' -> bad_entry cp s s' = false -> star s' s'' -> star s s''.
  Proof.
    intros s s' s'' H Hb [H1|H1]; assert (Hc : step_chk cp fn s = Next s') by (unfold step_chk; rewrite H, Hb; reflexivity).
    - left. econstructor; eauto.
    - right. eapply haltsc_star; [ econstructor; [ exact Hc | constructor ] | exact H1 ].
  Qed.

  (* the escape: the machine would enter a function with forged captured cells *)
  Lemma forged_halts : forall s s' r, step cp fn s = Next s' -> bad_entry cp s s' = true -> halts s r.
  Proof.
    intros s s' r H Hb. right. exists s. split; [constructor|]. unfold step_chk. rewrite H, Hb. reflexivity.
  Qed.
  Lemma forged_star : forall s s' b, step cp fn s = Next s' -> bad_entry cp s s' = true -> star s b.
  Proof.
    intros s s' b H Hb. right. exists s. split; [constructor|]. unfold step_chk. rewrite H, Hb. reflexivity.
  Qed.

  Lemma star_trans : forall a b c, star a b -> star b c -> star a c.
  Proof.
    intros a b c [H1|H1] [H2|H2].
    - left. eapply starc_trans; eauto.
    - right. eapply haltsc_star; eauto.
    - right. exact H1.
    - right. exact H1.
  Qed.

  Lemma halts_star : forall a b r, star a b -> halts b r -> halts a r.
  Proof.
    intros a b r [H1|H1] [H2|H2].
    - left. eapply haltsc_star; eauto.
    - right. eapply haltsc_star; eauto.
    - right. exact H1.
    - right. exact H1.
  Qed.

  Lemma halts_now : forall s r, step cp fn s = Stop r -> halts s r.
  Proof. intros. left. exists s. split; [constructor|]. apply step_chk_stop. auto. Qed.

  Lemma star_eq : forall a b, a = b -> star a b.
  Proof. intros; subst; apply star_refl. Qed.

  Lemma star_from_eq : forall a a' b, a = a' -> star a' b -> star a b.
  Proof. intros; subst; auto. Qed.
  Lemma halts_from_eq : forall a a' r, a = a' -> halts a' r -> halts a r.
  Proof. intros; subst; auto. Qed.

  Lemma run_halts : forall s r, halts s r ->
    forall fuel x, run_chk cp fn fuel s = Some x -> fst x = r \/ fst x = forged_result.
  Proof.
    intros s r [H|H] fuel x Hr.
    - left. eapply run_haltsc; eauto.
    - right. eapply run_haltsc; eauto.
  Qed.
End Machine3.

(* machine state of the current activation: frame (fid, code C, captured cells fv) at pc with operand
   stack σ, locals L, iterator stack I, callers K, globals and world from s *)
Definition S3 (fid : option nat) (C : list insn) (fv : list (string * nat)) (K : list frame)
           (pc : nat) (σ : list value) (L : list (option value)) (I : list iter) (s : rst) : vstate :=
  St (Fr fid C pc σ L I fv) K (rg s) (rw s).

(* ---------------------------------------------------------------- tactics (those of ProofsExpr.v, for the relation above) *)
Ltac norm_state :=
  unfold S3, St, Fr, set_frame, upd, upd_locals, upd_iters, with_w;
  cbn [fr_fid fr_code fr_pc fr_stack fr_locals fr_iters fr_free rg rw].
Ltac with_fetch k :=
  norm_state;
  match goal with
  | |- star _ _ {| vs_frames := {| fr_fid := _; fr_code := ?C; fr_pc := ?pc; fr_stack := _; fr_locals := _;
                                   fr_iters := _; fr_free := _ |} :: _; vs_g := _; vs_w := _ |} _ =>
      match goal with H : nth_error C ?pc' = Some _ |- _ =>
        first [ constr_eq pc pc' | replace pc' with pc in H by lia ]; k H end
  | |- halts _ _ {| vs_frames := {| fr_fid := _; fr_code := ?C; fr_pc := ?pc; fr_stack := _; fr_locals := _;
                                    fr_iters := _; fr_free := _ |} :: _; vs_g := _; vs_w := _ |} _ =>
      match goal with H : nth_error C ?pc' = Some _ |- _ =>
        first [ constr_eq pc pc' | replace pc' with pc in H by lia ]; k H end
  end.

Ltac vstep :=
  with_fetch ltac:(fun H => eapply star_step; [ rewrite (step_lit _ _ _ _ _ _ _ _ _ _ _ _ _ H); simpl; reflexivity | simpl; lia | ]).
Ltac vstep1 E1 :=
  with_fetch ltac:(fun H => eapply star_step; [ rewrite (step_lit _ _ _ _ _ _ _ _ _ _ _ _ _ H); simpl; rewrite ?E1; simpl; reflexivity | simpl; lia | ]).
Ltac vstep2 E1 E2 :=
  with_fetch ltac:(fun H => eapply star_step; [ rewrite (step_lit _ _ _ _ _ _ _ _ _ _ _ _ _ H); simpl; rewrite ?E1; simpl; rewrite ?E2; simpl; reflexivity | simpl; lia | ]).
Ltac vstop :=
  with_fetch ltac:(fun H => apply halts_now; rewrite (step_lit _ _ _ _ _ _ _ _ _ _ _ _ _ H); simpl; reflexivity).
Ltac vstop1 E1 :=
  with_fetch ltac:(fun H => apply halts_now; rewrite (step_lit _ _ _ _ _ _ _ _ _ _ _ _ _ H); simpl; rewrite ?E1; simpl; reflexivity).
Ltac vstop2 E1 E2 :=
  with_fetch ltac:(fun H => apply halts_now; rewrite (step_lit _ _ _ _ _ _ _ _ _ _ _ _ _ H); simpl; rewrite ?E1; simpl; rewrite ?E2; simpl; reflexivity).
Ltac len_norm := repeat (first [ rewrite app_length | rewrite patch_loop_length | progress cbn [length] ]).
Ltac state_eq := norm_state; apply St_eq; [ simpl; len_norm; lia | reflexivity ].
Ltac chain H :=
  eapply star_trans; [ first [ exact H | eapply star_from_eq; [ | exact H ]; state_eq ] | ].
Ltac hchain H :=
  first [ exact H | eapply halts_from_eq; [ | exact H ]; state_eq ].
Ltac hstar H := eapply halts_star; [ first [ exact H | eapply star_from_eq; [ | exact H ]; state_eq ] | ].
Ltac fin := norm_state; apply star_eq; apply St_eq; [ simpl; len_norm; lia | reflexivity ].

(* ---------------------------------------------------------------- simulation predicate *)
Section Sim3.
  Variable p : program.
  Notation cp := (compile_prog3 p).
  Notation fn := (fname p).

  Definition sim {A} (r : res A) (S0 : vstate) (ok : A -> Prop) : Prop :=
    match r with
    | Ok a => ok a
    | Fail ps ic w => halts cp fn S0 (VFail ps ic w)
    | Unsup t => halts cp fn S0 (VUnsup t)
    | Oof => True
    end.

  Lemma sim_move : forall {A} (r : res A) S0 S' (okS' ok0 : A -> Prop),
    star cp fn S0 S' ->
    sim r S' okS' ->
    (forall a, okS' a -> ok0 a) ->
    sim r S0 ok0.
  Proof.
    intros A r S0 S' okS' ok0 Hs Hr Himp. destruct r; simpl in *; auto.
    - eapply halts_star; eauto.
    - eapply halts_star; eauto.
  Qed.
End Sim3.

(* ---------------------------------------------------------------- instruction lemmas that do not depend on the compiler *)
Section Insn.
  Variable cp : cprog.
  Variable fn : nat -> string.

  Lemma call_insn : forall fid C fv K pc σ L I g w f args nm sa ss ps,
    exec_insn cp fn (CALL (mode_of sa ss) (length args) (length nm) ps)
      {| fr_fid := fid; fr_code := C; fr_pc := pc; fr_stack := optl ss ++ optl sa ++ rev (flatkw nm) ++ rev args ++ f :: σ;
         fr_locals := L; fr_iters := I; fr_free := fv |} K g w
    = of_pres (starstar_args ss w) ps w (fun kw2 =>
      of_pres (star_args sa w) ps w (fun pos2 =>
        call_value cp fn
          {| fr_fid := fid; fr_code := C; fr_pc := pc; fr_stack := optl ss ++ optl sa ++ rev (flatkw nm) ++ rev args ++ f :: σ;
             fr_locals := L; fr_iters := I; fr_free := fv |} K g w (S pc) σ ps f (args ++ pos2) (nm ++ kw2))).
  Proof.
    intros.
    assert (Hpop : popn (length args) (rev args ++ f :: σ) [] = Some (args, f :: σ)) by apply popn_rev.
    assert (Hpk : popn (2 * length nm) (rev (flatkw nm) ++ rev args ++ f :: σ) [] = Some (flatkw nm, rev args ++ f :: σ)) by apply popn_flatkw.
    simpl Nat.mul in Hpk.
    assert (Hpairs : pairs_of (flatkw nm) = Some nm) by apply pairs_flatkw.
    destruct sa as [sav|], ss as [ssv|]; unfold exec_insn; simpl;
      rewrite Hpk; simpl; rewrite Hpairs; simpl; rewrite Hpop; reflexivity.
  Qed.

  Lemma aug_len : forall o ps, length (aug_insn o ps) = 1.
  Proof. destruct o; reflexivity. Qed.

  Lemma aug_step : forall o ps x y w fid C fv K pc σ L I g brk cont,
    binop_eqb o NotIn = false ->
    pcode_at C pc (aug_insn o ps) brk cont ->
    match apply_aug o x y w with
    | POk (r, w') => star cp fn (St (Fr fid C pc (y :: x :: σ) L I fv) K g w) (St (Fr fid C (S pc) (r :: σ) L I fv) K g w')
    | PErr => halts cp fn (St (Fr fid C pc (y :: x :: σ) L I fv) K g w) (VFail ps false w)
    | PUnsup t => halts cp fn (St (Fr fid C pc (y :: x :: σ) L I fv) K g w) (VUnsup t)
    end.
  Proof.
    intros o ps x y w fid C fv K pc σ L I g brk cont Ho Hc.
    destruct o; simpl in Ho; try discriminate; simpl in Hc; pcode_split; unfold apply_aug;
    match goal with |- match ?P with _ => _ end => destruct P as [[r w']| |t] eqn:Ep end;
    first [ vstep1 Ep; apply star_refl | vstop1 Ep ].
  Qed.
End Insn.

Lemma cf3_params : forall p fd encl, fc_params (compile_fun3 p fd encl) = fd_params fd. Proof. reflexivity. Qed.
Lemma cf3_nlocals : forall p fd encl, fc_nlocals (compile_fun3 p fd encl) = length (sc_ls (scope_of fd encl)). Proof. reflexivity. Qed.
Lemma cf3_cells : forall p fd encl, fc_cells (compile_fun3 p fd encl) = sc_cells (scope_of fd encl). Proof. reflexivity. Qed.
Lemma cf3_free : forall p fd encl, fc_free (compile_fun3 p fd encl) = sc_fr (scope_of fd encl). Proof. reflexivity. Qed.
Lemma cf3_code : forall p fd encl, fc_code (compile_fun3 p fd encl) = gen_body3 p (scope_of fd encl) (fd_body fd). Proof. reflexivity. Qed.
Lemma cp3_rec : forall p, cp_recursion (compile_prog3 p) = o_recursion (p_opts p). Proof. reflexivity. Qed.
