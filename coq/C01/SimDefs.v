(* C01 -- statements of the simulation between the reference evaluator and the
   machine running the generated code, one per function of the evaluator, and
   the tactics used to drive the machine. *)
From Coq Require Import ZArith String List Bool Lia.
From SV Require Import C01.Syntax C01.Values C01.Ref C01.VM C01.Compile C01.Frag C01.ProofsVM C01.ProofsEnv.
Import ListNotations.
Open Scope string_scope.
Open Scope list_scope.
Open Scope nat_scope.

Definition fids_of (K : list frame) : list nat :=
  flat_map (fun fr => match fr_fid fr with Some i => [i] | None => [] end) K.

Lemma star_eq : forall cp fn a b, a = b -> star cp fn a b.
Proof. intros; subst; constructor. Qed.

Section Sim.
  Variable p : program.
  Notation cp := (compile_prog p).
  Notation fn := (fname p).
  Notation star := (star cp fn).
  Notation halts := (halts cp fn).

  (* machine state of the current activation: frame (fid, code C, free fv) at pc
     with operand stack σ, locals from ρ, iterator stack I, callers K, globals and world from s *)
  Definition S1 (fid : option nat) (C : list insn) (fv : list (string * nat)) (K : list frame)
             (pc : nat) (σ : list value) (ρ : env) (I : list iter) (s : rst) : vstate :=
    St (Fr fid C pc σ (env_vals ρ) I fv) K (rg s) (rw s).

  (* an evaluator result against the machine started in S0 *)
  Definition sim {A} (r : res A) (S0 : vstate) (ok : A -> Prop) : Prop :=
    match r with
    | Ok a => ok a
    | Fail ps ic w => halts S0 (VFail ps ic w)
    | Unsup t => halts S0 (VUnsup t)
    | Oof => True
    end.

  Lemma sim_bind : forall {A B} (r : res A) (k : A -> res B) S0 (okA : A -> Prop) (okB : B -> Prop),
    sim r S0 okA ->
    (forall a, r = Ok a -> okA a -> sim (k a) S0 okB) ->
    sim (match r with Ok a => k a | Fail ps ic w => Fail ps ic w | Oof => Oof | Unsup t => Unsup t end) S0 okB.
  Proof. intros. destruct r; simpl in *; auto. Qed.

  Lemma sim_move : forall {A} (r : res A) S0 S' (okS' ok0 : A -> Prop),
    star S0 S' ->
    sim r S' okS' ->
    (forall a, okS' a -> ok0 a) ->
    sim r S0 ok0.
  Proof.
    intros A r S0 S' okS' ok0 Hs Hr Himp. destruct r; simpl in *; auto.
    - eapply halts_star; eauto.
    - eapply halts_star; eauto.
  Qed.

  Definition wf (ρ : env) : Prop := all_direct ρ.

  Definition stk_ok (stk : list nat) (fid : option nat) (K : list frame) : Prop :=
    stk = (match fid with Some i => [i] | None => [] end) ++ fids_of K.

  (* ---- expressions: the value is pushed, nothing else of the frame changes *)
  Definition E (n : nat) : Prop :=
    forall stk ρ e s fid C fv K pc σ I brk cont,
      ok_expr e = true -> wf ρ -> stk_ok stk fid K ->
      pcode_at C pc (gen_expr p (map fst ρ) e) brk cont ->
      sim (eval p n stk ρ e s) (S1 fid C fv K pc σ ρ I s)
          (fun r => star (S1 fid C fv K pc σ ρ I s)
                         (S1 fid C fv K (pc + length (gen_expr p (map fst ρ) e)) (fst r :: σ) ρ I (snd r))).

  (* ---- conditions (ifelse): control continues t or f instructions past the end *)
  Definition Cn (n : nat) : Prop :=
    forall stk ρ e s fid C fv K pc σ I brk cont t f,
      ok_expr e = true -> wf ρ -> stk_ok stk fid K ->
      pcode_at C pc (gen_cond p (map fst ρ) e t f) brk cont ->
      sim (eval p n stk ρ e s) (S1 fid C fv K pc σ ρ I s)
          (fun r => star (S1 fid C fv K pc σ ρ I s)
                         (S1 fid C fv K (pc + length (gen_cond p (map fst ρ) e t f) + (if truth (fst r) (rw (snd r)) then t else f))
                             σ ρ I (snd r))).

  (* ---- expression lists: values pushed left to right *)
  Definition Ls (n : nat) : Prop :=
    forall stk ρ es s fid C fv K pc σ I brk cont,
      forallb ok_expr es = true -> wf ρ -> stk_ok stk fid K ->
      pcode_at C pc (flat_map (gen_expr p (map fst ρ)) es) brk cont ->
      sim (evals p n stk ρ es s) (S1 fid C fv K pc σ ρ I s)
          (fun r => star (S1 fid C fv K pc σ ρ I s)
                         (S1 fid C fv K (pc + length (flat_map (gen_expr p (map fst ρ)) es)) (rev (fst r) ++ σ) ρ I (snd r))).

  Definition arg_code (ls : list string) (a : arg) : list insn :=
    match a with
    | APos e | AStar e | AStarStar e => gen_expr p ls e
    | ANamed k e => CONSTANT (VStr k) :: gen_expr p ls e
    end.
  Definition ok_args (args : list arg) : bool :=
    forallb (fun a => match a with APos e | ANamed _ e | AStar e | AStarStar e => ok_expr e end) args.
  Definition count_pos (args : list arg) : nat := length (filter (fun a => match a with APos _ => true | _ => false end) args).
  Definition count_named (args : list arg) : nat := length (filter is_named_arg args).
  Definition has_star (args : list arg) : bool := existsb (fun a => match a with AStar _ => true | _ => false end) args.
  Definition has_ss (args : list arg) : bool := existsb (fun a => match a with AStarStar _ => true | _ => false end) args.
  Definition flatkw (nm : list (string * value)) : list value := flat_map (fun kv => [VStr (fst kv); snd kv]) nm.
  Definition optl (o : option value) : list value := match o with Some v => [v] | None => [] end.

  (* ---- call arguments: positional values, name / value pairs, then the *args and **kwargs values *)
  Definition Ar (n : nat) : Prop :=
    forall stk ρ args acc nacc sa0 ss0 s fid C fv K pc σ I brk cont,
      ok_args args = true -> wf ρ -> stk_ok stk fid K ->
      pcode_at C pc (flat_map (arg_code (map fst ρ)) args) brk cont ->
      sim (eval_args p n stk ρ args acc nacc sa0 ss0 s) (S1 fid C fv K pc σ ρ I s)
          (fun r => exists vs nm sa ss s', r = (acc ++ vs, nacc ++ nm, sa, ss, s') /\
                    length vs = count_pos args /\ length nm = count_named args /\
                    (if has_star args then sa <> None else sa = sa0) /\
                    (if has_ss args then ss <> None else ss = ss0) /\
                    (pos_then_named args = true ->
                     star (S1 fid C fv K pc σ ρ I s)
                          (S1 fid C fv K (pc + length (flat_map (arg_code (map fst ρ)) args))
                              ((if has_ss args then optl ss else []) ++ (if has_star args then optl sa else [])
                               ++ rev (flatkw nm) ++ rev vs ++ σ) ρ I s'))).

  (* ---- entries of a dict display: the dict under construction stays on the stack *)
  Definition entry_code (ls : list string) (kv : expr * expr * pos) : list insn :=
    DUP :: gen_expr p ls (fst (fst kv)) ++ gen_expr p ls (snd (fst kv)) ++ [SETDICTUNIQ (snd kv)].
  Definition ok_entry (kv : expr * expr * pos) : bool := ok_expr (fst (fst kv)) && ok_expr (snd (fst kv)).
  Definition En (n : nat) : Prop :=
    forall stk ρ d kvs s fid C fv K pc σ I brk cont,
      forallb ok_entry kvs = true -> wf ρ -> stk_ok stk fid K ->
      pcode_at C pc (flat_map (entry_code (map fst ρ)) kvs) brk cont ->
      sim (eval_entries p n stk ρ d kvs s) (S1 fid C fv K pc (d :: σ) ρ I s)
          (fun s' => star (S1 fid C fv K pc (d :: σ) ρ I s)
                          (S1 fid C fv K (pc + length (flat_map (entry_code (map fst ρ)) kvs)) (d :: σ) ρ I s')).

  (* ---- default values of a parameter list, pushed left to right (MANDATORY for required keyword-only parameters) *)
  Definition Df (n : nat) : Prop :=
    forall stk ρ ps seen s fid C fv K pc σ I brk cont,
      forallb ok_param ps = true -> wf ρ -> stk_ok stk fid K ->
      pcode_at C pc (fst (gen_defaults p (map fst ρ) ps seen)) brk cont ->
      sim (eval_defaults p n stk ρ ps seen s) (S1 fid C fv K pc σ ρ I s)
          (fun r => length (fst r) = snd (gen_defaults p (map fst ρ) ps seen) /\
                    star (S1 fid C fv K pc σ ρ I s)
                         (S1 fid C fv K (pc + length (fst (gen_defaults p (map fst ρ) ps seen))) (rev (fst r) ++ σ) ρ I (snd r))).

  (* ---- calls: the machine is at a CALL instruction with callee and arguments on the stack;
          the reference side expands *args / **kwargs and calls *)
  Definition mode_of (sa ss : option value) : nat :=
    (match sa with Some _ => 1 | None => 0 end) + (match ss with Some _ => 2 | None => 0 end).
  Definition ref_call (n : nat) (stk : list nat) (f : value) (args : list value) (nm : list (string * value))
             (sa ss : option value) (ps : pos) (s : rst) : res (value * rst) :=
    match lift (starstar_args ss (rw s)) ps (rw s) with
    | Ok kw2 => match lift (star_args sa (rw s)) ps (rw s) with
                | Ok pos2 => call p n stk f (args ++ pos2) (nm ++ kw2) ps s
                | Fail a b c => Fail a b c | Oof => Oof | Unsup t => Unsup t end
    | Fail a b c => Fail a b c | Oof => Oof | Unsup t => Unsup t
    end.
  Definition Ca (n : nat) : Prop :=
    forall stk f args nm sa ss ps s fid C fv K pc σ ρ I,
      stk_ok stk fid K ->
      nth_error C pc = Some (CALL (mode_of sa ss) (length args) (length nm) ps) ->
      sim (ref_call n stk f args nm sa ss ps s)
          (S1 fid C fv K pc (optl ss ++ optl sa ++ rev (flatkw nm) ++ rev args ++ f :: σ) ρ I s)
          (fun r => star (S1 fid C fv K pc (optl ss ++ optl sa ++ rev (flatkw nm) ++ rev args ++ f :: σ) ρ I s)
                         (S1 fid C fv K (S pc) (fst r :: σ) ρ I (snd r))).

  (* ---- assignment of the value on top of the stack *)
  Definition As (n : nat) : Prop :=
    forall stk ρ t v ps s fid C fv K pc σ I brk cont,
      ok_target t = true -> wf ρ -> stk_ok stk fid K ->
      pcode_at C pc (gen_assign p (map fst ρ) t ps) brk cont ->
      sim (assign p n stk ρ t v ps s) (S1 fid C fv K pc (v :: σ) ρ I s)
          (fun r => wf (fst r) /\ map fst (fst r) = map fst ρ /\
                    star (S1 fid C fv K pc (v :: σ) ρ I s)
                         (S1 fid C fv K (pc + length (gen_assign p (map fst ρ) t ps)) σ (fst r) I (snd r))).

  (* ---- assignment of the unpacked values (first one on top) to a sequence of targets *)
  Definition Aq (n : nat) : Prop :=
    forall stk ρ ts vs ps s fid C fv K pc σ I brk cont,
      forallb ok_target ts = true -> length vs = length ts -> wf ρ -> stk_ok stk fid K ->
      pcode_at C pc (flat_map (fun t => gen_assign p (map fst ρ) t ps) ts) brk cont ->
      sim (assign_seq p n stk ρ ts vs ps s) (S1 fid C fv K pc (vs ++ σ) ρ I s)
          (fun r => wf (fst r) /\ map fst (fst r) = map fst ρ /\
                    star (S1 fid C fv K pc (vs ++ σ) ρ I s)
                         (S1 fid C fv K (pc + length (flat_map (fun t => gen_assign p (map fst ρ) t ps) ts)) σ (fst r) I (snd r))).

  (* what the machine does for each outcome of a statement whose code occupies [pc, pc + len) *)
  Definition after (fid : option nat) (C : list insn) (fv : list (string * nat)) (K : list frame)
             (S0 : vstate) (pc len : nat) (I : list iter) (brk cont : option nat)
             (r : outcome * env * rst) : Prop :=
    let '(out, ρ', s') := r in
    match out with
    | ONormal => star S0 (S1 fid C fv K (pc + len) [] ρ' I s')
    | OBreak => match brk with
                | Some b => star S0 (S1 fid C fv K b [] ρ' I s')
                | None => halts S0 (VUnsup "static:break-outside-loop") end
    | OContinue => match cont with
                   | Some c => star S0 (S1 fid C fv K c [] ρ' I s')
                   | None => halts S0 (VUnsup "static:break-outside-loop") end
    | OReturn v => exists pcr Ix wv,
          star S0 (St (Fr fid C pcr [v] (env_vals ρ') (Ix ++ I) fv) K (rg s') wv)
          /\ nth_error C pcr = Some RETURN /\ release_all Ix wv = rw s'
    end.

  Definition keeps (ρ : env) (r : outcome * env * rst) : Prop :=
    wf (snd (fst r)) /\ map fst (snd (fst r)) = map fst ρ.

  (* ---- statements *)
  Definition X (n : nat) : Prop :=
    forall stk ρ st s fid C fv K pc I brk cont,
      ok_stmt st = true -> wf ρ -> stk_ok stk fid K ->
      pcode_at C pc (gen_stmt p (map fst ρ) st) brk cont ->
      sim (exec p n stk ρ st s) (S1 fid C fv K pc [] ρ I s)
          (fun r => keeps ρ r /\
                    after fid C fv K (S1 fid C fv K pc [] ρ I s) pc (length (gen_stmt p (map fst ρ) st)) I brk cont r).

  Definition B (n : nat) : Prop :=
    forall stk ρ ss s fid C fv K pc I brk cont,
      forallb ok_stmt ss = true -> wf ρ -> stk_ok stk fid K ->
      pcode_at C pc (gen_block p (map fst ρ) ss) brk cont ->
      sim (exec_block p n stk ρ ss s) (S1 fid C fv K pc [] ρ I s)
          (fun r => keeps ρ r /\
                    after fid C fv K (S1 fid C fv K pc [] ρ I s) pc (length (gen_block p (map fst ρ) ss)) I brk cont r).

  (* ---- while: the machine is at the loop head; break / continue never escape *)
  Definition W (n : nat) : Prop :=
    forall stk ρ c body s fid C fv K pc I brk cont,
      ok_expr c = true -> forallb ok_stmt body = true -> wf ρ -> stk_ok stk fid K ->
      pcode_at C pc (gen_stmt p (map fst ρ) (SWhile c body)) brk cont ->
      sim (exec_while p n stk ρ c body s) (S1 fid C fv K pc [] ρ I s)
          (fun r => keeps ρ r /\
             let S0 := S1 fid C fv K pc [] ρ I s in
             let '(out, ρ', s') := r in
             match out with
             | ONormal => star S0 (S1 fid C fv K (pc + length (gen_stmt p (map fst ρ) (SWhile c body))) [] ρ' I s')
             | OReturn v => exists pcr Ix wv,
                   star S0 (St (Fr fid C pcr [v] (env_vals ρ') (Ix ++ I) fv) K (rg s') wv)
                   /\ nth_error C pcr = Some RETURN /\ release_all Ix wv = rw s'
             | _ => False
             end).

  (* ---- for: the machine is at the ITERJMP with the iterator on the iterator stack;
          on normal completion it is at the ITERPOP with the iterator still there *)
  Definition F (n : nat) : Prop :=
    forall stk ρ t ps vs lock body s fid C fv K pc I brk cont e,
      ok_target t = true -> forallb ok_stmt body = true -> wf ρ -> stk_ok stk fid K ->
      pcode_at C pc (gen_stmt p (map fst ρ) (SFor t e body ps)) brk cont ->
      let head := pc + length (gen_expr p (map fst ρ) e) + 1 in
      let len := length (gen_stmt p (map fst ρ) (SFor t e body ps)) in
      let S0 := S1 fid C fv K head [] ρ ({| it_rem := vs; it_lock := lock |} :: I) s in
      sim (exec_for p n stk ρ t ps vs body s) S0
          (fun r => keeps ρ r /\
             let '(out, ρ', s') := r in
             match out with
             | ONormal => exists rem, star S0 (S1 fid C fv K (pc + len - 1) [] ρ' ({| it_rem := rem; it_lock := lock |} :: I) s')
             | OReturn v => exists pcr Ix rem wv,
                   star S0 (St (Fr fid C pcr [v] (env_vals ρ') (Ix ++ {| it_rem := rem; it_lock := lock |} :: I) fv) K (rg s') wv)
                   /\ nth_error C pcr = Some RETURN /\ release_all Ix wv = rw s'
             | _ => False
             end).
End Sim.
