(* C01 -- the simulation for all fuel, and the theorem on whole programs. *)
From Coq Require Import ZArith String List Bool Lia.
From SV Require Import C01.Syntax C01.Values C01.Ref C01.VM C01.Compile C01.Frag C01.ProofsVM C01.ProofsEnv
     C01.SimDefs C01.ProofsExpr C01.ProofsStmt C01.ProofsLoop C01.ProofsCall.
Import ListNotations.
Open Scope string_scope.
Open Scope list_scope.
Open Scope nat_scope.

Definition run_vm (p : program) (fuel : nat) : option (vresult * nat) :=
  run (compile_prog p) (fname p) fuel (init_state (compile_prog p) (length (global_names p))).

Section Main.
  Variable p : program.
  Notation cp := (compile_prog p).
  Notation fn := (fname p).
  Hypothesis Hfuns : funs_ok p.

  Definition P (n : nat) : Prop :=
    E p n /\ Cn p n /\ Ls p n /\ Ar p n /\ Ca p n /\ As p n /\ X p n /\ B p n /\ W p n /\ F p n /\ Df p n /\ Aq p n /\ En p n.

  Lemma P_all : forall n, P n.
  Proof.
    induction n.
    - unfold P. repeat split; try (unfold E, Cn, Ls, Ar, As, X, B, W, F, Df, Aq, En; intros; simpl; exact Logic.I).
      apply Ca_zero.
    - destruct IHn as [HE [HC [HL [HA [HCa [HAs [HX [HB [HW [HF [HD [HQ HN]]]]]]]]]]]].
      assert (HE' : E p (S n)) by (apply E_step; auto).
      unfold P. repeat split; auto.
      + apply Cn_step; auto.
      + apply Ls_step; auto.
      + apply Ar_step; auto.
      + apply Ca_step; auto.
      + apply As_step; auto.
      + apply X_step; auto.
      + apply B_step; auto.
      + apply W_step; auto.
      + apply F_step; auto.
      + apply Df_step; auto.
      + apply Aq_step; auto.
      + apply En_step; auto.
  Qed.

  Hypothesis Hfrag : ok_prog p = true.

  Lemma no_loads : forall ss, forallb ok_stmt ss = true -> flat_map load_binds ss = [].
  Proof.
    induction ss as [|s ss IH]; intros H; simpl in *; auto.
    apply andb_true_iff in H. destruct H as [Hs Hss]. rewrite (IH Hss).
    destruct s; try discriminate; reflexivity.
  Qed.

  Lemma Hbody_ok : forallb ok_stmt (p_body p) = true.
  Proof. unfold ok_prog in Hfrag. apply andb_true_iff in Hfrag. tauto. Qed.

  Lemma file_names_nil : file_names p = [].
  Proof. unfold file_names. rewrite (no_loads _ Hbody_ok). reflexivity. Qed.

  Lemma layout_top_nil : layout_top p = [].
  Proof.
    unfold ok_prog in Hfrag. apply andb_true_iff in Hfrag. destruct Hfrag as [_ H].
    destruct (layout_top p); [reflexivity | discriminate].
  Qed.

  Definition init : vstate := init_state cp (length (global_names p)).

  Lemma module_sim : forall n,
    match run_module p n with
    | Ok s' => halts cp fn init (VDone (rg s') (rw s'))
    | Fail ps ic w => halts cp fn init (VFail ps ic w)
    | Unsup t => halts cp fn init (VUnsup t)
    | Oof => True
    end.
  Proof.
    intros n. destruct (P_all n) as [_ [_ [_ [_ [_ [_ [_ [HB _]]]]]]]].
    assert (HC : fc_code (cp_top cp) = gen_body p [] (p_body p)).
    { unfold compile_prog. cbn [cp_top fc_code]. rewrite layout_top_nil. reflexivity. }
    assert (HL : fc_nlocals (cp_top cp) = 0).
    { unfold compile_prog. cbn [cp_top fc_nlocals]. rewrite layout_top_nil. reflexivity. }
    assert (HCe : fc_cells (cp_top cp) = []) by reflexivity.
    assert (Hinit : init = St (Fr None (gen_body p [] (p_body p)) 0 [] [] [] []) [] (repeat None (length (global_names p))) empty_world).
    { unfold init, init_state. rewrite HC, HL, HCe. reflexivity. }
    rewrite Hinit. unfold run_module. rewrite file_names_nil. simpl new_vars. cbv iota beta.
    assert (Hcode : pcode_at (gen_body p [] (p_body p)) 0 (gen_block p [] (p_body p) ++ [NONE; RETURN]) None None).
    { apply pcode_finalize. }
    apply pcode_app in Hcode. destruct Hcode as [Hcb Hct]. pcode_split.
    pose proof (HB [] [] (p_body p) (with_w (init_rst p) empty_world) None (gen_body p [] (p_body p)) [] [] 0 [] None None
                   Hbody_ok (Forall_nil _) eq_refl Hcb) as IH.
    unfold S1, with_w, init_rst in IH. cbn [rg rw env_vals map] in IH.
    unfold with_w, init_rst. cbn [rg rw].
    destruct (exec_block p n [] [] (p_body p) _) as [[[out ρ2] s2]| | |]; cbn [sim fst snd] in *; auto.
    destruct IH as [_ Ha]. unfold after in Ha.
    destruct out; cbn [fst].
    - eapply halts_star; [ exact Ha | ].
      eapply halts_star; [ vstep; apply star_refl | ]. vstop.
    - exact Ha.
    - exact Ha.
    - destruct Ha as [pcr [Ix [wv [H1 [H2 H3]]]]].
      eapply halts_star; [ exact H1 | ]. rewrite app_nil_r in *.
      norm_state. apply halts_now. rewrite (step_lit _ _ _ _ _ _ _ _ _ _ _ _ _ H2). simpl. rewrite H3. reflexivity.
  Qed.

  Lemma codegen_correct_partial_lemma : forall n m,
    ob_verdict (observe_ref (run_module p n)) <> OutOfFuel ->
    ob_verdict (observe_vm (run_vm p m)) <> OutOfFuel ->
    observe_vm (run_vm p m) = observe_ref (run_module p n).
  Proof.
    intros n m Hr Hv. pose proof (module_sim n) as Hs.
    unfold run_vm in *. fold init in *.
    destruct (run cp fn m init) as [[r k]|] eqn:Er; [ | simpl in Hv; congruence ].
    destruct (run_module p n) as [s'|ps ic w| |t]; simpl in Hr; try congruence;
      pose proof (run_halts cp fn _ _ Hs _ _ Er) as Heq; simpl in Heq; subst r; reflexivity.
  Qed.

  Lemma never_stuck_lemma : forall n m r k,
    ob_verdict (observe_ref (run_module p n)) <> OutOfFuel ->
    run_vm p m = Some (r, k) ->
    forall why, r <> VStuck why.
  Proof.
    intros n m r k Hr Hv why. pose proof (module_sim n) as Hs.
    unfold run_vm in *. fold init in *.
    destruct (run_module p n) as [s'|ps ic w| |t]; simpl in Hr; try congruence;
      pose proof (run_halts cp fn _ _ Hs _ _ Hv) as Heq; simpl in Heq; subst r; discriminate.
  Qed.
End Main.

Lemma codegen_correct_partial_folded_lemma :
  forall p : program,
    ok_prog p = true -> funs_ok p -> number_prog (fold_prog p) = p ->
    forall n m : nat,
      ob_verdict (observe_ref (run_module p n)) <> OutOfFuel ->
      ob_verdict (observe_vm (run_compiled p m)) <> OutOfFuel ->
      observe_vm (run_compiled p m) = observe_ref (run_module p n).
Proof.
  intros p Hf Hk Hfold n m. unfold run_compiled. rewrite Hfold.
  exact (codegen_correct_partial_lemma p Hk Hf n m).
Qed.
