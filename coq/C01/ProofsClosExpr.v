(* C01 -- closures: simulation of expressions (scripts of ProofsCompExpr.v for the code generator of
   CompileClos.v), with the new case: a LAMBDA expression makes a closure -- default values, the
   captured cell (LOCAL of a cell slot / FREE), one tuple, MAKEFUNC -- and the function value the
   machine builds is the one the evaluator builds (ProofsClosEnv.capture_many). *)
From Coq Require Import ZArith String List Bool Lia.
From SV Require Import C01.Syntax C01.Values C01.Ref C01.VM C01.Compile C01.Frag C01.ProofsVM C01.ProofsEnv
     C01.SimDefs C01.ProofsExpr C01.ProofsCompFrag C01.ProofsCompEnv
     C01.CompileClos C01.FragClos C01.ProofsClosEnv C01.ProofsClosBase C01.ProofsClosDefs.
Import ListNotations.
Open Scope string_scope.
Open Scope list_scope.
Open Scope nat_scope.


(* ---------------------------------------------------------------- making a closure *)
Lemma firstn_len_app : forall (A : Type) (a b : list A), firstn (length a) (a ++ b) = a.
Proof. induction a; simpl; intros; auto. f_equal. auto. Qed.
Lemma skipn_len_app : forall (A : Type) (a b : list A), skipn (length a) (a ++ b) = b.
Proof. induction a; simpl; intros; auto. Qed.

Lemma makefunc_step : forall cp fn fid C pc σ L I fv K g w lid vs fc,
  nth_error C pc = Some (MAKEFUNC lid) -> find_code (cp_funs cp) lid = Some fc ->
  step cp fn {| vs_frames := {| fr_fid := fid; fr_code := C; fr_pc := pc; fr_stack := VTuple vs :: σ; fr_locals := L;
                                 fr_iters := I; fr_free := fv |} :: K; vs_g := g; vs_w := w |}
  = Next {| vs_frames := {| fr_fid := fid; fr_code := C; fr_pc := S pc;
                            fr_stack := VFun lid (firstn (length vs - length (fc_free fc)) vs)
                                          (combine (fc_free fc)
                                             (flat_map (fun v => match v with VCell c => [c] | _ => [] end)
                                                       (skipn (length vs - length (fc_free fc)) vs))) :: σ;
                            fr_locals := L; fr_iters := I; fr_free := fv |} :: K; vs_g := g; vs_w := w |}.
Proof. intros. rewrite (step_lit _ _ _ _ _ _ _ _ _ _ _ _ _ H). unfold exec_insn. cbn [fr_stack fr_pc]. rewrite H0. reflexivity. Qed.

Lemma makefunc_none : forall cp fn fid C pc σ L I fv K g w lid vs,
  nth_error C pc = Some (MAKEFUNC lid) -> find_code (cp_funs cp) lid = None ->
  step cp fn {| vs_frames := {| fr_fid := fid; fr_code := C; fr_pc := pc; fr_stack := VTuple vs :: σ; fr_locals := L;
                                 fr_iters := I; fr_free := fv |} :: K; vs_g := g; vs_w := w |}
  = Stop (VUnsup "internal:function-id").
Proof. intros. rewrite (step_lit _ _ _ _ _ _ _ _ _ _ _ _ _ H). unfold exec_insn. cbn [fr_stack fr_pc]. rewrite H0. reflexivity. Qed.

Lemma R3_unbound : forall fv lo ls U ρ L z,
  R3 fv lo ls [] U ρ L -> str_in z lo = false -> str_in z (sc_encl ls) = false -> assoc z ρ = None.
Proof.
  intros fv lo ls U ρ L z [_ Hrl] H1 H2. pose proof (Rloc3_lookup _ _ _ _ _ _ Hrl z) as Hz. simpl in Hz.
  destruct (assoc z ρ) as [[ov|c]|]; auto.
  - destruct Hz; congruence.
  - destruct Hz as [[Hz _]|[_ [Hz _]]]; congruence.
Qed.

Section Expr3.
  Variable p : program.
  Notation cp := (compile_prog3 p).
  Notation fn := (fname p).

  (* ---- unfolding equations of the code generator *)
  Section GenEq2.
    Variable ls : scope.
    Variable cs : list (string * nat).
    Notation ge := (gen_e p ls cs).
    Notation gc := (gen_c p ls cs).

    Lemma g3_not : forall ps e, ge (EUnary UNot ps e) = ge e ++ [NOT]. Proof. reflexivity. Qed.
    Lemma g3_unary : forall o ps e, o <> UNot -> ge (EUnary o ps e) = ge e ++ [UNARY o ps].
    Proof. intros; destruct o; try reflexivity; congruence. Qed.
    Lemma g3_binary : forall o ps x y, binop_eqb o NotIn = false -> ge (EBinary o ps x y) = ge x ++ ge y ++ [BINARY o ps].
    Proof. intros; destruct o; try reflexivity; discriminate. Qed.
    Lemma g3_notin : forall ps x y, ge (EBinary NotIn ps x y) = ge x ++ ge y ++ [BINARY In ps; NOT].
    Proof. intros. unfold gen_e. simpl. rewrite <- app_assoc. reflexivity. Qed.
    Lemma gc3_notin : forall ps x y t f, gc (EBinary NotIn ps x y) t f = ge x ++ ge y ++ [BINARY In ps; RCJMP (1 + f); RJMP t].
    Proof. intros. unfold gen_c, gen_e. simpl. rewrite <- app_assoc. reflexivity. Qed.
    Lemma g3_and : forall x y, ge (EAnd x y) = ge x ++ [DUP; RCJMP 1; RJMP (1 + length (ge y)); POP] ++ ge y.
    Proof. reflexivity. Qed.
    Lemma g3_or : forall x y, ge (EOr x y) = ge x ++ [DUP; RCJMP (1 + length (ge y)); POP] ++ ge y.
    Proof. reflexivity. Qed.
    Lemma g3_condexpr : forall c t f,
      ge (ECond c t f) = gc c 0 (length (ge t) + 1) ++ ge t ++ [RJMP (length (ge f))] ++ ge f.
    Proof. reflexivity. Qed.
    Lemma g3_tuple : forall es, ge (ETuple es) = flat_map ge es ++ [MAKETUPLE (length es)]. Proof. reflexivity. Qed.
    Lemma g3_list : forall es, ge (EList es) = flat_map ge es ++ [MAKELIST (length es)]. Proof. reflexivity. Qed.
    Lemma g3_index : forall x y ps, ge (EIndex x y ps) = ge x ++ ge y ++ [INDEX ps]. Proof. reflexivity. Qed.
    Lemma g3_dot : forall x name ps, ge (EDot x name ps) = ge x ++ [ATTR name ps]. Proof. reflexivity. Qed.

    Definition gopt3 (o : option expr) : list insn := match o with Some e => ge e | None => [NONE] end.
    Lemma g3_slice : forall x lo hi st ps, ge (ESlice x lo hi st ps) = ge x ++ gopt3 lo ++ gopt3 hi ++ gopt3 st ++ [SLICE ps].
    Proof. intros. destruct lo, hi, st; reflexivity. Qed.

    Lemma g3_dict : forall kvs, ge (EDict kvs) = MAKEDICT :: flat_map (entry_code3 p ls cs) kvs.
    Proof. reflexivity. Qed.

    Lemma g3_call : forall fn_ args ps, pos_then_named args = true ->
      ge (ECall fn_ args ps) = ge fn_ ++ flat_map (arg_code3 p ls cs) args
                               ++ [CALL ((if has_star args then 1 else 0) + (if has_ss args then 2 else 0))
                                        (count_pos args) (count_named args) ps].
    Proof.
      intros fn_ args ps Hsh. unfold gen_e at 1. simpl. f_equal.
      set (A := fun l : list arg => flat_map (fun a => if (match a with APos _ => true | _ => false end) || (match a with ANamed _ _ => true | _ => false end)
                                   then match a with APos e | AStar e | AStarStar e => fst (gen3 p ls cs e) | ANamed k e => CONSTANT (VStr k) :: fst (gen3 p ls cs e) end
                                   else []) l).
      set (B := fun l : list arg => flat_map (fun a => if (match a with AStar _ => true | _ => false end)
                                      then match a with APos e | AStar e | AStarStar e => fst (gen3 p ls cs e) | ANamed k e => CONSTANT (VStr k) :: fst (gen3 p ls cs e) end
                                      else []) l).
      set (Cc := fun l : list arg => flat_map (fun a => if (match a with AStarStar _ => true | _ => false end)
                                      then match a with APos e | AStar e | AStarStar e => fst (gen3 p ls cs e) | ANamed k e => CONSTANT (VStr k) :: fst (gen3 p ls cs e) end
                                      else []) l).
      change (A args ++ B args ++ Cc args ++ [CALL ((if existsb (fun a => match a with AStar _ => true | _ => false end) args then 1 else 0)
                                                    + (if existsb (fun a => match a with AStarStar _ => true | _ => false end) args then 2 else 0))
                                                   (length (filter (fun a => match a with APos _ => true | _ => false end) args))
                                                   (length (filter (fun a => match a with ANamed _ _ => true | _ => false end) args)) ps]
              = flat_map (arg_code3 p ls cs) args ++ [CALL ((if has_star args then 1 else 0) + (if has_ss args then 2 else 0)) (count_pos args) (count_named args) ps]).
      assert (H2 : forall l, shape2 l = true -> A l = [] /\ B l = [] /\ Cc l = flat_map (arg_code3 p ls cs) l).
      { intros [|[| | |e] [|]]; simpl; intros; try discriminate; repeat split; auto. }
      assert (H1 : forall l, shape1 l = true -> A l ++ B l ++ Cc l = flat_map (arg_code3 p ls cs) l).
      { induction l as [|a l IH]; simpl; intros Hl; auto.
        destruct a; try discriminate.
        - pose proof (IH Hl) as E. unfold A, B, Cc in *. simpl. rewrite <- E. rewrite <- ?app_assoc. reflexivity.
        - destruct (H2 l Hl) as [Eq1 [Eq2 Eq3]]. unfold A, B, Cc in *. simpl. rewrite Eq1, Eq2, Eq3.
          rewrite ?app_nil_r. reflexivity.
        - destruct l; try discriminate. unfold A, B, Cc. simpl. rewrite ?app_nil_r. reflexivity. }
      assert (H0 : forall l, pos_then_named l = true -> A l ++ B l ++ Cc l = flat_map (arg_code3 p ls cs) l).
      { induction l as [|a l IH]; simpl; intros Hl; auto.
        destruct a; try discriminate.
        - pose proof (IH Hl) as E. unfold A, B, Cc in *. simpl. rewrite <- E. rewrite <- ?app_assoc. reflexivity.
        - pose proof (H1 l Hl) as E. unfold A, B, Cc in *. simpl. rewrite <- E. rewrite <- ?app_assoc. reflexivity.
        - destruct (H2 l Hl) as [Eq1 [Eq2 Eq3]]. unfold A, B, Cc in *. simpl. rewrite Eq1, Eq2, Eq3. rewrite ?app_nil_r. reflexivity.
        - destruct l; try discriminate. unfold A, B, Cc. simpl. rewrite ?app_nil_r. reflexivity. }
      rewrite !app_assoc. rewrite <- (app_assoc (A args)). rewrite (H0 args Hsh). reflexivity.
    Qed.

    Lemma gc3_not : forall ps e t f, gc (EUnary UNot ps e) t f = gc e f t. Proof. reflexivity. Qed.
    Lemma gc3_and : forall x y t f,
      gc (EAnd x y) t f = ge x ++ [RCJMP (1 + 0); RJMP (length (gc y t f) + f)] ++ gc y t f.
    Proof. intros. unfold gen_c, gen_e. simpl. rewrite <- app_assoc. reflexivity. Qed.
    Lemma gc3_or : forall x y t f,
      gc (EOr x y) t f = ge x ++ [RCJMP (1 + (length (gc y t f) + t)); RJMP 0] ++ gc y t f.
    Proof. intros. unfold gen_c, gen_e. simpl. rewrite <- app_assoc. reflexivity. Qed.
  End GenEq2.

  (* ---- unfolding equations for comprehensions *)
  Lemma ok_comp : forall lo ls U used curly body bodyv cp t e0 ps rest slots,
    ok_expr3 p lo ls U used (EComp curly body bodyv cp (CFor t e0 ps :: rest) slots) =
    (is_nil (nm_expr false (EComp curly body bodyv cp (CFor t e0 ps :: rest) slots))
     && Nat.eqb (length slots) (length (comp_vars (CFor t e0 ps :: rest))) && nodup_nat slots
     && forallb (fun i => negb (nat_in i used)) slots && forallb (junkb3 lo ls) slots
     && ok_expr3 p lo ls U used e0
     && ok_target3 p lo ls (comp_vars (CFor t e0 ps :: rest) ++ U) (slots ++ used) t
     && forallb (fun x => str_in x (comp_vars (CFor t e0 ps :: rest))) (target_names t)
     && ok_cls3 p lo ls (comp_vars (CFor t e0 ps :: rest)) (slots ++ used) body bodyv
               (rm (target_names t) (comp_vars (CFor t e0 ps :: rest) ++ U)) rest).
  Proof. reflexivity. Qed.

  Lemma eval_comp : forall n stk ρ curly body bodyv cp t e ps rest slots s,
    eval p (S n) stk ρ (EComp curly body bodyv cp (CFor t e ps :: rest) slots) s =
    let '(acc, w0) := if curly then alloc_dict [] (rw s) else alloc_list [] (rw s) in
    match eval p n stk ρ e (with_w s w0) with
    | Ok (v0, s1) =>
        let '(ρc, w1) := new_vars (comp_vars (CFor t e ps :: rest)) []
                                  (nm_expr false (EComp curly body bodyv cp (CFor t e ps :: rest) slots)) (rw s1) in
        match comp p n stk (ρc ++ ρ) (Some v0) (CFor t e ps :: rest) acc curly body bodyv cp (with_w s1 w1) with
        | Ok (_, s2) => Ok (acc, s2)
        | Fail a b c => Fail a b c | Oof => Oof | Unsup u => Unsup u
        end
    | Fail a b c => Fail a b c | Oof => Oof | Unsup u => Unsup u
    end.
  Proof. reflexivity. Qed.

  Lemma ok_cls_names : forall lo ls V used body bodyv l U,
    ok_cls3 p lo ls V used body bodyv U l = true -> forall x, List.In x (cls_names l) -> List.In x V.
  Proof.
    induction l as [|[t e ps|c] l IH]; intros U H x Hx; simpl in *; try tauto.
    - apply andb_true_iff in H. destruct H as [H Hr]. apply andb_true_iff in H. destruct H as [_ Hn].
      apply in_app_iff in Hx. destruct Hx as [Hx|Hx]; eauto.
      rewrite forallb_forall in Hn. apply str_in_iff. auto.
    - apply andb_true_iff in H. destruct H as [_ Hr]. eauto.
  Qed.

  Lemma En3_step : forall n, E3 p n -> En3 p n -> En3 p (S n).
  Proof.
    intros n IHE IHN.
    unfold En3; intros stk lo ls cs U ρ L d kvs s fid C fv K pc σ I brk cont Hok HR Hstk Hcode.
    destruct kvs as [|[[k v] cps] kvs]; simpl eval_entries.
    - cbn [sim]. exists L. split; auto. fin.
    - simpl in Hok. apply andb_true_iff in Hok. destruct Hok as [Hkv Hr].
      unfold ok_entry3 in Hkv. cbn [fst snd] in Hkv. apply andb_true_iff in Hkv. destruct Hkv as [Hk Hv].
      simpl in Hcode. unfold entry_code3 at 1 in Hcode. cbn [fst snd] in Hcode.
      change (DUP :: gen_e p ls cs k ++ gen_e p ls cs v ++ [SETDICTUNIQ cps])
        with ([DUP] ++ gen_e p ls cs k ++ gen_e p ls cs v ++ [SETDICTUNIQ cps]) in Hcode.
      rewrite <- !app_assoc in Hcode. pcode_split.
      codeof3 k ltac:(fun Hc => pose proof (IHE stk lo ls cs U ρ L k s fid C fv K _ (d :: d :: σ) I brk cont Hk HR Hstk Hc) as IH1).
      assert (Hpre : star cp fn (S3 fid C fv K pc (d :: σ) L I s) (S3 fid C fv K (pc + 1) (d :: d :: σ) L I s)).
      { vstep. fin. }
      destruct (eval p n stk ρ k s) as [[vk s1]| | |]; cbn [sim fst snd] in *; auto;
        try (hstar Hpre; hchain IH1).
      destruct IH1 as (L1 & HR1 & IH1).
      codeof3 v ltac:(fun Hc => pose proof (IHE stk lo ls cs U ρ L1 v s1 fid C fv K _ (vk :: d :: d :: σ) I brk cont Hv HR1 Hstk Hc) as IH2).
      destruct (eval p n stk ρ v s1) as [[vv s2]| | |]; cbn [sim fst snd] in *; auto;
        try (hstar Hpre; hstar IH1; hchain IH2).
      destruct IH2 as (L2 & HR2 & IH2).
      destruct (index_get_opt d vk (rw s2)) as [present| |t] eqn:Eg; cbn [lift sim fst snd].
      2: { hstar Hpre. hstar IH1. hstar IH2. vstop1 Eg. }
      2: { hstar Hpre. hstar IH1. hstar IH2. vstop1 Eg. }
      destruct present.
      { cbn [sim]. hstar Hpre. hstar IH1. hstar IH2. vstop1 Eg. }
      destruct (index_set d vk vv (rw s2)) as [w'| |t] eqn:Es; cbn [lift sim fst snd].
      2: { hstar Hpre. hstar IH1. hstar IH2. with_fetch ltac:(fun H => apply halts_now; rewrite (step_lit _ _ _ _ _ _ _ _ _ _ _ _ _ H); simpl; rewrite Eg; simpl; rewrite Es; reflexivity). }
      2: { hstar Hpre. hstar IH1. hstar IH2. with_fetch ltac:(fun H => apply halts_now; rewrite (step_lit _ _ _ _ _ _ _ _ _ _ _ _ _ H); simpl; rewrite Eg; simpl; rewrite Es; reflexivity). }
      match goal with Hc : pcode_at C ?q (flat_map _ kvs) _ _ |- _ =>
        pose proof (IHN stk lo ls cs U ρ L2 d kvs (with_w s2 w') fid C fv K q σ I brk cont Hr HR2 Hstk Hc) as IH3 end.
      assert (Hpre2 : star cp fn (S3 fid C fv K pc (d :: σ) L I s)
                        (S3 fid C fv K (pc + length (entry_code3 p ls cs (k, v, cps))) (d :: σ) L2 I (with_w s2 w'))).
      { chain Hpre. chain IH1. chain IH2. vstep2 Eg Es. unfold entry_code3. cbn [fst snd]. fin. }
      destruct (eval_entries p n stk ρ d kvs (with_w s2 w')) as [s3| | |]; cbn [sim fst snd] in *; auto.
      + destruct IH3 as (L3 & HR3 & IH3). exists L3. split; auto.
        chain Hpre2. chain IH3. unfold entry_code3. cbn [fst snd]. fin.
      + hstar Hpre2. hchain IH3.
      + hstar Hpre2. hchain IH3.
  Qed.

  Lemma len_acc : forall curly : bool, length (if curly then [MAKEDICT] else [MAKELIST 0]) = 1.
  Proof. destruct curly; reflexivity. Qed.


  Hypothesis Hfuns : funs_ok3 p.

  Lemma g3_lambda : forall ls lid lps lbody pp,
    gen_e p ls [] (ELambda lid lps lbody pp)
    = fst (gen_defaults3 p ls lps false) ++ map (gen_capture ls [] pp) (fun_free p lid)
      ++ [MAKETUPLE (snd (gen_defaults3 p ls lps false) + length (fun_free p lid)); MAKEFUNC lid].
  Proof.
    intros. unfold gen_e. simpl.
    match goal with |- context [fst (?G lps false)] =>
      assert (HG : forall l seen, G l seen = gen_defaults3 p ls l seen) end.
    { induction l as [|q l IHl]; intros seen; [reflexivity|]. destruct q; simpl; rewrite ?IHl; reflexivity. }
    rewrite !HG. reflexivity.
  Qed.

  (* the capture of the free variable y of the new function: the machine pushes the cell the evaluator finds
     under the name y *)
  Lemma capture_step : forall lo ls U ρ L fv fid C K pc σ I s y pp brk cont,
    R3 fv lo ls [] U ρ L ->
    jok3 lo ls y = true ->
    match index_of y (sc_ls ls) with Some i => is_cell ls i | None => true end = true ->
    str_in y lo || str_in y (sc_fr ls) = true ->
    nth_error C pc = Some (resolve brk cont pc (gen_capture ls [] pp y)) ->
    exists c, assoc y ρ = Some (Boxed c)
              /\ star cp fn (S3 fid C fv K pc σ L I s) (S3 fid C fv K (S pc) (VCell c :: σ) L I s).
  Proof.
    intros lo ls U ρ L fv fid C K pc σ I s y pp brk cont [_ Hrl] Hj Hcell Hwhere Hf.
    pose proof (Rloc3_lookup _ _ _ _ _ _ Hrl y) as Hy. cbn [assoc] in Hy.
    unfold gen_capture in Hf. cbn [assoc] in Hf.
    destruct (str_in y lo) eqn:Elo.
    - (* a cell of this function *)
      destruct (assoc y ρ) as [[ov|c]|] eqn:Ea.
      + destruct Hy as [_ [i [Hi [Hc _]]]]. rewrite Hi in Hcell. congruence.
      + destruct Hy as [[_ [i [Hi [Hc Hn]]]] | [Hy _]]; [|congruence].
        rewrite Hi in Hf. simpl in Hf. exists c. split; auto. vstep1 Hn. apply star_refl.
      + destruct Hy; congruence.
    - (* a captured cell of this function, passed on *)
      simpl in Hwhere. unfold jok3 in Hj. rewrite Elo in Hj. simpl in Hj. apply andb_true_iff in Hj. destruct Hj as [Hls _].
      apply negb_true_iff in Hls. rewrite (index_of_none _ _ Hls) in Hf.
      destruct (index_of_some _ _ Hwhere) as [j Ej]. rewrite Ej in Hf. simpl in Hf.
      destruct (assoc y ρ) as [[ov|c]|] eqn:Ea.
      + destruct Hy; congruence.
      + destruct Hy as [[Hy _] | [_ [_ Hy]]]; [congruence|]. pose proof (Hy j Ej) as En.
        exists c. split; auto. vstep1 En. apply star_refl.
      + destruct Hy as [_ Hy]. congruence.
  Qed.

  (* the captures of the free variables ys of the new function, in order *)
  Lemma captures_steps : forall lo ls U ρ L fv fid C K I s pp brk cont ys pc σ,
    R3 fv lo ls [] U ρ L ->
    forallb (fun y => jok3 lo ls y
                      && (match index_of y (sc_ls ls) with Some i => is_cell ls i | None => true end)
                      && (str_in y lo || str_in y (sc_fr ls))) ys = true ->
    pcode_at C pc (map (gen_capture ls [] pp) ys) brk cont ->
    exists cs, Forall2 (fun y c => assoc y ρ = Some (Boxed c)) ys cs /\
               star cp fn (S3 fid C fv K pc σ L I s) (S3 fid C fv K (pc + length ys) (rev (map VCell cs) ++ σ) L I s).
  Proof.
    induction ys as [|y ys IH]; intros pc σ HR Hok Hcode.
    - exists []. split; [constructor|]. simpl. fin.
    - cbn [forallb] in Hok. apply andb_true_iff in Hok. destruct Hok as [Hy Hys].
      apply andb_true_iff in Hy. destruct Hy as [Hy Hwhere]. apply andb_true_iff in Hy. destruct Hy as [Hj Hcell].
      cbn [map] in Hcode. apply pcode_cons in Hcode. destruct Hcode as [Hf Hc].
      destruct (capture_step lo ls U ρ L fv fid C K pc σ I s y pp brk cont HR Hj Hcell Hwhere Hf) as [c [Hyc Hcap]].
      destruct (IH (S pc) (VCell c :: σ) HR Hys Hc) as [cs [Hcs Hst]].
      exists (c :: cs). split; [constructor; auto|].
      chain Hcap. chain Hst. norm_state. apply star_eq. apply St_eq; [ simpl; lia | simpl; rewrite <- app_assoc; reflexivity ].
  Qed.

  Lemma flat_map_vcell : forall cs, flat_map (fun v => match v with VCell c => [c] | _ => [] end) (map VCell cs) = cs.
  Proof. induction cs; simpl; auto. f_equal. auto. Qed.

  Lemma strs_eqb_eq3 : forall a b, strs_eqb a b = true -> a = b.
  Proof.
    induction a; destruct b; simpl; intros H; try discriminate; auto.
    apply andb_true_iff in H. destruct H as [H1 H2]. apply String.eqb_eq in H1. subst. f_equal. auto.
  Qed.

  (* fcomp.function after the defaults: the cells of the free variables, one tuple, MAKEFUNC *)
  Lemma make_closure : forall lo ls U ρ L fv fid C K pc σ I s names lid pp ds k brk cont,
    R3 fv lo ls [] U ρ L ->
    mk_ok3 p lo ls names lid = true ->
    length ds = k ->
    pcode_at C pc (map (gen_capture ls [] pp) (fun_free p lid)
                   ++ [MAKETUPLE (k + length (fun_free p lid)); MAKEFUNC lid]) brk cont ->
    match find_def p lid with
    | None => halts cp fn (S3 fid C fv K pc (rev ds ++ σ) L I s) (VUnsup "internal:function-id")
    | Some _ => star cp fn (S3 fid C fv K pc (rev ds ++ σ) L I s)
                     (S3 fid C fv K (pc + length (fun_free p lid) + 2) (VFun lid ds (capture ρ names) :: σ) L I s)
    end.
  Proof.
    intros lo ls U ρ L fv fid C K pc σ I s names lid pp ds k brk cont HR Hmk Hk Hcode.
    pose proof (Hfuns lid) as Hfid. unfold compile_prog3 in Hfid; cbn [cp_funs] in Hfid.
    unfold mk_ok3, fun_free in *.
    destruct (find_def p lid) as [[fd' encl']|] eqn:Efd.
    2: { cbn [map app length] in Hcode. rewrite Nat.add_0_r in Hcode. pcode_split.
         assert (Hpop : popn k (rev ds ++ σ) [] = Some (ds, σ)) by (subst k; apply popn_rev).
         eapply halts_star; [ vstep1 Hpop; apply star_refl | ].
         with_fetch ltac:(fun H => apply halts_now; eapply makefunc_none; [ exact H | exact Hfid ]). }
    destruct Hfid as [_ Hfc].
    apply andb_true_iff in Hmk. destruct Hmk as [Hmk Hnames]. apply andb_true_iff in Hmk. destruct Hmk as [Hord Hfr].
    apply strs_eqb_eq3 in Hord.
    assert (Hunb : forall z, List.In z names -> str_in z (free_names fd' encl') = false -> assoc z ρ = None).
    { intros z Hz Hzf. rewrite forallb_forall in Hnames. specialize (Hnames z Hz). rewrite Hzf in Hnames. simpl in Hnames.
      apply negb_true_iff in Hnames. apply orb_false_iff in Hnames. destruct Hnames. eapply R3_unbound; eauto. }
    assert (Hffree : fc_free (compile_fun3 p fd' encl') = free_names fd' encl') by reflexivity.
    apply pcode_app in Hcode. destruct Hcode as [Hcap Hrest]. rewrite map_length in Hrest. pcode_split.
    destruct (captures_steps lo ls U ρ L fv fid C K I s pp brk cont (free_names fd' encl') pc (rev ds ++ σ) HR Hfr Hcap)
      as [cs [Hcs Hst]].
    assert (Hlcs : length cs = length (free_names fd' encl')) by (symmetry; eapply Forall2_len; eauto).
    rewrite (capture_many ρ names (free_names fd' encl') cs Hcs Hord Hunb).
    assert (Hpop : popn (k + length (free_names fd' encl')) (rev (map VCell cs) ++ rev ds ++ σ) [] = Some (ds ++ map VCell cs, σ)).
    { pose proof (popn_rev (ds ++ map VCell cs) σ) as Hp.
      rewrite app_length, map_length, rev_app_distr, <- app_assoc in Hp. subst k. rewrite Hlcs in Hp. exact Hp. }
    chain Hst. vstep1 Hpop.
    with_fetch ltac:(fun H => eapply star_step; [ eapply makefunc_step; [ exact H | exact Hfc ] | simpl; lia | ]).
    rewrite Hffree, app_length, map_length, Hlcs.
    replace (length ds + length (free_names fd' encl') - length (free_names fd' encl')) with (length ds) by lia.
    rewrite firstn_len_app, skipn_len_app, flat_map_vcell. fin.
  Qed.

  Lemma E3_step : forall n, E3 p n -> Cn3 p n -> Ls3 p n -> Ar3 p n -> Ca3 p n -> En3 p n -> Cm3 p n -> Df3 p n -> E3 p (S n).
  Proof.
    intros n IHE IHC IHL IHA IHCa IHN IHM IHD.
    unfold E3; intros stk lo ls cs U ρ L e s fid C fv K pc σ I brk cont Hok HR Hstk Hcode.
    destruct e; try (simpl in Hok; discriminate).
    - (* EName *)
      simpl in Hok. simpl eval. change (gen_e p ls cs (EName x p0)) with [gen_name3 p ls cs x p0] in *.
      pcode_split.
      pose proof (name_sim3 p lo ls cs U ρ L x p0 s fid C fv K pc σ I brk cont HR Hok H) as Hn.
      destruct (lookup p ρ x p0 s); cbn [sim fst snd] in *; auto.
      exists L. split; auto. chain Hn. fin.
    - (* EInt *)
      simpl eval. change (gen_e p ls cs (EInt z)) with [CONSTANT (VInt z)] in *.
      pcode_split. cbn [sim fst snd]. exists L. split; auto. vstep. fin.
    - (* EStr *)
      simpl eval. change (gen_e p ls cs (EStr s0)) with [CONSTANT (VStr s0)] in *.
      pcode_split. cbn [sim fst snd]. exists L. split; auto. vstep. fin.
    - (* EUnsup *)
      simpl eval. change (gen_e p ls cs (EUnsup tag)) with [UNSUPPORTED tag] in *.
      pcode_split. cbn [sim]. vstop.
    - (* EParen *)
      simpl in Hok. simpl eval. exact (IHE stk lo ls cs U ρ L e s fid C fv K pc σ I brk cont Hok HR Hstk Hcode).
    - (* EUnary *)
      simpl in Hok. destruct o.
      + rewrite g3_unary in * by congruence. pcode_split.
        codeof3 e ltac:(fun Hc => pose proof (IHE stk lo ls cs U ρ L e s fid C fv K pc σ I brk cont Hok HR Hstk Hc) as IH1).
        simpl eval. destruct (eval p n stk ρ e s) as [[v s1]| | |]; cbn [sim fst snd] in *; auto.
        destruct IH1 as (L1 & HR1 & IH1).
        destruct (unary UNeg v) as [r| |t] eqn:Eu; simpl.
        * exists L1. split; auto. chain IH1. vstep1 Eu. fin.
        * hstar IH1. vstop1 Eu.
        * hstar IH1. vstop1 Eu.
      + rewrite g3_unary in * by congruence. pcode_split.
        codeof3 e ltac:(fun Hc => pose proof (IHE stk lo ls cs U ρ L e s fid C fv K pc σ I brk cont Hok HR Hstk Hc) as IH1).
        simpl eval. destruct (eval p n stk ρ e s) as [[v s1]| | |]; cbn [sim fst snd] in *; auto.
        destruct IH1 as (L1 & HR1 & IH1).
        destruct (unary UPos v) as [r| |t] eqn:Eu; simpl.
        * exists L1. split; auto. chain IH1. vstep1 Eu. fin.
        * hstar IH1. vstop1 Eu.
        * hstar IH1. vstop1 Eu.
      + rewrite g3_not in *. pcode_split.
        codeof3 e ltac:(fun Hc => pose proof (IHE stk lo ls cs U ρ L e s fid C fv K pc σ I brk cont Hok HR Hstk Hc) as IH1).
        simpl eval. destruct (eval p n stk ρ e s) as [[v s1]| | |]; cbn [sim fst snd] in *; auto.
        destruct IH1 as (L1 & HR1 & IH1).
        exists L1. split; auto. chain IH1. vstep. fin.
      + rewrite g3_unary in * by congruence. pcode_split.
        codeof3 e ltac:(fun Hc => pose proof (IHE stk lo ls cs U ρ L e s fid C fv K pc σ I brk cont Hok HR Hstk Hc) as IH1).
        simpl eval. destruct (eval p n stk ρ e s) as [[v s1]| | |]; cbn [sim fst snd] in *; auto.
        destruct IH1 as (L1 & HR1 & IH1).
        destruct (unary UTilde v) as [r| |t] eqn:Eu; simpl.
        * exists L1. split; auto. chain IH1. vstep1 Eu. fin.
        * hstar IH1. vstop1 Eu.
        * hstar IH1. vstop1 Eu.
    - (* EBinary *)
      simpl in Hok. apply andb_true_iff in Hok. destruct Hok as [Hx Hy].
      destruct (binop_eqb o NotIn) eqn:Ho.
      + assert (o = NotIn) by (destruct o; try discriminate; reflexivity). subst o.
        rewrite g3_notin in *. pcode_split.
        codeof3 e1 ltac:(fun Hc => pose proof (IHE stk lo ls cs U ρ L e1 s fid C fv K pc σ I brk cont Hx HR Hstk Hc) as IH1).
        simpl eval.
        destruct (eval p n stk ρ e1 s) as [[vx s1]| | |]; cbn [sim fst snd] in *; auto.
        destruct IH1 as (L1 & HR1 & IH1).
        codeof3 e2 ltac:(fun Hc => pose proof (IHE stk lo ls cs U ρ L1 e2 s1 fid C fv K _ (vx :: σ) I brk cont Hy HR1 Hstk Hc) as IH2).
        destruct (eval p n stk ρ e2 s1) as [[vy s2]| | |]; cbn [sim fst snd] in *; auto;
          try (hstar IH1; hchain IH2).
        destruct IH2 as (L2 & HR2 & IH2).
        rewrite binary_notin.
        destruct (binary In vx vy (rw s2)) as [[r w]| |t] eqn:Eb; simpl.
        * exists L2. split; auto. chain IH1. chain IH2. vstep1 Eb. vstep. fin.
        * hstar IH1. hstar IH2. vstop1 Eb.
        * hstar IH1. hstar IH2. vstop1 Eb.
      + rewrite (g3_binary _ _ _ _ _ _ Ho) in *. pcode_split.
        codeof3 e1 ltac:(fun Hc => pose proof (IHE stk lo ls cs U ρ L e1 s fid C fv K pc σ I brk cont Hx HR Hstk Hc) as IH1).
        simpl eval.
        destruct (eval p n stk ρ e1 s) as [[vx s1]| | |]; cbn [sim fst snd] in *; auto.
        destruct IH1 as (L1 & HR1 & IH1).
        codeof3 e2 ltac:(fun Hc => pose proof (IHE stk lo ls cs U ρ L1 e2 s1 fid C fv K _ (vx :: σ) I brk cont Hy HR1 Hstk Hc) as IH2).
        destruct (eval p n stk ρ e2 s1) as [[vy s2]| | |]; cbn [sim fst snd] in *; auto;
          try (hstar IH1; hchain IH2).
        destruct IH2 as (L2 & HR2 & IH2).
        destruct (binary o vx vy (rw s2)) as [[r w]| |t] eqn:Eb; simpl.
        * exists L2. split; auto. chain IH1. chain IH2. vstep1 Eb. fin.
        * hstar IH1. hstar IH2. vstop1 Eb.
        * hstar IH1. hstar IH2. vstop1 Eb.
    - (* EAnd *)
      simpl in Hok. apply andb_true_iff in Hok. destruct Hok as [Hx Hy].
      rewrite g3_and in *. pcode_split.
      codeof3 e1 ltac:(fun Hc => pose proof (IHE stk lo ls cs U ρ L e1 s fid C fv K pc σ I brk cont Hx HR Hstk Hc) as IH1).
      simpl eval.
      destruct (eval p n stk ρ e1 s) as [[vx s1]| | |]; cbn [sim fst snd] in *; auto.
      destruct IH1 as (L1 & HR1 & IH1).
      destruct (truth vx (rw s1)) eqn:Et.
      + codeof3 e2 ltac:(fun Hc => pose proof (IHE stk lo ls cs U ρ L1 e2 s1 fid C fv K _ σ I brk cont Hy HR1 Hstk Hc) as IH2).
        assert (Hpre : star cp fn (S3 fid C fv K pc σ L I s)
                         (S3 fid C fv K (S (S (S (S (pc + length (gen_e p ls cs e1)))))) σ L1 I s1)).
        { chain IH1. vstep. vstep1 Et. vstep. fin. }
        destruct (eval p n stk ρ e2 s1) as [[vy s2]| | |]; cbn [sim fst snd] in *; auto.
        * destruct IH2 as (L2 & HR2 & IH2). exists L2. split; auto. chain Hpre. chain IH2. fin.
        * hstar Hpre. hchain IH2.
        * hstar Hpre. hchain IH2.
      + cbn [sim fst snd]. exists L1. split; auto. chain IH1. vstep. vstep1 Et. vstep. fin.
    - (* EOr *)
      simpl in Hok. apply andb_true_iff in Hok. destruct Hok as [Hx Hy].
      rewrite g3_or in *. pcode_split.
      codeof3 e1 ltac:(fun Hc => pose proof (IHE stk lo ls cs U ρ L e1 s fid C fv K pc σ I brk cont Hx HR Hstk Hc) as IH1).
      simpl eval.
      destruct (eval p n stk ρ e1 s) as [[vx s1]| | |]; cbn [sim fst snd] in *; auto.
      destruct IH1 as (L1 & HR1 & IH1).
      destruct (truth vx (rw s1)) eqn:Et.
      + cbn [sim fst snd]. exists L1. split; auto. chain IH1. vstep. vstep1 Et. fin.
      + codeof3 e2 ltac:(fun Hc => pose proof (IHE stk lo ls cs U ρ L1 e2 s1 fid C fv K _ σ I brk cont Hy HR1 Hstk Hc) as IH2).
        assert (Hpre : star cp fn (S3 fid C fv K pc σ L I s)
                         (S3 fid C fv K (S (S (S (pc + length (gen_e p ls cs e1))))) σ L1 I s1)).
        { chain IH1. vstep. vstep1 Et. vstep. fin. }
        destruct (eval p n stk ρ e2 s1) as [[vy s2]| | |]; cbn [sim fst snd] in *; auto.
        * destruct IH2 as (L2 & HR2 & IH2). exists L2. split; auto. chain Hpre. chain IH2. fin.
        * hstar Hpre. hchain IH2.
        * hstar Hpre. hchain IH2.
    - (* ECond *)
      simpl in Hok. apply andb_true_iff in Hok. destruct Hok as [Hok Hf]. apply andb_true_iff in Hok. destruct Hok as [Hc Ht].
      rewrite g3_condexpr in *. pcode_split.
      condof3 e1 ltac:(fun Hcc => pose proof (IHC stk lo ls cs U ρ L e1 s fid C fv K pc σ I brk cont _ _ Hc HR Hstk Hcc) as IHc).
      simpl eval.
      destruct (eval p n stk ρ e1 s) as [[vc s1]| | |]; cbn [sim fst snd] in *; auto.
      destruct IHc as (L1 & HR1 & IHc).
      destruct (truth vc (rw s1)) eqn:Et.
      + codeof3 e2 ltac:(fun Hcc => pose proof (IHE stk lo ls cs U ρ L1 e2 s1 fid C fv K _ σ I brk cont Ht HR1 Hstk Hcc) as IH2).
        destruct (eval p n stk ρ e2 s1) as [[vt s2]| | |]; cbn [sim fst snd] in *; auto.
        * destruct IH2 as (L2 & HR2 & IH2). exists L2. split; auto. chain IHc. chain IH2. vstep. fin.
        * hstar IHc. hchain IH2.
        * hstar IHc. hchain IH2.
      + codeof3 e3 ltac:(fun Hcc => pose proof (IHE stk lo ls cs U ρ L1 e3 s1 fid C fv K _ σ I brk cont Hf HR1 Hstk Hcc) as IH3).
        destruct (eval p n stk ρ e3 s1) as [[vf s2]| | |]; cbn [sim fst snd] in *; auto.
        * destruct IH3 as (L2 & HR2 & IH3). exists L2. split; auto. chain IHc. chain IH3. fin.
        * hstar IHc. hchain IH3.
        * hstar IHc. hchain IH3.
    - (* ETuple *)
      simpl in Hok. rewrite g3_tuple in *. pcode_split.
      match goal with Hcc : pcode_at _ _ (flat_map _ es) _ _ |- _ =>
        pose proof (IHL stk lo ls cs U ρ L es s fid C fv K pc σ I brk cont Hok HR Hstk Hcc) as IHl end.
      simpl eval.
      destruct (evals p n stk ρ es s) as [[vs s1]| | |] eqn:Ev; cbn [sim fst snd] in *; auto.
      destruct IHl as (L1 & HR1 & IHl).
      assert (Hpop : popn (length es) (rev vs ++ σ) [] = Some (vs, σ)).
      { rewrite <- (evals_length _ _ _ _ _ _ _ _ Ev). apply popn_rev. }
      exists L1. split; auto. chain IHl. vstep1 Hpop. fin.
    - (* EList *)
      simpl in Hok. rewrite g3_list in *. pcode_split.
      match goal with Hcc : pcode_at _ _ (flat_map _ es) _ _ |- _ =>
        pose proof (IHL stk lo ls cs U ρ L es s fid C fv K pc σ I brk cont Hok HR Hstk Hcc) as IHl end.
      simpl eval.
      destruct (evals p n stk ρ es s) as [[vs s1]| | |] eqn:Ev; cbn [sim fst snd] in *; auto.
      destruct IHl as (L1 & HR1 & IHl).
      assert (Hpop : popn (length es) (rev vs ++ σ) [] = Some (vs, σ)).
      { rewrite <- (evals_length _ _ _ _ _ _ _ _ Ev). apply popn_rev. }
      destruct (alloc_list vs (rw s1)) as [v w'] eqn:Ea. cbn [sim fst snd].
      exists L1. split; auto. chain IHl. vstep2 Hpop Ea. fin.
    - (* EDict *)
      simpl in Hok. rewrite g3_dict in *. pcode_split.
      simpl eval.
      destruct (alloc_dict [] (rw s)) as [d w] eqn:Ea.
      match goal with Hc : pcode_at C ?q (flat_map _ kvs) _ _ |- _ =>
        pose proof (IHN stk lo ls cs U ρ L d kvs (with_w s w) fid C fv K q σ I brk cont Hok HR Hstk Hc) as IH1 end.
      assert (Hpre : star cp fn (S3 fid C fv K pc σ L I s) (S3 fid C fv K (S pc) (d :: σ) L I (with_w s w))).
      { vstep1 Ea. fin. }
      destruct (eval_entries p n stk ρ d kvs (with_w s w)) as [s1| | |]; cbn [sim fst snd] in *; auto.
      + destruct IH1 as (L1 & HR1 & IH1). exists L1. split; auto. chain Hpre. chain IH1. fin.
      + hstar Hpre. hchain IH1.
      + hstar Hpre. hchain IH1.
    - (* EIndex *)
      simpl in Hok. apply andb_true_iff in Hok. destruct Hok as [Hx Hy].
      rewrite g3_index in *. pcode_split.
      codeof3 e1 ltac:(fun Hc => pose proof (IHE stk lo ls cs U ρ L e1 s fid C fv K pc σ I brk cont Hx HR Hstk Hc) as IH1).
      simpl eval.
      destruct (eval p n stk ρ e1 s) as [[vx s1]| | |]; cbn [sim fst snd] in *; auto.
      destruct IH1 as (L1 & HR1 & IH1).
      codeof3 e2 ltac:(fun Hc => pose proof (IHE stk lo ls cs U ρ L1 e2 s1 fid C fv K _ (vx :: σ) I brk cont Hy HR1 Hstk Hc) as IH2).
      destruct (eval p n stk ρ e2 s1) as [[vy s2]| | |]; cbn [sim fst snd] in *; auto;
        try (hstar IH1; hchain IH2).
      destruct IH2 as (L2 & HR2 & IH2).
      destruct (index_get vx vy (rw s2)) as [r| |t] eqn:Eb; simpl.
      + exists L2. split; auto. chain IH1. chain IH2. vstep1 Eb. fin.
      + hstar IH1. hstar IH2. vstop1 Eb.
      + hstar IH1. hstar IH2. vstop1 Eb.
    - (* EDot *)
      simpl in Hok. rewrite g3_dot in *. pcode_split.
      codeof3 e ltac:(fun Hc => pose proof (IHE stk lo ls cs U ρ L e s fid C fv K pc σ I brk cont Hok HR Hstk Hc) as IH1).
      simpl eval.
      destruct (eval p n stk ρ e s) as [[vx s1]| | |]; cbn [sim fst snd] in *; auto.
      destruct IH1 as (L1 & HR1 & IH1).
      destruct (getattr vx name (rw s1)) as [r| |t] eqn:Eb; simpl.
      + exists L1. split; auto. chain IH1. vstep1 Eb. fin.
      + hstar IH1. vstop1 Eb.
      + hstar IH1. vstop1 Eb.
    - (* ECall *)
      simpl in Hok. apply andb_true_iff in Hok. destruct Hok as [Hok Hshape]. apply andb_true_iff in Hok. destruct Hok as [Hf Hargs].
      change (ok_args3 p lo ls U (map snd cs) args = true) in Hargs.
      rewrite (g3_call _ _ e args p0 Hshape) in *. pcode_split.
      codeof3 e ltac:(fun Hc => pose proof (IHE stk lo ls cs U ρ L e s fid C fv K pc σ I brk cont Hf HR Hstk Hc) as IH1).
      simpl eval.
      destruct (eval p n stk ρ e s) as [[vf s1]| | |]; cbn [sim fst snd] in *; auto.
      destruct IH1 as (L1 & HR1 & IH1).
      match goal with Hcc : pcode_at _ _ (flat_map _ args) _ _ |- _ =>
        pose proof (IHA stk lo ls cs U ρ L1 args [] [] None None s1 fid C fv K _ (vf :: σ) I brk cont Hargs HR1 Hstk Hcc) as IHa end.
      destruct (eval_args p n stk ρ args [] [] None None s1) as [r| | |]; cbn [sim fst snd] in *; auto;
        try (hstar IH1; hchain IHa).
      destruct IHa as [vs [nm [sa [ss [s2 [-> [Hlen [Hlen2 [Hsa [Hss IHa]]]]]]]]]]. specialize (IHa Hshape).
      destruct IHa as (L2 & HR2 & IHa). simpl.
      assert (Hmode : (if has_star args then 1 else 0) + (if has_ss args then 2 else 0) = mode_of sa ss).
      { unfold mode_of. destruct (has_star args), (has_ss args); destruct sa, ss; subst; try congruence; try discriminate; reflexivity. }
      assert (Hst : (if has_ss args then optl ss else []) ++ (if has_star args then optl sa else []) = optl ss ++ optl sa).
      { destruct (has_star args), (has_ss args); subst; reflexivity. }
      match goal with Hcc : nth_error C ?q = Some (CALL _ _ _ _) |- _ =>
        rewrite <- Hlen, <- Hlen2, Hmode in Hcc;
        pose proof (IHCa stk vf vs nm sa ss p0 s2 fid C fv K q σ L2 I Hstk Hcc) as IHc end.
      unfold ref_call in IHc.
      assert (Hpre : star cp fn (S3 fid C fv K pc σ L I s)
                       (S3 fid C fv K (pc + length (gen_e p ls cs e) + length (flat_map (arg_code3 p ls cs) args))
                           (optl ss ++ optl sa ++ rev (flatkw nm) ++ rev vs ++ vf :: σ) L2 I s2)).
      { chain IH1. chain IHa. norm_state. apply star_eq. f_equal. f_equal. f_equal.
        rewrite (app_assoc _ _ (rev (flatkw nm) ++ _)). rewrite Hst. rewrite <- !app_assoc. reflexivity. }
      destruct (lift (starstar_args ss (rw s2)) p0 (rw s2)) as [kw2| | |]; cbn [sim fst snd] in *; auto;
        try (hstar Hpre; hchain IHc).
      destruct (lift (star_args sa (rw s2)) p0 (rw s2)) as [pos2| | |]; cbn [sim fst snd] in *; auto;
        try (hstar Hpre; hchain IHc).
      destruct (call p n stk vf (vs ++ pos2) (nm ++ kw2) p0 s2) as [[r s3]| | |]; cbn [sim fst snd] in *; auto.
      + exists L2. split; auto. chain Hpre. chain IHc. fin.
      + hstar Hpre. hchain IHc.
      + hstar Hpre. hchain IHc.
    - (* ELambda *)
      match goal with Hok' : ok_expr3 _ _ _ _ _ (ELambda ?a ?b ?c ?d) = true |- _ =>
        rename a into lid; rename b into lps; rename c into lbody; rename d into lpos end.
      simpl in Hok.
      apply andb_true_iff in Hok. destruct Hok as [Hok Hmk]. apply andb_true_iff in Hok. destruct Hok as [Hok Hps].
      apply andb_true_iff in Hok. destruct Hok as [Hused HU].
      destruct cs as [|c0 cs]; [|discriminate Hused]. destruct U as [|u0 U]; [|discriminate HU]. clear Hused HU.
      change (forallb (ok_param3 p lo ls) lps = true) in Hps.
      rewrite g3_lambda in *.
      pose proof (IHD stk lo ls ρ L lps false s fid C fv K pc σ I brk cont Hps HR Hstk) as IH1.
      destruct (gen_defaults3 p ls lps false) as [c k] eqn:Eg. cbn [fst snd] in *.
      apply pcode_app in Hcode. destruct Hcode as [Hcd Hcc].
      specialize (IH1 Hcd).
      simpl eval.
      destruct (eval_defaults p n stk ρ lps false s) as [[ds s1]| | |]; cbn [sim fst snd] in *; auto.
      destruct IH1 as [Hlen (L1 & HR1 & IH1)].
      pose proof (make_closure lo ls [] ρ L1 fv fid C K (pc + length c) σ I s1
                    (mentioned lps [SReturn (Some lbody)]) lid lpos ds k brk cont HR1 Hmk Hlen Hcc) as Hmc.
      destruct (find_def p lid) as [d|]; cbn [sim fst snd].
      + exists L1. split; auto. chain IH1. chain Hmc.
        norm_state. apply star_eq. apply St_eq; [ rewrite !app_length, map_length; simpl; lia | reflexivity ].
      + hstar IH1. hchain Hmc.
    - (* EComp *)
      rename cp into cq. rename e1 into body. rename e2 into bodyv.
      destruct cls as [|[t e0 ps|c0] rest]; try (simpl in Hok; discriminate).
      rewrite ok_comp in Hok. rewrite gen_comp in *. rewrite eval_comp.
      set (V := comp_vars (CFor t e0 ps :: rest)) in *.
      set (cs' := combine V slots ++ cs) in *.
      apply andb_true_iff in Hok. destruct Hok as [Hok Hcls].
      apply andb_true_iff in Hok. destruct Hok as [Hok Htn].
      apply andb_true_iff in Hok. destruct Hok as [Hok Htg].
      apply andb_true_iff in Hok. destruct Hok as [Hok He0].
      apply andb_true_iff in Hok. destruct Hok as [Hok Hjk].
      apply andb_true_iff in Hok. destruct Hok as [Hok Hdis].
      apply andb_true_iff in Hok. destruct Hok as [Hok Hnd].
      apply andb_true_iff in Hok. destruct Hok as [Hnil Hlen].
      apply Nat.eqb_eq in Hlen.
      assert (Hacc : exists acc w0, (if curly then alloc_dict [] (rw s) else alloc_list [] (rw s)) = (acc, w0)
                       /\ (curly = false -> exists a, acc = VRef a)
                       /\ star cp fn (S3 fid C fv K pc σ L I s) (S3 fid C fv K (S pc) (acc :: σ) L I (with_w s w0))).
      { destruct curly.
        - destruct (alloc_dict [] (rw s)) as [d w] eqn:Ea. exists d, w. split; auto. split; [discriminate|].
          pcode_split. vstep1 Ea. fin.
        - destruct (alloc_list [] (rw s)) as [d w] eqn:Ea. exists d, w. split; auto.
          split; [intros _; eapply alloc_list_ref; eauto|].
          pcode_split. vstep1 Ea. fin. }
      destruct Hacc as (acc & w0 & Eacc & Hacc & Hpre0). rewrite Eacc.
      pcode_split. rewrite ?len_acc in *.
      codeof3 e0 ltac:(fun Hc => pose proof (IHE stk lo ls cs U ρ L e0 (with_w s w0) fid C fv K _ (acc :: σ) I brk cont He0 HR Hstk Hc) as IH1).
      destruct (eval p n stk ρ e0 (with_w s w0)) as [[v0 s1]| | |]; cbn [sim fst snd] in *; auto;
        try (hstar Hpre0; hchain IH1).
      destruct IH1 as (L1 & HR1 & IH1).
      destruct (nm_expr false (EComp curly body bodyv cq (CFor t e0 ps :: rest) slots)) eqn:Enm; [|discriminate].
      fold V. rewrite new_vars_fresh.
      assert (Hused : map snd cs' = slots ++ map snd cs).
      { unfold cs'. rewrite map_app, combine_snd; auto. }
      assert (HRin : R3 fv lo ls cs' (V ++ U) (fresh_env V ++ ρ) L1).
      { destruct HR1 as [Hre Hrl]. split; [apply Renv_enter; auto|].
        apply Rloc3_enter; auto.
        - apply nodup_nat_ok; auto.
        - intros i Hi Hin. rewrite forallb_forall in Hdis. specialize (Hdis i Hi).
          apply negb_true_iff in Hdis. apply nat_in_iff in Hin. congruence.
        - apply Forall_forall. intros i Hi. rewrite forallb_forall in Hjk. apply junkb3_ok. auto. }
      assert (Hokc : ok_cls_from p lo ls V (map snd cs') curly body bodyv (V ++ U) (Some v0) (CFor t e0 ps :: rest) = true).
      { unfold ok_cls_from. rewrite Hused. rewrite Htg, Htn, Hcls. reflexivity. }
      match goal with Hcl : pcode_at C ?q (loop_tail _ _ _) _ _ |- _ =>
        pose proof (IHM stk lo ls cs' (V ++ U) V (fresh_env V ++ ρ) L1 (Some v0) (CFor t e0 ps :: rest) acc curly body bodyv cq
                        (with_w s1 (rw s1)) fid C fv K q σ I brk cont Hokc Hacc HRin Hstk Hcl) as IH2 end.
      destruct (comp p n stk (fresh_env V ++ ρ) (Some v0) (CFor t e0 ps :: rest) acc curly body bodyv cq (with_w s1 (rw s1)))
        as [[ρ2 s2]| | |] eqn:Ecomp; cbn [sim fst snd] in *; auto;
        try (hstar Hpre0; hstar IH1; hchain IH2).
      destruct IH2 as (L2 & HR2 & IH2).
      destruct (tails p n) as (_ & _ & Tc & _).
      destruct (Tc _ _ _ _ _ _ _ _ _ _ _ _ _ Ecomp) as (ρc2 & -> & Hnames).
      { rewrite fresh_names. intros x Hx. simpl in Hx. apply in_app_iff in Hx. destruct Hx as [Hx|Hx].
        - rewrite forallb_forall in Htn. apply str_in_iff. auto.
        - eapply ok_cls_names; eauto. }
      assert (HRout : R3 fv lo ls cs U ρ L2).
      { split; [apply HR1|]. eapply Rloc3_exit with (cs' := combine V slots) (ρc' := ρc2); [apply HR2|].
        rewrite combine_length, Hlen, Nat.min_id. rewrite <- (map_length fst ρc2), Hnames, fresh_names. reflexivity. }
      exists L2. split; auto. chain Hpre0. chain IH1. chain IH2. unfold gen_cls_from.
      norm_state. apply star_eq. apply St_eq; [ rewrite ?app_length, ?len_acc; simpl; lia | reflexivity ].
    - (* ESlice *)
      simpl in Hok.
      apply andb_true_iff in Hok. destruct Hok as [Hok Hst]. apply andb_true_iff in Hok. destruct Hok as [Hok Hhi].
      apply andb_true_iff in Hok. destruct Hok as [Hx Hlo].
      assert (Hopt : forall (oe : option expr) s0 pc0 σ0 L0,
                 match oe with Some e0 => ok_expr3 p lo ls U (map snd cs) e0 = true | None => True end ->
                 R3 fv lo ls cs U ρ L0 ->
                 pcode_at C pc0 (gopt3 ls cs oe) brk cont ->
                 sim p (match oe with Some e0 => eval p n stk ρ e0 s0 | None => Ok (VNone, s0) end)
                     (S3 fid C fv K pc0 σ0 L0 I s0)
                     (fun r => exists L', R3 fv lo ls cs U ρ L' /\
                               star cp fn (S3 fid C fv K pc0 σ0 L0 I s0)
                                 (S3 fid C fv K (pc0 + length (gopt3 ls cs oe)) (fst r :: σ0) L' I (snd r)))).
      { intros [e0|] s0 pc0 σ0 L0 Ho HR0 Hc; cbn [gopt3 sim] in *.
        - exact (IHE stk lo ls cs U ρ L0 e0 s0 fid C fv K pc0 σ0 I brk cont Ho HR0 Hstk Hc).
        - pcode_split. exists L0. split; auto. vstep. fin. }
      rewrite g3_slice in *. pcode_split.
      codeof3 e ltac:(fun Hc => pose proof (IHE stk lo ls cs U ρ L e s fid C fv K pc σ I brk cont Hx HR Hstk Hc) as IH1).
      simpl eval.
      destruct (eval p n stk ρ e s) as [[vx s1]| | |]; cbn [sim fst snd] in *; auto.
      destruct IH1 as (L1 & HR1 & IH1).
      match goal with Hc : pcode_at C ?q (gopt3 _ _ lo0) _ _ |- _ =>
        pose proof (Hopt lo0 s1 q (vx :: σ) L1 ltac:(destruct lo0; auto) HR1 Hc) as IH2 end.
      destruct (match lo0 with Some e0 => eval p n stk ρ e0 s1 | None => Ok (VNone, s1) end) as [[vlo s2]| | |];
        cbn [sim fst snd] in *; auto; try (hstar IH1; hchain IH2).
      destruct IH2 as (L2 & HR2 & IH2).
      match goal with Hc : pcode_at C ?q (gopt3 _ _ hi) _ _ |- _ =>
        pose proof (Hopt hi s2 q (vlo :: vx :: σ) L2 ltac:(destruct hi; auto) HR2 Hc) as IH3 end.
      destruct (match hi with Some e0 => eval p n stk ρ e0 s2 | None => Ok (VNone, s2) end) as [[vhi s3]| | |];
        cbn [sim fst snd] in *; auto; try (hstar IH1; hstar IH2; hchain IH3).
      destruct IH3 as (L3 & HR3 & IH3).
      match goal with Hc : pcode_at C ?q (gopt3 _ _ step) _ _ |- _ =>
        pose proof (Hopt step s3 q (vhi :: vlo :: vx :: σ) L3 ltac:(destruct step; auto) HR3 Hc) as IH4 end.
      destruct (match step with Some e0 => eval p n stk ρ e0 s3 | None => Ok (VNone, s3) end) as [[vst s4]| | |];
        cbn [sim fst snd] in *; auto; try (hstar IH1; hstar IH2; hstar IH3; hchain IH4).
      destruct IH4 as (L4 & HR4 & IH4).
      destruct (slice_op vx vlo vhi vst (rw s4)) as [[r w]| |t] eqn:Eb; cbn [lift sim fst snd].
      + exists L4. split; auto. chain IH1. chain IH2. chain IH3. chain IH4. vstep1 Eb. fin.
      + hstar IH1. hstar IH2. hstar IH3. hstar IH4. vstop1 Eb.
      + hstar IH1. hstar IH2. hstar IH3. hstar IH4. vstop1 Eb.
  Qed.

  Lemma cond_default3 : forall n, E3 p (S n) ->
    forall stk lo ls cs U ρ L e s fid C fv K pc σ I brk cont t f,
      gen_c p ls cs e t f = gen_e p ls cs e ++ [RCJMP (1 + t); RJMP f] ->
      ok_expr3 p lo ls U (map snd cs) e = true -> R3 fv lo ls cs U ρ L -> stk_ok stk fid K ->
      pcode_at C pc (gen_c p ls cs e t f) brk cont ->
      sim p (eval p (S n) stk ρ e s) (S3 fid C fv K pc σ L I s)
          (fun r => exists L', R3 fv lo ls cs U ρ L' /\
                    star cp fn (S3 fid C fv K pc σ L I s)
                         (S3 fid C fv K (pc + length (gen_c p ls cs e t f) + (if truth (fst r) (rw (snd r)) then t else f))
                             σ L' I (snd r))).
  Proof.
    intros n HE stk lo ls cs U ρ L e s fid C fv K pc σ I brk cont t f Hg Hok HR Hstk Hcode.
    rewrite Hg in *. pcode_split.
    codeof3 e ltac:(fun Hc => pose proof (HE stk lo ls cs U ρ L e s fid C fv K pc σ I brk cont Hok HR Hstk Hc) as IH1).
    destruct (eval p (S n) stk ρ e s) as [[v s1]| | |]; cbn [sim fst snd] in *; auto.
    destruct IH1 as (L1 & HR1 & IH1). exists L1. split; auto.
    destruct (truth v (rw s1)) eqn:Et.
    - chain IH1. vstep1 Et. fin.
    - chain IH1. vstep1 Et. vstep. fin.
  Qed.

  Lemma Cn3_step : forall n, E3 p (S n) -> E3 p n -> Cn3 p n -> Cn3 p (S n).
  Proof.
    intros n HE IHE IHC.
    unfold Cn3; intros stk lo ls cs U ρ L e s fid C fv K pc σ I brk cont t f Hok HR Hstk Hcode.
    destruct e; try (solve [eapply (cond_default3 n HE); eauto; reflexivity]); try (simpl in Hok; discriminate).
    - (* EUnary *)
      destruct o; try (solve [eapply (cond_default3 n HE); eauto; reflexivity]).
      simpl in Hok. rewrite gc3_not in *.
      pose proof (IHC stk lo ls cs U ρ L e s fid C fv K pc σ I brk cont f t Hok HR Hstk Hcode) as IH1.
      simpl eval.
      destruct (eval p n stk ρ e s) as [[v s1]| | |]; cbn [sim fst snd] in *; auto.
      rewrite truth_bool. destruct (truth v (rw s1)); exact IH1.
    - (* EBinary *)
      destruct (binop_eqb o NotIn) eqn:Ho.
      2: { eapply (cond_default3 n HE); eauto. destruct o; try reflexivity; discriminate. }
      assert (o = NotIn) by (destruct o; try discriminate; reflexivity). subst o.
      simpl in Hok. apply andb_true_iff in Hok. destruct Hok as [Hx Hy].
      rewrite gc3_notin in *. pcode_split.
      codeof3 e1 ltac:(fun Hc => pose proof (IHE stk lo ls cs U ρ L e1 s fid C fv K pc σ I brk cont Hx HR Hstk Hc) as IH1).
      simpl eval.
      destruct (eval p n stk ρ e1 s) as [[vx s1]| | |]; cbn [sim fst snd] in *; auto.
      destruct IH1 as (L1 & HR1 & IH1).
      codeof3 e2 ltac:(fun Hc => pose proof (IHE stk lo ls cs U ρ L1 e2 s1 fid C fv K _ (vx :: σ) I brk cont Hy HR1 Hstk Hc) as IH2).
      destruct (eval p n stk ρ e2 s1) as [[vy s2]| | |]; cbn [sim fst snd] in *; auto;
        try (hstar IH1; hchain IH2).
      destruct IH2 as (L2 & HR2 & IH2).
      rewrite binary_notin.
      destruct (binary In vx vy (rw s2)) as [[r w]| |t0] eqn:Eb; cbn [lift sim fst snd with_w rw].
      + exists L2. split; auto.
        rewrite truth_bool. destruct (truth r w) eqn:Et; cbn [negb].
        * chain IH1. chain IH2. vstep1 Eb. vstep1 Et. fin.
        * chain IH1. chain IH2. vstep1 Eb. vstep1 Et. vstep. fin.
      + hstar IH1. hstar IH2. vstop1 Eb.
      + hstar IH1. hstar IH2. vstop1 Eb.
    - (* EAnd *)
      simpl in Hok. apply andb_true_iff in Hok. destruct Hok as [Hx Hy].
      rewrite gc3_and in *. pcode_split.
      codeof3 e1 ltac:(fun Hc => pose proof (IHE stk lo ls cs U ρ L e1 s fid C fv K pc σ I brk cont Hx HR Hstk Hc) as IH1).
      simpl eval.
      destruct (eval p n stk ρ e1 s) as [[vx s1]| | |]; cbn [sim fst snd] in *; auto.
      destruct IH1 as (L1 & HR1 & IH1).
      destruct (truth vx (rw s1)) eqn:Et.
      + condof3 e2 ltac:(fun Hc => pose proof (IHC stk lo ls cs U ρ L1 e2 s1 fid C fv K _ σ I brk cont t f Hy HR1 Hstk Hc) as IH2).
        assert (Hpre : star cp fn (S3 fid C fv K pc σ L I s)
                         (S3 fid C fv K (pc + length (gen_e p ls cs e1) + 2) σ L1 I s1)).
        { chain IH1. vstep1 Et. fin. }
        destruct (eval p n stk ρ e2 s1) as [[vy s2]| | |]; cbn [sim fst snd] in *; auto.
        * destruct IH2 as (L2 & HR2 & IH2). exists L2. split; auto. chain Hpre. chain IH2. fin.
        * hstar Hpre. hchain IH2.
        * hstar Hpre. hchain IH2.
      + cbn [sim fst snd]. rewrite Et. exists L1. split; auto. chain IH1. vstep1 Et. vstep. fin.
    - (* EOr *)
      simpl in Hok. apply andb_true_iff in Hok. destruct Hok as [Hx Hy].
      rewrite gc3_or in *. pcode_split.
      codeof3 e1 ltac:(fun Hc => pose proof (IHE stk lo ls cs U ρ L e1 s fid C fv K pc σ I brk cont Hx HR Hstk Hc) as IH1).
      simpl eval.
      destruct (eval p n stk ρ e1 s) as [[vx s1]| | |]; cbn [sim fst snd] in *; auto.
      destruct IH1 as (L1 & HR1 & IH1).
      destruct (truth vx (rw s1)) eqn:Et.
      + cbn [sim fst snd]. rewrite Et. exists L1. split; auto. chain IH1. vstep1 Et. fin.
      + condof3 e2 ltac:(fun Hc => pose proof (IHC stk lo ls cs U ρ L1 e2 s1 fid C fv K _ σ I brk cont t f Hy HR1 Hstk Hc) as IH2).
        assert (Hpre : star cp fn (S3 fid C fv K pc σ L I s)
                         (S3 fid C fv K (pc + length (gen_e p ls cs e1) + 2) σ L1 I s1)).
        { chain IH1. vstep1 Et. vstep. fin. }
        destruct (eval p n stk ρ e2 s1) as [[vy s2]| | |]; cbn [sim fst snd] in *; auto.
        * destruct IH2 as (L2 & HR2 & IH2). exists L2. split; auto. chain Hpre. chain IH2. fin.
        * hstar Hpre. hchain IH2.
        * hstar Hpre. hchain IH2.
    - (* EComp *)
      eapply (cond_default3 n HE); eauto. destruct cls as [|[t0 e0 ps0|c0] rest]; reflexivity.
  Qed.

  Lemma Ls3_step : forall n, E3 p n -> Ls3 p n -> Ls3 p (S n).
  Proof.
    intros n IHE IHL.
    unfold Ls3; intros stk lo ls cs U ρ L es s fid C fv K pc σ I brk cont Hok HR Hstk Hcode.
    destruct es as [|e es]; simpl evals.
    - cbn [sim fst snd]. exists L. split; auto. fin.
    - simpl in Hok, Hcode. apply andb_true_iff in Hok. destruct Hok as [He Hes]. pcode_split.
      codeof3 e ltac:(fun Hc => pose proof (IHE stk lo ls cs U ρ L e s fid C fv K pc σ I brk cont He HR Hstk Hc) as IH1).
      destruct (eval p n stk ρ e s) as [[v s1]| | |]; cbn [sim fst snd] in *; auto.
      destruct IH1 as (L1 & HR1 & IH1).
      match goal with Hcc : pcode_at _ _ (flat_map _ es) _ _ |- _ =>
        pose proof (IHL stk lo ls cs U ρ L1 es s1 fid C fv K _ (v :: σ) I brk cont Hes HR1 Hstk Hcc) as IH2 end.
      destruct (evals p n stk ρ es s1) as [[vs s2]| | |]; cbn [sim fst snd] in *; auto.
      + destruct IH2 as (L2 & HR2 & IH2). exists L2. split; auto.
        chain IH1. chain IH2. norm_state. apply star_eq. f_equal. f_equal. f_equal.
        * simpl flat_map. rewrite app_length. lia.
        * simpl. rewrite <- app_assoc. reflexivity.
      + hstar IH1. hchain IH2.
      + hstar IH1. hchain IH2.
  Qed.

  Lemma Df3_step : forall n, E3 p n -> Df3 p n -> Df3 p (S n).
  Proof.
    intros n IHE IHD.
    unfold Df3; intros stk lo ls ρ L ps seen s fid C fv K pc σ I brk cont Hok HR Hstk Hcode.
    destruct ps as [|q ps]; simpl eval_defaults.
    - cbn [sim fst snd]. split; auto. exists L. split; auto. fin.
    - simpl in Hok. apply andb_true_iff in Hok. destruct Hok as [Hq Hps].
      destruct q; simpl in Hcode |- *.
      + (* plain *)
        destruct (gen_defaults3 p ls ps seen) as [c k] eqn:Eg.
        pose proof (IHD stk lo ls ρ L ps seen s fid C fv K) as IH. rewrite Eg in IH. cbn [fst snd] in IH.
        destruct seen; cbn [fst snd] in *.
        * pcode_split.
          match goal with Hc : pcode_at C ?q c _ _ |- _ => specialize (IH q (VMandatory :: σ) I brk cont Hps HR Hstk Hc) end.
          destruct (eval_defaults p n stk ρ ps true s) as [[vs s1]| | |]; cbn [sim fst snd] in *; auto.
          -- destruct IH as [Hl (L1 & HR1 & IH)]. split; [simpl; congruence|]. exists L1. split; auto.
             vstep. chain IH. norm_state. apply star_eq. f_equal. f_equal. f_equal.
             ++ lia.
             ++ simpl. rewrite <- app_assoc. reflexivity.
          -- eapply halts_star; [ vstep; apply star_refl | ]. hchain IH.
          -- eapply halts_star; [ vstep; apply star_refl | ]. hchain IH.
        * specialize (IH pc σ I brk cont Hps HR Hstk Hcode).
          destruct (eval_defaults p n stk ρ ps false s) as [[vs s1]| | |]; cbn [sim fst snd] in *; auto.
      + (* default *)
        destruct (gen_defaults3 p ls ps seen) as [c k] eqn:Eg. cbn [fst snd] in *. pcode_split.
        unfold ok_param2 in Hq.
        match goal with Hc : pcode_at C pc (gen_expr3 _ _ e) _ _ |- _ =>
          pose proof (IHE stk lo ls [] [] ρ L e s fid C fv K pc σ I brk cont Hq HR Hstk Hc) as IH1 end.
        destruct (eval p n stk ρ e s) as [[v s1]| | |]; cbn [sim fst snd] in *; auto.
        destruct IH1 as (L1 & HR1 & IH1).
        pose proof (IHD stk lo ls ρ L1 ps seen s1 fid C fv K) as IH. rewrite Eg in IH. cbn [fst snd] in IH.
        match goal with Hc : pcode_at C ?q c _ _ |- _ => specialize (IH q (v :: σ) I brk cont Hps HR1 Hstk Hc) end.
        destruct (eval_defaults p n stk ρ ps seen s1) as [[vs s2]| | |]; cbn [sim fst snd] in *; auto.
        * destruct IH as [Hl (L2 & HR2 & IH)]. split; [simpl; congruence|]. exists L2. split; auto.
          chain IH1. chain IH. norm_state. apply star_eq. f_equal. f_equal. f_equal.
          -- rewrite app_length. unfold gen_e, gen_expr3. lia.
          -- simpl. rewrite <- app_assoc. reflexivity.
        * hstar IH1. hchain IH.
        * hstar IH1. hchain IH.
      + (* star *)
        exact (IHD stk lo ls ρ L ps true s fid C fv K pc σ I brk cont Hps HR Hstk Hcode).
      + (* starstar *)
        exact (IHD stk lo ls ρ L ps true s fid C fv K pc σ I brk cont Hps HR Hstk Hcode).
  Qed.

  Lemma Ar3_step : forall n, E3 p n -> Ar3 p n -> Ar3 p (S n).
  Proof.
    intros n IHE IHA.
    unfold Ar3; intros stk lo ls cs U ρ L args acc nacc sa0 ss0 s fid C fv K pc σ I brk cont Hok HR Hstk Hcode.
    destruct args as [|a args]; simpl eval_args.
    - cbn [sim]. exists [], [], sa0, ss0, s. rewrite !app_nil_r. repeat split; auto. intros _. exists L. split; auto. fin.
    - simpl in Hok. apply andb_true_iff in Hok. destruct Hok as [He Hes].
      change (ok_args3 p lo ls U (map snd cs) args = true) in Hes.
      destruct a; simpl in Hcode; pcode_split.
      + (* positional *)
        codeof3 e ltac:(fun Hc => pose proof (IHE stk lo ls cs U ρ L e s fid C fv K pc σ I brk cont He HR Hstk Hc) as IH1).
        destruct (eval p n stk ρ e s) as [[v s1]| | |]; cbn [sim fst snd] in *; auto.
        destruct IH1 as (L1 & HR1 & IH1).
        match goal with Hcc : pcode_at _ _ (flat_map _ args) _ _ |- _ =>
          pose proof (IHA stk lo ls cs U ρ L1 args (acc ++ [v]) nacc sa0 ss0 s1 fid C fv K _ (v :: σ) I brk cont Hes HR1 Hstk Hcc) as IH2 end.
        destruct (eval_args p n stk ρ args (acc ++ [v]) nacc sa0 ss0 s1) as [r| | |]; cbn [sim fst snd] in *; auto.
        * destruct IH2 as [vs [nm [sa [ss [s2 [-> [Hl1 [Hl2 [Hsa [Hss IH2]]]]]]]]]].
          exists (v :: vs), nm, sa, ss, s2. rewrite <- app_assoc. simpl. repeat split; auto.
          -- unfold count_pos in *. simpl. lia.
          -- intros Hsh. specialize (IH2 Hsh). destruct IH2 as (L2 & HR2 & IH2). exists L2. split; auto.
             chain IH1. chain IH2. norm_state. apply star_eq. f_equal. f_equal. f_equal.
             ++ rewrite ?app_length; simpl; lia.
             ++ simpl. rewrite <- !app_assoc. reflexivity.
        * hstar IH1. hchain IH2.
        * hstar IH1. hchain IH2.
      + (* named *)
        codeof3 e ltac:(fun Hc => pose proof (IHE stk lo ls cs U ρ L e s fid C fv K _ (VStr name :: σ) I brk cont He HR Hstk Hc) as IH1).
        assert (Hpre : star cp fn (S3 fid C fv K pc σ L I s) (S3 fid C fv K (S pc) (VStr name :: σ) L I s)).
        { vstep. fin. }
        destruct (eval p n stk ρ e s) as [[v s1]| | |]; cbn [sim fst snd] in *; auto;
          try (hstar Hpre; hchain IH1).
        destruct IH1 as (L1 & HR1 & IH1).
        match goal with Hcc : pcode_at _ _ (flat_map _ args) _ _ |- _ =>
          pose proof (IHA stk lo ls cs U ρ L1 args acc (nacc ++ [(name, v)]) sa0 ss0 s1 fid C fv K _ (v :: VStr name :: σ) I brk cont Hes HR1 Hstk Hcc) as IH2 end.
        destruct (eval_args p n stk ρ args acc (nacc ++ [(name, v)]) sa0 ss0 s1) as [r| | |]; cbn [sim fst snd] in *; auto.
        * destruct IH2 as [vs [nm [sa [ss [s2 [-> [Hl1 [Hl2 [Hsa [Hss IH2]]]]]]]]]].
          exists vs, ((name, v) :: nm), sa, ss, s2. rewrite <- app_assoc. simpl. repeat split; auto.
          -- unfold count_named in *. simpl. lia.
          -- intros Hsh. destruct (shape1_facts _ Hsh) as [Hcp Hptn]. specialize (IH2 Hptn).
             destruct IH2 as (L2 & HR2 & IH2). exists L2. split; auto.
             rewrite Hcp in Hl1. destruct vs; [|discriminate].
             chain Hpre. chain IH1. chain IH2. norm_state. apply star_eq. f_equal. f_equal. f_equal.
             ++ simpl; rewrite ?app_length; simpl; lia.
             ++ simpl. rewrite <- !app_assoc. reflexivity.
        * hstar Hpre. hstar IH1. hchain IH2.
        * hstar Hpre. hstar IH1. hchain IH2.
      + (* *args *)
        codeof3 e ltac:(fun Hc => pose proof (IHE stk lo ls cs U ρ L e s fid C fv K pc σ I brk cont He HR Hstk Hc) as IH1).
        destruct (eval p n stk ρ e s) as [[v s1]| | |]; cbn [sim fst snd] in *; auto.
        destruct IH1 as (L1 & HR1 & IH1).
        match goal with Hcc : pcode_at _ _ (flat_map _ args) _ _ |- _ =>
          pose proof (IHA stk lo ls cs U ρ L1 args acc nacc (Some v) ss0 s1 fid C fv K _ (v :: σ) I brk cont Hes HR1 Hstk Hcc) as IH2 end.
        destruct (eval_args p n stk ρ args acc nacc (Some v) ss0 s1) as [r| | |]; cbn [sim fst snd] in *; auto.
        * destruct IH2 as [vs [nm [sa [ss [s2 [-> [Hl1 [Hl2 [Hsa [Hss IH2]]]]]]]]]].
          exists vs, nm, sa, ss, s2. repeat split; auto.
          -- destruct (has_star args); [exact Hsa | subst; discriminate].
          -- intros Hsh. destruct (shape2_facts _ Hsh) as [Hcp [Hcn [Hhs Hptn]]]. specialize (IH2 Hptn).
             destruct IH2 as (L2 & HR2 & IH2). exists L2. split; auto.
             rewrite Hhs in *. subst sa. rewrite Hcp in Hl1. rewrite Hcn in Hl2.
             destruct vs; [|discriminate]. destruct nm; [|discriminate].
             chain IH1. chain IH2. norm_state. apply star_eq. apply St_eq.
             ++ simpl; len_norm; lia.
             ++ simpl. rewrite ?app_nil_r. rewrite <- ?app_assoc. reflexivity.
        * hstar IH1. hchain IH2.
        * hstar IH1. hchain IH2.
      + (* **kwargs *)
        codeof3 e ltac:(fun Hc => pose proof (IHE stk lo ls cs U ρ L e s fid C fv K pc σ I brk cont He HR Hstk Hc) as IH1).
        destruct (eval p n stk ρ e s) as [[v s1]| | |]; cbn [sim fst snd] in *; auto.
        destruct IH1 as (L1 & HR1 & IH1).
        match goal with Hcc : pcode_at _ _ (flat_map _ args) _ _ |- _ =>
          pose proof (IHA stk lo ls cs U ρ L1 args acc nacc sa0 (Some v) s1 fid C fv K _ (v :: σ) I brk cont Hes HR1 Hstk Hcc) as IH2 end.
        destruct (eval_args p n stk ρ args acc nacc sa0 (Some v) s1) as [r| | |]; cbn [sim fst snd] in *; auto.
        * destruct IH2 as [vs [nm [sa [ss [s2 [-> [Hl1 [Hl2 [Hsa [Hss IH2]]]]]]]]]].
          exists vs, nm, sa, ss, s2. repeat split; auto.
          -- destruct (has_ss args); [exact Hss | subst; discriminate].
          -- intros Hsh. destruct args; [|discriminate]. specialize (IH2 eq_refl).
             destruct IH2 as (L2 & HR2 & IH2). exists L2. split; auto.
             simpl in Hsa, Hss, Hl1, Hl2. subst sa ss. destruct vs; [|discriminate]. destruct nm; [|discriminate].
             chain IH1. chain IH2. norm_state. apply star_eq. apply St_eq.
             ++ simpl; len_norm; lia.
             ++ simpl. rewrite ?app_nil_r. reflexivity.
        * hstar IH1. hchain IH2.
        * hstar IH1. hchain IH2.
  Qed.
End Expr3.
