(* C01 -- function ids: a decidable sufficient condition for funs_ok. *)
From Coq Require Import ZArith String List Bool Lia.
From SV Require Import C01.Syntax C01.Values C01.Ref C01.VM C01.Compile C01.Frag.
Import ListNotations.
Open Scope string_scope.
Open Scope list_scope.
Open Scope nat_scope.

Lemma first_some_none : forall {A B} (f : A -> option B) l,
  (forall a, List.In a l -> f a = None) -> first_some f l = None.
Proof.
  induction l; intros H; simpl; auto.
  rewrite (H a (or_introl eq_refl)). apply IHl. intros; apply H; right; auto.
Qed.

(* expressions of the fragment contain no function definition *)
Fixpoint fd_expr_none (e : expr) {struct e} :
  ok_expr e = true -> forall fid encl, fd_expr fid encl e = None.
Proof.
  intros Hok fid encl.
  destruct e; simpl in Hok; try discriminate; simpl;
    repeat match goal with H : _ && _ = true |- _ => apply andb_true_iff in H; destruct H end;
    try (solve [ repeat (rewrite fd_expr_none by assumption); auto ]).
  - (* ETuple *)
    induction es as [|a es IH]; simpl in *; auto.
    apply andb_true_iff in Hok. destruct Hok as [Ha Hes].
    rewrite (fd_expr_none a Ha). apply IH; auto.
  - (* EList *)
    induction es as [|a es IH]; simpl in *; auto.
    apply andb_true_iff in Hok. destruct Hok as [Ha Hes].
    rewrite (fd_expr_none a Ha). apply IH; auto.
  - (* EDict *)
    induction kvs as [|[[k v] cp] kvs IH]; simpl in *; auto.
    apply andb_true_iff in Hok. destruct Hok as [Hkv Hr]. apply andb_true_iff in Hkv. destruct Hkv as [Hk Hv].
    rewrite (fd_expr_none k Hk), (fd_expr_none v Hv). apply IH; auto.
  - (* ECall *)
    rewrite (fd_expr_none e) by assumption.
    match goal with H : forallb _ args = true |- _ => rename H into Hargs end.
    clear - fd_expr_none Hargs.
    induction args as [|a args IH]; simpl in *; auto.
    apply andb_true_iff in Hargs. destruct Hargs as [Ha Hr].
    destruct a; rewrite (fd_expr_none e Ha); apply IH; auto.
  - (* ESlice *)
    rewrite (fd_expr_none e) by assumption.
    destruct lo as [lo|]; [rewrite (fd_expr_none lo) by assumption|];
    (destruct hi as [hi|]; [rewrite (fd_expr_none hi) by assumption|]);
    (destruct step as [st|]; [apply fd_expr_none; assumption | reflexivity]).
Qed.

Fixpoint fd_target_none (t : target) {struct t} :
  ok_target t = true -> forall fid encl, fd_target fid encl t = None.
Proof.
  intros Hok fid encl. destruct t; simpl in *; try discriminate; auto.
  - apply andb_true_iff in Hok. destruct Hok as [Hx Hy].
    rewrite (fd_expr_none x Hx). apply fd_expr_none; auto.
  - apply fd_expr_none; auto.
  - induction ts as [|a ts IH]; simpl in *; auto.
    apply andb_true_iff in Hok. destruct Hok as [Ha Hts].
    rewrite (fd_target_none a Ha). apply IH; auto.
Qed.

Fixpoint first_def (fid : nat) (l : list (nat * fundef)) : option fundef :=
  match l with [] => None | (i, fd) :: r => if Nat.eqb i fid then Some fd else first_def fid r end.

Lemma first_def_app : forall fid a b,
  first_def fid (a ++ b) = match first_def fid a with Some d => Some d | None => first_def fid b end.
Proof. induction a as [|[i fd] a IH]; intros; simpl; auto. destruct (Nat.eqb i fid); auto. Qed.

Definition found (fid : nat) (encl : list string) (l : list (nat * fundef)) : option (fundef * list string) :=
  match first_def fid l with Some fd => Some (fd, encl) | None => None end.

Lemma plain_no_defaults : forall ps fid encl, forallb ok_param ps = true ->
  first_some (fun q => match q with PDefault _ d => fd_expr fid encl d | _ => None end) ps = None.
Proof.
  induction ps as [|q ps IH]; intros; simpl in *; auto.
  apply andb_true_iff in H. destruct H as [Hq Hps]. destruct q; simpl in *; try (apply IH; auto).
  rewrite (fd_expr_none e Hq). apply IH; auto.
Qed.

(* induction on statements with the nested statement lists *)
Section StmtInd.
  Variable P : stmt -> Prop.
  Hypothesis Hexpr : forall e, P (SExpr e).
  Hypothesis Hassign : forall t e ps, P (SAssign t e ps).
  Hypothesis Haug : forall o t e ps, P (SAug o t e ps).
  Hypothesis Hif : forall c tb fb, Forall P tb -> Forall P fb -> P (SIf c tb fb).
  Hypothesis Hwhile : forall c b, Forall P b -> P (SWhile c b).
  Hypothesis Hfor : forall t e b ps, Forall P b -> P (SFor t e b ps).
  Hypothesis Hbreak : P SBreak.
  Hypothesis Hcont : P SContinue.
  Hypothesis Hpass : P SPass.
  Hypothesis Hret : forall e, P (SReturn e).
  Hypothesis Hdef : forall fid name ps body pp, Forall P body -> P (SDef fid name ps body pp).
  Hypothesis Hload : forall m names ps, P (SLoad m names ps).
  Hypothesis Hunsup : forall t, P (SUnsup t).

  Fixpoint stmt_ind' (s : stmt) : P s :=
    let go := fix go (l : list stmt) : Forall P l :=
                match l with [] => Forall_nil P | x :: r => Forall_cons x (stmt_ind' x) (go r) end in
    match s with
    | SExpr e => Hexpr e
    | SAssign t e ps => Hassign t e ps
    | SAug o t e ps => Haug o t e ps
    | SIf c tb fb => Hif c tb fb (go tb) (go fb)
    | SWhile c b => Hwhile c b (go b)
    | SFor t e b ps => Hfor t e b ps (go b)
    | SBreak => Hbreak
    | SContinue => Hcont
    | SPass => Hpass
    | SReturn e => Hret e
    | SDef fid name ps body pp => Hdef fid name ps body pp (go body)
    | SLoad m names ps => Hload m names ps
    | SUnsup t => Hunsup t
    end.
End StmtInd.

Definition nodef_prop (s : stmt) : Prop :=
  ok_stmt s = true -> no_defs_stmt s = true ->
  (forall fid encl, fd_stmt fid encl s = None) /\ defs_stmt s = [].

Lemma nodef_list : forall l, Forall nodef_prop l ->
  forallb ok_stmt l = true -> forallb no_defs_stmt l = true ->
  (forall fid encl, first_some (fd_stmt fid encl) l = None) /\ flat_map defs_stmt l = [].
Proof.
  induction 1 as [|x l Hx Hl IH]; intros Ho Hn; simpl in *; [split; auto|].
  apply andb_true_iff in Ho. destruct Ho as [Ho1 Ho2]. apply andb_true_iff in Hn. destruct Hn as [Hn1 Hn2].
  destruct (Hx Ho1 Hn1) as [H1 H2]. destruct (IH Ho2 Hn2) as [H3 H4].
  split; [intros; rewrite H1; apply H3 | rewrite H2, H4; reflexivity].
Qed.

(* statements without defs *)
Lemma nodef_stmt : forall s, nodef_prop s.
Proof.
  apply stmt_ind'; unfold nodef_prop; intros; simpl in *; try discriminate;
    repeat match goal with H : _ && _ = true |- _ => apply andb_true_iff in H; destruct H end;
    try (solve [ split; [ intros; repeat (rewrite fd_expr_none by assumption); repeat (rewrite fd_target_none by assumption); auto | auto ] ]).
  - (* SIf *)
    destruct (nodef_list tb) as [A1 A2]; auto. destruct (nodef_list fb) as [B1 B2]; auto.
    split; [ intros; rewrite fd_expr_none by assumption; rewrite A1; apply B1 | rewrite A2, B2; reflexivity ].
  - (* SWhile *)
    destruct (nodef_list b) as [A1 A2]; auto.
    split; [ intros; rewrite fd_expr_none by assumption; apply A1 | exact A2 ].
  - (* SFor *)
    destruct (nodef_list b) as [A1 A2]; auto.
    split; [ intros; rewrite fd_expr_none by assumption; rewrite fd_target_none by assumption; apply A1 | exact A2 ].
  - (* SReturn *)
    destruct e; split; auto. intros. apply fd_expr_none; auto.
Qed.

Definition flat_prop (s : stmt) : Prop :=
  ok_stmt s = true -> flat_stmt s = true ->
  (forall fid encl, fd_stmt fid encl s = found fid encl (defs_stmt s))
  /\ Forall (fun d => ok_fundef (snd d) = true) (defs_stmt s).

Lemma flat_list : forall l, Forall flat_prop l ->
  forallb ok_stmt l = true -> forallb flat_stmt l = true ->
  (forall fid encl, first_some (fd_stmt fid encl) l = found fid encl (flat_map defs_stmt l))
  /\ Forall (fun d => ok_fundef (snd d) = true) (flat_map defs_stmt l).
Proof.
  induction 1 as [|x l Hx Hl IH]; intros Ho Hn; simpl in *; [split; auto|].
  apply andb_true_iff in Ho. destruct Ho as [Ho1 Ho2]. apply andb_true_iff in Hn. destruct Hn as [Hn1 Hn2].
  destruct (Hx Ho1 Hn1) as [H1 H2]. destruct (IH Ho2 Hn2) as [H3 H4].
  split.
  - intros. rewrite H1, H3. unfold found. rewrite first_def_app. destruct (first_def fid (defs_stmt x)); reflexivity.
  - apply Forall_app; auto.
Qed.

Lemma flat_stmt_ok : forall s, flat_prop s.
Proof.
  apply stmt_ind'; unfold flat_prop; intros; simpl in *; try discriminate;
    repeat match goal with H : _ && _ = true |- _ => apply andb_true_iff in H; destruct H end;
    try (solve [ split; [ intros; repeat (rewrite fd_expr_none by assumption); repeat (rewrite fd_target_none by assumption); auto | constructor ] ]).
  - (* SIf *)
    destruct (flat_list tb) as [A1 A2]; auto. destruct (flat_list fb) as [B1 B2]; auto.
    split; [ | apply Forall_app; auto ].
    intros. rewrite fd_expr_none by assumption. rewrite A1, B1. unfold found. rewrite first_def_app.
    destruct (first_def fid (flat_map defs_stmt tb)); reflexivity.
  - (* SWhile *)
    destruct (flat_list b) as [A1 A2]; auto.
    split; auto. intros. rewrite fd_expr_none by assumption. apply A1.
  - (* SFor *)
    destruct (flat_list b) as [A1 A2]; auto.
    split; auto. intros. rewrite fd_expr_none by assumption. rewrite fd_target_none by assumption. apply A1.
  - (* SReturn *)
    destruct e; split; try constructor; auto. intros. apply fd_expr_none; auto.
  - (* SDef *)
    assert (Hall : Forall nodef_prop body) by (apply Forall_forall; intros; apply nodef_stmt).
    destruct (nodef_list body Hall) as [A1 A2]; auto.
    split.
    + intros. unfold found. simpl. destruct (Nat.eqb fid fid0); auto.
      rewrite plain_no_defaults by assumption. rewrite A1, A2. reflexivity.
    + rewrite A2. constructor; [ | constructor ]. unfold ok_fundef. simpl.
      repeat (apply andb_true_iff; split); assumption.
Qed.

Lemma first_def_in : forall fid l fd, first_def fid l = Some fd -> List.In (fid, fd) l.
Proof.
  induction l as [|[i d] l IH]; intros fd H; simpl in *; [discriminate|].
  destruct (Nat.eqb i fid) eqn:E.
  - inversion H; subst. apply Nat.eqb_eq in E. subst. left; reflexivity.
  - right. apply IH; auto.
Qed.

Lemma find_code_map : forall p l fid,
  find_code (map (fun d : nat * fundef => (fst d, compile_fun p (snd d))) l) fid
  = option_map (compile_fun p) (first_def fid l).
Proof.
  induction l as [|[i d] l IH]; intros; simpl; auto. destruct (Nat.eqb i fid); auto.
Qed.

Lemma no_loads' : forall ss, forallb ok_stmt ss = true -> flat_map load_binds ss = [].
Proof.
  induction ss as [|s ss IH]; intros H; simpl in *; auto.
  apply andb_true_iff in H. destruct H as [Hs Hss]. rewrite (IH Hss).
  destruct s; try discriminate; reflexivity.
Qed.

(* function ids are consistent for every program of the fragment whose defs are
   not nested inside other defs *)
Lemma funs_ok_flat : forall p, ok_prog p = true -> flat_prog p = true -> funs_ok p.
Proof.
  intros p Hf0 Hflat fid. unfold ok_prog in Hf0. apply andb_true_iff in Hf0. destruct Hf0 as [Hf _].
  assert (Hall : Forall flat_prop (p_body p)) by (apply Forall_forall; intros; apply flat_stmt_ok).
  destruct (flat_list (p_body p) Hall Hf Hflat) as [A1 A2].
  unfold find_def. rewrite A1. unfold found.
  assert (Hfn : file_names p = []) by (unfold file_names; rewrite (no_loads' _ Hf); reflexivity).
  rewrite Hfn.
  unfold compile_prog; cbn [cp_funs]. rewrite find_code_map. unfold all_defs.
  destruct (first_def fid (flat_map defs_stmt (p_body p))) as [fd|] eqn:E; simpl; auto.
  repeat split; auto.
  apply first_def_in in E. rewrite Forall_forall in A2. apply (A2 _ E).
Qed.
