(* C01 -- executable comparators used by checks/c01.py (the tie to /repo):
   (a) cfg_equiv: lock-step walk of two instruction lists as control-flow graphs
       (the real compiler's output against Compile.v's), insensitive to block
       placement, JMP threading and NOP padding;
   (b) vm_check: VM.v on the REAL bytecode against what the real machine did;
   (c) ref_check: Ref.v on the syntax tree against what the real pipeline did.
   No proofs in this file. *)
From Coq Require Import ZArith String List Bool.
From SV Require Import C01.Syntax C01.Values C01.Ref C01.VM C01.Compile.
Import ListNotations.
Open Scope string_scope.
Open Scope list_scope.
Open Scope nat_scope.

Definition P (l c : nat) : pos := (l, c).

(* ---------------------------------------------------------------- instruction keys *)
Definition vkey (v : value) : string :=
  match v with
  | VInt z => ("i" ++ zstr z)%string
  | VStr s => ("s" ++ s)%string
  | _ => "?"
  end.

Definition pk (p : pos) : list nat := [fst p; snd p].

(* (tag, numeric operands, string operand); jump targets are NOT part of the key *)
Definition insn_key (i : insn) : nat * list nat * string :=
  match i with
  | NOP => (0, [], "") | DUP => (1, [], "") | DUP2 => (2, [], "") | POP => (3, [], "") | EXCH => (4, [], "")
  | BINARY o p => (5, binop_tag o :: pk p, "")
  | UNARY o p => (6, (match o with UNeg => 0 | UPos => 1 | UNot => 2 | UTilde => 3 end) :: pk p, "")
  | NOT => (7, [], "")
  | INPLACE_ADD p => (8, pk p, "") | INPLACE_PIPE p => (9, pk p, "")
  | NONE => (10, [], "") | TRUE => (11, [], "") | FALSE => (12, [], "") | MANDATORY => (13, [], "")
  | ITERPUSH p => (14, pk p, "") | ITERPOP => (15, [], "") | ITERJMP _ => (16, [], "")
  | RETURN => (17, [], "")
  | SETINDEX p => (18, pk p, "") | INDEX p => (19, pk p, "")
  | SETDICT p => (20, pk p, "") | SETDICTUNIQ p => (21, pk p, "") | APPEND => (22, [], "") | MAKEDICT => (23, [], "")
  | SLICE _ => (24, [], "")
  | JMP _ => (25, [], "") | CJMP _ => (26, [], "")
  | CONSTANT v => (27, [], vkey v)
  | MAKETUPLE n => (28, [n], "") | MAKELIST n => (29, [n], "")
  | MAKEFUNC f => (30, [f], "")
  | LOAD n p => (31, n :: pk p, "")
  | SETLOCAL i => (32, [i], "") | SETGLOBAL i => (33, [i], "")
  | LOCAL i p => (34, i :: pk p, "") | GLOBAL i p => (35, i :: pk p, "")
  | FREE i => (36, [i], "") | FREECELL i p => (37, i :: pk p, "") | LOCALCELL i p => (38, i :: pk p, "")
  | SETLOCALCELL i => (39, [i], "")
  | PREDECLARED x => (40, [], x) | UNIVERSAL x => (41, [], x)
  | ATTR x p => (42, pk p, x) | SETFIELD x p => (43, pk p, x)
  | UNPACK n p => (44, n :: pk p, "")
  | CALL m a b p => (45, m :: a :: b :: pk p, "")
  | RJMP _ => (46, [], "") | RCJMP _ => (47, [], "") | RITERJMP _ => (48, [], "") | RJMPB _ => (49, [], "")
  | BRK => (50, [], "") | CONT => (51, [], "")
  | UNSUPPORTED t => (52, [], t)
  end.

Fixpoint nats_eqb (a b : list nat) : bool :=
  match a, b with
  | [], [] => true
  | x :: a, y :: b => Nat.eqb x y && nats_eqb a b
  | _, _ => false
  end.

Definition insn_same (a b : insn) : bool :=
  let '(ta, na, sa) := insn_key a in
  let '(tb, nb, sb) := insn_key b in
  Nat.eqb ta tb && nats_eqb na nb && String.eqb sa sb.

(* follow JMP / NOP from pc to the next real instruction *)
Fixpoint skip (fuel : nat) (c : list insn) (pc : nat) : nat :=
  match fuel with
  | O => pc
  | S fuel => match nth_error c pc with
              | Some (JMP a) => skip fuel c a
              | Some NOP => skip fuel c (S pc)
              | _ => pc
              end
  end.

Definition pair_in (x : nat * nat) (l : list (nat * nat)) : bool :=
  existsb (fun y => Nat.eqb (fst x) (fst y) && Nat.eqb (snd x) (snd y)) l.

(* None = equivalent so far; Some (pcA, pcB) = first difference *)
Fixpoint walk (fuel : nat) (A B : list insn) (todo seen : list (nat * nat)) : option (nat * nat) :=
  match fuel with
  | O => Some (0, 0)
  | S fuel =>
    match todo with
    | [] => None
    | (a0, b0) :: rest =>
        let a := skip (S (length A)) A a0 in
        let b := skip (S (length B)) B b0 in
        if pair_in (a, b) seen then walk fuel A B rest seen else
        match nth_error A a, nth_error B b with
        | Some ia, Some ib =>
            if negb (insn_same ia ib) then Some (a, b) else
            match ia, ib with
            | CJMP ta, CJMP tb | ITERJMP ta, ITERJMP tb => walk fuel A B ((S a, S b) :: (ta, tb) :: rest) ((a, b) :: seen)
            | RETURN, _ => walk fuel A B rest ((a, b) :: seen)
            | _, _ => walk fuel A B ((S a, S b) :: rest) ((a, b) :: seen)
            end
        | _, _ => Some (a, b)
        end
    end
  end.

Definition cfg_equiv (A B : list insn) : option (nat * nat) :=
  walk (4 * (length A + length B) + 16) A B [(0, 0)] [].

(* real program: toplevel code, functions by id (with the number of locals and the names the real resolver chose) *)
Record realfun := { rf_id : nat; rf_code : funcode; rf_locals : list string }.

(* does the model code generator cover the program?  (no UNSUPPORTED instruction anywhere, every MAKEFUNC target compiled) *)
Definition in_compile_scope (p : program) : bool :=
  let cp := compile_prog (number_prog (fold_prog p)) in
  let ok_code (c : list insn) :=
    forallb (fun i => match i with
                      | UNSUPPORTED _ => false
                      | MAKEFUNC f => match find_code (cp_funs cp) f with Some _ => true | None => false end
                      | _ => true end) c in
  ok_code (fc_code (cp_top cp)) && forallb (fun d => ok_code (fc_code (snd d))) (cp_funs cp).

(* (a): for every function the model compiles, same slot layout and equivalent code *)
Definition codegen_check (p0 : program) (top : realfun) (funs : list realfun) (globals : list string) : string :=
  let p := number_prog (fold_prog p0) in
  let cp := compile_prog p in
  if negb (strs_eqb globals (global_names p)) then "globals-layout" else
  if negb (strs_eqb (rf_locals top) (map unmangle (layout_top p))) then "toplevel-locals-layout" else
  match cfg_equiv (fc_code (rf_code top)) (fc_code (cp_top cp)) with
  | Some (a, b) => ("code:<toplevel>@" ++ zstr (Z.of_nat a) ++ "/" ++ zstr (Z.of_nat b))%string
  | None =>
      (fix each (l : list (nat * funcode)) : string :=
         match l with
         | [] => "ok"
         | (fid, fc) :: r =>
             match find (fun rf => Nat.eqb (rf_id rf) fid) funs with
             | None => "missing-function"
             | Some rf =>
                 match find_def p fid with
                 | None => "missing-function"
                 | Some (fd, _) =>
                     if negb (strs_eqb (rf_locals rf) (map unmangle (layout fd))) then ("locals-layout:" ++ fc_name fc)%string else
                     match cfg_equiv (fc_code (rf_code rf)) (fc_code fc) with
                     | Some (a, b) => ("code:" ++ fc_name fc ++ "@" ++ zstr (Z.of_nat a) ++ "/" ++ zstr (Z.of_nat b))%string
                     | None => each r
                     end
                 end
             end
         end) (cp_funs cp)
  end.

(* ---------------------------------------------------------------- expectations from the real run *)
Inductive expect :=
| XOk (globals : list (string * string))        (* name, rendered value; only bound globals *)
| XErr (p : pos) (caller : pos)                 (* innermost Starlark frame position, and its caller's *)
| XTimeout.                                     (* the real run exceeded its step limit *)

Fixpoint pairs_eqb (a b : list (string * string)) : bool :=
  match a, b with
  | [], [] => true
  | (x, u) :: a, (y, v) :: b => String.eqb x y && String.eqb u v && pairs_eqb a b
  | _, _ => false
  end.

Fixpoint events_eqb (a b : list event) : bool :=
  match a, b with
  | [], [] => true
  | (x, u) :: a, (y, v) :: b => strs_eqb x y && pairs_eqb u v && events_eqb a b
  | _, _ => false
  end.

(* rendered bound globals, in the order of the given names *)
Fixpoint render_globals (fn : nat -> string) (w : world) (names : list string) (g : genv) : option (list (string * string)) :=
  match names, g with
  | x :: names, v :: g =>
      match render_globals fn w names g with
      | None => None
      | Some r => match v with
                  | None => Some r
                  | Some v => match repr fn deep_fuel w v with Some s => Some ((x, s) :: r) | None => None end
                  end
      end
  | _, _ => Some []
  end.

Fixpoint sorted_insert (x : string * string) (l : list (string * string)) : list (string * string) :=
  match l with
  | [] => [x]
  | y :: r => match String.compare (fst x) (fst y) with
              | Datatypes.Gt => y :: sorted_insert x r
              | _ => x :: y :: r end
  end.
Definition sort_pairs (l : list (string * string)) : list (string * string) := fold_right sorted_insert [] l.

(* compare an observation of a model with what the real pipeline did *)
Definition compare_obs (fn : nat -> string) (names : list string) (o : observation) (tr : list event) (x : expect) : string :=
  match ob_verdict o with
  | OutOfFuel => "oof"
  | Unsupported t => ("unsup:" ++ t)%string
  | Success g =>
      match x with XTimeout => "mismatch:real-exceeds-step-limit" | _ =>
      if negb (events_eqb (ob_trace o) tr) then "mismatch:trace" else
      match x with
      | XTimeout => "mismatch:real-exceeds-step-limit"
      | XErr _ _ => "mismatch:model-succeeds"
      | XOk gl =>
          let w := {| heap := ob_heap o; cells := ob_cells o; trace := [] |} in
          match render_globals fn w names g with
          | None => "unsup:render-globals"
          | Some r => if pairs_eqb (sort_pairs r) gl then "ok" else "mismatch:globals"
          end
      end end
  | Failure ps incall =>
      match x with XTimeout => "mismatch:real-exceeds-step-limit" | _ =>
      if negb (events_eqb (ob_trace o) tr) then "mismatch:trace" else
      match x with
      | XTimeout => "mismatch:real-exceeds-step-limit"
      | XOk _ => "mismatch:model-fails"
      | XErr pr pc => if pos_eqb ps (if incall then pc else pr) then "ok" else "mismatch:position"
      end end
  end.

Definition ref_fuel : nat := 4000.
Definition vm_fuel : nat := 400000.

(* ---------------------------------------------------------------- entries through the host API *)
Definition hcall := (string * list value)%type.

(* the machine is entered on an idle thread: a frame without function identity pushes the
   callee and its arguments, calls it, and records the result like trace("<result>", v) *)
Definition stub_code (gi : nat) (args : list value) : list insn :=
  [PREDECLARED "trace"; CONSTANT (VStr "<result>"); GLOBAL gi (0, 0)] ++ map CONSTANT args
  ++ [CALL 0 (length args) 0 (0, 0); CALL 0 2 0 (0, 0); RETURN].

Fixpoint vm_calls (cp : cprog) (fn : nat -> string) (globals : list string) (calls : list hcall)
         (g : genv) (w : world) : option (vresult * nat) :=
  match calls with
  | [] => Some (VDone g w, 0)
  | (f, args) :: r =>
      match index_of f globals with
      | None => Some (VUnsup "host-call:no-such-global", 0)
      | Some gi =>
          let st := {| vs_frames := [{| fr_fid := None; fr_code := stub_code gi args; fr_pc := 0; fr_stack := [];
                                        fr_locals := []; fr_iters := []; fr_free := [] |}];
                       vs_g := g; vs_w := w |} in
          match run cp fn vm_fuel st with
          | Some (VDone g' w', _) => vm_calls cp fn globals r g' w'
          | other => other
          end
      end
  end.

(* initialisation, then (if it succeeded and there are host calls) freezing and the calls *)
Definition vm_with_calls (cp : cprog) (fn : nat -> string) (globals : list string) (calls : list hcall)
           (r : option (vresult * nat)) : option (vresult * nat) :=
  match calls, r with
  | _ :: _, Some (VDone g w, _) => vm_calls cp fn globals calls g (freeze_all w)
  | _, _ => r
  end.

(* (c) *)
Definition ref_check_calls (p : program) (calls : list hcall) (tr : list event) (x : expect) : string :=
  compare_obs (fname p) (global_names p) (observe_ref (run_module_calls p ref_fuel calls)) tr x.

(* (c) *)
Definition ref_check (p : program) (tr : list event) (x : expect) : string :=
  compare_obs (fname p) (global_names p) (observe_ref (run_module p ref_fuel)) tr x.

(* (b): the model machine on the real code *)
Definition steps_of (r : option (vresult * nat)) : nat :=
  match r with Some (_, n) => n | None => 0 end.

Definition vm_check (cp : cprog) (fn : nat -> string) (globals : list string) (tr : list event) (x : expect) (steps : nat) : string :=
  let r := run cp fn vm_fuel (init_state cp (length globals)) in
  match x with
  | XTimeout => match r with
                | None => "ok"
                | Some (_, n) => if Nat.leb steps n then "ok" else "mismatch:real-exceeds-step-limit"
                end
  | _ =>
  let c := compare_obs fn globals (observe_vm r) tr x in
  if String.eqb c "ok" then (if Nat.eqb (steps_of r) steps then "ok" else "mismatch:steps") else c
  end.

(* the model compiler + model machine against the real pipeline (end to end) *)
Definition compiled_check (p : program) (tr : list event) (x : expect) : string :=
  compare_obs (fname p) (global_names p) (observe_vm (run_compiled p vm_fuel)) tr x.

Fixpoint name_table (l : list (nat * string)) (fid : nat) : string :=
  match l with [] => "?" | (i, s) :: r => if Nat.eqb i fid then s else name_table r fid end.

Definition vm_check_calls (cp : cprog) (fn : nat -> string) (globals : list string) (calls : list hcall)
           (tr : list event) (x : expect) (steps : nat) : string :=
  let r := run cp fn vm_fuel (init_state cp (length globals)) in
  match calls, r with
  | _ :: _, Some (VDone _ _, n) =>
      if negb (Nat.eqb n steps) then "mismatch:steps"
      else compare_obs fn globals (observe_vm (vm_with_calls cp fn globals calls r)) tr x
  | _, _ => vm_check cp fn globals tr x steps
  end.

Definition compiled_check_calls (p : program) (calls : list hcall) (tr : list event) (x : expect) : string :=
  let cp := compile_prog (number_prog (fold_prog p)) in
  compare_obs (fname p) (global_names p)
    (observe_vm (vm_with_calls cp (fname p) (global_names p) calls (run_compiled p vm_fuel))) tr x.

