(* C01 -- comprehensions: simulation of calls into frames that hold comprehension slots
   (script of ProofsCall.v; the activation record is related to the fresh locals array
   by ProofsCompEnv.R_entry instead of being equal to it). *)
From Coq Require Import ZArith String List Bool Lia.
From SV Require Import C01.Syntax C01.Values C01.Ref C01.VM C01.Compile C01.Frag C01.ProofsVM C01.ProofsEnv
     C01.SimDefs C01.ProofsExpr C01.ProofsStmt C01.ProofsCall C01.ProofsCompFrag C01.ProofsCompEnv C01.ProofsCompDefs.
Import ListNotations.
Open Scope string_scope.
Open Scope list_scope.
Open Scope nat_scope.

Section Call2.
  Variable p : program.
  Notation cp := (compile_prog p).
  Notation fn := (fname p).
  Hypothesis Hfuns : funs_ok2 p.

  Lemma Ca2_step : forall n, B2 p n -> Ca2 p (S n).
  Proof.
    intros n IHB.
    unfold Ca2; intros stk f args0 nm0 sa ss ps s fid C fv K pc σ L I Hstk Hf.
    unfold ref_call.
    assert (Hstep : step cp fn (S2 fid C fv K pc (optl ss ++ optl sa ++ rev (flatkw nm0) ++ rev args0 ++ f :: σ) L I s)
                    = of_pres (starstar_args ss (rw s)) ps (rw s) (fun kw2 =>
                      of_pres (star_args sa (rw s)) ps (rw s) (fun pos2 =>
                        call_value cp fn
                          {| fr_fid := fid; fr_code := C; fr_pc := pc;
                             fr_stack := optl ss ++ optl sa ++ rev (flatkw nm0) ++ rev args0 ++ f :: σ;
                             fr_locals := L; fr_iters := I; fr_free := fv |} K (rg s) (rw s) (S pc) σ ps f
                          (args0 ++ pos2) (nm0 ++ kw2)))).
    { unfold S2, St, Fr. rewrite (step_lit _ _ _ _ _ _ _ _ _ _ _ _ _ Hf). apply call_insn. }
    destruct (starstar_args ss (rw s)) as [kw2| |t] eqn:Ekw; cbn [lift sim].
    2: { apply halts_now. rewrite Hstep. reflexivity. }
    2: { apply halts_now. rewrite Hstep. reflexivity. }
    destruct (star_args sa (rw s)) as [pos2| |t] eqn:Epos; cbn [lift sim].
    2: { apply halts_now. rewrite Hstep. reflexivity. }
    2: { apply halts_now. rewrite Hstep. reflexivity. }
    cbn [of_pres] in Hstep.
    set (args := args0 ++ pos2) in *. set (nm := nm0 ++ kw2) in *.
    set (S0 := S2 fid C fv K pc (optl ss ++ optl sa ++ rev (flatkw nm0) ++ rev args0 ++ f :: σ) L I s) in *.
    simpl call.
    destruct f;
      try (cbn [sim]; apply halts_now; rewrite Hstep; reflexivity).
    - (* VFun *)
      pose proof (Hfuns fid0) as Hfid. unfold compile_prog in Hfid; cbn [cp_funs] in Hfid.
      destruct (find_def p fid0) as [[fd encl]|].
      2: { cbn [sim]. apply halts_now. rewrite Hstep. unfold call_value. simpl. rewrite Hfid. reflexivity. }
      destruct Hfid as [Hfd [-> Hfc]].
      (* recursion check *)
      assert (Hrec : existsb (Nat.eqb fid0) stk =
                     (match fid with Some i => Nat.eqb i fid0 | None => false end)
                     || existsb (fun fr => match fr_fid fr with Some i => Nat.eqb i fid0 | None => false end) K).
      { unfold stk_ok in Hstk. subst stk. rewrite existsb_app, existsb_fids.
        destruct fid; simpl; auto. rewrite Nat.eqb_sym, orb_false_r. reflexivity. }
      unfold ok_fundef2 in Hfd. apply andb_true_iff in Hfd. destruct Hfd as [Hfd Hlay].
      apply andb_true_iff in Hfd. destruct Hfd as [Hbody Hbx].
      destruct (boxed_names (fd_body fd)) eqn:Ebx; [clear Hbx | discriminate].
      destruct (negb (o_recursion (p_opts p)) && existsb (Nat.eqb fid0) stk) eqn:Erec.
      { cbn [sim]. apply halts_now. rewrite Hstep. unfold call_value. simpl. rewrite Hfc; simpl; rewrite ?cp_rec, <- ?Hrec, ?Erec. reflexivity. }
      destruct (bind_args (fd_params fd) defaults args nm (rw s)) as [[params w1]| |t] eqn:Eb; cbn [lift_call sim].
      2: { apply halts_now. rewrite Hstep. unfold call_value. simpl. rewrite Hfc; simpl; rewrite ?cp_rec, <- ?Hrec, ?Erec; simpl; rewrite ?cf_params, ?Eb. reflexivity. }
      2: { apply halts_now. rewrite Hstep. unfold call_value. simpl. rewrite Hfc; simpl; rewrite ?cp_rec, <- ?Hrec, ?Erec; simpl; rewrite ?cf_params, ?Eb. reflexivity. }
      pose proof (bind_args_length _ _ _ _ _ _ _ Eb) as Hplen.
      destruct (R_entry (locals_of fd) (layout fd) params w1 _ Hlay Hplen) as [ρl [Hnv HRl]].
      rewrite Hnv. rewrite filter_no_names. simpl map. rewrite app_nil_r.
      (* the machine enters the callee *)
      set (caller := {| fr_fid := fid; fr_code := C; fr_pc := S pc; fr_stack := σ; fr_locals := L;
                        fr_iters := I; fr_free := fv |}).
      set (C' := gen_body p (layout fd) (fd_body fd)).
      set (L0 := pad_init (length (layout fd)) (map Some params)) in *.
      assert (Henter : star cp fn S0
                         (S2 (Some fid0) C' [] (caller :: K) 0 [] L0 [] (with_w s w1))).
      { eapply star_step; [ | apply star_refl ].
        rewrite Hstep. unfold S2, St, Fr. unfold call_value. simpl. rewrite Hfc; simpl; rewrite ?cp_rec, <- ?Hrec, ?Erec; simpl; rewrite ?cf_params, ?Eb.
        simpl. rewrite ?cf_nlocals, ?cf_cells, ?cf_free, ?cf_code, ?filter_no_names. simpl. reflexivity. }
      assert (Hcode : pcode_at C' 0 (gen_block p (layout fd) (fd_body fd) ++ [NONE; RETURN]) None None).
      { apply pcode_finalize. }
      apply pcode_app in Hcode. destruct Hcode as [Hcb Hct]. pcode_split.
      assert (Hstk' : stk_ok (fid0 :: stk) (Some fid0) (caller :: K)).
      { unfold stk_ok in *. subst stk. simpl. reflexivity. }
      pose proof (IHB (fid0 :: stk) (locals_of fd) (layout fd) ρl L0 (fd_body fd) (with_w s w1) (Some fid0) C' [] (caller :: K) 0 [] None None
                      Hbody HRl Hstk' Hcb) as IH.
      destruct (exec_block p n (fid0 :: stk) ρl (fd_body fd) (with_w s w1)) as [[[out ρ2] s2]| | |]; cbn [sim fst snd] in *; auto.
      + unfold after2 in IH.
        destruct out; cbn [sim fst snd].
        * destruct IH as (L' & _ & Ha). chain Henter. chain Ha. vstep. vstep. unfold caller. fin.
        * hstar Henter. exact IH.
        * hstar Henter. exact IH.
        * destruct IH as [pcr [Ix [wv [L' [H1 [H2 H3]]]]]].
          chain Henter. eapply star_trans; [ exact H1 | ].
          rewrite app_nil_r in *.
          norm_state. eapply star_step; [ rewrite (step_lit _ _ _ _ _ _ _ _ _ _ _ _ _ H2); simpl; rewrite H3; reflexivity | ].
          unfold caller. fin.
      + hstar Henter. exact IH.
      + hstar Henter. exact IH.
    - (* VBuiltin *)
      destruct (call_builtin fn name None args nm (rw s)) as [[r w]| |t] eqn:Ec; cbn [lift sim fst snd].
      + eapply star_step; [ | apply star_refl ].
        rewrite Hstep. unfold call_value. simpl. rewrite Ec. reflexivity.
      + apply halts_now.
        rewrite Hstep. unfold call_value. simpl. rewrite Ec. reflexivity.
      + apply halts_now.
        rewrite Hstep. unfold call_value. simpl. rewrite Ec. reflexivity.
    - (* VMethod *)
      destruct (call_builtin fn name (Some f) args nm (rw s)) as [[r w]| |t] eqn:Ec; cbn [lift sim fst snd].
      + eapply star_step; [ | apply star_refl ].
        rewrite Hstep. unfold call_value. simpl. rewrite Ec. reflexivity.
      + apply halts_now.
        rewrite Hstep. unfold call_value. simpl. rewrite Ec. reflexivity.
      + apply halts_now.
        rewrite Hstep. unfold call_value. simpl. rewrite Ec. reflexivity.
  Qed.

  (* without fuel for the call itself, only the expansion of ** and * is observed *)
  Lemma Ca2_zero : Ca2 p 0.
  Proof.
    unfold Ca2; intros stk f args0 nm0 sa ss ps s fid C fv K pc σ L I Hstk Hf.
    unfold ref_call.
    assert (Hstep : step cp fn (S2 fid C fv K pc (optl ss ++ optl sa ++ rev (flatkw nm0) ++ rev args0 ++ f :: σ) L I s)
                    = of_pres (starstar_args ss (rw s)) ps (rw s) (fun kw2 =>
                      of_pres (star_args sa (rw s)) ps (rw s) (fun pos2 =>
                        call_value cp fn
                          {| fr_fid := fid; fr_code := C; fr_pc := pc;
                             fr_stack := optl ss ++ optl sa ++ rev (flatkw nm0) ++ rev args0 ++ f :: σ;
                             fr_locals := L; fr_iters := I; fr_free := fv |} K (rg s) (rw s) (S pc) σ ps f
                          (args0 ++ pos2) (nm0 ++ kw2)))).
    { unfold S2, St, Fr. rewrite (step_lit _ _ _ _ _ _ _ _ _ _ _ _ _ Hf). apply call_insn. }
    destruct (starstar_args ss (rw s)) as [kw2| |t] eqn:Ekw; cbn [lift sim].
    2: { apply halts_now. rewrite Hstep. reflexivity. }
    2: { apply halts_now. rewrite Hstep. reflexivity. }
    destruct (star_args sa (rw s)) as [pos2| |t] eqn:Epos; cbn [lift sim].
    2: { apply halts_now. rewrite Hstep. reflexivity. }
    2: { apply halts_now. rewrite Hstep. reflexivity. }
    simpl. exact Logic.I.
  Qed.
End Call2.
