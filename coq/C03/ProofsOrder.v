(* C03 -- the byte-string order is total, antisymmetric and transitive; sorting a
   permutation gives the same list. *)
From Coq Require Import ZArith NArith List Bool Arith Lia Permutation.
From SV Require Import Common.GoInt C03.Model C03.Spec.
Import ListNotations.
Open Scope nat_scope.

Lemma bytes_eqb_eq a : forall b, bytes_eqb a b = true <-> a = b.
Proof.
  induction a as [|x a IH]; intros [|y b]; simpl; split; intros H; try discriminate; try reflexivity.
  - apply andb_true_iff in H. destruct H as [H1 H2]. apply N.eqb_eq in H1. apply IH in H2. congruence.
  - inversion H; subst. rewrite N.eqb_refl. simpl. apply IH. reflexivity.
Qed.

Lemma bytes_eqb_refl a : bytes_eqb a a = true.
Proof. apply bytes_eqb_eq. reflexivity. Qed.

Lemma bytes_eqb_sym a b : bytes_eqb a b = bytes_eqb b a.
Proof.
  destruct (bytes_eqb a b) eqn:E1, (bytes_eqb b a) eqn:E2; try reflexivity.
  - apply bytes_eqb_eq in E1. subst. rewrite bytes_eqb_refl in E2. discriminate.
  - apply bytes_eqb_eq in E2. subst. rewrite bytes_eqb_refl in E1. discriminate.
Qed.

Lemma lex_total a : forall b, lex_leb a b = true \/ lex_leb b a = true.
Proof.
  induction a as [|x a IH]; intros [|y b]; simpl; auto.
  destruct (N.ltb x y) eqn:E1; [left; reflexivity|].
  destruct (N.ltb y x) eqn:E2; [right; reflexivity|].
  apply N.ltb_ge in E1. apply N.ltb_ge in E2.
  assert (x = y) by lia. subst. rewrite N.eqb_refl. apply IH.
Qed.

Lemma lex_antisym a : forall b, lex_leb a b = true -> lex_leb b a = true -> a = b.
Proof.
  induction a as [|x a IH]; intros [|y b]; simpl; intros H1 H2; try discriminate; try reflexivity.
  destruct (N.ltb x y) eqn:E1.
  - apply N.ltb_lt in E1. destruct (N.ltb y x) eqn:E2; [apply N.ltb_lt in E2; lia|].
    destruct (N.eqb y x) eqn:E3; [apply N.eqb_eq in E3; lia | discriminate].
  - destruct (N.eqb x y) eqn:E3; [|discriminate]. apply N.eqb_eq in E3. subst.
    rewrite N.ltb_irrefl, N.eqb_refl in H2. f_equal. apply IH; assumption.
Qed.

Lemma lex_trans a : forall b c, lex_leb a b = true -> lex_leb b c = true -> lex_leb a c = true.
Proof.
  induction a as [|x a IH]; intros [|y b] [|z c]; simpl; intros H1 H2; try discriminate; try reflexivity.
  destruct (N.ltb x y) eqn:E1.
  - apply N.ltb_lt in E1. destruct (N.ltb y z) eqn:E2.
    + apply N.ltb_lt in E2. assert (Hl : N.ltb x z = true) by (apply N.ltb_lt; lia). rewrite Hl. reflexivity.
    + destruct (N.eqb y z) eqn:E3; [|discriminate]. apply N.eqb_eq in E3. subst.
      assert (Hl : N.ltb x z = true) by (apply N.ltb_lt; lia). rewrite Hl. reflexivity.
  - destruct (N.eqb x y) eqn:E3; [|discriminate]. apply N.eqb_eq in E3. subst.
    destruct (N.ltb y z) eqn:E2; [reflexivity|].
    destruct (N.eqb y z) eqn:E4; [|discriminate]. eapply IH; eassumption.
Qed.

Lemma lex_false_flip a b : lex_leb a b = false -> lex_leb b a = true.
Proof. intros H. destruct (lex_total a b) as [T|T]; [congruence | exact T]. Qed.

(* inserting two elements in either order gives the same list *)
Lemma insert_comm x y : forall l, insert_sorted x (insert_sorted y l) = insert_sorted y (insert_sorted x l).
Proof.
  assert (Hbase : forall x y, lex_leb x y = true -> lex_leb y x = true -> x = y) by (intros; apply lex_antisym; auto).
  induction l as [|z r IH]; simpl.
  - destruct (lex_leb x y) eqn:Exy, (lex_leb y x) eqn:Eyx; try reflexivity.
    + rewrite (Hbase x y Exy Eyx). reflexivity.
    + pose proof (lex_false_flip _ _ Exy). congruence.
  - destruct (lex_leb y z) eqn:Eyz, (lex_leb x z) eqn:Exz; simpl.
    + destruct (lex_leb x y) eqn:Exy, (lex_leb y x) eqn:Eyx; rewrite ?Eyz, ?Exz; try reflexivity.
      * rewrite (Hbase x y Exy Eyx). reflexivity.
      * pose proof (lex_false_flip _ _ Exy). congruence.
    + (* y <= z, not x <= z: so z <= x, hence y <= x and not x <= y *)
      pose proof (lex_false_flip _ _ Exz) as Hzx.
      pose proof (lex_trans _ _ _ Eyz Hzx) as Hyx.
      destruct (lex_leb x y) eqn:Exy.
      * pose proof (lex_trans _ _ _ Exy Eyz). congruence.
      * rewrite Exz, Eyz. reflexivity.
    + pose proof (lex_false_flip _ _ Eyz) as Hzy.
      pose proof (lex_trans _ _ _ Exz Hzy) as Hxy.
      destruct (lex_leb y x) eqn:Eyx.
      * pose proof (lex_trans _ _ _ Eyx Exz). congruence.
      * rewrite Exz, Eyz. reflexivity.
    + rewrite Eyz, Exz. f_equal. exact IH.
Qed.

Lemma sort_perm l1 l2 : Permutation l1 l2 -> sort l1 = sort l2.
Proof.
  induction 1; simpl.
  - reflexivity.
  - rewrite IHPermutation. reflexivity.
  - apply insert_comm.
  - congruence.
Qed.

(* the sorted listing is sorted and is a permutation of the input *)
Lemma insert_perm x l : Permutation (insert_sorted x l) (x :: l).
Proof.
  induction l as [|y r IH]; simpl; [apply Permutation_refl|].
  destruct (lex_leb x y); [apply Permutation_refl|].
  eapply Permutation_trans; [apply perm_skip; exact IH | apply perm_swap].
Qed.

Lemma sort_is_perm l : Permutation (sort l) l.
Proof.
  induction l as [|x r IH]; simpl; [constructor|].
  eapply Permutation_trans; [apply insert_perm | apply perm_skip; exact IH].
Qed.

Fixpoint sortedb (l : list bytes) : bool :=
  match l with
  | [] => true
  | x :: r => match r with [] => true | y :: _ => lex_leb x y && sortedb r end
  end.

Lemma insert_sortedb x l : sortedb l = true -> sortedb (insert_sorted x l) = true.
Proof.
  induction l as [|y r IH]; simpl; intros Hs; [reflexivity|].
  destruct (lex_leb x y) eqn:E.
  - simpl. rewrite E. simpl. exact Hs.
  - pose proof (lex_false_flip _ _ E) as Hyx.
    destruct r as [|z r'].
    + simpl. rewrite Hyx. reflexivity.
    + apply andb_true_iff in Hs. destruct Hs as [Hyz Hr]. specialize (IH Hr).
      simpl in IH |- *. destruct (lex_leb x z) eqn:Exz.
      * rewrite Hyx. simpl. simpl in IH. exact IH.
      * rewrite Hyz. simpl. exact IH.
Qed.

Lemma sort_sorted l : sortedb (sort l) = true.
Proof. induction l as [|x r IH]; simpl; [reflexivity | apply insert_sortedb; exact IH]. Qed.
