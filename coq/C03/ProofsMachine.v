(* C03 -- the machine under ANY environment equals the specification machine. *)
From Coq Require Import ZArith NArith List Bool Arith Lia Permutation.
From SV Require Import Common.GoInt C03.Model C03.Spec C03.ProofsOrder C03.ProofsTable.
Import ListNotations.
Open Scope nat_scope.

Definition rel (e : env) (s : state) (ss : sstate) : Prop :=
  inv (e_hash e) (s_table s) /\ t_order (s_table s) = ss_list ss /\
  s_steps s = ss_steps ss /\ s_out s = ss_out ss.

Lemma rel_emit e s ss t l ev :
  rel e s ss -> inv (e_hash e) t -> t_order t = l -> rel e (emit s t ev) (semit ss l ev).
Proof.
  intros [_ [_ [Hs Ho]]] Hi Hl. unfold rel, emit, semit. simpl.
  split; [exact Hi|]. split; [exact Hl|]. split; congruence.
Qed.

Lemma step_rel e s ss o : perm_ok (e_perm e) -> rel e s ss -> rel e (step e s o) (spec_step ss o).
Proof.
  intros Hp Hr. pose proof Hr as [Hi [Hl _]].
  destruct o; simpl.
  - (* set *)
    destruct (set_refines (e_hash e) (s_table s) k v Hi) as [Hi' Ho'].
    apply rel_emit; auto. rewrite Ho', Hl. reflexivity.
  - rewrite (get_refines _ _ k Hi), Hl. apply rel_emit; auto.
  - destruct (del_refines (e_hash e) (s_table s) k Hi) as [Hi' [Ho' Hv]].
    destruct (t_del (e_hash e) (s_table s) k) as [t' r] eqn:E. simpl in *.
    rewrite Hv, Hl. apply rel_emit; auto. rewrite Ho', Hl. reflexivity.
  - destruct (popitem_refines (e_hash e) (s_table s) Hi) as [Hi' Hm].
    destruct (t_popitem (e_hash e) (s_table s)) as [t' r] eqn:E. simpl in *.
    rewrite <- Hl. destruct (t_order (s_table s)) as [|[k v] rest] eqn:Eo.
    + destruct Hm as [H1 H2]. rewrite H2. apply rel_emit; auto.
    + destruct Hm as [H1 H2]. rewrite H2. apply rel_emit; auto.
  - rewrite Hl. apply rel_emit; auto.
  - rewrite Hl. apply rel_emit; auto.
  - apply rel_emit; auto. apply inv_empty.
  - rewrite (sort_perm _ _ (Hp names)). apply rel_emit; auto.
  - rewrite (sort_perm _ _ (Hp fields)). apply rel_emit; auto.
  - apply rel_emit; auto.
  - apply rel_emit; auto.
  - apply rel_emit; auto.
Qed.

Lemma run_rel e : perm_ok (e_perm e) ->
  forall ops s ss, rel e s ss -> rel e (fold_left (step e) ops s) (fold_left spec_step ops ss).
Proof.
  intros Hp. induction ops as [|o r IH]; intros s ss Hr; simpl; [exact Hr|].
  apply IH. apply step_rel; auto.
Qed.

Lemma run_equals_spec e ops : perm_ok (e_perm e) -> transcript (run e ops) = spec_transcript ops.
Proof.
  intros Hp. unfold transcript, spec_transcript, run, spec_run.
  assert (H0 : rel e init sinit).
  { unfold rel, init, sinit. simpl. split; [apply inv_empty|]. repeat split. }
  destruct (run_rel e Hp ops init sinit H0) as [_ [_ [Hs Ho]]]. rewrite Hs, Ho. reflexivity.
Qed.

Lemma exec_deterministic_lemma e1 e2 ops :
  perm_ok (e_perm e1) -> perm_ok (e_perm e2) ->
  transcript (run e1 ops) = transcript (run e2 ops).
Proof. intros H1 H2. rewrite (run_equals_spec e1 ops H1), (run_equals_spec e2 ops H2). reflexivity. Qed.

(* the table alone: every observable of every history, for any two hash functions *)
Definition table_ops_only (ops : list op) : Prop :=
  Forall (fun o => match o with OListing _ | OStruct _ => False | _ => True end) ops.

Lemma order_independent_of_hash_lemma h1 h2 p a ops :
  perm_ok p ->
  transcript (run {| e_hash := h1; e_perm := p; e_addr := a |} ops) =
  transcript (run {| e_hash := h2; e_perm := p; e_addr := a |} ops).
Proof. intros Hp. apply exec_deterministic_lemma; exact Hp. Qed.
