(* C03 -- the machine of Model.v over the REAL table: the dict operations are run
   on C12's pointer-level model of starlark/hashtable.go (C12/Concrete.v: chains
   of 8-slot buckets, overflow buckets, grow = rehash in list order, the
   insertion-order list as next / prevLink / head / tailLink pointers in a
   store), parametrised by an arbitrary hash function h : bytes -> N, instead of
   the simple bucketed table of Model.v.  Everything else (listings through the
   enumeration oracle, hash(), print, the step counter, the events) is Model.v's.

   C12's model has two error results (OutOfFuel, Dangling); they propagate here
   as errors of the machine (never turned into a normal-looking event), and
   ProofsC12.v proves they cannot occur.  No proofs here. *)
From Coq Require Import ZArith NArith List Bool Arith.
From SV Require Import Common.GoInt C03.Model.
From SV Require C12.Ops C12.Concrete.
Import ListNotations.
Open Scope nat_scope.

Definition rtable : Type := @C12.Concrete.state bytes value.

(* the value stored for set elements / the default of an impossible popitem: not
   observable through the dict operations of this machine *)
Definition rvnone : value := 0%Z.

(* Model.v's environments carry a nat-valued hash *)
Definition hashN (h : bytes -> nat) : bytes -> N := fun k => N.of_nat (h k).

(* an output of C12's step as an event of this machine (total, injective) *)
Definition ev_of_out (x : C12.Ops.out bytes value) : event :=
  match x with
  | C12.Ops.ONone => EVal None
  | C12.Ops.OVal r => EVal r
  | C12.Ops.OKV r => EItem r
  | C12.Ops.OBool b => ENum (if b then 1 else 0)%Z
  end.

Record rstate := { r_table : rtable; r_steps : nat; r_out : list event }.

(* new(Dict): the zero hashtable, table == nil *)
Definition rinit : rstate := {| r_table := C12.Concrete.zero_state; r_steps := 0; r_out := [] |}.

Definition remit (s : rstate) (t : rtable) (e : event) : rstate :=
  {| r_table := t; r_steps := S (r_steps s); r_out := r_out s ++ [e] |}.

Section RealMachine.
  Variable h : bytes -> N.                       (* the string hash: arbitrary *)
  Variable p : list bytes -> list bytes.         (* Go's map enumeration oracle *)

  (* one dict operation = one step of C12's model *)
  Definition rtab (s : rstate) (c : C12.Ops.op bytes value) : C12.Concrete.res rstate :=
    C12.Concrete.bind (C12.Concrete.step bytes_eqb h rvnone (r_table s) c)
      (fun tx => C12.Concrete.Ok (remit s (fst tx) (ev_of_out (snd tx)))).

  Definition rstep (s : rstate) (o : op) : C12.Concrete.res rstate :=
    let t := r_table s in
    match o with
    | OSet k v => rtab s (C12.Ops.OInsert k v)
    | OGet k => rtab s (C12.Ops.OLookup k)
    | ODel k => rtab s (C12.Ops.ODelete k)
    | OPopItem => rtab s C12.Ops.OPopFirst
    | OClear => rtab s C12.Ops.OClear
    | OIter => C12.Concrete.bind (C12.Concrete.items t)
                 (fun l => C12.Concrete.Ok (remit s t (EKeys (map fst l))))
    | OLen => C12.Concrete.Ok (remit s t (ENum (Z.of_nat (C12.Concrete.len t))))
    | OListing names => C12.Concrete.Ok (remit s t (EKeys (sort (p names))))
    | OStruct fields => C12.Concrete.Ok (remit s t (EKeys (sort (p fields))))
    | OHashStr r => C12.Concrete.Ok (remit s t (ENum (java_hash r)))
    | OHashBytes b => C12.Concrete.Ok (remit s t (ENum (fnv_hash b)))
    | OPrint v => C12.Concrete.Ok (remit s t (EVal (Some v)))
    end.

  Fixpoint rrun_from (s : rstate) (ops : list op) : C12.Concrete.res rstate :=
    match ops with
    | [] => C12.Concrete.Ok s
    | o :: r => C12.Concrete.bind (rstep s o) (fun s' => rrun_from s' r)
    end.

  Definition rrun (ops : list op) : C12.Concrete.res rstate := rrun_from rinit ops.
End RealMachine.

(* the same machine driven by an environment of Model.v *)
Definition rrun_env (e : env) (ops : list op) : C12.Concrete.res rstate :=
  rrun (hashN (e_hash e)) (e_perm e) ops.

Definition rtranscript (s : rstate) : list event * nat := (r_out s, r_steps s).
