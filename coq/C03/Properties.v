(* C03 -- property theorems only.  Each is closed by `exact <lemma>`. *)
From Coq Require Import ZArith NArith List Bool Arith Permutation String.
From SV Require Import Common.GoInt C03.Model C03.Spec C03.ProofsOrder C03.ProofsTable C03.ProofsMachine C03.MapRanges C03.ProofsStatements.
(* C12 is loaded here but its names are imported only in the last part of this file
   (the theorems about C12's model of hashtable.go), after every statement above it *)
From SV Require C12.Ops C12.Spec C12.Concrete C12.ProofsBase C12.Properties.
From SV Require Import C03.ModelC12 C03.ProofsC12.
Import ListNotations.
Open Scope nat_scope.

(* Whatever order Go enumerates a map in, a listing that is collected and then
   sorted is the same list: for all enumerations l1 l2 of the same entries *)
Theorem listing_independent_of_map_order :
  forall l1 l2 : list bytes, Permutation l1 l2 -> sort l1 = sort l2.
Proof. exact sort_perm. Qed.

(* ... and it is the sorted permutation of the entries *)
Theorem listing_is_sorted_permutation :
  forall l : list bytes, Permutation (sort l) l /\ sortedb (sort l) = true.
Proof. exact listing_is_sorted_permutation_stmt. Qed.

(* the byte-string order used is a total order *)
Theorem byte_order_total_order :
  forall a b c : bytes,
    (lex_leb a b = true \/ lex_leb b a = true) /\
    (lex_leb a b = true -> lex_leb b a = true -> a = b) /\
    (lex_leb a b = true -> lex_leb b c = true -> lex_leb a c = true).
Proof. exact byte_order_total_order_stmt. Qed.

(* hash(s) of the language is a function of the runes / bytes only: two runs with
   different environments (seeded string hash, enumeration oracle, addresses)
   print the same hash values, and nothing else *)
Theorem user_hash_seedless :
  forall e1 e2 runes b,
    transcript (run e1 [OHashStr runes; OHashBytes b]) = transcript (run e2 [OHashStr runes; OHashBytes b]) /\
    fst (transcript (run e1 [OHashStr runes; OHashBytes b])) = [ENum (java_hash runes); ENum (fnv_hash b)].
Proof. exact user_hash_seedless_stmt. Qed.

(* an insertion-ordered table exposes the same results (lookups, deletions,
   popitem, iteration order, length) under any two hash functions, for every
   operation history.  This one is over the simple bucketed table of Model.v;
   the same statement for the REAL table -- C12's pointer-level model of
   hashtable.go (8-entry buckets, overflow chains, grow, the next / prevLink
   list) -- is real_table_order_independent_of_hash below, a proved corollary of
   C12's refinement theorems (no longer an assumed dependency), and
   exec_deterministic_real_table is this machine run over that table. *)
Theorem order_independent_of_hash :
  forall (h1 h2 : bytes -> nat) p a ops,
    perm_ok p ->
    transcript (run {| e_hash := h1; e_perm := p; e_addr := a |} ops) =
    transcript (run {| e_hash := h2; e_perm := p; e_addr := a |} ops).
Proof. exact order_independent_of_hash_lemma. Qed.

(* composition: any two runs of any operation sequence, under any two choices of
   string-hash function, map-enumeration oracle and address assignment, have equal
   transcripts (outputs, iteration orders, listings, hash values, step count) *)
Theorem exec_deterministic :
  forall e1 e2 ops,
    perm_ok (e_perm e1) -> perm_ok (e_perm e2) ->
    transcript (run e1 ops) = transcript (run e2 ops).
Proof. exact exec_deterministic_lemma. Qed.

(* and the common value is the specification's, which has no environment at all *)
Theorem exec_equals_spec :
  forall e ops, perm_ok (e_perm e) -> transcript (run e ops) = spec_transcript ops.
Proof. exact run_equals_spec. Qed.

(* every `for ... := range <map>` of the anchored files sorts what it collects, or
   its body does not depend on the order (the complete table, by computation) *)
Theorem every_map_range_sorted :
  forall r, In r map_ranges -> mrow_ok r = true.
Proof. exact every_map_range_sorted_stmt. Qed.

(* Non-vacuity: two genuinely different environments (different hash functions,
   one enumeration oracle reverses), a history that grows the table past one
   bucket, deletes, pops and lists. *)
Definition k (n : N) : bytes := [107%N; n; n; n; n; n; n; n; n; n; n; n; n].
Definition env_a : env := {| e_hash := fun b => List.length b; e_perm := fun l => l; e_addr := fun n => n |}.
Definition env_b : env := {| e_hash := fun b => match b with _ :: x :: _ => N.to_nat x | _ => 0 end;
                             e_perm := @rev bytes; e_addr := fun n => 7 * n |}.
Definition history : list op :=
  map (fun n => OSet (k n) (Z.of_N n)) [9; 3; 7; 1; 8; 2; 6; 4; 5; 0; 10; 11; 12]%N
  ++ [ODel (k 7); OSet (k 3) 33%Z; OPopItem; OIter; OGet (k 8); OLen;
      OListing [k 2; k 1; k 3]; OStruct [[98%N]; [97%N]]; OHashStr [104; 105]%Z; OHashBytes [104; 105]%N].

Example premises_hold :
  perm_ok (e_perm env_a) /\ perm_ok (e_perm env_b) /\
  transcript (run env_a history) = transcript (run env_b history) /\
  t_nb (s_table (run env_a history)) = 2 /\
  nth 16 (fst (transcript (run env_b history))) (ENum 0) =
    EKeys [k 3; k 1; k 8; k 2; k 6; k 4; k 5; k 0; k 10; k 11; k 12].
Proof.
  split; [intros l; apply Permutation_refl|].
  split; [intros l; apply Permutation_sym, Permutation_rev|].
  vm_compute. repeat split.
Qed.

(* Contrast: the INTERNAL string hash (String.Hash -> hashString) does take the
   per-process seed for strings of 12 bytes or more -- which is why the table
   theorem quantifies over the hash function -- while short strings use FNV. *)
Example internal_hash_is_seeded :
  internal_hash (fun _ => 1%Z) (k 1) <> internal_hash (fun _ => 2%Z) (k 1) /\
  internal_hash (fun _ => 1%Z) [104%N; 105%N] = internal_hash (fun _ => 2%Z) [104%N; 105%N].
Proof. vm_compute. split; [discriminate | reflexivity]. Qed.

(* ======================================================================== *)
(* The REAL table.  C12/Concrete.v is the pointer-level model of
   starlark/hashtable.go, parametrised by an arbitrary hash function; C12 proves
   that it refines an association list that does not mention the hash.  The
   theorems below are corollaries of C12's theorems (refinement_init / _step /
   _history / _observe), instantiated once per hash function.               *)

(* The machine of Model.v with its dict operations run on C12's model
   (ModelC12.v: rstep / rrun; errors of C12's model propagate as errors).  For
   any two string-hash functions and any two map-enumeration oracles, for every
   operation history: neither run fails (no OutOfFuel, no Dangling pointer), the
   two transcripts (outputs, iteration orders, listings, hash values, step
   count) are equal, and they are the specification machine's. *)
Theorem exec_deterministic_real_table :
  forall (h1 h2 : bytes -> N) (p1 p2 : list bytes -> list bytes) (ops : list op),
    perm_ok p1 -> perm_ok p2 ->
    exists s1 s2, rrun h1 p1 ops = C12.Concrete.Ok s1 /\ rrun h2 p2 ops = C12.Concrete.Ok s2 /\
                  rtranscript s1 = rtranscript s2 /\ rtranscript s1 = spec_transcript ops.
Proof. exact exec_deterministic_real_table_lemma. Qed.

(* the same over the environments of exec_deterministic; moreover the machine
   over the real table and the machine over the simple bucketed table of Model.v
   have the same transcript (they cannot be told apart by any history) *)
Theorem exec_deterministic_real_table_env :
  forall (e1 e2 : env) (ops : list op),
    perm_ok (e_perm e1) -> perm_ok (e_perm e2) ->
    exists s1 s2, rrun_env e1 ops = C12.Concrete.Ok s1 /\ rrun_env e2 ops = C12.Concrete.Ok s2 /\
                  rtranscript s1 = rtranscript s2 /\
                  rtranscript s1 = transcript (run e1 ops).
Proof. exact exec_deterministic_real_table_env_lemma. Qed.

(* Non-vacuity: the environments and the history of premises_hold on the real
   table.  Under env_a every key has the same hash (its length, 13): one chain,
   which overflows into a second bucket; under env_b the hashes are distinct. *)
Definition rt_summary (e : env) : option ((list event * nat) * (nat * nat)) :=
  match rrun_env e history with
  | C12.Concrete.Ok s => Some (rtranscript s, (C12.Concrete.nb (r_table s), C12.Concrete.max_chain (r_table s)))
  | _ => None
  end.

Example real_table_machine_premises_hold :
  perm_ok (e_perm env_a) /\ perm_ok (e_perm env_b) /\
  option_map fst (rt_summary env_a) = Some (transcript (run env_a history)) /\
  option_map fst (rt_summary env_b) = Some (transcript (run env_a history)) /\
  option_map snd (rt_summary env_a) = Some (2, 2) /\     (* 2 chains, one of them 2 buckets long *)
  option_map snd (rt_summary env_b) = Some (2, 1).       (* 2 chains of one bucket *)
Proof.
  split; [intros l; apply Permutation_refl|].
  split; [intros l; apply Permutation_sym, Permutation_rev|].
  vm_compute. repeat split.
Qed.

(* ------------------------------------------------------------------------ *)
From SV Require Import C12.Ops C12.Spec C12.Concrete C12.ProofsBase C12.Properties.
(* from here on op / state / run / step / spec_run ... are C12's *)

(* order_independent_of_hash for the real table, at full strength: for ANY key
   type with a decidable equality, ANY values, ANY two hash functions h1 h2 (all
   collision patterns, hash 0 included) and EVERY operation history over C12's 15
   operations (insert, lookup, delete, discard, clear, popitem, setdefault,
   update, dict union, set union / intersection / difference / symmetric
   difference, issubset, issuperset), running C12's model of hashtable.go from
   the empty table under h1 and under h2:
     - both runs succeed and return the SAME output for every operation,
     - the final tables have identical items (keys and values, in iteration
       order), len, first element and identical lookups for every key,
     - the observations made after EVERY operation (output, len, items) are
       identical,
   and the common values are those of the association list of C12/Spec.v, whose
   definition has no hash function at all. *)
Theorem real_table_order_independent_of_hash :
  forall (K V : Type) (eqb : K -> K -> bool), eq_ok eqb ->
  forall (vnone : V) (h1 h2 : K -> N) (os : list (op K V)),
    let outs := snd (spec_run eqb vnone [] os) in
    let final := fst (spec_run eqb vnone [] os) in
    exists s1 s2 : @state K V,
      run eqb h1 vnone zero_state os = Ok (s1, outs) /\
      run eqb h2 vnone zero_state os = Ok (s2, outs) /\
      items s1 = Ok final /\ items s2 = Ok final /\
      len s1 = List.length final /\ len s2 = List.length final /\
      first s1 = first s2 /\
      (forall k, lookup eqb h1 s1 k = lookup eqb h2 s2 k) /\
      (forall k, lookup eqb h1 s1 k = sp_lookup eqb final k) /\
      exists tr, trace eqb h1 vnone zero_state os = Ok tr /\ trace eqb h2 vnone zero_state os = Ok tr /\
                 tr = map obs_of_spec (spec_trace eqb vnone [] os).
Proof. exact (@real_table_order_independent_of_hash_lemma). Qed.

(* the same from ANY two well-formed tables that hold the same list l (R is C12's
   invariant + abstraction: "s is well formed and its insertion-order list reads
   l"): tables of different sizes, with different tombstone / overflow layouts,
   reached along different histories, under different hash functions *)
Theorem real_table_order_independent_of_hash_any_start :
  forall (K V : Type) (eqb : K -> K -> bool), eq_ok eqb ->
  forall (vnone : V) (h1 h2 : K -> N) (os : list (op K V)) (s1 s2 : @state K V) (l : list (K * V)),
    R h1 s1 l -> R h2 s2 l ->
    let outs := snd (spec_run eqb vnone l os) in
    let final := fst (spec_run eqb vnone l os) in
    exists s1' s2' : @state K V,
      run eqb h1 vnone s1 os = Ok (s1', outs) /\
      run eqb h2 vnone s2 os = Ok (s2', outs) /\
      R h1 s1' final /\ R h2 s2' final /\
      items s1' = Ok final /\ items s2' = Ok final /\
      len s1' = List.length final /\ len s2' = List.length final /\
      first s1' = first s2' /\
      (forall k, lookup eqb h1 s1' k = lookup eqb h2 s2' k) /\
      (forall k, lookup eqb h1 s1' k = sp_lookup eqb final k) /\
      exists tr, trace eqb h1 vnone s1 os = Ok tr /\ trace eqb h2 vnone s2 os = Ok tr /\
                 tr = map obs_of_spec (spec_trace eqb vnone l os).
Proof. exact (@hash_independent_from). Qed.

(* in particular pre-sized tables: NewDict(n1) under h1 and NewDict(n2) under h2 *)
Theorem real_table_presized_independent_of_hash :
  forall (K V : Type) (eqb : K -> K -> bool), eq_ok eqb ->
  forall (vnone : V) (h1 h2 : K -> N) (n1 n2 : nat) (os : list (op K V)),
    exists t1 t2 s1 s2 : @state K V,
      init n1 = Ok t1 /\ init n2 = Ok t2 /\
      run eqb h1 vnone t1 os = Ok (s1, snd (spec_run eqb vnone [] os)) /\
      run eqb h2 vnone t2 os = Ok (s2, snd (spec_run eqb vnone [] os)) /\
      items s1 = Ok (fst (spec_run eqb vnone [] os)) /\ items s2 = Ok (fst (spec_run eqb vnone [] os)) /\
      len s1 = len s2 /\ first s1 = first s2 /\
      (forall k, lookup eqb h1 s1 k = lookup eqb h2 s2 k) /\
      trace eqb h1 vnone t1 os = trace eqb h2 vnone t2 os.
Proof. exact (@real_table_presized_lemma). Qed.

(* Non-vacuity / illustration: two concrete, different hash functions -- the
   identity, and the constant 0 (EVERY key collides; 0 is remapped to 1 as the
   code does) -- and a history using all 15 operations: 20 insertions (the table
   doubles twice; under the constant hash one chain grows to 3 buckets), deletes,
   re-insertions into vacated slots, clear, and a second filling.  The layouts
   differ; outputs, items, len and the per-operation traces are equal. *)
Definition h_id : N -> N := fun k => k.
Definition h_collide : N -> N := fun _ => 0%N.
Definition real_history : list (op N N) :=
  map (fun i => OInsert (N.of_nat i) (N.of_nat (100 + i))) (seq 0 20)
  ++ [ODelete 3; OInsert 40 7; OInsert 3 8; OLookup 5; OLookup 99; ODiscard 4; ODiscard 77;
       OSetDefault 5 9; OSetDefault 50 9; OPopFirst; OUpdate [(60, 1); (2, 2)]; ODictUnion [(61, 1); (6, 6)];
       OIsSubset [1; 2]; OIsSuperset [1; 2; 19]; OIsSuperset [1; 98];
       OSetUnion [70; 1; 71; 70]; OSetInter [71; 5; 9; 10; 11; 12; 13; 14; 15; 16; 17; 70; 123];
       OSetDiff [9; 123]; OSetSymDiff [5; 200; 201]; OIsSubset [200; 10; 11; 12; 13; 14; 15; 16; 17; 70; 71; 201];
       OClear; OPopFirst]%N
  ++ map (fun i => OInsert (N.of_nat (7 * i)) (N.of_nat i)) (seq 0 12)
  ++ [ODelete 14; OInsert 5 5; OPopFirst; OLookup 21]%N.

Definition real_summary (h : N -> N) :=
  match run N.eqb h 0%N zero_state real_history with
  | Ok (s, outs) => Some (outs, items s, len s)
  | _ => None
  end.
Definition real_layout (h : N -> N) : list (nat * nat) :=    (* (chains, buckets in the longest chain) after each prefix of interest *)
  map (fun n => match run N.eqb h 0%N zero_state (firstn n real_history) with
                | Ok (s, _) => (nb s, max_chain s) | _ => (0, 0) end) [20; List.length real_history].

Example real_table_two_hash_functions :
  eq_ok N.eqb /\
  h_id 1%N <> h_collide 1%N /\
  real_summary h_id = real_summary h_collide /\
  real_summary h_id =
    Some (snd (spec_run N.eqb 0%N [] real_history), Ok (fst (spec_run N.eqb 0%N [] real_history)),
          List.length (fst (spec_run N.eqb 0%N [] real_history))) /\
  option_map (fun x => (snd (fst x), snd x)) (real_summary h_collide) =
    Some (Ok [(7, 1); (21, 3); (28, 4); (35, 5); (42, 6); (49, 7); (56, 8); (63, 9); (70, 10); (77, 11); (5, 5)]%N, 11) /\
  trace N.eqb h_id 0%N zero_state real_history = trace N.eqb h_collide 0%N zero_state real_history /\
  (exists tr, trace N.eqb h_id 0%N zero_state real_history = Ok tr /\ List.length tr = List.length real_history) /\
  real_layout h_id = [(4, 1); (2, 1)] /\
  real_layout h_collide = [(4, 3); (2, 2)].
Proof.
  split; [exact N.eqb_eq|].
  split; [vm_compute; discriminate|].
  vm_compute. repeat split. eexists. split; reflexivity.
Qed.
