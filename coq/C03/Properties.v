(* C03 -- property theorems only.  Each is closed by `exact <lemma>`. *)
From Coq Require Import ZArith NArith List Bool Arith Permutation String.
From SV Require Import Common.GoInt C03.Model C03.Spec C03.ProofsOrder C03.ProofsTable C03.ProofsMachine C03.MapRanges C03.ProofsStatements.
Import ListNotations.
Open Scope nat_scope.

(* Whatever order Go enumerates a map in, a listing that is collected and then
   sorted is the same list: for all enumerations l1 l2 of the same entries *)
Theorem listing_independent_of_map_order :
  forall l1 l2 : list bytes, Permutation l1 l2 -> sort l1 = sort l2.
Proof. exact sort_perm. Qed.

(* ... and it is the sorted permutation of the entries *)
Theorem listing_is_sorted_permutation :
  forall l : list bytes, Permutation (sort l) l /\ sortedb (sort l) = true.
Proof. exact listing_is_sorted_permutation_stmt. Qed.

(* the byte-string order used is a total order *)
Theorem byte_order_total_order :
  forall a b c : bytes,
    (lex_leb a b = true \/ lex_leb b a = true) /\
    (lex_leb a b = true -> lex_leb b a = true -> a = b) /\
    (lex_leb a b = true -> lex_leb b c = true -> lex_leb a c = true).
Proof. exact byte_order_total_order_stmt. Qed.

(* hash(s) of the language is a function of the runes / bytes only: two runs with
   different environments (seeded string hash, enumeration oracle, addresses)
   print the same hash values, and nothing else *)
Theorem user_hash_seedless :
  forall e1 e2 runes b,
    transcript (run e1 [OHashStr runes; OHashBytes b]) = transcript (run e2 [OHashStr runes; OHashBytes b]) /\
    fst (transcript (run e1 [OHashStr runes; OHashBytes b])) = [ENum (java_hash runes); ENum (fnv_hash b)].
Proof. exact user_hash_seedless_stmt. Qed.

(* an insertion-ordered table exposes the same results (lookups, deletions,
   popitem, iteration order, length) under any two hash functions, for every
   operation history.  Proved over the bucketed model of Model.v; that the real
   hashtable.go refines an insertion-ordered map is C12's theorem. *)
Theorem order_independent_of_hash :
  forall (h1 h2 : bytes -> nat) p a ops,
    perm_ok p ->
    transcript (run {| e_hash := h1; e_perm := p; e_addr := a |} ops) =
    transcript (run {| e_hash := h2; e_perm := p; e_addr := a |} ops).
Proof. exact order_independent_of_hash_lemma. Qed.

(* composition: any two runs of any operation sequence, under any two choices of
   string-hash function, map-enumeration oracle and address assignment, have equal
   transcripts (outputs, iteration orders, listings, hash values, step count) *)
Theorem exec_deterministic :
  forall e1 e2 ops,
    perm_ok (e_perm e1) -> perm_ok (e_perm e2) ->
    transcript (run e1 ops) = transcript (run e2 ops).
Proof. exact exec_deterministic_lemma. Qed.

(* and the common value is the specification's, which has no environment at all *)
Theorem exec_equals_spec :
  forall e ops, perm_ok (e_perm e) -> transcript (run e ops) = spec_transcript ops.
Proof. exact run_equals_spec. Qed.

(* every `for ... := range <map>` of the anchored files sorts what it collects, or
   its body does not depend on the order (the complete table, by computation) *)
Theorem every_map_range_sorted :
  forall r, In r map_ranges -> mrow_ok r = true.
Proof. exact every_map_range_sorted_stmt. Qed.

(* Non-vacuity: two genuinely different environments (different hash functions,
   one enumeration oracle reverses), a history that grows the table past one
   bucket, deletes, pops and lists. *)
Definition k (n : N) : bytes := [107%N; n; n; n; n; n; n; n; n; n; n; n; n].
Definition env_a : env := {| e_hash := fun b => List.length b; e_perm := fun l => l; e_addr := fun n => n |}.
Definition env_b : env := {| e_hash := fun b => match b with _ :: x :: _ => N.to_nat x | _ => 0 end;
                             e_perm := @rev bytes; e_addr := fun n => 7 * n |}.
Definition history : list op :=
  map (fun n => OSet (k n) (Z.of_N n)) [9; 3; 7; 1; 8; 2; 6; 4; 5; 0; 10; 11; 12]%N
  ++ [ODel (k 7); OSet (k 3) 33%Z; OPopItem; OIter; OGet (k 8); OLen;
      OListing [k 2; k 1; k 3]; OStruct [[98%N]; [97%N]]; OHashStr [104; 105]%Z; OHashBytes [104; 105]%N].

Example premises_hold :
  perm_ok (e_perm env_a) /\ perm_ok (e_perm env_b) /\
  transcript (run env_a history) = transcript (run env_b history) /\
  t_nb (s_table (run env_a history)) = 2 /\
  nth 16 (fst (transcript (run env_b history))) (ENum 0) =
    EKeys [k 3; k 1; k 8; k 2; k 6; k 4; k 5; k 0; k 10; k 11; k 12].
Proof.
  split; [intros l; apply Permutation_refl|].
  split; [intros l; apply Permutation_sym, Permutation_rev|].
  vm_compute. repeat split.
Qed.

(* Contrast: the INTERNAL string hash (String.Hash -> hashString) does take the
   per-process seed for strings of 12 bytes or more -- which is why the table
   theorem quantifies over the hash function -- while short strings use FNV. *)
Example internal_hash_is_seeded :
  internal_hash (fun _ => 1%Z) (k 1) <> internal_hash (fun _ => 2%Z) (k 1) /\
  internal_hash (fun _ => 1%Z) [104%N; 105%N] = internal_hash (fun _ => 2%Z) [104%N; 105%N].
Proof. vm_compute. split; [discriminate | reflexivity]. Qed.
