(* C03 -- the specification: the same machine with NO source of nondeterminism.
   The table is an insertion-ordered association list (no hash, no buckets),
   a listing is the sorted list of the names (no enumeration oracle), hash() is a
   function of the runes / bytes.  It is a function of the operation list only,
   so "the implementation model equals the specification for every environment"
   is determinism. *)
From Coq Require Import ZArith NArith List Bool Arith Permutation.
From SV Require Import Common.GoInt C03.Model.
Import ListNotations.
Open Scope nat_scope.

Definition keymem (k : bytes) (l : list (bytes * value)) : bool := existsb (bytes_eqb k) (map fst l).

Record sstate := { ss_list : list (bytes * value); ss_steps : nat; ss_out : list event }.
Definition sinit : sstate := {| ss_list := []; ss_steps := 0; ss_out := [] |}.

Definition semit (s : sstate) (l : list (bytes * value)) (e : event) : sstate :=
  {| ss_list := l; ss_steps := S (ss_steps s); ss_out := ss_out s ++ [e] |}.

Definition spec_step (s : sstate) (o : op) : sstate :=
  let l := ss_list s in
  match o with
  | OSet k v => semit s (if keymem k l then update k v l else l ++ [(k, v)]) (EVal None)
  | OGet k => semit s l (EVal (assoc k l))
  | ODel k => semit s (remove_key k l) (EVal (assoc k l))
  | OPopItem => match l with
                | [] => semit s l (EItem None)
                | (k, v) :: _ => semit s (remove_key k l) (EItem (Some (k, v)))
                end
  | OIter => semit s l (EKeys (map fst l))
  | OLen => semit s l (ENum (Z.of_nat (length l)))
  | OClear => semit s [] (EVal None)
  | OListing names => semit s l (EKeys (sort names))
  | OStruct fields => semit s l (EKeys (sort fields))
  | OHashStr r => semit s l (ENum (java_hash r))
  | OHashBytes b => semit s l (ENum (fnv_hash b))
  | OPrint v => semit s l (EVal (Some v))
  end.

Definition spec_run (ops : list op) : sstate := fold_left spec_step ops sinit.
Definition spec_transcript (ops : list op) : list event * nat :=
  let s := spec_run ops in (ss_out s, ss_steps s).

(* an enumeration oracle is any function that returns a permutation of its argument *)
Definition perm_ok (p : list bytes -> list bytes) : Prop := forall l, Permutation (p l) l.

(* observation equality, for the correspondence check *)
Fixpoint list_eqb {A} (e : A -> A -> bool) (a b : list A) : bool :=
  match a, b with [], [] => true | x :: r, y :: s => e x y && list_eqb e r s | _, _ => false end.
Definition opt_eqb {A} (e : A -> A -> bool) (a b : option A) : bool :=
  match a, b with None, None => true | Some x, Some y => e x y | _, _ => false end.
Definition event_eqb (a b : event) : bool :=
  match a, b with
  | EVal x, EVal y => opt_eqb Z.eqb x y
  | EItem x, EItem y => opt_eqb (fun p q => bytes_eqb (fst p) (fst q) && Z.eqb (snd p) (snd q)) x y
  | EKeys x, EKeys y => list_eqb bytes_eqb x y
  | ENum x, ENum y => Z.eqb x y
  | _, _ => false
  end.
