(* C03 -- every `for ... := range <map>` in the anchored files, written from the
   code; checks/c03.py re-derives the rows from the Go source on every run
   (harness/cmd/c03 ranges: go/parser + go/ast) and compares. *)
From Coq Require Import List String.
From SV Require Import C03.Model.
Import ListNotations.
Open Scope string_scope.

Record mrow := { m_file : string; m_func : string; m_expr : string; m_class : range_class }.
Definition mrow_ok (r : mrow) : bool := match m_class r with RExposed => false | _ => true end.
Definition class_eqb (a b : range_class) : bool :=
  match a, b with RSorted, RSorted | RCommutative, RCommutative | RExposed, RExposed => true | _, _ => false end.
Definition mrow_eqb (a b : mrow) : bool :=
  String.eqb (m_file a) (m_file b) && String.eqb (m_func a) (m_func b) && String.eqb (m_expr a) (m_expr b)
  && class_eqb (m_class a) (m_class b).
Definition mr (f fn e : string) (c : range_class) : mrow := {| m_file := f; m_func := fn; m_expr := e; m_class := c |}.

Definition map_ranges : list mrow := [
  mr "lib/time/time.go" "builtinAttrNames" "methods" RSorted;
  mr "resolve/resolve.go" "resolver.spellcheck" "b.bindings" RSorted;
  mr "starlark/eval.go" "StringDict.Keys" "d" RSorted;
  mr "starlark/eval.go" "StringDict.Freeze" "d" RCommutative;
  mr "starlark/library.go" "builtinAttrNames" "methods" RSorted;
  mr "starlarkstruct/struct.go" "FromStringDict" "d" RSorted
].
