(* C03 -- statements of Properties.v proved from the lemmas of the other proof files,
   so that Properties.v contains `exact` only. *)
From Coq Require Import ZArith NArith List Bool Arith Permutation String.
From SV Require Import Common.GoInt C03.Model C03.Spec C03.ProofsOrder C03.ProofsTable C03.ProofsMachine C03.MapRanges.
Import ListNotations.
Open Scope nat_scope.

Lemma listing_is_sorted_permutation_stmt :
  forall l : list bytes, Permutation (sort l) l /\ sortedb (sort l) = true.
Proof.
  intros l. split; [apply sort_is_perm | apply sort_sorted].
Qed.

Lemma byte_order_total_order_stmt :
  forall a b c : bytes,
    (lex_leb a b = true \/ lex_leb b a = true) /\
    (lex_leb a b = true -> lex_leb b a = true -> a = b) /\
    (lex_leb a b = true -> lex_leb b c = true -> lex_leb a c = true).
Proof.
  intros a b c. split; [apply lex_total|]. split; [apply lex_antisym | apply lex_trans].
Qed.

Lemma user_hash_seedless_stmt :
  forall e1 e2 runes b,
    transcript (run e1 [OHashStr runes; OHashBytes b]) = transcript (run e2 [OHashStr runes; OHashBytes b]) /\
    fst (transcript (run e1 [OHashStr runes; OHashBytes b])) = [ENum (java_hash runes); ENum (fnv_hash b)].
Proof.
  intros e1 e2 runes b. split; reflexivity.
Qed.

Lemma every_map_range_sorted_stmt :
  forall r, In r map_ranges -> mrow_ok r = true.
Proof.
  apply forallb_forall. vm_compute. reflexivity.
Qed.

