(* C03 -- the dependency on C12 discharged: hash independence of the REAL table.

   Part A.  C12 proves, for an ARBITRARY hash function h, that its pointer-level
   model of starlark/hashtable.go refines an association list whose definition
   does not mention h (C12.Properties: refinement_init / refinement_step /
   refinement_history / refinement_observe / insertion_ordered_map_under_every_history).
   Instantiating those theorems twice, with h1 and with h2, both runs equal the
   same hash-free value, hence each other: outputs of every operation, items,
   len, first, every lookup, and the whole per-operation trace.

   Part B.  The machine of ModelC12.v (Model.v's machine with the dict operations
   run on C12's model) never fails and has the transcript of C03's specification
   machine, for every hash function and every enumeration oracle; so any two
   environments give equal transcripts (exec_deterministic over the real table).

   Only theorems of C12/Properties.v are used from C12 (no C12 proof internals). *)
From Coq Require Import ZArith NArith List Bool Arith Lia Permutation.
From SV Require Import C12.Ops C12.Spec C12.Concrete C12.ProofsBase C12.Properties.
Import ListNotations.

(* ------------------------------------------------------------------ Part A *)
Section HashIndependence.
  Context {K V : Type}.
  Variable eqb : K -> K -> bool.
  Hypothesis He : eq_ok eqb.
  Variable vnone : V.

  Notation state := (@state K V).

  (* what is observed after one operation: its output, len, items in order *)
  Definition obs_of_spec (lx : list (K * V) * out K V) : out K V * nat * list (K * V) :=
    (snd lx, length (fst lx), fst lx).

  (* the per-operation trace of the model is that of the association list *)
  Lemma trace_refines (h : K -> N) os : forall (s : state) l, R h s l ->
    trace eqb h vnone s os = Ok (map obs_of_spec (spec_trace eqb vnone l os)).
  Proof.
    induction os as [|o r IH]; intros s l HR; cbn [trace spec_trace]; [reflexivity|].
    destruct (refinement_step K V eqb h vnone He s l o HR) as (s1 & H1 & R1).
    rewrite H1. cbn [bind fst snd].
    destruct (spec_step eqb vnone l o) as [l1 x] eqn:E. cbn [fst snd] in *.
    destruct (refinement_observe K V eqb h He s1 l1 R1) as (Hi & Hl & _).
    rewrite Hi. cbn [bind]. rewrite (IH s1 l1 R1). cbn [bind map].
    unfold obs_of_spec at 2. cbn [fst snd]. rewrite Hl. reflexivity.
  Qed.

  (* from ANY two well-formed tables with the same contents (for instance
     NewDict(n1) and NewDict(n2), or tables that reached the same list along
     different histories), under any two hash functions *)
  Lemma hash_independent_from (h1 h2 : K -> N) os (s1 s2 : state) l :
    R h1 s1 l -> R h2 s2 l ->
    let outs := snd (spec_run eqb vnone l os) in
    let final := fst (spec_run eqb vnone l os) in
    exists s1' s2' : state,
      run eqb h1 vnone s1 os = Ok (s1', outs) /\
      run eqb h2 vnone s2 os = Ok (s2', outs) /\
      R h1 s1' final /\ R h2 s2' final /\
      items s1' = Ok final /\ items s2' = Ok final /\
      len s1' = length final /\ len s2' = length final /\
      first s1' = first s2' /\
      (forall k, lookup eqb h1 s1' k = lookup eqb h2 s2' k) /\
      (forall k, lookup eqb h1 s1' k = sp_lookup eqb final k) /\
      exists tr, trace eqb h1 vnone s1 os = Ok tr /\ trace eqb h2 vnone s2 os = Ok tr /\
                 tr = map obs_of_spec (spec_trace eqb vnone l os).
  Proof.
    intros HR1 HR2 outs final.
    destruct (refinement_history K V eqb h1 vnone He os s1 l HR1) as (t1 & E1 & F1).
    destruct (refinement_history K V eqb h2 vnone He os s2 l HR2) as (t2 & E2 & F2).
    destruct (refinement_observe K V eqb h1 He t1 _ F1) as (I1 & L1 & K1 & P1 & _).
    destruct (refinement_observe K V eqb h2 He t2 _ F2) as (I2 & L2 & K2 & P2 & _).
    exists t1, t2. repeat split; auto.
    - rewrite P1, P2. reflexivity.
    - intros k. rewrite K1, K2. reflexivity.
    - eexists. split; [apply trace_refines; exact HR1|]. split; [apply trace_refines; exact HR2|reflexivity].
  Qed.

  (* from the empty table (new(Dict) / new(Set): table == nil) *)
  Lemma real_table_order_independent_of_hash_lemma (h1 h2 : K -> N) (os : list (op K V)) :
    let outs := snd (spec_run eqb vnone [] os) in
    let final := fst (spec_run eqb vnone [] os) in
    exists s1 s2 : state,
      run eqb h1 vnone zero_state os = Ok (s1, outs) /\
      run eqb h2 vnone zero_state os = Ok (s2, outs) /\
      items s1 = Ok final /\ items s2 = Ok final /\
      len s1 = length final /\ len s2 = length final /\
      first s1 = first s2 /\
      (forall k, lookup eqb h1 s1 k = lookup eqb h2 s2 k) /\
      (forall k, lookup eqb h1 s1 k = sp_lookup eqb final k) /\
      exists tr, trace eqb h1 vnone zero_state os = Ok tr /\ trace eqb h2 vnone zero_state os = Ok tr /\
                 tr = map obs_of_spec (spec_trace eqb vnone [] os).
  Proof.
    intros outs final.
    destruct (refinement_init K V h1) as [Z1 _]. destruct (refinement_init K V h2) as [Z2 _].
    destruct (hash_independent_from h1 h2 os zero_state zero_state [] Z1 Z2)
      as (s1 & s2 & E1 & E2 & _ & _ & I1 & I2 & L1 & L2 & P & Kq & Ks & T).
    exists s1, s2. repeat split; auto.
  Qed.

  (* pre-sized tables: NewDict(n1) under h1 against NewDict(n2) under h2 *)
  Lemma real_table_presized_lemma (h1 h2 : K -> N) (n1 n2 : nat) (os : list (op K V)) :
    exists t1 t2 s1 s2 : state,
      init n1 = Ok t1 /\ init n2 = Ok t2 /\
      run eqb h1 vnone t1 os = Ok (s1, snd (spec_run eqb vnone [] os)) /\
      run eqb h2 vnone t2 os = Ok (s2, snd (spec_run eqb vnone [] os)) /\
      items s1 = Ok (fst (spec_run eqb vnone [] os)) /\ items s2 = Ok (fst (spec_run eqb vnone [] os)) /\
      len s1 = len s2 /\ first s1 = first s2 /\
      (forall k, lookup eqb h1 s1 k = lookup eqb h2 s2 k) /\
      trace eqb h1 vnone t1 os = trace eqb h2 vnone t2 os.
  Proof.
    destruct (refinement_init K V h1) as [_ Z1]. destruct (refinement_init K V h2) as [_ Z2].
    destruct (Z1 n1) as (t1 & Ht1 & R1). destruct (Z2 n2) as (t2 & Ht2 & R2).
    destruct (hash_independent_from h1 h2 os t1 t2 [] R1 R2)
      as (s1 & s2 & E1 & E2 & _ & _ & I1 & I2 & L1 & L2 & P & Kq & _ & tr & T1 & T2 & _).
    exists t1, t2, s1, s2. repeat split; auto; congruence.
  Qed.
End HashIndependence.

(* ------------------------------------------------------------------ Part B *)
From SV Require Import Common.GoInt C03.Model C03.Spec C03.ProofsOrder C03.ProofsTable C03.ProofsMachine C03.ModelC12.

Lemma bytes_eq_ok : eq_ok bytes_eqb.
Proof. intros a b. apply bytes_eqb_eq. Qed.

(* C03's association-list operations are C12's (on lists without repeated keys) *)
Lemma assoc_sp_lookup k l : assoc k l = C12.Spec.sp_lookup bytes_eqb l k.
Proof. induction l as [|[x w] r IH]; cbn; [reflexivity|]. destruct (bytes_eqb k x); auto. Qed.

Lemma update_sp_replace k v l : update k v l = C12.Spec.sp_replace bytes_eqb l k v.
Proof. induction l as [|[x w] r IH]; cbn; [reflexivity|]. destruct (bytes_eqb k x); [reflexivity|rewrite IH; reflexivity]. Qed.

Lemma keymem_sp_lookup k l :
  keymem k l = match C12.Spec.sp_lookup bytes_eqb l k with Some _ => true | None => false end.
Proof.
  unfold keymem. induction l as [|[x w] r IH]; cbn; [reflexivity|].
  destruct (bytes_eqb k x); cbn; auto.
Qed.

Lemma set_sp_insert k v l :
  (if keymem k l then update k v l else l ++ [(k, v)]) = C12.Spec.sp_insert bytes_eqb l k v.
Proof.
  unfold C12.Spec.sp_insert. rewrite keymem_sp_lookup, update_sp_replace.
  destruct (C12.Spec.sp_lookup bytes_eqb l k); reflexivity.
Qed.

Lemma keymem_notin k l : ~ In k (map fst l) -> keymem k l = false.
Proof.
  unfold keymem. induction l as [|[x w] r IH]; cbn; [reflexivity|]. intros H.
  destruct (bytes_eqb k x) eqn:E; cbn.
  - apply bytes_eqb_eq in E. subst. exfalso. apply H. left. reflexivity.
  - apply IH. intros Hin. apply H. right. exact Hin.
Qed.

Lemma remove_key_sp_delete k l :
  NoDup (map fst l) -> remove_key k l = C12.Spec.sp_delete bytes_eqb l k.
Proof.
  induction l as [|[x w] r IH]; intros ND; [reflexivity|].
  inversion ND as [|? ? Hx ND']; subst. unfold remove_key in *. cbn [filter fst C12.Spec.sp_delete].
  destruct (bytes_eqb k x) eqn:E; cbn [negb].
  - apply bytes_eqb_eq in E. subst x. apply (remove_absent k r). apply keymem_notin. exact Hx.
  - rewrite (IH ND'). reflexivity.
Qed.

Section MachineOverRealTable.
  Variable h : bytes -> N.
  Variable p : list bytes -> list bytes.
  Hypothesis Hp : perm_ok p.

  Definition rrel (s : rstate) (ss : sstate) : Prop :=
    R h (r_table s) (ss_list ss) /\ r_steps s = ss_steps ss /\ r_out s = ss_out ss.

  Lemma rrel_emit s ss t l ev :
    rrel s ss -> R h t l -> rrel (remit s t ev) (semit ss l ev).
  Proof.
    intros (_ & Hs & Ho) HR. unfold rrel, remit, semit. cbn. split; [exact HR|]. split; congruence.
  Qed.

  (* one dict operation through C12's refinement_step *)
  Lemma rtab_ok s ss c :
    rrel s ss ->
    exists s', rtab h s c = Ok s' /\
      rrel s' (semit ss (fst (C12.Spec.spec_step bytes_eqb rvnone (ss_list ss) c))
                        (ev_of_out (snd (C12.Spec.spec_step bytes_eqb rvnone (ss_list ss) c)))).
  Proof.
    intros Hr. pose proof Hr as (HR & _).
    destruct (refinement_step bytes value bytes_eqb h rvnone bytes_eq_ok (r_table s) (ss_list ss) c HR)
      as (t' & E & R').
    unfold rtab. rewrite E. cbn [bind fst snd]. eexists. split; [reflexivity|].
    apply rrel_emit; assumption.
  Qed.

  Lemma rstep_ok s ss o :
    rrel s ss -> exists s', rstep h p s o = Ok s' /\ rrel s' (C03.Spec.spec_step ss o).
  Proof.
    intros Hr. pose proof Hr as (HR & _).
    destruct (refinement_observe bytes value bytes_eqb h bytes_eq_ok (r_table s) (ss_list ss) HR)
      as (Hit & Hlen & _ & _ & ND).
    destruct o; cbn [rstep C03.Spec.spec_step].
    - (* set *)
      destruct (rtab_ok s ss (C12.Ops.OInsert k v) Hr) as (s' & E & R').
      exists s'. split; [exact E|]. cbn [C12.Spec.spec_step fst snd ev_of_out] in R'.
      rewrite set_sp_insert. exact R'.
    - (* get *)
      destruct (rtab_ok s ss (C12.Ops.OLookup k) Hr) as (s' & E & R').
      exists s'. split; [exact E|]. cbn [C12.Spec.spec_step fst snd ev_of_out] in R'.
      rewrite assoc_sp_lookup. exact R'.
    - (* del *)
      destruct (rtab_ok s ss (C12.Ops.ODelete k) Hr) as (s' & E & R').
      exists s'. split; [exact E|]. cbn [C12.Spec.spec_step fst snd ev_of_out] in R'.
      rewrite assoc_sp_lookup, (remove_key_sp_delete k _ ND). exact R'.
    - (* popitem *)
      destruct (rtab_ok s ss C12.Ops.OPopFirst Hr) as (s' & E & R').
      exists s'. split; [exact E|]. cbn [C12.Spec.spec_step] in R'.
      destruct (ss_list ss) as [|[k v] r] eqn:El; cbn [fst snd ev_of_out] in R'.
      + exact R'.
      + rewrite (remove_key_sp_delete k _ ND). cbn [C12.Spec.sp_delete].
        rewrite bytes_eqb_refl. exact R'.
    - (* iter *)
      rewrite Hit. cbn [bind]. eexists. split; [reflexivity|]. apply rrel_emit; assumption.
    - (* len *)
      rewrite Hlen. eexists. split; [reflexivity|]. apply rrel_emit; assumption.
    - (* clear *)
      destruct (rtab_ok s ss C12.Ops.OClear Hr) as (s' & E & R').
      exists s'. split; [exact E|]. exact R'.
    - rewrite (sort_perm _ _ (Hp names)). eexists. split; [reflexivity|]. apply rrel_emit; assumption.
    - rewrite (sort_perm _ _ (Hp fields)). eexists. split; [reflexivity|]. apply rrel_emit; assumption.
    - eexists. split; [reflexivity|]. apply rrel_emit; assumption.
    - eexists. split; [reflexivity|]. apply rrel_emit; assumption.
    - eexists. split; [reflexivity|]. apply rrel_emit; assumption.
  Qed.

  Lemma rrun_from_ok ops : forall s ss,
    rrel s ss -> exists s', rrun_from h p s ops = Ok s' /\ rrel s' (fold_left C03.Spec.spec_step ops ss).
  Proof.
    induction ops as [|o r IH]; intros s ss Hr; cbn [rrun_from fold_left].
    - eexists. split; [reflexivity|exact Hr].
    - destruct (rstep_ok s ss o Hr) as (s1 & E1 & R1). rewrite E1. cbn [bind]. apply IH. exact R1.
  Qed.

  Lemma rrel_init : rrel rinit sinit.
  Proof.
    unfold rrel, rinit, sinit. cbn. split; [|split; reflexivity].
    destruct (refinement_init bytes value h) as [Z _]. exact Z.
  Qed.

  Lemma rrun_equals_spec ops :
    exists s, rrun h p ops = Ok s /\ rtranscript s = spec_transcript ops.
  Proof.
    destruct (rrun_from_ok ops rinit sinit rrel_init) as (s & E & (_ & Hs & Ho)).
    exists s. split; [exact E|]. unfold rtranscript, spec_transcript, spec_run. rewrite Hs, Ho. reflexivity.
  Qed.
End MachineOverRealTable.

(* the machine over the real table never fails and has the specification's
   transcript; two environments therefore agree *)
Lemma exec_equals_spec_real_table_lemma :
  forall (h : bytes -> N) (p : list bytes -> list bytes) (ops : list op),
    perm_ok p -> exists s, rrun h p ops = Ok s /\ rtranscript s = spec_transcript ops.
Proof. intros h p ops Hp. apply rrun_equals_spec. exact Hp. Qed.

Lemma exec_deterministic_real_table_lemma :
  forall (h1 h2 : bytes -> N) (p1 p2 : list bytes -> list bytes) (ops : list op),
    perm_ok p1 -> perm_ok p2 ->
    exists s1 s2, rrun h1 p1 ops = Ok s1 /\ rrun h2 p2 ops = Ok s2 /\
                  rtranscript s1 = rtranscript s2 /\ rtranscript s1 = spec_transcript ops.
Proof.
  intros h1 h2 p1 p2 ops H1 H2.
  destruct (rrun_equals_spec h1 p1 H1 ops) as (s1 & E1 & T1).
  destruct (rrun_equals_spec h2 p2 H2 ops) as (s2 & E2 & T2).
  exists s1, s2. repeat split; auto. congruence.
Qed.

(* the same, over Model.v's environments, and against the machine over the
   simple bucketed table of Model.v: the two machines cannot be told apart *)
Lemma exec_deterministic_real_table_env_lemma :
  forall (e1 e2 : env) (ops : list op),
    perm_ok (e_perm e1) -> perm_ok (e_perm e2) ->
    exists s1 s2, rrun_env e1 ops = Ok s1 /\ rrun_env e2 ops = Ok s2 /\
                  rtranscript s1 = rtranscript s2 /\
                  rtranscript s1 = transcript (C03.Model.run e1 ops).
Proof.
  intros e1 e2 ops H1 H2. unfold rrun_env.
  destruct (exec_deterministic_real_table_lemma (hashN (e_hash e1)) (hashN (e_hash e2)) _ _ ops H1 H2)
    as (s1 & s2 & E1 & E2 & T & Ts).
  exists s1, s2. repeat split; auto.
  rewrite Ts. symmetry. apply C03.ProofsMachine.run_equals_spec. exact H1.
Qed.
