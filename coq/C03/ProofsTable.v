(* C03 -- the bucketed table exposes exactly what the insertion-ordered
   association list exposes, whatever the hash function. *)
From Coq Require Import ZArith NArith List Bool Arith Lia Permutation.
From SV Require Import Common.GoInt C03.Model C03.Spec C03.ProofsOrder.
Import ListNotations.
Open Scope nat_scope.

Section T.
Variable hash : bytes -> nat.

(* the bucket reached through the hash knows exactly the keys of the order list *)
Definition inv (t : table) : Prop :=
  t_nb t > 0 /\ forall k, t_has hash t k = keymem k (t_order t).

Lemma inv_empty : inv empty_table.
Proof. split; [simpl; lia | intros k; reflexivity]. Qed.

Lemma existsb_eqb_filter k (p : bytes -> bool) l :
  p k = true -> existsb (bytes_eqb k) (filter p l) = existsb (bytes_eqb k) l.
Proof.
  intros Hp. induction l as [|x r IH]; simpl; [reflexivity|].
  destruct (p x) eqn:Epx; simpl.
  - rewrite IH. reflexivity.
  - destruct (bytes_eqb k x) eqn:E; [|exact IH].
    apply bytes_eqb_eq in E. subst. congruence.
Qed.

Lemma keymem_app k l kv : keymem k (l ++ [kv]) = keymem k l || bytes_eqb k (fst kv).
Proof. unfold keymem. rewrite map_app, existsb_app. simpl. rewrite orb_false_r. reflexivity. Qed.

Lemma map_fst_update k v l : map fst (update k v l) = map fst l.
Proof.
  induction l as [|[k' v'] r IH]; simpl; [reflexivity|].
  destruct (bytes_eqb k k'); simpl; [reflexivity | rewrite IH; reflexivity].
Qed.

Lemma keymem_remove k' k l : keymem k' (remove_key k l) = keymem k' l && negb (bytes_eqb k k').
Proof.
  unfold keymem, remove_key. induction l as [|[a v] r IH]; simpl; [reflexivity|].
  destruct (bytes_eqb k a) eqn:Eka; simpl.
  - rewrite IH. apply bytes_eqb_eq in Eka. subst a.
    rewrite (bytes_eqb_sym k' k). destruct (bytes_eqb k k'); simpl; [rewrite andb_false_r; reflexivity | reflexivity].
  - rewrite IH. destruct (bytes_eqb k' a) eqn:Ek'a; simpl; [|reflexivity].
    apply bytes_eqb_eq in Ek'a. subst a. rewrite Eka. reflexivity.
Qed.

Lemma assoc_none k l : keymem k l = false -> assoc k l = None.
Proof.
  unfold keymem. induction l as [|[a v] r IH]; simpl; [reflexivity|].
  intros H. apply orb_false_iff in H. destruct H as [H1 H2]. rewrite H1. apply IH. exact H2.
Qed.

Lemma inv_grow t : inv t -> inv (maybe_grow hash t).
Proof.
  intros [Hnb Hk]. unfold maybe_grow. destruct (_ <? _); [|split; assumption].
  split; [simpl; lia|]. intros k. unfold t_has, slot, rebucket. simpl.
  unfold keymem. apply existsb_eqb_filter. apply Nat.eqb_refl.
Qed.

Lemma order_grow t : t_order (maybe_grow hash t) = t_order t.
Proof. unfold maybe_grow. destruct (_ <? _); reflexivity. Qed.

Lemma set_refines t k v : inv t ->
  inv (t_set hash t k v) /\
  t_order (t_set hash t k v) = (if keymem k (t_order t) then update k v (t_order t) else t_order t ++ [(k, v)]).
Proof.
  intros [Hnb Hk]. unfold t_set. rewrite (Hk k). destruct (keymem k (t_order t)) eqn:Em.
  - split; [|reflexivity]. split; [exact Hnb|]. intros k'. unfold t_has, slot, keymem in *. simpl.
    rewrite map_fst_update. apply Hk.
  - rewrite order_grow. split; [|reflexivity]. apply inv_grow. split; [exact Hnb|].
    intros k'. unfold t_has, slot in *. cbn [t_order t_nb t_bucket]. rewrite keymem_app. cbn [fst].
    destruct (Nat.eqb (hash k' mod t_nb t) (hash k mod t_nb t)) eqn:Es.
    + cbn [existsb]. rewrite (Hk k'). apply orb_comm.
    + rewrite (Hk k'). destruct (bytes_eqb k' k) eqn:E; [|rewrite orb_false_r; reflexivity].
      apply bytes_eqb_eq in E. subst. rewrite Nat.eqb_refl in Es. discriminate.
Qed.

Lemma get_refines t k : inv t -> t_get hash t k = assoc k (t_order t).
Proof.
  intros [_ Hk]. unfold t_get. rewrite (Hk k). destruct (keymem k (t_order t)) eqn:E; [reflexivity|].
  symmetry. apply assoc_none. exact E.
Qed.

Lemma remove_absent k l : keymem k l = false -> remove_key k l = l.
Proof.
  unfold keymem, remove_key. induction l as [|[a v] r IH]; simpl; [reflexivity|].
  intros H. apply orb_false_iff in H. destruct H as [H1 H2]. rewrite H1. simpl. rewrite IH; auto.
Qed.

Lemma del_refines t k : inv t ->
  inv (fst (t_del hash t k)) /\
  t_order (fst (t_del hash t k)) = remove_key k (t_order t) /\
  snd (t_del hash t k) = assoc k (t_order t).
Proof.
  intros [Hnb Hk]. unfold t_del. rewrite (Hk k). destruct (keymem k (t_order t)) eqn:Em; simpl.
  - split; [|split; reflexivity]. split; [exact Hnb|].
    intros k'. unfold t_has, slot in *. cbn [t_order t_nb t_bucket]. rewrite keymem_remove.
    destruct (Nat.eqb (hash k' mod t_nb t) (hash k mod t_nb t)) eqn:Es.
    + rewrite <- (Hk k').
      generalize (t_bucket t (hash k' mod t_nb t)). intros b.
      induction b as [|a r IH]; simpl; [reflexivity|].
      destruct (bytes_eqb k a) eqn:Eka; simpl.
      * rewrite IH. apply bytes_eqb_eq in Eka. subst a. rewrite (bytes_eqb_sym k' k).
        destruct (bytes_eqb k k'); simpl; [rewrite andb_false_r; reflexivity | reflexivity].
      * rewrite IH. destruct (bytes_eqb k' a) eqn:Ek'a; simpl; [|reflexivity].
        apply bytes_eqb_eq in Ek'a. subst a. rewrite Eka. reflexivity.
    + rewrite (Hk k'). destruct (bytes_eqb k k') eqn:E; [|rewrite andb_true_r; reflexivity].
      apply bytes_eqb_eq in E. subst. rewrite Nat.eqb_refl in Es. discriminate.
  - split; [split; assumption|]. split; [symmetry; apply remove_absent; exact Em | symmetry; apply assoc_none; exact Em].
Qed.

Lemma popitem_refines t : inv t ->
  inv (fst (t_popitem hash t)) /\
  match t_order t with
  | [] => t_order (fst (t_popitem hash t)) = [] /\ snd (t_popitem hash t) = None
  | (k, v) :: _ => t_order (fst (t_popitem hash t)) = remove_key k (t_order t) /\ snd (t_popitem hash t) = Some (k, v)
  end.
Proof.
  intros Hi. unfold t_popitem. destruct (t_order t) as [|[k v] r] eqn:Eo; simpl.
  - split; [exact Hi|]. split; [exact Eo | reflexivity].
  - destruct (del_refines t k Hi) as [H1 [H2 _]]. split; [exact H1|]. split; [rewrite H2, Eo; reflexivity | reflexivity].
Qed.
End T.
