(* C03 -- execution is deterministic.  Determinism is a statement about PAIRS of
   executions, so every source of nondeterminism of the Go implementation is an
   explicit parameter of the model:

     e_hash   the hash of a string: hashtable.go hashString uses maphash with a
              per-process random seed for strings of 12 bytes or more
     e_perm   the order in which Go enumerates a map (`for k := range m`): an
              oracle returning some permutation of the entries
     e_addr   the addresses of objects (never consulted by any operation below;
              it is a parameter so that the theorem says so)

   and a small machine whose operations are the places where these could leak:
   an insertion-ordered hash table (hashtable.go: buckets chosen by the hash,
   iteration along the insertion-order list head/tailLink), attribute listings
   built from Go maps (library.go builtinAttrNames, eval.go StringDict.Keys,
   starlarkstruct FromStringDict, lib/time builtinAttrNames, resolve spellcheck:
   collect, then sort), the user-visible hash() built-in (library.go hash:
   javaStringHash for strings, FNV-1a softHashString for bytes: no seed), print
   and the step counter.

   The bucketed table here is a simple model of my own (buckets = function from
   index to the keys stored there, growth by re-bucketing).  The real
   hashtable.go (bucket arrays of 8 entries, overflow chains, tombstones, the
   next / prevLink list) is C12's model; ModelC12.v runs this same machine over
   it and ProofsC12.v derives, from C12's refinement theorems, that the real
   table too is independent of the hash function and that the two machines have
   the same transcripts (Properties.v: real_table_order_independent_of_hash,
   exec_deterministic_real_table) -- a proved corollary, not an assumption.
   No proofs here. *)
From Coq Require Import ZArith NArith List Bool Arith.
From SV Require Import Common.GoInt.
Import ListNotations.
Open Scope nat_scope.

Definition bytes := list N.       (* a byte string *)
Definition value := Z.            (* values stored in tables / printed: opaque integers *)

Fixpoint bytes_eqb (a b : bytes) : bool :=
  match a, b with
  | [], [] => true
  | x :: a', y :: b' => N.eqb x y && bytes_eqb a' b'
  | _, _ => false
  end.

(* ------------------------------------------------------- byte-string order *)
(* Go's string comparison: lexicographic on bytes *)
Fixpoint lex_leb (a b : bytes) : bool :=
  match a, b with
  | [], _ => true
  | _ :: _, [] => false
  | x :: a', y :: b' => if N.ltb x y then true else if N.eqb x y then lex_leb a' b' else false
  end.

Fixpoint insert_sorted (x : bytes) (l : list bytes) : list bytes :=
  match l with
  | [] => [x]
  | y :: r => if lex_leb x y then x :: l else y :: insert_sorted x r
  end.

Fixpoint sort (l : list bytes) : list bytes :=      (* sort.Strings *)
  match l with [] => [] | x :: r => insert_sorted x (sort r) end.

(* ------------------------------------------------------------- user hash() *)
(* javaStringHash over the runes of the string (UTF-8 decoding is Go's; the
   harness supplies the runes): h = 31*h + r in int32 *)
Definition java_hash (runes : list Z) : Z :=
  fold_left (fun h r => wrap32 (31 * h + r)%Z) runes 0%Z.

(* softHashString, FNV-1a 32 bit over the bytes *)
Definition fnv_hash (b : bytes) : Z :=
  fold_left (fun h c => wrapu32 (Z.lxor h (Z.of_N c) * 16777619)%Z) b 2166136261%Z.

(* the INTERNAL string hash (String.Hash -> hashString): seeded for len >= 12 *)
Definition internal_hash (maphash : bytes -> Z) (s : bytes) : Z :=
  if 12 <=? length s then maphash s else fnv_hash s.

(* ---------------------------------------------- insertion-ordered hash table *)
Record table := {
  t_nb : nat;                         (* number of buckets, > 0 *)
  t_bucket : nat -> list bytes;       (* keys stored in each bucket *)
  t_order : list (bytes * value)      (* entries in insertion order (head ... tailLink) *)
}.

Definition empty_table : table := {| t_nb := 1; t_bucket := fun _ => []; t_order := [] |}.

Section Table.
Variable hash : bytes -> nat.

Definition slot (t : table) (k : bytes) : nat := hash k mod t_nb t.

(* lookup goes through the bucket selected by the hash *)
Definition t_has (t : table) (k : bytes) : bool := existsb (bytes_eqb k) (t_bucket t (slot t k)).

Fixpoint assoc (k : bytes) (l : list (bytes * value)) : option value :=
  match l with [] => None | (k', v) :: r => if bytes_eqb k k' then Some v else assoc k r end.

Fixpoint update (k : bytes) (v : value) (l : list (bytes * value)) : list (bytes * value) :=
  match l with [] => [] | (k', v') :: r => if bytes_eqb k k' then (k', v) :: r else (k', v') :: update k v r end.

Definition remove_key (k : bytes) (l : list (bytes * value)) : list (bytes * value) :=
  filter (fun kv => negb (bytes_eqb k (fst kv))) l.

Definition t_get (t : table) (k : bytes) : option value :=
  if t_has t k then assoc k (t_order t) else None.

(* growth: twice the buckets, every key re-placed by its hash (hashtable.go grow) *)
Definition rebucket (nb : nat) (order : list (bytes * value)) : nat -> list bytes :=
  fun i => filter (fun k => Nat.eqb (hash k mod nb) i) (map fst order).

Definition maybe_grow (t : table) : table :=
  if t_nb t * 8 <? length (t_order t)
  then {| t_nb := t_nb t * 2; t_bucket := rebucket (t_nb t * 2) (t_order t); t_order := t_order t |}
  else t.

Definition t_set (t : table) (k : bytes) (v : value) : table :=
  if t_has t k
  then {| t_nb := t_nb t; t_bucket := t_bucket t; t_order := update k v (t_order t) |}
  else
    let j := slot t k in
    maybe_grow {| t_nb := t_nb t;
                  t_bucket := fun i => if Nat.eqb i j then k :: t_bucket t i else t_bucket t i;
                  t_order := t_order t ++ [(k, v)] |}.

Definition t_del (t : table) (k : bytes) : table * option value :=
  if t_has t k
  then
    let j := slot t k in
    ({| t_nb := t_nb t;
        t_bucket := fun i => if Nat.eqb i j then filter (fun k' => negb (bytes_eqb k k')) (t_bucket t i) else t_bucket t i;
        t_order := remove_key k (t_order t) |}, assoc k (t_order t))
  else (t, None).

Definition t_popitem (t : table) : table * option (bytes * value) :=
  match t_order t with
  | [] => (t, None)
  | (k, v) :: _ => (fst (t_del t k), Some (k, v))
  end.
End Table.

(* ------------------------------------------------------------- the machine *)
Inductive op :=
| OSet (k : bytes) (v : value)       (* d[k] = v *)
| OGet (k : bytes)                    (* d.get(k) *)
| ODel (k : bytes)                    (* d.pop(k, None) *)
| OPopItem                            (* d.popitem() *)
| OIter                               (* list(d) / for k in d *)
| OLen
| OClear
| OListing (names : list bytes)      (* dir(x) / AttrNames: a Go map of names, collected then sorted *)
| OStruct (fields : list bytes)      (* struct from keywords, struct + struct: FromStringDict sorts the entries *)
| OHashStr (runes : list Z)          (* hash("...") *)
| OHashBytes (b : bytes)             (* hash(b"...") *)
| OPrint (v : value).

Inductive event :=
| EVal (v : option value)
| EItem (kv : option (bytes * value))
| EKeys (ks : list bytes)
| ENum (n : Z).

Record env := {
  e_hash : bytes -> nat;
  e_perm : list bytes -> list bytes;
  e_addr : nat -> nat
}.

Record state := { s_table : table; s_steps : nat; s_out : list event }.

Definition init : state := {| s_table := empty_table; s_steps := 0; s_out := [] |}.

Definition emit (s : state) (t : table) (e : event) : state :=
  {| s_table := t; s_steps := S (s_steps s); s_out := s_out s ++ [e] |}.

Definition step (e : env) (s : state) (o : op) : state :=
  let t := s_table s in
  let h := e_hash e in
  match o with
  | OSet k v => emit s (t_set h t k v) (EVal None)
  | OGet k => emit s t (EVal (t_get h t k))
  | ODel k => let '(t', r) := t_del h t k in emit s t' (EVal r)
  | OPopItem => let '(t', r) := t_popitem h t in emit s t' (EItem r)
  | OIter => emit s t (EKeys (map fst (t_order t)))
  | OLen => emit s t (ENum (Z.of_nat (length (t_order t))))
  | OClear => emit s empty_table (EVal None)
  | OListing names => emit s t (EKeys (sort (e_perm e names)))
  | OStruct fields => emit s t (EKeys (sort (e_perm e fields)))
  | OHashStr r => emit s t (ENum (java_hash r))
  | OHashBytes b => emit s t (ENum (fnv_hash b))
  | OPrint v => emit s t (EVal (Some v))
  end.

Definition run (e : env) (ops : list op) : state := fold_left (step e) ops init.

(* the observable transcript: outputs and the number of steps *)
Definition transcript (s : state) : list event * nat := (s_out s, s_steps s).

(* -------------------------- every `for ... := range <map>` in the anchored files *)
Inductive range_class := RSorted | RCommutative | RExposed.
Record map_range := { mr_file : list N; mr_func : list N; mr_expr : list N; mr_class : range_class }.
Definition range_ok (r : map_range) : bool := match mr_class r with RExposed => false | _ => true end.
