(* C06 -- the iterator stack of compiled code: proofs, part 3: the machine of
   C01/VM.v keeps, in every frame, an iterator stack of the inferred depth. *)
From Coq Require Import ZArith String List Bool Lia.
From SV Require Import C01.Syntax C01.Values C01.Ref C01.VM C01.Compile
                       C06.CodegenIter C06.ProofsCodegenIter C06.ProofsCodegenIter2.
Import ListNotations.
Open Scope nat_scope.

Lemma depth_step : forall code pc d i,
  depth_at code pc = Some d -> nth_error code pc = Some i ->
  exists l, succs pc i d = Some l /\ forall s d', List.In (s, d') l -> depth_at code s = Some d'.
Proof.
  unfold depth_at. intros code pc d i H Hi.
  destruct (infer code) as [m|] eqn:Em; [|discriminate].
  destruct (nth_error m pc) as [[d0|]|] eqn:E; inversion H; subst.
  destruct (infer_sound _ _ Em) as [_ K]. destruct (K _ _ E) as (i' & l & A & B & C).
  rewrite Hi in A. inversion A; subst. exists l. split; auto.
  intros s d' Hin. rewrite (C _ _ Hin). reflexivity.
Qed.

Lemma depth_entry : forall code, iter_depth_ok code = true -> depth_at code 0 = Some 0.
Proof.
  unfold iter_depth_ok, depth_at. intros code H. destruct (infer code) as [m|] eqn:Em; [|discriminate].
  destruct (infer_sound _ _ Em) as [H0 _]. rewrite H0. reflexivity.
Qed.

Ltac brk H :=
  repeat first
    [ discriminate H
    | progress cbn beta iota zeta in H
    | match type of H with context [match ?x with _ => _ end] => destruct x eqn:? end ].

Section Shape.
  Variable cp : cprog.
  Variable fname : nat -> string.

  Definition same_frame (i : insn) (f : frame) (rest : list frame) (s' : vstate) : Prop :=
    exists f', vs_frames s' = f' :: rest /\ fr_code f' = fr_code f /\
      forall l, succs (fr_pc f) i (length (fr_iters f)) = Some l -> List.In (fr_pc f', length (fr_iters f')) l.
  Definition call_frame (f : frame) (rest : list frame) (s' : vstate) : Prop :=
    exists callee f', vs_frames s' = callee :: f' :: rest /\ fr_code f' = fr_code f /\
      fr_pc f' = S (fr_pc f) /\ fr_iters f' = fr_iters f /\ fr_pc callee = 0 /\ fr_iters callee = [] /\
      exists fid fc, find_code (cp_funs cp) fid = Some fc /\ fr_code callee = fc_code fc.
  Definition ret_frame (rest : list frame) (s' : vstate) : Prop :=
    exists c rest' c', rest = c :: rest' /\ vs_frames s' = c' :: rest' /\
      fr_code c' = fr_code c /\ fr_pc c' = fr_pc c /\ fr_iters c' = fr_iters c.

  Ltac same :=
    left; eexists; split; [reflexivity|]; split; [reflexivity|];
    cbn; intros l E; inversion E; subst; cbn; auto.

  Lemma exec_shape : forall i f rest g w s',
    exec_insn cp fname i f rest g w = Next s' ->
    same_frame i f rest s' \/ (call_frame f rest s' /\ exists q a b c, i = CALL q a b c) \/ (ret_frame rest s' /\ i = RETURN).
  Proof.
    intros i f rest g w s' H. unfold exec_insn, of_pres, fail in H.
    destruct i; try (brk H; inversion H; subst; clear H; same; fail).
    - (* ITERPUSH *) brk H; inversion H; subst; clear H. same.
    - (* ITERPOP *) brk H; inversion H; subst; clear H.
      left; eexists; split; [reflexivity|]; split; [reflexivity|].
      cbn. match goal with E : fr_iters f = _ |- _ => rewrite E end. cbn. intros l E; inversion E; subst; cbn; auto.
    - (* ITERJMP *) brk H; inversion H; subst; clear H;
      (left; eexists; split; [reflexivity|]; split; [reflexivity|];
       cbn; match goal with E : fr_iters f = _ |- _ => rewrite E end; cbn; intros l E; inversion E; subst; cbn; auto).
    - (* RETURN *) brk H; inversion H; subst; clear H.
      right; right. split; [|reflexivity]. do 3 eexists. split; [reflexivity|]. cbn. repeat split.
    - (* CJMP *) brk H; inversion H; subst; clear H; same.
    - (* CALL *) unfold call_value, of_pres, fail in H.
      brk H; inversion H; subst; clear H; try (same; fail);
      (right; left; split; [|do 4 eexists; reflexivity]; do 2 eexists; split; [reflexivity|]; cbn; repeat split; eauto).
  Qed.
End Shape.
