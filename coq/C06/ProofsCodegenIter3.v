(* C06 -- the iterator stack of compiled code: proofs, part 3: the machine of
   C01/VM.v keeps, in every frame, an iterator stack of the inferred depth. *)
From Coq Require Import ZArith String List Bool Lia.
From SV Require Import C01.Syntax C01.Values C01.Ref C01.VM C01.Compile
                       C06.CodegenIter C06.ProofsCodegenIter C06.ProofsCodegenIter2.
Import ListNotations.
Open Scope nat_scope.

Lemma depth_step : forall code pc d i,
  depth_at code pc = Some d -> nth_error code pc = Some i ->
  exists l, succs pc i d = Some l /\ forall s d', List.In (s, d') l -> depth_at code s = Some d'.
Proof.
  unfold depth_at. intros code pc d i H Hi.
  destruct (infer code) as [m|] eqn:Em; [|discriminate].
  destruct (nth_error m pc) as [[d0|]|] eqn:E; inversion H; subst.
  destruct (infer_sound _ _ Em) as [_ K]. destruct (K _ _ E) as (i' & l & A & B & C).
  rewrite Hi in A. inversion A; subst. exists l. split; auto.
  intros s d' Hin. rewrite (C _ _ Hin). reflexivity.
Qed.

Lemma depth_entry : forall code, iter_depth_ok code = true -> depth_at code 0 = Some 0.
Proof.
  unfold iter_depth_ok, depth_at. intros code H. destruct (infer code) as [m|] eqn:Em; [|discriminate].
  destruct (infer_sound _ _ Em) as [H0 _]. rewrite H0. reflexivity.
Qed.

Ltac brk H :=
  repeat first
    [ discriminate H
    | progress cbn beta iota zeta in H
    | match type of H with context [match ?x with _ => _ end] => destruct x eqn:? end ].

Section Shape.
  Variable cp : cprog.
  Variable fname : nat -> string.

  Definition same_frame (i : insn) (f : frame) (rest : list frame) (s' : vstate) : Prop :=
    exists f', vs_frames s' = f' :: rest /\ fr_code f' = fr_code f /\
      forall l, succs (fr_pc f) i (length (fr_iters f)) = Some l -> List.In (fr_pc f', length (fr_iters f')) l.
  Definition call_frame (f : frame) (rest : list frame) (s' : vstate) : Prop :=
    exists callee f', vs_frames s' = callee :: f' :: rest /\ fr_code f' = fr_code f /\
      fr_pc f' = S (fr_pc f) /\ fr_iters f' = fr_iters f /\ fr_pc callee = 0 /\ fr_iters callee = [] /\
      exists fid fc, find_code (cp_funs cp) fid = Some fc /\ fr_code callee = fc_code fc.
  Definition ret_frame (rest : list frame) (s' : vstate) : Prop :=
    exists c rest' c', rest = c :: rest' /\ vs_frames s' = c' :: rest' /\
      fr_code c' = fr_code c /\ fr_pc c' = fr_pc c /\ fr_iters c' = fr_iters c.

  Ltac same :=
    left; eexists; split; [reflexivity|]; split; [reflexivity|];
    cbn; intros l_succ E_succ; inversion E_succ; subst; cbn; auto.

  Lemma exec_shape : forall i f rest g w s',
    exec_insn cp fname i f rest g w = Next s' ->
    same_frame i f rest s' \/ (call_frame f rest s' /\ exists q a b c, i = CALL q a b c) \/ (ret_frame rest s' /\ i = RETURN).
  Proof.
    intros i f rest g w s' H. unfold exec_insn, of_pres, fail in H.
    destruct i; try (brk H; inversion H; subst; clear H; same; fail).
    - (* ITERPOP *) brk H; inversion H; subst; clear H.
      left; eexists; split; [reflexivity|]; split; [reflexivity|].
      cbn. match goal with E : fr_iters f = _ |- _ => rewrite E end. cbn. intros l_succ E_succ; inversion E_succ; subst; cbn; auto.
    - (* ITERJMP *) brk H; inversion H; subst; clear H;
      (left; eexists; split; [reflexivity|]; split; [reflexivity|];
       cbn; match goal with E : fr_iters f = _ |- _ => rewrite E end; cbn; intros l_succ E_succ; inversion E_succ; subst; cbn; auto).
    - (* RETURN *) brk H; inversion H; subst; clear H.
      right; right. split; [|reflexivity]. do 3 eexists. split; [reflexivity|]. cbn. repeat split.
    - (* CALL *) unfold call_value, of_pres, fail in H.
      brk H; inversion H; subst; clear H; try (same; fail);
      (right; left; split; [|do 4 eexists; reflexivity]; do 2 eexists; split; [reflexivity|]; cbn; repeat split; eauto).
  Qed.
End Shape.

Section Inv.
  Variable cp : cprog.
  Variable fname : nat -> string.
  Hypothesis CO : codes_ok cp.

  Lemma step_inv : forall s s',
    Forall frame_depth_ok (vs_frames s) -> step cp fname s = Next s' -> Forall frame_depth_ok (vs_frames s').
  Proof.
    intros s s' F H. unfold step in H. destruct (vs_frames s) as [|f rest] eqn:Ef; [discriminate|].
    destruct (nth_error (fr_code f) (fr_pc f)) as [i|] eqn:Ei; [|discriminate].
    inversion F as [|? ? Ff Fr]; subst.
    destruct (depth_step _ _ _ _ Ff Ei) as (l & El & Hl).
    destruct (exec_shape cp fname _ _ _ _ _ _ H) as [S|[[C I]|[R _]]].
    - destruct S as (f' & E1 & E2 & E3). rewrite E1. constructor; auto.
      unfold frame_depth_ok. rewrite E2. apply Hl. apply E3; auto.
    - destruct C as (callee & f' & E1 & E2 & E3 & E4 & E5 & E6 & fid & fc & E7 & E8).
      destruct I as (q & a & b & c & ->). cbn [succs] in El. inversion El; subst l.
      rewrite E1. constructor; [|constructor; auto].
      + unfold frame_depth_ok. rewrite E8, E5, E6. apply depth_entry. destruct CO as [_ CF]. eapply CF; eauto.
      + unfold frame_depth_ok. rewrite E2, E3, E4. apply Hl. left. reflexivity.
    - destruct R as (c & rest' & c' & E1 & E2 & E3 & E4 & E5). subst rest. rewrite E2.
      inversion Fr as [|? ? Fc Fr']; subst. constructor; auto.
      unfold frame_depth_ok in *. rewrite E3, E4, E5. auto.
  Qed.

  Lemma reach_inv : forall s0 s, reach cp fname s0 s ->
    Forall frame_depth_ok (vs_frames s0) -> Forall frame_depth_ok (vs_frames s).
  Proof. induction 1 as [|s s1 s2 R IH St]; intros F0; auto. eapply step_inv; [apply IH; auto | exact St]. Qed.

  Lemma init_inv : forall n, Forall frame_depth_ok (vs_frames (init_state cp n)).
  Proof.
    intros n. unfold init_state. destruct (spill _ _ _) as [l1 w1]. cbn [vs_frames].
    constructor; [|constructor]. unfold frame_depth_ok. cbn [fr_code fr_pc fr_iters length].
    apply depth_entry. apply CO.
  Qed.
End Inv.

Lemma find_code_map : forall p l fid fc,
  find_code (map (fun d => (fst d, compile_fun p (snd d))) l) fid = Some fc -> exists fd, fc = compile_fun p fd.
Proof.
  induction l as [|[i fd] r IH]; intros fid fc H; cbn [map find_code fst snd] in H; [discriminate|].
  destruct (Nat.eqb i fid); [inversion H; eauto | eauto].
Qed.

Lemma compile_codes_ok : forall p, codes_ok (compile_prog p).
Proof.
  intros p. split.
  - cbn [compile_prog cp_top fc_code]. apply codegen_pairs_iterpush_lemma.
  - intros fid fc H. cbn [compile_prog cp_funs] in H. destruct (find_code_map _ _ _ _ H) as [fd ->].
    cbn [compile_fun fc_code]. apply codegen_pairs_iterpush_lemma.
Qed.

Lemma compiled_iter_depth_lemma : forall p fname n s,
  reach (compile_prog p) fname (init_state (compile_prog p) n) s ->
  Forall frame_depth_ok (vs_frames s).
Proof.
  intros p fname n s R. eapply reach_inv; eauto using compile_codes_ok. apply init_inv, compile_codes_ok.
Qed.

(* in a frame running a compiled body: at the first pc of a statement and at the pc
   after its last instruction the iterator stack has the statement's static depth *)
Lemma compiled_span_depth_lemma : forall p fname n s fr locals body a b d k,
  reach (compile_prog p) fname (init_state (compile_prog p) n) s ->
  List.In fr (vs_frames s) ->
  fr_code fr = gen_body p locals body ->
  List.In (a, b, d, k) (spans_block p locals 0 0 body) ->
  (fr_pc fr = a \/ fr_pc fr = b) ->
  length (fr_iters fr) = d.
Proof.
  intros p fname n s fr locals body a b d k R Hin Ec Hs Hpc.
  pose proof (compiled_iter_depth_lemma _ _ _ _ R) as F. rewrite Forall_forall in F. specialize (F _ Hin).
  unfold frame_depth_ok in F. rewrite Ec in F.
  destruct (codegen_pairs_iterpush_lemma p locals body) as (_ & _ & _ & Ag & Sp).
  destruct (Sp _ _ _ _ Hs) as (_ & _ & S1 & S2 & _).
  pose proof (Ag _ _ F) as G. destruct Hpc as [E|E]; rewrite E in G; congruence.
Qed.

(* the meaning of the checker for ANY bytecode (e.g. the real compiler's): if every
   function of the program passes the dataflow, every frame of every reachable
   state has an iterator stack of the depth inferred for its pc *)
Lemma dataflow_sound_lemma : forall cp fname n s,
  codes_ok cp -> reach cp fname (init_state cp n) s -> Forall frame_depth_ok (vs_frames s).
Proof. intros cp fname n s CO R. eapply reach_inv; eauto. apply init_inv; auto. Qed.

(* k steps of the machine *)
Fixpoint nsteps (cp : cprog) (fname : nat -> string) (k : nat) (s : vstate) : option vstate :=
  match k with
  | O => Some s
  | S k => match step cp fname s with Next s' => nsteps cp fname k s' | Stop _ => None end
  end.
Lemma nsteps_reach : forall cp fname k s s', nsteps cp fname k s = Some s' -> reach cp fname s s'.
Proof.
  intros cp fname k s s' H. 
  assert (G : forall k s0 s1, reach cp fname s0 s1 -> nsteps cp fname k s1 = Some s' -> reach cp fname s0 s').
  { induction k0 as [|k0 IH]; intros s0 s1 R E; cbn [nsteps] in E.
    - inversion E; subst; auto.
    - destruct (step cp fname s1) as [s2|] eqn:Es; [|discriminate]. eapply IH; [|exact E]. eapply reach_step; eauto. }
  eapply G; [apply reach_refl | exact H].
Qed.
