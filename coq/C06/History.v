(* C06 -- the behaviour of the pinned tree before the two "fix:" commits in /repo,
   kept as documentation of the findings.  These lemmas are about frozen copies
   of the old definitions (Model.run_prog false, Model.push_generic false), not
   about /repo. *)
From Coq Require Import ZArith List Bool.
From SV Require Import C06.Model C06.Proofs.
Import ListNotations.
Open Scope Z_scope.

(* `a, b = x` with len(x) = 3: UNPACK broke out of the loop with "too many values
   to unpack" before iter.Done(): the list stays locked for ever *)
Lemma frame_balanced_refuted_before_fix :
  exists p h d, wf_heap h /\
    let '(h', d', o) := call false p h d in
    o = OErr /\ d' = d /\ itercount (h' 0%nat) = 1 /\ itercount (h 0%nat) = 0 /\
    (* ... and every later mutation of the list is refused *)
    forall m, mutate h' 0%nat m = (h', false).
Proof.
  exists (PAct (SUnpack 0%nat 2) (PExit ORet)), (mk_heap [(false, [1; 2; 3])]), 0%nat.
  split.
  - apply wf_mk_heap.
  - cbn. repeat split.
Qed.

(* starlark.Elements(dict) (the generic path of Elements / Entries) called
   Iterate() when the Seq was created and Done() each time it was ranged *)
Lemma push_balanced_refuted_before_fix :
  let h := mk_heap [(false, [1; 2; 3])] in
  (* obtained but never ranged: locked for ever *)
  itercount (push_run (push_generic false) 0%nat [GCreate] h 0%nat) = 1 /\
  (* ranged twice: the count wraps around to 2^32-1 *)
  itercount (push_run (push_generic false) 0%nat [GCreate; GRange; GRange] h 0%nat) = 4294967295.
Proof. vm_compute. split; reflexivity. Qed.
