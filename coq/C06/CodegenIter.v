(* C06 -- the iterator stack of COMPILED code: definitions (no proofs).

   C06/Model.v treats a frame as an arbitrary tree of ITERPUSH / ITERPOP /
   ITERJMP actions and `frame_balanced` speaks about the exit of the call.  The
   sentence of the property "as soon as the iteration ends by any path
   (exhaustion, break, return ...) the collection is mutable again" is a fact
   about what the COMPILER emits: every path from the ITERPUSH of a loop to an
   instruction after the loop passes exactly one matching ITERPOP.  This file
   states that fact as an abstract interpretation of bytecode:

     succs          the transfer function: successors of an instruction with the
                    iterator-stack depth each is entered with (+1 after ITERPUSH,
                    -1 after ITERPOP, which like ITERJMP needs depth >= 1; both
                    branches of ITERJMP / CJMP keep the depth -- the exhausted
                    branch of ITERJMP still has its iterator and must land on the
                    ITERPOP; RETURN has no successor: whatever is left on the
                    stack is drained by CallInternal's deferred clean-up)
     infer          forward dataflow (worklist) from (pc 0, depth 0); fails when
                    two paths reach one pc with different depths, when a jump
                    leaves the code, or when ITERPOP / ITERJMP is reached at depth 0
     iter_depth_ok  infer succeeds;  depth_at  the inferred depth of a pc
     ann_ok         checker for a TOTAL annotation (one depth per pc, dead code included)
     static_ann     the annotation read off the instruction list
                    (#ITERPUSH - #ITERPOP before the pc)
     spans_block    from the SOURCE: (first pc, pc after the last instruction,
                    static for-nesting depth, is-a-for-statement) of every
                    statement at every level

   The code is that of C01/Compile.v (model of internal/compile/compile.go:
   fcomp.stmt / expr / comprehension / ifelse with the opcodes ITERPUSH, ITERJMP,
   ITERPOP, JMP, CJMP), the machine that of C01/VM.v. *)
From Coq Require Import ZArith String List Bool.
From SV Require Import C01.Syntax C01.Values C01.VM C01.Compile.
Import ListNotations.
Open Scope nat_scope.

(* ---------------------------------------------------------------- transfer function *)
Definition succs (pc : nat) (i : insn) (d : nat) : option (list (nat * nat)) :=
  match i with
  | ITERPUSH _ => Some [(S pc, S d)]
  | ITERPOP => match d with O => None | S d' => Some [(S pc, d')] end
  | ITERJMP a => match d with O => None | S _ => Some [(a, d); (S pc, d)] end
  | JMP a => Some [(a, d)]
  | CJMP a => Some [(a, d); (S pc, d)]
  | RETURN => Some []
  | UNSUPPORTED _ => Some []                   (* the machine stops there *)
  | RJMP _ | RCJMP _ | RITERJMP _ | RJMPB _ | BRK | CONT => None   (* not machine instructions *)
  | _ => Some [(S pc, d)]
  end.

(* ---------------------------------------------------------------- forward dataflow *)
Fixpoint set_at {A} (n : nat) (v : A) (l : list A) : list A :=
  match l, n with
  | [], _ => []
  | _ :: r, O => v :: r
  | x :: r, S k => x :: set_at k v r
  end.

Fixpoint infer_loop (fuel : nat) (code : list insn) (m : list (option nat)) (wl : list (nat * nat))
  : option (list (option nat)) :=
  match fuel with
  | O => None
  | S fuel =>
    match wl with
    | [] => Some m
    | (pc, d) :: wl' =>
        match nth_error m pc with
        | None => None                                     (* control leaves the code *)
        | Some (Some d') => if Nat.eqb d' d then infer_loop fuel code m wl' else None   (* join: depths must agree *)
        | Some None =>
            match nth_error code pc with
            | None => None
            | Some i => match succs pc i d with
                        | None => None
                        | Some l => infer_loop fuel code (set_at pc (Some d) m) (l ++ wl')
                        end
            end
        end
    end
  end.

Definition infer (code : list insn) : option (list (option nat)) :=
  infer_loop (3 * length code + 2) code (repeat None (length code)) [(0, 0)].

Definition iter_depth_ok (code : list insn) : bool :=
  match infer code with Some _ => true | None => false end.

(* None: the pc is not reachable from the entry (or the code is rejected) *)
Definition depth_at (code : list insn) (pc : nat) : option nat :=
  match infer code with
  | Some m => match nth_error m pc with Some (Some d) => Some d | _ => None end
  | None => None
  end.

(* used by checks/c06.py on the real compiler's bytecode only (no theorem): some RETURN is
   reached with an empty iterator stack.  The dataflow alone accepts a function whose
   last loop lost its ITERPOP (every later pc is consistently one deeper, and RETURN is
   legal at any depth); together with this test such code is rejected whenever the
   function can return outside its loops. *)
Definition return_at_zero (code : list insn) : bool :=
  match infer code with
  | Some m => existsb (fun x => match x with (RETURN, Some O) => true | _ => false end) (combine code m)
  | None => false
  end.

(* ---------------------------------------------------------------- total annotations *)
Definition ann_at (code : list insn) (ann : list nat) (pc : nat) : bool :=
  match nth_error code pc, nth_error ann pc with
  | Some i, Some d =>
      match succs pc i d with
      | Some l => forallb (fun sd => match nth_error ann (fst sd) with
                                     | Some d' => Nat.eqb d' (snd sd) | None => false end) l
      | None => false
      end
  | _, _ => false
  end.

Definition ann_ok (code : list insn) (ann : list nat) : bool :=
  match ann with d0 :: _ => Nat.eqb d0 0 | [] => false end
  && Nat.eqb (length ann) (length code)
  && forallb (ann_at code ann) (seq 0 (length code)).

(* effect of an instruction on the depth *)
Definition delta (x : insn) : Z :=
  match x with ITERPUSH _ => 1%Z | ITERPOP => (-1)%Z | _ => 0%Z end.
Definition zsum (l : list Z) : Z := fold_right Z.add 0%Z l.
Definition net (c : list insn) : Z := zsum (map delta c).

Definition static_ann (code : list insn) : list nat :=
  map (fun i => Z.to_nat (net (firstn i code))) (seq 0 (length code)).

(* ---------------------------------------------------------------- the source view *)
Section Spans.
  Variable p : program.
  Variable locals : list string.

  (* (first pc, pc after the last instruction, for-nesting depth, is it a for statement?)
     of s compiled at offset o inside d enclosing for loops, and of every statement nested in it *)
  Definition is_for (s : stmt) : bool := match s with SFor _ _ _ _ => true | _ => false end.

  Fixpoint spans_stmt (d o : nat) (s : stmt) {struct s} : list (nat * nat * nat * bool) :=
    let blk := fix blk (d o : nat) (l : list stmt) {struct l} : list (nat * nat * nat * bool) :=
                 match l with
                 | [] => []
                 | s :: r => spans_stmt d o s ++ blk d (o + length (gen_stmt p locals s)) r
                 end in
    (o, o + length (gen_stmt p locals s), d, is_for s) ::
    match s with
    | SIf c tb fb =>
        let ct := gen_block p locals tb in
        let cc := gen_cond p locals c 0 (length ct + 1) in
        blk d (o + length cc) tb ++ blk d (o + length cc + length ct + 1) fb
    | SWhile c body =>
        let cb := gen_block p locals body in
        blk d (o + length (gen_cond p locals c 0 (length cb + 1))) body
    | SFor t e body ps =>
        blk (S d) (o + length (gen_expr p locals e) + 2 + length (gen_assign p locals t ps)) body
    | _ => []
    end.

  Fixpoint spans_block (d o : nat) (l : list stmt) : list (nat * nat * nat * bool) :=
    match l with
    | [] => []
    | s :: r => spans_stmt d o s ++ spans_block d (o + length (gen_stmt p locals s)) r
    end.
End Spans.

(* ---------------------------------------------------------------- the machine view *)
(* a frame of C01's VM: the dataflow accepts its code and the iterator stack has
   the depth inferred for its pc *)
Definition frame_depth_ok (fr : frame) : Prop :=
  depth_at (fr_code fr) (fr_pc fr) = Some (length (fr_iters fr)).

(* every function of a compiled program passes the dataflow *)
Definition codes_ok (cp : cprog) : Prop :=
  iter_depth_ok (fc_code (cp_top cp)) = true /\
  forall fid fc, find_code (cp_funs cp) fid = Some fc -> iter_depth_ok (fc_code fc) = true.

(* states reachable by the machine *)
Inductive reach (cp : cprog) (fname : nat -> string) : vstate -> vstate -> Prop :=
| reach_refl : forall s, reach cp fname s s
| reach_step : forall s s1 s2, reach cp fname s s1 -> step cp fname s1 = Next s2 -> reach cp fname s s2.
