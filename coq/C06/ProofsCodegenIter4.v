(* C06 -- the iterator stack of compiled code: proofs, part 4: the iterator stack
   is a stack.  A step of the machine changes the list of locks held by an
   activation only by pushing one (ITERPUSH) or popping the top one (ITERPOP);
   hence, as long as the activation keeps at least d iterators, its d oldest
   locks are the same -- and between two moments at which it has exactly d
   (e.g. the first instruction of a for statement and the instruction after the
   statement, by the static depth theorem) the whole list is the same: exactly
   the iterators pushed in between have been popped (Done called). *)
From Coq Require Import ZArith String List Bool Lia.
From SV Require Import C01.Syntax C01.Values C01.Ref C01.VM C01.Compile
                       C06.CodegenIter C06.ProofsCodegenIter C06.ProofsCodegenIter2 C06.ProofsCodegenIter3.
Import ListNotations.
Open Scope nat_scope.

Definition locks (f : frame) : list (option nat) := map it_lock (fr_iters f).

Inductive lrel : list (option nat) -> list (option nat) -> Prop :=
| lrel_same : forall l, lrel l l
| lrel_push : forall lk l, lrel l (lk :: l)
| lrel_pop : forall lk l, lrel (lk :: l) l.

Section Locks.
  Variable cp : cprog.
  Variable fname : nat -> string.

  Lemma exec_locks : forall i f rest g w s',
    exec_insn cp fname i f rest g w = Next s' ->
    (exists f', vs_frames s' = f' :: rest /\ lrel (locks f) (locks f')) \/
    (exists callee f', vs_frames s' = callee :: f' :: rest /\ locks f' = locks f) \/
    (exists c rest' c', rest = c :: rest' /\ vs_frames s' = c' :: rest' /\ locks c' = locks c).
  Proof.
    intros i f rest g w s' H. unfold exec_insn, of_pres, fail in H.
    destruct i;
      first
        [ solve [ brk H ]
        | solve [ brk H; inversion H; subst; clear H;
                  left; eexists; (split; [reflexivity|]); unfold locks; cbn;
                  repeat match goal with E : fr_iters f = _ |- _ => rewrite E end; cbn;
                  first [apply lrel_same | apply lrel_push | apply lrel_pop] ]
        | solve [ brk H; inversion H; subst; clear H;
                  right; right; do 3 eexists; (split; [reflexivity|]); split; reflexivity ]
        | solve [ unfold call_value, of_pres, fail in H;
                  brk H; inversion H; subst; clear H;
                  first [ solve [left; eexists; (split; [reflexivity|]); unfold locks; cbn; apply lrel_same]
                        | right; left; do 2 eexists; split; reflexivity ] ] ].
  Qed.
End Locks.

(* the frame at height h of the call stack (0 = the outermost) *)
Definition act (h : nat) (s : vstate) : option frame := nth_error (rev (vs_frames s)) h.

Lemma act_cons_lt : forall f rest h g w, h < length rest ->
  act h {| vs_frames := f :: rest; vs_g := g; vs_w := w |} = nth_error (rev rest) h.
Proof. intros. unfold act. cbn [vs_frames rev]. apply nth_error_app1. rewrite rev_length. auto. Qed.

Lemma nth_rev_top : forall (f : frame) rest h, nth_error (rev (f :: rest)) h =
  if Nat.ltb h (length rest) then nth_error (rev rest) h
  else if Nat.eqb h (length rest) then Some f else None.
Proof.
  intros. cbn [rev]. destruct (Nat.ltb h (length rest)) eqn:E.
  - apply Nat.ltb_lt in E. apply nth_error_app1. rewrite rev_length; auto.
  - apply Nat.ltb_ge in E. rewrite nth_error_app2 by (rewrite rev_length; auto). rewrite rev_length.
    destruct (Nat.eqb h (length rest)) eqn:E2.
    + apply Nat.eqb_eq in E2. subst. rewrite Nat.sub_diag. reflexivity.
    + apply Nat.eqb_neq in E2. destruct (h - length rest) as [|k] eqn:E3; [lia|]. cbn. destruct k; reflexivity.
Qed.

Lemma step_locks : forall cp fname s s' h f f',
  step cp fname s = Next s' -> act h s = Some f -> act h s' = Some f' -> lrel (locks f) (locks f').
Proof.
  intros cp fname s s' h f f' H A A'. unfold step in H.
  destruct (vs_frames s) as [|t rest] eqn:Ef; [discriminate|].
  destruct (nth_error (fr_code t) (fr_pc t)) as [i|]; [|discriminate].
  unfold act in *. rewrite Ef in A. rewrite nth_rev_top in A.
  destruct (exec_locks cp fname _ _ _ _ _ _ H) as [(t' & E1 & R)|[(callee & t' & E1 & R)|(c & rest' & c' & E0 & E1 & R)]];
    rewrite E1 in A'.
  - rewrite nth_rev_top in A'.
    destruct (Nat.ltb h (length rest)); [rewrite A in A'; inversion A'; constructor|].
    destruct (Nat.eqb h (length rest)); [|discriminate]. inversion A; inversion A'; subst; auto.
  - rewrite nth_rev_top in A'. cbn [length] in A'. rewrite nth_rev_top in A'.
    destruct (Nat.ltb h (length rest)) eqn:L1.
    + apply Nat.ltb_lt in L1. replace (Nat.ltb h (S (length rest))) with true in A' by (symmetry; apply Nat.ltb_lt; lia).
      rewrite A in A'. inversion A'; constructor.
    + destruct (Nat.eqb h (length rest)) eqn:L2; [|discriminate]. apply Nat.eqb_eq in L2. subst h.
      replace (Nat.ltb (length rest) (S (length rest))) with true in A' by (symmetry; apply Nat.ltb_lt; lia).
      cbn iota in A'. inversion A; inversion A'; subst. rewrite R. constructor.
  - subst rest. rewrite nth_rev_top in A'. cbn [length] in A. rewrite nth_rev_top in A.
    destruct (Nat.ltb h (length rest')) eqn:L1.
    + apply Nat.ltb_lt in L1. replace (Nat.ltb h (S (length rest'))) with true in A by (symmetry; apply Nat.ltb_lt; lia).
      rewrite A in A'. inversion A'; constructor.
    + destruct (Nat.eqb h (length rest')) eqn:L2; [|discriminate]. apply Nat.eqb_eq in L2. subst h.
      replace (Nat.ltb (length rest') (S (length rest'))) with true in A by (symmetry; apply Nat.ltb_lt; lia).
      cbn iota in A. inversion A; inversion A'; subst. rewrite R. constructor.
Qed.

(* the d oldest entries *)
Definition oldest {A} (d : nat) (l : list A) : list A := skipn (length l - d) l.

Lemma lrel_oldest : forall d l l', lrel l l' -> d <= length l -> d <= length l' -> oldest d l = oldest d l'.
Proof.
  intros d l l' R L L'. unfold oldest. inversion R; subst; auto; cbn [length] in *.
  - replace (S (length l) - d) with (S (length l - d)) by lia. reflexivity.
  - replace (S (length l') - d) with (S (length l' - d)) by lia. reflexivity.
Qed.

(* a run of the machine during which the activation at height h stays alive with at least d iterators *)
Inductive run_keeps (cp : cprog) (fname : nat -> string) (h d : nat) : vstate -> vstate -> Prop :=
| rk_refl : forall s f, act h s = Some f -> d <= length (fr_iters f) -> run_keeps cp fname h d s s
| rk_step : forall s s1 s2 f, run_keeps cp fname h d s s1 -> step cp fname s1 = Next s2 ->
                              act h s2 = Some f -> d <= length (fr_iters f) -> run_keeps cp fname h d s s2.

Lemma run_keeps_oldest_lemma : forall cp fname h d s s', run_keeps cp fname h d s s' ->
  forall f f', act h s = Some f -> act h s' = Some f' ->
    d <= length (fr_iters f') /\ oldest d (locks f) = oldest d (locks f').
Proof.
  induction 1 as [s f0 A0 L0|s s1 s2 f2 R IH St A2 L2]; intros f f' A A'.
  - rewrite A in A'. inversion A'; subst. rewrite A in A0. inversion A0; subst. auto.
  - rewrite A2 in A'. inversion A'; subst f'. split; auto.
    assert (E1 : exists f1, act h s1 = Some f1).
    { inversion R; subst; eauto. }
    destruct E1 as [f1 A1]. destruct (IH _ _ A A1) as [L1 O1]. rewrite O1.
    apply lrel_oldest; [eapply step_locks; eauto | |]; unfold locks; rewrite map_length; auto.
Qed.

Lemma oldest_all : forall {A} (l : list A), oldest (length l) l = l.
Proof. intros. unfold oldest. rewrite Nat.sub_diag. reflexivity. Qed.

(* compiled code: from the first instruction of a statement to the instruction after it *)
Lemma compiled_stack_restored_lemma : forall p fname n h s s' f f' locals body a b d k,
  reach (compile_prog p) fname (init_state (compile_prog p) n) s ->
  run_keeps (compile_prog p) fname h d s s' ->
  act h s = Some f -> act h s' = Some f' ->
  fr_code f = gen_body p locals body -> fr_code f' = gen_body p locals body ->
  List.In (a, b, d, k) (spans_block p locals 0 0 body) ->
  fr_pc f = a -> fr_pc f' = b ->
  locks f' = locks f.
Proof.
  intros p fname n h s s' f f' locals body a b d k RS RK A A' C C' Sp Pa Pb.
  assert (RS' : reach (compile_prog p) fname (init_state (compile_prog p) n) s').
  { clear - RS RK. induction RK as [|s s1 s2 f2 RK IH St A2 L2]; auto. eapply reach_step; [apply IH; auto | exact St]. }
  assert (In1 : List.In f (vs_frames s)) by (apply in_rev; eapply nth_error_In; exact A).
  assert (In2 : List.In f' (vs_frames s')) by (apply in_rev; eapply nth_error_In; exact A').
  pose proof (compiled_span_depth_lemma p fname n s f locals body a b d k RS In1 C Sp (or_introl Pa)) as D1.
  pose proof (compiled_span_depth_lemma p fname n s' f' locals body a b d k RS' In2 C' Sp (or_intror Pb)) as D2.
  destruct (run_keeps_oldest_lemma _ _ _ _ _ _ RK _ _ A A') as [_ O].
  assert (L1 : length (locks f) = d) by (unfold locks; rewrite map_length; auto).
  assert (L2 : length (locks f') = d) by (unfold locks; rewrite map_length; auto).
  rewrite <- L1 in O at 1. rewrite oldest_all in O. rewrite <- L2 in O. rewrite oldest_all in O. auto.
Qed.

(* ITERPOP is the call of Done: it removes the newest iterator and releases its lock *)
Lemma iterpop_releases_lemma : forall cp fname f rest g w s',
  exec_insn cp fname ITERPOP f rest g w = Next s' ->
  exists it its f', fr_iters f = it :: its /\ vs_frames s' = f' :: rest /\ fr_iters f' = its /\
                    vs_w s' = release (it_lock it) w.
Proof.
  intros cp fname f rest g w s' H. unfold exec_insn in H.
  destruct (fr_iters f) as [|it its] eqn:E; [discriminate|]. inversion H; subst; clear H.
  exists it, its. eexists. repeat split.
Qed.

(* executable witness of run_keeps, for examples *)
Definition keeps_here (h d : nat) (s : vstate) : bool :=
  match act h s with Some f => Nat.leb d (length (fr_iters f)) | None => false end.
Fixpoint keeps_n (cp : cprog) (fname : nat -> string) (h d k : nat) (s : vstate) : option vstate :=
  match k with
  | O => if keeps_here h d s then Some s else None
  | S k => match keeps_n cp fname h d k s with
           | Some s1 => match step cp fname s1 with
                        | Next s2 => if keeps_here h d s2 then Some s2 else None
                        | Stop _ => None end
           | None => None end
  end.
Lemma keeps_n_sound : forall cp fname h d k s s', keeps_n cp fname h d k s = Some s' -> run_keeps cp fname h d s s'.
Proof.
  induction k as [|k IH]; intros s s' H; cbn [keeps_n] in H.
  - unfold keeps_here in H. destruct (act h s) as [f|] eqn:A; [|discriminate].
    destruct (Nat.leb d (length (fr_iters f))) eqn:L; [|discriminate]. inversion H; subst.
    eapply rk_refl; eauto. apply Nat.leb_le; auto.
  - destruct (keeps_n cp fname h d k s) as [s1|] eqn:E1; [|discriminate].
    destruct (step cp fname s1) as [s2|] eqn:E2; [|discriminate].
    unfold keeps_here in H. destruct (act h s2) as [f|] eqn:A; [|discriminate].
    destruct (Nat.leb d (length (fr_iters f))) eqn:L; [|discriminate]. inversion H; subst.
    eapply rk_step; eauto. apply Nat.leb_le; auto.
Qed.
