(* C06 -- the iterator stack of compiled code: proofs, part 2.
   (a) the static annotation of a finalized function body passes `ann_ok`;
   (b) the dataflow `infer` succeeds on every consistently annotated code and
       agrees with the annotation;
   (c) the source spans;  (d) the machine of C01/VM.v keeps the annotated depth. *)
From Coq Require Import ZArith String List Bool Lia.
From SV Require Import C01.Syntax C01.Values C01.Ref C01.VM C01.Compile C06.CodegenIter C06.ProofsCodegenIter.
Import ListNotations.
Open Scope nat_scope.

(* ---------------------------------------------------------------- finalize *)
Lemma final_delta : forall i x, delta (final_insn i x) = delta x.
Proof. destruct x; reflexivity. Qed.

Lemma finalize_from_deq : forall c i, deq (finalize_from i c) c.
Proof.
  unfold deq. induction c as [|x r IH]; intros; cbn [finalize_from map]; [reflexivity|].
  rewrite IH, final_delta. reflexivity.
Qed.
Lemma finalize_deq : forall c, deq (finalize c) c.
Proof. intros. apply finalize_from_deq. Qed.

Lemma finalize_from_nth : forall c i j x,
  nth_error c j = Some x -> nth_error (finalize_from i c) j = Some (final_insn (i + j) x).
Proof.
  induction c as [|y r IH]; intros i j x H; [destruct j; discriminate|].
  destruct j; cbn [nth_error finalize_from] in *.
  - inversion H; subst. rewrite Nat.add_0_r. reflexivity.
  - rewrite (IH (S i) j x H). f_equal. f_equal. lia.
Qed.

Lemma static_ann_nth : forall c j, j < length c ->
  nth_error (static_ann c) j = Some (Z.to_nat (net (firstn j c))).
Proof.
  intros c j H. unfold static_ann.
  apply (map_nth_error (fun i => Z.to_nat (net (firstn i c)))).
  rewrite (nth_error_nth' _ 0) by (rewrite seq_length; auto).
  rewrite seq_nth by auto. reflexivity.
Qed.
Lemma static_ann_length : forall c, length (static_ann c) = length c.
Proof. intros. unfold static_ann. rewrite map_length, seq_length. reflexivity. Qed.

(* ---------------------------------------------------------------- the annotation at one pc *)
Section AtPc.
  Variables (C : list insn) (ann : list nat).
  Hypothesis A : forall j, j < length C -> nth_error ann j = Some (Z.to_nat (net (firstn j C))).
  Hypothesis PN : pnn 0 C.
  Variables (pre : list insn) (x : insn) (post : list insn).
  Hypothesis EC : C = pre ++ x :: post.

  Lemma LC : length C = length pre + S (length post).
  Proof. rewrite EC, app_length. reflexivity. Qed.

  Lemma firstn_pre : firstn (length pre) C = pre.
  Proof. rewrite EC, firstn_app, Nat.sub_diag, firstn_all. cbn [firstn]. apply app_nil_r. Qed.

  Lemma net_pre_nonneg : (0 <= net pre)%Z.
  Proof. pose proof (PN (length pre)) as H. rewrite firstn_pre in H. lia. Qed.

  Lemma A_here : nth_error ann (length pre) = Some (Z.to_nat (net pre)).
  Proof. rewrite A by (rewrite LC; lia). rewrite firstn_pre. reflexivity. Qed.

  Lemma A_fwd : forall k, k < length post -> net (firstn k post) = 0%Z ->
    nth_error ann (length pre + 1 + k) = Some (Z.to_nat (net pre + delta x)).
  Proof.
    intros k L N. rewrite A by (rewrite LC; lia). f_equal. f_equal.
    rewrite EC. replace (length pre + 1 + k) with (length pre + S k) by lia.
    rewrite firstn_app_2. cbn [firstn]. rewrite net_app, net_cons. lia.
  Qed.

  Lemma A_fall : post <> [] -> nth_error ann (S (length pre)) = Some (Z.to_nat (net pre + delta x)).
  Proof.
    intros NE. replace (S (length pre)) with (length pre + 1 + 0) by lia.
    apply A_fwd; [destruct post; [congruence | cbn [length]; lia] | reflexivity].
  Qed.

  Lemma A_bwd : forall k, 1 <= k <= S (length pre) -> net (skipn (S (length pre) - k) pre) = 0%Z ->
    nth_error ann (length pre + 1 - k) = Some (Z.to_nat (net pre)).
  Proof.
    intros k L N. rewrite A by (rewrite LC; lia). f_equal. f_equal.
    replace (length pre + 1 - k) with (S (length pre) - k) by lia.
    set (j := S (length pre) - k) in *.
    rewrite EC, firstn_app. replace (j - length pre) with 0 by lia. cbn [firstn]. rewrite app_nil_r.
    rewrite <- (firstn_skipn j pre) at 2. rewrite net_app. lia.
  Qed.
End AtPc.

Lemma ann_at_body : forall blk pc, frag blk -> pc < length blk + 2 ->
  let C := blk ++ [NONE; RETURN] in
  ann_at (finalize C) (static_ann (finalize C)) pc = true.
Proof.
  intros blk pc Fb Hpc C.
  assert (LCn : length C = length blk + 2) by (unfold C; rewrite app_length; reflexivity).
  assert (LF : length (finalize C) = length C) by (apply deq_len, finalize_deq).
  assert (FC : frag C).
  { unfold C. apply frag_app; auto. apply cfrag_cons; [reflexivity|]. apply cfrag_plain1. reflexivity. }
  destruct FC as [_ [PN _]].
  assert (A : forall j, j < length C -> nth_error (static_ann (finalize C)) j = Some (Z.to_nat (net (firstn j C)))).
  { intros j Hj. rewrite static_ann_nth by lia. f_equal. f_equal. apply deq_net, deq_firstn, finalize_deq. }
  destruct (nth_error C pc) as [x|] eqn:Ex; [|apply nth_error_None in Ex; lia].
  destruct (nth_error_split _ _ Ex) as (pre & post & EC & Lpre).
  (* where x lies *)
  assert (W : exists post1 tail, post = post1 ++ tail /\ okat 0 pre x post1 /\ (x = RETURN \/ tail <> [])).
  { unfold C in EC. destruct (app_decomp _ _ _ _ _ EC) as [[p1 [E1 E2]]|[p2 [E1 E2]]].
    - exists p1, [NONE; RETURN]. split; auto. split; [|right; discriminate].
      destruct Fb as [_ [_ O]]. specialize (O _ _ _ E1). cbn [app] in O. rewrite app_nil_r in O. auto.
    - destruct p2 as [|a [|b p2]]; cbn [app] in E2.
      + inversion E2; subst. exists [], [RETURN]. repeat split; auto. right; discriminate.
      + inversion E2; subst. exists [], []. repeat split; auto.
      + inversion E2. destruct p2; discriminate. }
  destruct W as (post1 & tail & EP & OK & TL).
  pose proof (A_here C _ A pre x post EC) as AH.
  pose proof (net_pre_nonneg C PN pre x post EC) as NP.
  pose proof (fun k => A_fwd C _ A pre x post EC k) as AF.
  pose proof (A_fall C _ A pre x post EC) as AS.
  pose proof (fun k => A_bwd C _ A pre x post EC k) as AB.
  rewrite Lpre in *.
  unfold ann_at. unfold finalize at 1. rewrite (finalize_from_nth _ 0 pc x Ex). cbn [Nat.add].
  rewrite AH.
  assert (NE : x <> RETURN -> post <> []).
  { intros NR. destruct TL as [TL|TL]; [congruence|]. subst post. destruct post1; [auto | discriminate]. }
  assert (FW : forall k, fwd_ok k post1 -> x <> RETURN -> k < length post /\ net (firstn k post) = 0%Z).
  { intros k [L N] NR. destruct TL as [TL|TL]; [congruence|]. subst post. split.
    - rewrite app_length. destruct tail; [congruence | cbn [length]; lia].
    - rewrite firstn_app. replace (k - length post1) with 0 by lia. cbn [firstn]. rewrite app_nil_r. auto. }
  destruct x; cbn [final_insn succs okat delta forallb fst snd] in *;
    try contradiction;
    try reflexivity;
    try (rewrite AS by (apply NE; discriminate);
         rewrite Z.add_0_r, Nat.eqb_refl; reflexivity).
  - (* ITERPUSH *) rewrite AS by (apply NE; discriminate).
    replace (Z.to_nat (net pre + 1)) with (S (Z.to_nat (net pre))) by lia. rewrite Nat.eqb_refl. reflexivity.
  - (* ITERPOP *) destruct (Z.to_nat (net pre)) as [|d'] eqn:ED; [lia|].
    cbn [forallb fst snd]. rewrite AS by (apply NE; discriminate).
    replace (Z.to_nat (net pre + -1)) with d' by lia. rewrite Nat.eqb_refl. reflexivity.
  - (* RJMP *) destruct (FW _ OK) as [L N]; [discriminate|].
    cbn [forallb fst snd]. replace (pc + 1 + k) with (pc + 1 + k) by lia. rewrite (AF k L N).
    rewrite Z.add_0_r, Nat.eqb_refl. reflexivity.
  - (* RCJMP *) destruct (FW _ OK) as [L N]; [discriminate|].
    cbn [forallb fst snd]. rewrite (AF k L N). rewrite AS by (apply NE; discriminate).
    rewrite Z.add_0_r, Nat.eqb_refl. reflexivity.
  - (* RITERJMP *) destruct OK as [OK D1]. destruct (FW _ OK) as [L N]; [discriminate|].
    destruct (Z.to_nat (net pre)) as [|d'] eqn:ED; [lia|].
    cbn [forallb fst snd]. rewrite (AF k L N). rewrite AS by (apply NE; discriminate).
    rewrite Z.add_0_r, ED, Nat.eqb_refl. reflexivity.
  - (* RJMPB *) destruct OK as [L N]. rewrite Lpre in L, N. cbn [forallb fst snd]. rewrite (AB k L N). rewrite Nat.eqb_refl. reflexivity.
Qed.

Lemma body_ann_ok : forall p ls ss,
  ann_ok (gen_body p ls ss) (static_ann (gen_body p ls ss)) = true.
Proof.
  intros. unfold gen_body. set (blk := gen_block p ls ss).
  pose proof (block_frag p ls ss) as Fb. fold blk in Fb.
  set (C := blk ++ [NONE; RETURN]).
  assert (LCn : length C = length blk + 2) by (unfold C; rewrite app_length; reflexivity).
  assert (LF : length (finalize C) = length C) by (apply deq_len, finalize_deq).
  unfold ann_ok. rewrite !andb_true_iff. repeat split.
  - pose proof (static_ann_nth (finalize C) 0) as H0. cbn [firstn] in H0.
    destruct (static_ann (finalize C)) as [|d0 r]; [specialize (H0 ltac:(lia)); discriminate|].
    specialize (H0 ltac:(lia)). cbn [nth_error] in H0. inversion H0. reflexivity.
  - rewrite static_ann_length. apply Nat.eqb_refl.
  - apply forallb_forall. intros pc Hin. apply in_seq in Hin.
    apply ann_at_body; auto. lia.
Qed.

(* ---------------------------------------------------------------- the dataflow *)
Lemma set_at_length : forall {A} (l : list A) n v, length (set_at n v l) = length l.
Proof. induction l; intros; destruct n; cbn [set_at length]; auto. Qed.
Lemma set_at_eq : forall {A} (l : list A) n v, n < length l -> nth_error (set_at n v l) n = Some v.
Proof. induction l; intros; destruct n; cbn [set_at length nth_error] in *; try lia; auto. apply IHl. lia. Qed.
Lemma set_at_ne : forall {A} (l : list A) n q v, q <> n -> nth_error (set_at n v l) q = nth_error l q.
Proof. induction l; intros; destruct n, q; cbn [set_at nth_error]; auto; try congruence. Qed.

Definition is_none (o : option nat) : bool := match o with None => true | Some _ => false end.
Definition unmarked (m : list (option nat)) : nat := length (filter is_none m).

Lemma unmarked_set : forall m pc d, nth_error m pc = Some None -> S (unmarked (set_at pc (Some d) m)) = unmarked m.
Proof.
  unfold unmarked. induction m as [|o r IH]; intros pc d H; destruct pc; cbn [nth_error] in H; try discriminate.
  - inversion H; subst. reflexivity.
  - cbn [set_at filter]. destruct (is_none o); cbn [length]; rewrite <- (IH pc d H); reflexivity.
Qed.
Lemma unmarked_le : forall m, unmarked m <= length m.
Proof. unfold unmarked. induction m as [|o r IH]; cbn [filter length]; [lia|]. destruct (is_none o); cbn [length]; lia. Qed.

Lemma succs_len : forall pc i d l, succs pc i d = Some l -> length l <= 2.
Proof. intros pc i d l H. destruct i; cbn [succs] in H; try destruct d; inversion H; cbn [length]; lia. Qed.

Lemma ann_ok_inv : forall code ann, ann_ok code ann = true ->
  length ann = length code /\ nth_error ann 0 = Some 0 /\
  forall pc d, nth_error ann pc = Some d ->
    exists i l, nth_error code pc = Some i /\ succs pc i d = Some l /\
                forall s d', List.In (s, d') l -> nth_error ann s = Some d'.
Proof.
  unfold ann_ok. intros code ann H. rewrite !andb_true_iff in H. destruct H as [[H0 HL] HA].
  apply Nat.eqb_eq in HL. split; auto. split.
  - destruct ann; [discriminate|]. apply Nat.eqb_eq in H0. subst. reflexivity.
  - intros pc d Hd. assert (pc < length code) by (rewrite <- HL; apply nth_error_Some; congruence).
    rewrite forallb_forall in HA. specialize (HA pc ltac:(apply in_seq; lia)).
    unfold ann_at in HA. rewrite Hd in HA.
    destruct (nth_error code pc) as [i|] eqn:Ei; [|discriminate].
    destruct (succs pc i d) as [l|] eqn:El; [|discriminate].
    exists i, l. split; [reflexivity|]. split; [exact El|]. intros s d' Hin. rewrite forallb_forall in HA. specialize (HA _ Hin).
    cbn [fst snd] in HA. destruct (nth_error ann s); [|discriminate]. apply Nat.eqb_eq in HA. subst; auto.
Qed.

Lemma infer_loop_complete : forall code ann, ann_ok code ann = true ->
  forall fuel m wl,
    length m = length code ->
    (forall pc d, nth_error m pc = Some (Some d) -> nth_error ann pc = Some d) ->
    (forall pc d, List.In (pc, d) wl -> nth_error ann pc = Some d) ->
    3 * unmarked m + length wl < fuel ->
    exists m', infer_loop fuel code m wl = Some m' /\
               forall pc d, nth_error m' pc = Some (Some d) -> nth_error ann pc = Some d.
Proof.
  intros code ann OK. destruct (ann_ok_inv _ _ OK) as [HL [_ HA]].
  induction fuel as [|fuel IH]; intros m wl Lm I1 I2 Fu; [lia|].
  cbn [infer_loop]. destruct wl as [|[pc d] wl'].
  - exists m. auto.
  - pose proof (I2 pc d (or_introl eq_refl)) as Hd.
    assert (Hpc : pc < length m) by (rewrite Lm, <- HL; apply nth_error_Some; congruence).
    destruct (nth_error m pc) as [[d'|]|] eqn:Em; [| |apply nth_error_None in Em; lia].
    + rewrite (I1 _ _ Em) in Hd. inversion Hd; subst. rewrite Nat.eqb_refl.
      apply IH; auto.
      * intros; apply I2; right; auto.
      * cbn [length] in Fu. lia.
    + destruct (HA _ _ Hd) as (i & l & Ei & El & Hs). rewrite Ei, El.
      apply IH.
      * rewrite set_at_length; auto.
      * intros q e Hq. destruct (Nat.eq_dec q pc) as [->|NE].
        -- rewrite set_at_eq in Hq by auto. inversion Hq; subst; auto.
        -- rewrite set_at_ne in Hq by auto. auto.
      * intros q e Hin. apply in_app_or in Hin. destruct Hin as [Hin|Hin]; [apply Hs; auto | apply I2; right; auto].
      * pose proof (unmarked_set m pc d Em). pose proof (succs_len _ _ _ _ El).
        rewrite app_length. cbn [length] in Fu. lia.
Qed.

Lemma nth_repeat_none : forall n pc (d : nat), nth_error (repeat (@None nat) n) pc <> Some (Some d).
Proof. induction n; intros; destruct pc; cbn [repeat nth_error]; try congruence. apply IHn. Qed.

Lemma infer_complete : forall code ann, ann_ok code ann = true ->
  exists m, infer code = Some m /\ forall pc d, nth_error m pc = Some (Some d) -> nth_error ann pc = Some d.
Proof.
  intros code ann OK. destruct (ann_ok_inv _ _ OK) as [HL [H0 _]].
  unfold infer. apply (infer_loop_complete code ann OK).
  - apply repeat_length.
  - intros pc d H. exfalso. eapply nth_repeat_none; eauto.
  - intros pc d [H|[]]. inversion H; subst. auto.
  - pose proof (unmarked_le (repeat None (length code))). rewrite repeat_length in H. cbn [length]. lia.
Qed.

(* a partial annotation closed under the transfer function *)
Definition pann_ok (code : list insn) (m : list (option nat)) : Prop :=
  nth_error m 0 = Some (Some 0) /\
  forall pc d, nth_error m pc = Some (Some d) ->
    exists i l, nth_error code pc = Some i /\ succs pc i d = Some l /\
                forall s d', List.In (s, d') l -> nth_error m s = Some (Some d').

Lemma infer_loop_sound : forall code fuel m wl m',
  infer_loop fuel code m wl = Some m' ->
  (forall pc d, nth_error m pc = Some (Some d) ->
     exists i l, nth_error code pc = Some i /\ succs pc i d = Some l /\
                 forall s d', List.In (s, d') l -> nth_error m s = Some (Some d') \/ List.In (s, d') wl) ->
  (forall pc d, nth_error m' pc = Some (Some d) ->
     exists i l, nth_error code pc = Some i /\ succs pc i d = Some l /\
                 forall s d', List.In (s, d') l -> nth_error m' s = Some (Some d')) /\
  (forall q e, nth_error m q = Some (Some e) \/ List.In (q, e) wl -> nth_error m' q = Some (Some e)).
Proof.
  intros code. induction fuel as [|fuel IH]; intros m wl m' H K; cbn [infer_loop] in H; [discriminate|].
  destruct wl as [|[pc d] wl'].
  - inversion H; subst. split.
    + intros pc d Hm. destruct (K _ _ Hm) as (i & l & A & B & C). exists i, l. repeat split; auto.
      intros s d' Hin. destruct (C _ _ Hin) as [?|[]]; auto.
    + intros q e [?|[]]; auto.
  - destruct (nth_error m pc) as [[d'|]|] eqn:Em; [| |discriminate].
    + destruct (Nat.eqb d' d) eqn:Ed; [|discriminate]. apply Nat.eqb_eq in Ed. subst d'.
      destruct (IH _ _ _ H) as [R1 R2].
      * intros q e Hm. destruct (K _ _ Hm) as (i & l & A & B & C). exists i, l. repeat split; auto.
        intros s d' Hin. destruct (C _ _ Hin) as [?|[E|?]]; auto. inversion E; subst. auto.
      * split; auto. intros q e [Hq|[E|Hq]]; [apply R2; auto | inversion E; subst; apply R2; auto | apply R2; auto].
    + destruct (nth_error code pc) as [i|] eqn:Ei; [|discriminate].
      destruct (succs pc i d) as [l|] eqn:El; [|discriminate].
      assert (Hpc : pc < length m) by (apply nth_error_Some; congruence).
      destruct (IH _ _ _ H) as [R1 R2].
      * intros q e Hm. destruct (Nat.eq_dec q pc) as [->|NE].
        -- rewrite set_at_eq in Hm by auto. inversion Hm; subst. exists i, l. repeat split; auto.
           intros s d' Hin. right. apply in_or_app; auto.
        -- rewrite set_at_ne in Hm by auto. destruct (K _ _ Hm) as (i' & l' & A & B & C). exists i', l'. repeat split; auto.
           intros s d' Hin. destruct (C _ _ Hin) as [Hs|[E|Hs]].
           ++ left. destruct (Nat.eq_dec s pc) as [->|NE2]; [congruence|]. rewrite set_at_ne by auto. auto.
           ++ inversion E; subst. left. apply set_at_eq; auto.
           ++ right. apply in_or_app; auto.
      * split; auto. intros q e [Hq|[E|Hq]].
        -- apply R2. left. destruct (Nat.eq_dec q pc) as [->|NE]; [congruence|]. rewrite set_at_ne by auto. auto.
        -- inversion E; subst. apply R2. left. apply set_at_eq; auto.
        -- apply R2. right. apply in_or_app; auto.
Qed.

Lemma infer_sound : forall code m, infer code = Some m -> pann_ok code m.
Proof.
  intros code m H. unfold infer in H.
  destruct (infer_loop_sound _ _ _ _ _ H) as [R1 R2].
  - intros pc d Hm. exfalso. eapply nth_repeat_none; eauto.
  - split; auto. apply R2. right. left. reflexivity.
Qed.

(* ---------------------------------------------------------------- the source spans *)
Section SpanProofs.
  Variable p : program.
  Variable ls : list string.
  Notation dl c := (map delta c).

  Lemma spans_stmt_eq : forall s d o,
    spans_stmt p ls d o s =
    (o, o + length (gen_stmt p ls s), d, is_for s) ::
    match s with
    | SIf c tb fb =>
        let ct := gen_block p ls tb in
        let cc := gen_cond p ls c 0 (length ct + 1) in
        spans_block p ls d (o + length cc) tb ++ spans_block p ls d (o + length cc + length ct + 1) fb
    | SWhile c body =>
        let cb := gen_block p ls body in
        spans_block p ls d (o + length (gen_cond p ls c 0 (length cb + 1))) body
    | SFor t e body ps =>
        spans_block p ls (S d) (o + length (gen_expr p ls e) + 2 + length (gen_assign p ls t ps)) body
    | _ => []
    end.
  Proof. intros. destruct s; reflexivity. Qed.

  Definition span_ok (D : list Z) (lo hi : nat) (x : nat * nat * nat * bool) : Prop :=
    let '(a, b, d', _) := x in
    lo <= a /\ a <= b /\ b <= hi /\ zsum (firstn a D) = Z.of_nat d' /\ zsum (firstn b D) = Z.of_nat d'.

  Definition SPs (s : stmt) : Prop :=
    forall d o D Pd Qd, D = Pd ++ dl (gen_stmt p ls s) ++ Qd -> length Pd = o -> zsum Pd = Z.of_nat d ->
      forall x, List.In x (spans_stmt p ls d o s) -> span_ok D o (o + length (gen_stmt p ls s)) x.
  Definition SPb (ss : list stmt) : Prop :=
    forall d o D Pd Qd, D = Pd ++ dl (gen_block p ls ss) ++ Qd -> length Pd = o -> zsum Pd = Z.of_nat d ->
      forall x, List.In x (spans_block p ls d o ss) -> span_ok D o (o + length (gen_block p ls ss)) x.

  Lemma span_ok_weaken : forall D lo hi lo' hi' x, span_ok D lo hi x -> lo' <= lo -> hi <= hi' -> span_ok D lo' hi' x.
  Proof. intros D lo hi lo' hi' [[[a b] d'] k] H L1 L2. cbn [span_ok] in *. lia. Qed.

  Lemma firstn_exact : forall {A} (a b : list A) n, n = length a -> firstn n (a ++ b) = a.
  Proof. intros; subst. rewrite firstn_app, Nat.sub_diag, firstn_all. cbn [firstn]. apply app_nil_r. Qed.

  Lemma block_spans : forall ss, Forall SPs ss -> SPb ss.
  Proof.
    induction 1 as [|s r Hs Hr IH]; intros d o D Pd Qd ED LP ZP x Hin; [destruct Hin|].
    cbn [spans_block] in Hin. unfold gen_block in *. cbn [flat_map] in *.
    rewrite map_app in ED. apply in_app_or in Hin. destruct Hin as [Hin|Hin].
    - eapply span_ok_weaken; [eapply (Hs d o D Pd (dl (flat_map (gen_stmt p ls) r) ++ Qd)); eauto| |].
      + rewrite ED. rewrite <- !app_assoc. reflexivity.
      + lia.
      + rewrite app_length. lia.
    - eapply span_ok_weaken; [eapply (IH d (o + length (gen_stmt p ls s)) D (Pd ++ dl (gen_stmt p ls s)) Qd); eauto| |].
      + rewrite ED. rewrite <- !app_assoc. reflexivity.
      + rewrite app_length, map_length. lia.
      + rewrite zsum_app. pose proof (stmt_frag p ls s) as [N _]. unfold net in N. lia.
      + lia.
      + rewrite app_length. unfold gen_block. lia.
  Qed.

  Lemma head_span : forall c d o D Pd Qd k, D = Pd ++ dl c ++ Qd -> length Pd = o -> zsum Pd = Z.of_nat d ->
    net c = 0%Z -> span_ok D o (o + length c) (o, o + length c, d, k).
  Proof.
    intros c d o D Pd Qd k ED LP ZP N. cbn [span_ok]. repeat split; try lia.
    - rewrite ED, firstn_exact by auto. auto.
    - rewrite ED, app_assoc, firstn_exact by (rewrite app_length, map_length; lia).
      rewrite zsum_app. unfold net in N. lia.
  Qed.

  Lemma stmt_spans : forall s, SPs s.
  Proof.
    apply stmt_ind'.
    - (* SIf *) intros c tb fb Ht Hf d o D Pd Qd ED LP ZP x Hin.
      rewrite spans_stmt_eq in Hin. destruct Hin as [<-|Hin].
      { eapply head_span; eauto. apply stmt_frag. }
      cbv zeta in Hin. cbn [gen_stmt] in *. fold (gen_block p ls tb) in *. fold (gen_block p ls fb) in *.
      set (ct := gen_block p ls tb) in *. set (cf := gen_block p ls fb) in *.
      set (cc := gen_cond p ls c 0 (length ct + 1)) in *.
      assert (Ncc : net cc = 0%Z) by (destruct (condok_expr p ls c 0 (length ct + 1)) as [N _]; exact N).
      assert (Nct : net ct = 0%Z) by (destruct (block_frag p ls tb) as [N _]; exact N).
      rewrite !map_app in ED. cbn [map delta] in ED.
      apply in_app_or in Hin. destruct Hin as [Hin|Hin].
      + eapply span_ok_weaken;
          [eapply (block_spans tb Ht d (o + length cc) D (Pd ++ dl cc) ([0%Z] ++ dl cf ++ Qd)); eauto| |].
        * rewrite ED. rewrite <- !app_assoc. reflexivity.
        * rewrite app_length, map_length. lia.
        * rewrite zsum_app. unfold net in Ncc. lia.
        * lia.
        * fold ct. rewrite !app_length. lia.
      + eapply span_ok_weaken;
          [eapply (block_spans fb Hf d (o + length cc + length ct + 1) D (Pd ++ dl cc ++ dl ct ++ [0%Z]) Qd); eauto| |].
        * rewrite ED. rewrite <- !app_assoc. reflexivity.
        * rewrite !app_length, !map_length. cbn [length]. lia.
        * rewrite !zsum_app. unfold net in Ncc, Nct. cbn [zsum fold_right]. lia.
        * lia.
        * fold cf. rewrite !app_length. cbn [length]. lia.
    - (* SWhile *) intros c b Hb d o D Pd Qd ED LP ZP x Hin.
      rewrite spans_stmt_eq in Hin. destruct Hin as [<-|Hin].
      { eapply head_span; eauto. apply stmt_frag. }
      cbv zeta in Hin. cbn [gen_stmt] in *. fold (gen_block p ls b) in *.
      set (cb := gen_block p ls b) in *.
      set (cc := gen_cond p ls c 0 (length cb + 1)) in *.
      assert (Ncc : net cc = 0%Z) by (destruct (condok_expr p ls c 0 (length cb + 1)) as [N _]; exact N).
      rewrite !map_app in ED. rewrite (patchl_deq 1 (length cc) cb) in ED.
      eapply span_ok_weaken;
        [eapply (block_spans b Hb d (o + length cc) D (Pd ++ dl cc) (dl [RJMPB (length cc + length cb + 1)] ++ Qd)); eauto| |].
      + rewrite ED. rewrite <- !app_assoc. reflexivity.
      + rewrite app_length, map_length. lia.
      + rewrite zsum_app. unfold net in Ncc. lia.
      + lia.
      + fold cb. rewrite !app_length, patchl_length. lia.
    - (* SFor *) intros t e b ps Hb d o D Pd Qd ED LP ZP x Hin.
      rewrite spans_stmt_eq in Hin. destruct Hin as [<-|Hin].
      { eapply head_span; eauto. apply stmt_frag. }
      cbn [gen_stmt] in *. fold (gen_block p ls b) in *.
      set (cb := gen_block p ls b) in *. set (ce := gen_expr p ls e) in *. set (ca := gen_assign p ls t ps) in *.
      assert (Nce : net ce = 0%Z) by (apply cfrag_net, cfrag_expr).
      assert (Nca : net ca = 0%Z) by (apply cfrag_net, cfrag_assign).
      rewrite !map_app in ED. rewrite (patchl_deq 1 (length ca + 1) cb) in ED. cbn [map delta] in ED.
      eapply span_ok_weaken;
        [eapply (block_spans b Hb (S d) (o + length ce + 2 + length ca) D (Pd ++ dl ce ++ [1%Z; 0%Z] ++ dl ca)
                             ([0%Z; (-1)%Z] ++ Qd)); eauto| |].
      + rewrite ED. rewrite <- !app_assoc. reflexivity.
      + rewrite !app_length, !map_length. cbn [length]. lia.
      + rewrite !zsum_app. unfold net in Nce, Nca. cbn [zsum fold_right]. lia.
      + lia.
      + fold cb. rewrite !app_length, patchl_length. cbn [length]. lia.
    - (* the rest *) intros s Hs d o D Pd Qd ED LP ZP x Hin.
      rewrite spans_stmt_eq in Hin.
      destruct s; try contradiction; (destruct Hin as [<-|[]]; eapply head_span; eauto; apply stmt_frag).
  Qed.

  (* the spans of a function body, read in the static annotation of its code *)
  Lemma body_spans : forall ss a b d k, List.In (a, b, d, k) (spans_block p ls 0 0 ss) ->
    let code := gen_body p ls ss in
    a <= b /\ b < length code /\
    nth_error (static_ann code) a = Some d /\ nth_error (static_ann code) b = Some d.
  Proof.
    intros ss a b d k Hin code.
    assert (HB : SPb ss) by (apply block_spans, Forall_forall; intros; apply stmt_spans).
    set (blk := gen_block p ls ss).
    assert (ED : dl code = [] ++ dl blk ++ [0%Z; 0%Z]).
    { unfold code, gen_body. fold blk. rewrite (finalize_deq (blk ++ [NONE; RETURN])). rewrite map_app. reflexivity. }
    specialize (HB 0 0 (dl code) [] [0%Z; 0%Z] ED eq_refl eq_refl _ Hin). cbn [span_ok] in HB.
    destruct HB as (L1 & L2 & L3 & Z1 & Z2).
    assert (LC : length code = length blk + 2).
    { rewrite <- (map_length delta code), ED. cbn [app]. rewrite app_length, map_length. reflexivity. }
    fold blk in L3. split; [auto|]. split; [lia|].
    rewrite !static_ann_nth by lia. unfold net. rewrite <- !firstn_map. rewrite Z1, Z2, Nat2Z.id. auto.
  Qed.
End SpanProofs.

(* ---------------------------------------------------------------- the main statement about compiled bodies *)
Lemma depth_at_static : forall code, ann_ok code (static_ann code) = true ->
  iter_depth_ok code = true /\ depth_at code 0 = Some 0 /\
  forall pc d, depth_at code pc = Some d -> nth_error (static_ann code) pc = Some d.
Proof.
  intros code OK. destruct (infer_complete _ _ OK) as (m & Em & Ag).
  unfold iter_depth_ok, depth_at. rewrite Em. split; auto. split.
  - destruct (infer_sound _ _ Em) as [H0 _]. rewrite H0. reflexivity.
  - intros pc d H. destruct (nth_error m pc) as [[d'|]|] eqn:E; inversion H; subst. auto.
Qed.

Lemma codegen_pairs_iterpush_lemma : forall (p : program) (locals : list string) (body : list stmt),
  let code := gen_body p locals body in
  iter_depth_ok code = true /\
  depth_at code 0 = Some 0 /\
  ann_ok code (static_ann code) = true /\
  (forall pc d, depth_at code pc = Some d -> nth_error (static_ann code) pc = Some d) /\
  (forall a b d k, List.In (a, b, d, k) (spans_block p locals 0 0 body) ->
     a <= b /\ b < length code /\
     nth_error (static_ann code) a = Some d /\ nth_error (static_ann code) b = Some d /\
     (depth_at code a = Some d \/ depth_at code a = None) /\
     (depth_at code b = Some d \/ depth_at code b = None)).
Proof.
  intros p locals body code.
  pose proof (body_ann_ok p locals body) as OK. fold code in OK.
  destruct (depth_at_static code OK) as (I & D0 & Ag).
  split; auto. split; auto. split; auto. split; auto.
  intros a b d k H.
  pose proof (body_spans p locals body a b d k H) as (L1 & L2 & S1 & S2).
  change (gen_body p locals body) with code in L2, S1, S2.
  repeat split; auto.
  - destruct (depth_at code a) as [d'|] eqn:E; auto. left. rewrite (Ag _ _ E) in S1. auto.
  - destruct (depth_at code b) as [d'|] eqn:E; auto. left. rewrite (Ag _ _ E) in S2. auto.
Qed.
