(* C06 -- lemmas. *)
From Coq Require Import ZArith List Bool Lia PeanoNat.
From SV Require Import C06.Model.
Import ListNotations.
Open Scope Z_scope.

(* ---------- locked_rejects ---------- *)
Lemma locked_rejects_lemma h c m :
  0 < ic h c -> mutate h c m = (h, false).
Proof.
  unfold ic, mutate, check_mutable. intros H.
  assert (E : (0 <? itercount (h c)) = true) by (apply Z.ltb_lt; exact H).
  rewrite E, andb_false_r. reflexivity.
Qed.

Lemma frozen_rejects_lemma h c m : frozen (h c) = true -> mutate h c m = (h, false).
Proof. unfold mutate, check_mutable. intros ->. reflexivity. Qed.

(* every mutator, accepted or not, leaves frozen and itercount of every collection alone *)
Lemma mutate_locks h c m h' ok x :
  mutate h c m = (h', ok) -> frozen (h' x) = frozen (h x) /\ itercount (h' x) = itercount (h x).
Proof.
  unfold mutate. destruct (check_mutable h c); [destruct (apply_mut m (content (h c)))|];
    intros E; injection E as <- <-; auto.
  unfold upd. destruct (Nat.eqb x c) eqn:X; auto. apply Nat.eqb_eq in X. subst. auto.
Qed.

(* ---------- counting live iterators ---------- *)
Fixpoint cnt (c : cid) (its : list (option cid)) : Z :=
  match its with
  | [] => 0
  | Some x :: r => (if Nat.eqb x c then 1 else 0) + cnt c r
  | None :: r => cnt c r
  end.

(* what itercount would be with the listed iterators released *)
Definition net (h : heap) (its : list (option cid)) (c : cid) : Z :=
  if frozen (h c) then ic h c else (ic h c - cnt c its) mod M32.

Definition wf_heap (h : heap) : Prop := forall c, 0 <= ic h c < M32.

Definition same_locks (h h' : heap) (its its' : list (option cid)) : Prop :=
  forall x, frozen (h' x) = frozen (h x) /\ net h' its' x = net h its x.

Lemma M32_pos : 0 < M32. Proof. reflexivity. Qed.

Lemma wf_mk_heap cs : wf_heap (mk_heap cs).
Proof.
  intros c. unfold ic, mk_heap. destruct (nth_error cs c) as [[fz l]|]; cbn; unfold M32; lia.
Qed.

Lemma same_locks_refl h its : same_locks h h its its.
Proof. intros x. auto. Qed.

Lemma same_locks_trans h1 h2 h3 i1 i2 i3 :
  same_locks h1 h2 i1 i2 -> same_locks h2 h3 i2 i3 -> same_locks h1 h3 i1 i3.
Proof. intros A B x. destruct (A x), (B x). split; congruence. Qed.

Lemma iterate_locks h c its : same_locks h (iterate h c) its (Some c :: its).
Proof.
  intros x. unfold iterate, net, ic. destruct (frozen (h c)) eqn:F.
  - split; auto. destruct (frozen (h x)) eqn:Fx; auto. cbn [cnt].
    destruct (Nat.eqb c x) eqn:E; [apply Nat.eqb_eq in E; subst; congruence|]. f_equal; lia.
  - unfold upd. destruct (Nat.eqb x c) eqn:E.
    + apply Nat.eqb_eq in E. subst x. cbn. rewrite F. split; auto. rewrite Nat.eqb_refl.
      rewrite Zminus_mod_idemp_l. f_equal; lia.
    + split; auto. destruct (frozen (h x)); auto. cbn [cnt].
      rewrite Nat.eqb_sym, E. f_equal; lia.
Qed.

Lemma done_locks h c its : same_locks h (done h c) (Some c :: its) its.
Proof.
  intros x. unfold done, net, ic. destruct (frozen (h c)) eqn:F.
  - split; auto. destruct (frozen (h x)) eqn:Fx; auto. cbn [cnt].
    destruct (Nat.eqb c x) eqn:E; [apply Nat.eqb_eq in E; subst; congruence|]. f_equal; lia.
  - unfold upd. destruct (Nat.eqb x c) eqn:E.
    + apply Nat.eqb_eq in E. subst x. cbn. rewrite F. split; auto. rewrite Nat.eqb_refl.
      rewrite Zminus_mod_idemp_l. f_equal; lia.
    + split; auto. destruct (frozen (h x)); auto. cbn [cnt].
      rewrite Nat.eqb_sym, E. f_equal; lia.
Qed.

Lemma none_locks h its : same_locks h h its (None :: its).
Proof. intros x. auto. Qed.
Lemma none_locks' h its : same_locks h h (None :: its) its.
Proof. intros x. auto. Qed.

Lemma mutate_same_locks h c m h' ok its : mutate h c m = (h', ok) -> same_locks h h' its its.
Proof.
  intros E x. destruct (mutate_locks _ _ _ _ _ x E) as [A B]. split; auto.
  unfold net, ic. rewrite A, B. reflexivity.
Qed.

(* release: the lists only matter through what they release *)
Lemma same_locks_shift h h' its :
  same_locks h h' [] [] -> same_locks h h' its its.
Proof.
  intros A x. destruct (A x) as [F N]. split; auto. unfold net in *. rewrite F in *.
  destruct (frozen (h x)); auto. cbn [cnt] in N. rewrite !Z.sub_0_r in N.
  rewrite <- (Zminus_mod_idemp_l (ic h' x)), N, Zminus_mod_idemp_l. reflexivity.
Qed.

Lemma wf_iterate h c : wf_heap h -> wf_heap (iterate h c).
Proof.
  intros W x. unfold iterate, ic. destruct (frozen (h c)); [apply W|].
  unfold upd. destruct (Nat.eqb x c); [cbn; apply Z.mod_pos_bound; reflexivity|apply W].
Qed.
Lemma wf_done h c : wf_heap h -> wf_heap (done h c).
Proof.
  intros W x. unfold done, ic. destruct (frozen (h c)); [apply W|].
  unfold upd. destruct (Nat.eqb x c); [cbn; apply Z.mod_pos_bound; reflexivity|apply W].
Qed.
Lemma wf_mutate h c m h' ok : mutate h c m = (h', ok) -> wf_heap h -> wf_heap h'.
Proof.
  intros E W x. destruct (mutate_locks _ _ _ _ _ x E) as [_ B]. unfold ic. rewrite B. apply W.
Qed.

Lemma drain_locks its : forall h, same_locks h (drain its h) its [] /\ (wf_heap h -> wf_heap (drain its h)).
Proof.
  induction its as [|[c|] r IH]; intros h; cbn [drain].
  - split; [apply same_locks_refl|auto].
  - destruct (IH (done h c)) as [A B]. split.
    + eapply same_locks_trans; [apply done_locks|exact A].
    + intros W. apply B, wf_done, W.
  - destruct (IH h) as [A B]. split; auto.
Qed.

Lemma run_defers_locks ds : forall h,
  same_locks h (run_defers ds h) (map Some ds) [] /\ (wf_heap h -> wf_heap (run_defers ds h)).
Proof.
  induction ds as [|c r IH]; intros h; cbn [run_defers map].
  - split; [apply same_locks_refl|auto].
  - destruct (IH (done h c)) as [A B]. split.
    + eapply same_locks_trans; [apply done_locks|exact A].
    + intros W. apply B, wf_done, W.
Qed.

(* ---------- one action of the repaired interpreter ---------- *)
Lemma do_act_locks a h its h' its' o :
  do_act true a h its = (h', its', o) ->
  same_locks h h' its its' /\ (wf_heap h -> wf_heap h').
Proof.
  destruct a as [[c|]| | |c m|c n|c|]; cbn [do_act]; intros E.
  - injection E as <- <- <-. split; [apply iterate_locks|apply wf_iterate].
  - injection E as <- <- <-. split; [apply none_locks|auto].
  - destruct its as [|[c|] r]; injection E as <- <- <-.
    + split; [apply same_locks_refl|auto].
    + split; [apply done_locks|apply wf_done].
    + split; [apply none_locks'|auto].
  - destruct its; injection E as <- <- <-; (split; [apply same_locks_refl|auto]).
  - destruct (mutate h c m) as [h1 ok] eqn:Em. injection E as <- <- <-.
    split; [eapply mutate_same_locks; exact Em|eapply wf_mutate; exact Em].
  - assert (A : same_locks h (done (iterate h c) c) its its)
      by (eapply same_locks_trans; [apply iterate_locks|apply done_locks]).
    assert (B : wf_heap h -> wf_heap (done (iterate h c) c)) by (intros W; apply wf_done, wf_iterate, W).
    destruct (n <? length (content (h c)))%nat; [injection E as <- <- <-; auto|].
    destruct (length (content (h c)) <? n)%nat; injection E as <- <- <-; auto.
  - injection E as <- <- <-. split.
    + eapply same_locks_trans; [apply iterate_locks|apply done_locks].
    + intros W; apply wf_done, wf_iterate, W.
  - injection E as <- <- <-. split; [apply same_locks_refl|auto].
Qed.

(* ---------- frames and built-ins, by mutual induction over the program tree ---------- *)
Scheme prog_ind2 := Induction for prog Sort Prop
  with hprog_ind2 := Induction for hprog Sort Prop.
Combined Scheme prog_hprog_ind from prog_ind2, hprog_ind2.

Lemma run_prog_builtin_eq f b k h its d :
  run_prog f (PBuiltin b k) h its d =
  match run_h f b h [] (S d) with
  | (h1, ds, d1, o) =>
      let h2 := run_defers ds h1 in
      let d2 := pred d1 in
      match o with ORet => run_prog f k h2 its d2 | _ => (h2, its, d2, o) end
  end.
Proof. reflexivity. Qed.

Lemma run_h_call_eq f callee k h ds d :
  run_h f (HCall callee k) h ds d =
  match run_prog f callee h [] (S d) with
  | (h1, its1, d1, o) =>
      let h2 := drain its1 h1 in
      let d2 := pred d1 in
      match o with ORet => run_h f k h2 ds d2 | _ => (h2, ds, d2, o) end
  end.
Proof. reflexivity. Qed.

Definition P_prog (p : prog) : Prop :=
  forall h its d h' its' d' o,
    run_prog true p h its d = (h', its', d', o) ->
    d' = d /\ same_locks h h' its its' /\ (wf_heap h -> wf_heap h').

Definition P_hprog (b : hprog) : Prop :=
  forall h ds d h' ds' d' o,
    run_h true b h ds d = (h', ds', d', o) ->
    d' = d /\ same_locks h h' (map Some ds) (map Some ds') /\ (wf_heap h -> wf_heap h').

Lemma nested_call_locks h h1 its1 :
  same_locks h h1 [] its1 -> (wf_heap h -> wf_heap h1) ->
  forall its, same_locks h (drain its1 h1) its its /\ (wf_heap h -> wf_heap (drain its1 h1)).
Proof.
  intros A W its. destruct (drain_locks its1 h1) as [B C]. split.
  - apply same_locks_shift. eapply same_locks_trans; [exact A|exact B].
  - intros X. apply C, W, X.
Qed.

Lemma nested_builtin_locks h h1 ds :
  same_locks h h1 [] (map Some ds) -> (wf_heap h -> wf_heap h1) ->
  forall its, same_locks h (run_defers ds h1) its its /\ (wf_heap h -> wf_heap (run_defers ds h1)).
Proof.
  intros A W its. destruct (run_defers_locks ds h1) as [B C]. split.
  - apply same_locks_shift. eapply same_locks_trans; [exact A|exact B].
  - intros X. apply C, W, X.
Qed.

Lemma balanced_mutual : (forall p, P_prog p) /\ (forall b, P_hprog b).
Proof.
  apply prog_hprog_ind; unfold P_prog, P_hprog.
  - (* PExit *) intros o h its d h' its' d' o' E. cbn in E. injection E as <- <- <- <-.
    split; auto. split; [apply same_locks_refl|auto].
  - (* PAct *) intros a k IHk h its d h' its' d' o E. cbn [run_prog] in E.
    destruct (do_act true a h its) as [[h1 its1] [o1|]] eqn:Ea.
    + injection E as <- <- <- <-. destruct (do_act_locks _ _ _ _ _ _ Ea). auto.
    + destruct (do_act_locks _ _ _ _ _ _ Ea) as [A W].
      destruct (IHk _ _ _ _ _ _ _ E) as (D & B & W2).
      split; auto. split; [eapply same_locks_trans; eauto|auto].
  - (* PCall *) intros callee IHc k IHk h its d h' its' d' o E. cbn [run_prog] in E.
    destruct (run_prog true callee h [] (S d)) as [[[h1 its1] d1] o1] eqn:Ec.
    destruct (IHc _ _ _ _ _ _ _ Ec) as (D & A & W). subst d1. cbn [pred] in E.
    destruct (nested_call_locks h h1 its1 A W its) as [B W2].
    destruct o1.
    + destruct (IHk _ _ _ _ _ _ _ E) as (D2 & B2 & W3).
      split; auto. split; [eapply same_locks_trans; eauto|auto].
    + injection E as <- <- <- <-. auto.
    + injection E as <- <- <- <-. auto.
  - (* PBuiltin *) intros b IHb k IHk h its d h' its' d' o E. rewrite run_prog_builtin_eq in E.
    destruct (run_h true b h [] (S d)) as [[[h1 ds1] d1] o1] eqn:Ec.
    destruct (IHb _ _ _ _ _ _ _ Ec) as (D & A & W). subst d1. cbn [pred map] in E, A.
    destruct (nested_builtin_locks h h1 ds1 A W its) as [B W2].
    destruct o1.
    + destruct (IHk _ _ _ _ _ _ _ E) as (D2 & B2 & W3).
      split; auto. split; [eapply same_locks_trans; eauto|auto].
    + injection E as <- <- <- <-. auto.
    + injection E as <- <- <- <-. auto.
  - (* HExit *) intros o h ds d h' ds' d' o' E. cbn in E. injection E as <- <- <- <-.
    split; auto. split; [apply same_locks_refl|auto].
  - (* HIterDefer *) intros c k IHk h ds d h' ds' d' o E. cbn [run_h] in E.
    destruct (IHk _ _ _ _ _ _ _ E) as (D & B & W). split; auto. split.
    + eapply same_locks_trans; [apply (iterate_locks h c (map Some ds))|exact B].
    + intros X. apply W, wf_iterate, X.
  - (* HMutate *) intros c m k IHk h ds d h' ds' d' o E. cbn [run_h] in E.
    destruct (mutate h c m) as [h1 ok] eqn:Em.
    pose proof (mutate_same_locks _ _ _ _ _ (map Some ds) Em) as A.
    pose proof (wf_mutate _ _ _ _ _ Em) as W.
    destruct ok.
    + destruct (IHk _ _ _ _ _ _ _ E) as (D & B & W2). split; auto. split; [eapply same_locks_trans; eauto|auto].
    + injection E as <- <- <- <-. auto.
  - (* HAttempt *) intros c m k IHk h ds d h' ds' d' o E. cbn [run_h] in E.
    destruct (mutate h c m) as [h1 ok] eqn:Em.
    pose proof (mutate_same_locks _ _ _ _ _ (map Some ds) Em) as A.
    pose proof (wf_mutate _ _ _ _ _ Em) as W.
    destruct (IHk _ _ _ _ _ _ _ E) as (D & B & W2). split; auto. split; [eapply same_locks_trans; eauto|auto].
  - (* HCall *) intros callee IHc k IHk h ds d h' ds' d' o E. rewrite run_h_call_eq in E.
    destruct (run_prog true callee h [] (S d)) as [[[h1 its1] d1] o1] eqn:Ec.
    destruct (IHc _ _ _ _ _ _ _ Ec) as (D & A & W). subst d1. cbn [pred] in E.
    destruct (nested_call_locks h h1 its1 A W (map Some ds)) as [B W2].
    destruct o1.
    + destruct (IHk _ _ _ _ _ _ _ E) as (D2 & B2 & W3).
      split; auto. split; [eapply same_locks_trans; eauto|auto].
    + injection E as <- <- <- <-. auto.
    + injection E as <- <- <- <-. auto.
Qed.

(* frame_balanced *)
Lemma frame_balanced_lemma : forall p h d h' d' o,
  wf_heap h -> call true p h d = (h', d', o) ->
  d' = d /\ forall c, itercount (h' c) = itercount (h c) /\ frozen (h' c) = frozen (h c).
Proof.
  intros p h d h' d' o W E. unfold call in E.
  destruct (run_prog true p h [] (S d)) as [[[h1 its1] d1] o1] eqn:Er.
  destruct (proj1 balanced_mutual p _ _ _ _ _ _ _ Er) as (D & A & W1). subst d1.
  injection E as <- <- <-. split; auto.
  destruct (nested_call_locks h h1 its1 A W1 []) as [B W2].
  intros c. destruct (B c) as [F N]. split; auto.
  unfold net in N. rewrite F in N. fold (ic (drain its1 h1) c). fold (ic h c).
  destruct (frozen (h c)); auto. cbn [cnt] in N. rewrite !Z.sub_0_r in N.
  rewrite (Z.mod_small (ic h c)) in N by apply W.
  rewrite Z.mod_small in N by apply W2, W. exact N.
Qed.

(* the same for a built-in called by the host (e.g. a push iterator's consumer) *)
Lemma builtin_balanced_lemma : forall b h d h1 ds d1 o,
  wf_heap h -> run_h true b h [] d = (h1, ds, d1, o) ->
  d1 = d /\ forall c, itercount (run_defers ds h1 c) = itercount (h c) /\ frozen (run_defers ds h1 c) = frozen (h c).
Proof.
  intros b h d h1 ds d1 o W E.
  destruct (proj2 balanced_mutual b _ _ _ _ _ _ _ E) as (D & A & W1). split; auto.
  destruct (nested_builtin_locks h h1 ds A W1 []) as [B W2].
  intros c. destruct (B c) as [F N]. split; auto.
  unfold net in N. rewrite F in N. fold (ic (run_defers ds h1) c). fold (ic h c).
  destruct (frozen (h c)); auto. cbn [cnt] in N. rewrite !Z.sub_0_r in N.
  rewrite (Z.mod_small (ic h c)) in N by apply W.
  rewrite Z.mod_small in N by apply W2, W. exact N.
Qed.

(* ---------- Go push iterators ---------- *)
Lemma iterate_done_id h c : wf_heap h -> forall x, done (iterate h c) c x = h x.
Proof.
  intros W x. unfold done, iterate. destruct (frozen (h c)) eqn:F; [rewrite F; reflexivity|].
  unfold upd. rewrite !Nat.eqb_refl. cbn [frozen itercount content].
  destruct (Nat.eqb x c) eqn:E; auto. apply Nat.eqb_eq in E. subst x.
  rewrite Zminus_mod_idemp_l. replace (itercount (h c) + 1 - 1) with (itercount (h c)) by lia.
  rewrite Z.mod_small by apply W. destruct (h c); cbn in *. subst. reflexivity.
Qed.

Lemma push_balanced_lemma step c :
  (forall h o, wf_heap h -> forall x, step h c o x = h x) ->
  forall ops h, wf_heap h -> forall x, push_run step c ops h x = h x.
Proof.
  intros S ops. unfold push_run. induction ops as [|o r IH]; intros h W x; cbn; auto.
  rewrite IH.
  - apply S, W.
  - intros y. unfold ic. rewrite S; auto. apply W.
Qed.

Lemma push_special_step h o c : wf_heap h -> forall x, push_special h c o x = h x.
Proof. intros W x. destruct o; cbn; auto. apply iterate_done_id, W. Qed.
Lemma push_generic_step h o c : wf_heap h -> forall x, push_generic true h c o x = h x.
Proof. intros W x. destruct o; cbn; auto. apply iterate_done_id, W. Qed.
