(* C06 -- the specification as an oracle on what the harness observes, written
   from the property text; it does not mention the model of the interpreter.

   After the outermost call has returned (by whatever path):
     * no collection that is not frozen has a live-iterator count left,
     * a content-preserving mutation of each such collection succeeds,
     * the call stack is back at its previous depth,
     * the thread runs a second program;
   during the call:
     * every mutation attempted on a collection while an iteration over it was in
       progress was refused and left the content unchanged,
     * every mutation attempted on a non-frozen collection with no iteration in
       progress was accepted ("as soon as the iteration ends ... mutable again"). *)
From Coq Require Import ZArith List Bool.
Import ListNotations.
Open Scope Z_scope.

Record attempt := mkAtt { a_locked : bool; a_rejected : bool; a_unchanged : bool }.

Record after := mkAfter {
  f_frozen : list bool;
  f_ic : list Z;
  f_probe : list bool;
  f_depth : Z;
  f_rerun : bool;
  f_attempts : list attempt
}.

Definition attempt_ok (a : attempt) : bool :=
  if a_locked a then a_rejected a && a_unchanged a else negb (a_rejected a).

Fixpoint unlocked (fz : list bool) (ics : list Z) : bool :=
  match fz, ics with
  | true :: fz', _ :: ics' => unlocked fz' ics'
  | false :: fz', n :: ics' => (n =? 0) && unlocked fz' ics'
  | _, _ => true
  end.

Definition spec_after (a : after) : bool :=
  unlocked (f_frozen a) (f_ic a) && forallb (fun b => b) (f_probe a) &&
  (f_depth a =? 0) && f_rerun a && forallb attempt_ok (f_attempts a).
