(* C06 -- the specification as an oracle on what the harness observes, written
   from the property text; it does not mention the model of the interpreter.

   After the outermost call has returned (by whatever path):
     * no collection that is not frozen has a live-iterator count left,
     * a content-preserving mutation of each such collection succeeds,
     * the call stack is back at its previous depth,
     * the thread runs a second program;
   during the call:
     * every mutation attempted on a collection while an iteration over it was in
       progress was refused and left the content unchanged,
     * every mutation attempted on a non-frozen collection with no iteration in
       progress was accepted ("as soon as the iteration ends ... mutable again"),
     * a Starlark statement that mutates a collection being iterated over makes
       the call fail, and afterwards every collection holds exactly its initial
       elements plus the additions made outside any iteration. *)
From Coq Require Import ZArith List Bool.
Import ListNotations.
Open Scope Z_scope.

Record attempt := mkAtt { a_locked : bool; a_rejected : bool; a_unchanged : bool }.

Record after := mkAfter {
  f_frozen : list bool;
  f_ic : list Z;
  f_probe : list bool;
  f_depth : Z;
  f_rerun : bool;
  f_attempts : list attempt;
  f_content : list (list Z);     (* what each collection holds afterwards *)
  f_expected : list (list Z);    (* its initial elements plus the additions made outside any iteration *)
  f_must_fail : bool;            (* the program reaches a mutation of a collection it is iterating over *)
  f_failed : bool                (* the call returned an error *)
}.

Definition attempt_ok (a : attempt) : bool :=
  if a_locked a then a_rejected a && a_unchanged a else negb (a_rejected a).

Fixpoint unlocked (fz : list bool) (ics : list Z) : bool :=
  match fz, ics with
  | true :: fz', _ :: ics' => unlocked fz' ics'
  | false :: fz', n :: ics' => (n =? 0) && unlocked fz' ics'
  | _, _ => true
  end.

Fixpoint zl_eqb (a b : list Z) : bool :=
  match a, b with [], [] => true | x :: a', y :: b' => (x =? y) && zl_eqb a' b' | _, _ => false end.
Fixpoint zll_eqb (a b : list (list Z)) : bool :=
  match a, b with [], [] => true | x :: a', y :: b' => zl_eqb x y && zll_eqb a' b' | _, _ => false end.

Definition spec_after (a : after) : bool :=
  unlocked (f_frozen a) (f_ic a) && forallb (fun b => b) (f_probe a) &&
  (f_depth a =? 0) && f_rerun a && forallb attempt_ok (f_attempts a) &&
  zll_eqb (f_content a) (f_expected a) && (negb (f_must_fail a) || f_failed a).
