(* C06 -- the iterator stack of compiled code: proofs.
   Part 1 (this file): the code generator of C01/Compile.v emits, for every
   statement / expression, a fragment whose jumps only skip segments of net
   iterator effect 0 (`frag`), and the static annotation of a finalized function
   body passes the checker `ann_ok`.  Part 2 (ProofsCodegenIter2.v): the dataflow
   `infer`, the source spans and the machine. *)
From Coq Require Import ZArith String List Bool Lia.
From SV Require Import C01.Syntax C01.Values C01.Ref C01.VM C01.Compile C06.CodegenIter.
Import ListNotations.
Open Scope nat_scope.

(* ---------------------------------------------------------------- induction over the nested syntax *)
Definition arg_expr (a : arg) : expr := match a with APos e | ANamed _ e | AStar e | AStarStar e => e end.

Section ExprInd.
  Variable P : expr -> Prop.
  Variable PT : target -> Prop.
  Definition Pclause (c : clause) : Prop := match c with CFor t e _ => PT t /\ P e | CIf c => P c end.
  Definition Popt (o : option expr) : Prop := match o with Some e => P e | None => True end.
  Hypothesis HName : forall x ps, P (EName x ps).
  Hypothesis HInt : forall z, P (EInt z).
  Hypothesis HStr : forall s, P (EStr s).
  Hypothesis HUnsup : forall t, P (EUnsup t).
  Hypothesis HParen : forall e, P e -> P (EParen e).
  Hypothesis HUnary : forall o ps e, P e -> P (EUnary o ps e).
  Hypothesis HBinary : forall o ps x y, P x -> P y -> P (EBinary o ps x y).
  Hypothesis HAnd : forall x y, P x -> P y -> P (EAnd x y).
  Hypothesis HOr : forall x y, P x -> P y -> P (EOr x y).
  Hypothesis HCond : forall c t f, P c -> P t -> P f -> P (ECond c t f).
  Hypothesis HTuple : forall es, Forall P es -> P (ETuple es).
  Hypothesis HList : forall es, Forall P es -> P (EList es).
  Hypothesis HDict : forall kvs, Forall (fun kv => P (fst (fst kv)) /\ P (snd (fst kv))) kvs -> P (EDict kvs).
  Hypothesis HIndex : forall x y ps, P x -> P y -> P (EIndex x y ps).
  Hypothesis HDot : forall x n ps, P x -> P (EDot x n ps).
  Hypothesis HCall : forall fn args ps, P fn -> Forall (fun a => P (arg_expr a)) args -> P (ECall fn args ps).
  Hypothesis HLambda : forall fid ps b pp, P (ELambda fid ps b pp).
  Hypothesis HComp : forall c b bv cp cls sl, P b -> P bv -> Forall Pclause cls -> P (EComp c b bv cp cls sl).
  Hypothesis HSlice : forall x lo hi st ps, P x -> Popt lo -> Popt hi -> Popt st -> P (ESlice x lo hi st ps).
  Hypothesis HTName : forall x ps, PT (TName x ps).
  Hypothesis HTIndex : forall x y ps, P x -> P y -> PT (TIndex x y ps).
  Hypothesis HTDot : forall x n ps, P x -> PT (TDot x n ps).
  Hypothesis HTSeq : forall ts, Forall PT ts -> PT (TSeq ts).

  Fixpoint expr_ind' (e : expr) : P e :=
    match e as e0 return P e0 with
    | EName x ps => HName x ps
    | EInt z => HInt z
    | EStr s => HStr s
    | EUnsup t => HUnsup t
    | EParen e => HParen e (expr_ind' e)
    | EUnary o ps e => HUnary o ps e (expr_ind' e)
    | EBinary o ps x y => HBinary o ps x y (expr_ind' x) (expr_ind' y)
    | EAnd x y => HAnd x y (expr_ind' x) (expr_ind' y)
    | EOr x y => HOr x y (expr_ind' x) (expr_ind' y)
    | ECond c t f => HCond c t f (expr_ind' c) (expr_ind' t) (expr_ind' f)
    | ETuple es => HTuple es ((fix go (l : list expr) : Forall P l :=
                                 match l with [] => Forall_nil _ | a :: r => Forall_cons a (expr_ind' a) (go r) end) es)
    | EList es => HList es ((fix go (l : list expr) : Forall P l :=
                                 match l with [] => Forall_nil _ | a :: r => Forall_cons a (expr_ind' a) (go r) end) es)
    | EDict kvs => HDict kvs ((fix go (l : list (expr * expr * pos)) : Forall (fun kv => P (fst (fst kv)) /\ P (snd (fst kv))) l :=
                                 match l with [] => Forall_nil _
                                 | a :: r => Forall_cons a (match a as a0 return P (fst (fst a0)) /\ P (snd (fst a0)) with
                                                            | ((k, v), _) => conj (expr_ind' k) (expr_ind' v) end) (go r) end) kvs)
    | EIndex x y ps => HIndex x y ps (expr_ind' x) (expr_ind' y)
    | EDot x n ps => HDot x n ps (expr_ind' x)
    | ECall fn args ps => HCall fn args ps (expr_ind' fn)
                            ((fix go (l : list arg) : Forall (fun a => P (arg_expr a)) l :=
                                 match l with [] => Forall_nil _
                                 | a :: r => Forall_cons a (match a as a0 return P (arg_expr a0) with
                                                            | APos e | ANamed _ e | AStar e | AStarStar e => expr_ind' e end) (go r) end) args)
    | ELambda fid ps b pp => HLambda fid ps b pp
    | EComp c b bv cp cls sl => HComp c b bv cp cls sl (expr_ind' b) (expr_ind' bv)
                            ((fix go (l : list clause) : Forall Pclause l :=
                                 match l with [] => Forall_nil _
                                 | a :: r => Forall_cons a (match a as a0 return Pclause a0 with
                                                            | CFor t e _ => conj (target_ind' t) (expr_ind' e)
                                                            | CIf c => expr_ind' c end) (go r) end) cls)
    | ESlice x lo hi st ps =>
        let o (e : option expr) : Popt e := match e as e0 return Popt e0 with Some e => expr_ind' e | None => I end in
        HSlice x lo hi st ps (expr_ind' x) (o lo) (o hi) (o st)
    end
  with target_ind' (t : target) : PT t :=
    match t as t0 return PT t0 with
    | TName x ps => HTName x ps
    | TIndex x y ps => HTIndex x y ps (expr_ind' x) (expr_ind' y)
    | TDot x n ps => HTDot x n ps (expr_ind' x)
    | TSeq ts => HTSeq ts ((fix go (l : list target) : Forall PT l :=
                               match l with [] => Forall_nil _ | a :: r => Forall_cons a (target_ind' a) (go r) end) ts)
    end.
End ExprInd.

Section StmtInd.
  Variable P : stmt -> Prop.
  Hypothesis HIf : forall c tb fb, Forall P tb -> Forall P fb -> P (SIf c tb fb).
  Hypothesis HWhile : forall c b, Forall P b -> P (SWhile c b).
  Hypothesis HFor : forall t e b ps, Forall P b -> P (SFor t e b ps).
  Hypothesis HOther : forall s, match s with SIf _ _ _ | SWhile _ _ | SFor _ _ _ _ => False | _ => True end -> P s.
  Fixpoint stmt_ind' (s : stmt) : P s :=
    let go := fix go (l : list stmt) : Forall P l :=
                match l with [] => Forall_nil _ | a :: r => Forall_cons a (stmt_ind' a) (go r) end in
    match s as s0 return P s0 with
    | SIf c tb fb => HIf c tb fb (go tb) (go fb)
    | SWhile c b => HWhile c b (go b)
    | SFor t e b ps => HFor t e b ps (go b)
    | s0 => HOther s0 I
    end.
End StmtInd.

(* ---------------------------------------------------------------- net effect of code *)
Lemma zsum_app : forall a b, zsum (a ++ b) = (zsum a + zsum b)%Z.
Proof. unfold zsum. induction a; intros; cbn [fold_right app]; [reflexivity | rewrite IHa; lia]. Qed.

Lemma net_app : forall a b, net (a ++ b) = (net a + net b)%Z.
Proof. intros. unfold net. rewrite map_app. apply zsum_app. Qed.
Lemma net_nil : net [] = 0%Z. Proof. reflexivity. Qed.
Lemma net_cons : forall x r, net (x :: r) = (delta x + net r)%Z.
Proof. reflexivity. Qed.

(* same effect on the depth, instruction by instruction *)
Definition deq (a b : list insn) : Prop := map delta a = map delta b.
Lemma deq_refl : forall a, deq a a. Proof. reflexivity. Qed.
Lemma deq_len : forall a b, deq a b -> length a = length b.
Proof. unfold deq; intros. rewrite <- (map_length delta a), H, map_length; auto. Qed.
Lemma deq_net : forall a b, deq a b -> net a = net b.
Proof. unfold deq, net; intros. rewrite H; auto. Qed.
Lemma deq_firstn : forall k a b, deq a b -> deq (firstn k a) (firstn k b).
Proof. unfold deq; intros. rewrite <- !firstn_map, H; auto. Qed.
Lemma deq_skipn : forall k a b, deq a b -> deq (skipn k a) (skipn k b).
Proof. unfold deq; intros. rewrite <- !skipn_map, H; auto. Qed.
Lemma deq_app : forall a a' b b', deq a a' -> deq b b' -> deq (a ++ b) (a' ++ b').
Proof. unfold deq; intros. rewrite !map_app, H, H0; auto. Qed.

(* ---------------------------------------------------------------- conditions on relative code *)
Definition fwd_ok (k : nat) (post : list insn) : Prop := k <= length post /\ net (firstn k post) = 0%Z.
Definition bwd_ok (k : nat) (pre : list insn) : Prop :=
  1 <= k <= S (length pre) /\ net (skipn (S (length pre) - k) pre) = 0%Z.

Definition isbc (x : insn) : bool := match x with BRK | CONT => true | _ => false end.

(* instruction x with the code `pre` before it and `post` after it; base: the depth
   (relative to the start of pre) of the body of the loop that BRK / CONT belong to *)
Definition okat (base : Z) (pre : list insn) (x : insn) (post : list insn) : Prop :=
  match x with
  | RJMP k | RCJMP k => fwd_ok k post
  | RITERJMP k => fwd_ok k post /\ (1 <= net pre)%Z
  | RJMPB k => bwd_ok k pre
  | ITERPOP => (1 <= net pre)%Z
  | BRK | CONT => net pre = base
  | JMP _ | CJMP _ | ITERJMP _ => False
  | _ => True
  end.

Definition okin (base : Z) (P c Q : list insn) : Prop :=
  forall pre x post, c = pre ++ x :: post -> okat base (P ++ pre) x (post ++ Q).

(* no prefix goes below depth -d *)
Definition pnn (d : Z) (c : list insn) : Prop := forall k, (0 <= d + net (firstn k c))%Z.

Definition nobc (c : list insn) : Prop := forallb (fun x => negb (isbc x)) c = true.

Definition frag (c : list insn) : Prop := net c = 0%Z /\ pnn 0 c /\ okin 0 [] c [].

Lemma fwd_ok_ext : forall k post post' Q, fwd_ok k post -> deq post post' -> fwd_ok k (post' ++ Q).
Proof.
  unfold fwd_ok; intros k post post' Q [L N] E. pose proof (deq_len _ _ E) as LL. split.
  - rewrite app_length; lia.
  - rewrite firstn_app. replace (k - length post') with 0 by lia. cbn [firstn]. rewrite app_nil_r.
    rewrite <- (deq_net _ _ (deq_firstn k _ _ E)); auto.
Qed.

Lemma bwd_ok_ext : forall k pre pre' P, bwd_ok k pre -> deq pre pre' -> bwd_ok k (P ++ pre').
Proof.
  unfold bwd_ok; intros k pre pre' P [L N] E. pose proof (deq_len _ _ E) as LL. split.
  - rewrite app_length; lia.
  - rewrite skipn_app, app_length.
    rewrite (skipn_all2 P) by lia. cbn [app].
    replace (S (length P + length pre') - k - length P) with (S (length pre) - k) by lia.
    rewrite <- (deq_net _ _ (deq_skipn _ _ _ E)); auto.
Qed.

Lemma okat_transfer : forall b0 b pre x post P pre' post' Q,
  okat b0 pre x post -> deq pre pre' -> deq post post' -> (0 <= net P)%Z ->
  (isbc x = false \/ b = (b0 + net P)%Z) ->
  okat b (P ++ pre') x (post' ++ Q).
Proof.
  intros b0 b pre x post P pre' post' Q H E1 E2 NP BC.
  pose proof (deq_net _ _ E1) as N1.
  destruct x; cbn [okat] in *; auto;
    try (eapply fwd_ok_ext; eauto); try (eapply bwd_ok_ext; eauto);
    try (rewrite net_app; lia).
  - destruct H as [H1 H2]. split; [eapply fwd_ok_ext; eauto | rewrite net_app; lia].
  - destruct BC as [BC|BC]; [discriminate | rewrite net_app; lia].
  - destruct BC as [BC|BC]; [discriminate | rewrite net_app; lia].
Qed.

Lemma okin_ctx : forall b0 b P c Q P' Q',
  okin b0 P c Q -> (0 <= net P')%Z -> (nobc c \/ b = (b0 + net P')%Z) ->
  okin b (P' ++ P) c (Q ++ Q').
Proof.
  unfold okin; intros b0 b P c Q P' Q' H NP BC pre x post E.
  specialize (H pre x post E).
  rewrite <- !app_assoc.
  rewrite (app_assoc post Q Q').
  eapply okat_transfer; eauto using deq_refl.
  destruct BC as [BC|BC]; auto. left.
  unfold nobc in BC. subst c. rewrite forallb_app in BC. cbn [forallb] in BC.
  destruct (isbc x); auto. rewrite andb_false_r in BC. discriminate.
Qed.

Lemma app_decomp : forall (l1 l2 pre : list insn) x post,
  l1 ++ l2 = pre ++ x :: post ->
  (exists post1, l1 = pre ++ x :: post1 /\ post = post1 ++ l2) \/
  (exists pre2, pre = l1 ++ pre2 /\ l2 = pre2 ++ x :: post).
Proof.
  induction l1 as [|a l1 IH]; intros l2 pre x post E.
  - right. exists pre. auto.
  - destruct pre as [|b pre]; cbn [app] in E.
    + inversion E; subst. left. exists l1. auto.
    + inversion E; subst. destruct (IH _ _ _ _ H1) as [[p1 [A B]]|[p2 [A B]]].
      * left. exists p1. subst. auto.
      * right. exists p2. subst. auto.
Qed.

Lemma okin_app : forall b P c1 c2 Q,
  okin b P c1 (c2 ++ Q) -> okin b (P ++ c1) c2 Q -> okin b P (c1 ++ c2) Q.
Proof.
  unfold okin; intros b P c1 c2 Q H1 H2 pre x post E.
  destruct (app_decomp _ _ _ _ _ E) as [[p1 [A B]]|[p2 [A B]]]; subst.
  - specialize (H1 _ _ _ eq_refl). rewrite <- app_assoc. auto.
  - specialize (H2 _ _ _ eq_refl). rewrite <- app_assoc in H2. auto.
Qed.

Lemma okin_nil : forall b P Q, okin b P [] Q.
Proof. unfold okin; intros. destruct pre; discriminate. Qed.

Lemma okin_single : forall b P x Q, okat b P x Q -> okin b P [x] Q.
Proof.
  unfold okin; intros. destruct pre as [|a pre]; cbn [app] in H0.
  - inversion H0; subst. rewrite app_nil_r. auto.
  - inversion H0. destruct pre; discriminate.
Qed.

Lemma okin_cons : forall b P x r Q,
  okat b P x (r ++ Q) -> okin b (P ++ [x]) r Q -> okin b P (x :: r) Q.
Proof. intros. change (x :: r) with ([x] ++ r). apply okin_app; auto. apply okin_single; auto. Qed.

Lemma okin_base : forall b b' P c Q, nobc c -> okin b P c Q -> okin b' P c Q.
Proof.
  intros. pose proof (okin_ctx b b' P c Q [] [] H0) as H1. cbn [app] in H1. rewrite app_nil_r in H1.
  apply H1; [rewrite net_nil; lia | auto].
Qed.

(* ---- pnn *)
Lemma pnn_mono : forall d d' c, (d <= d')%Z -> pnn d c -> pnn d' c.
Proof. unfold pnn; intros. specialize (H0 k). lia. Qed.
Lemma pnn_nil : forall d, (0 <= d)%Z -> pnn d [].
Proof. unfold pnn; intros. rewrite firstn_nil, net_nil. lia. Qed.
Lemma pnn_app : forall d a b, pnn d a -> pnn (d + net a) b -> pnn d (a ++ b).
Proof.
  unfold pnn; intros d a b Ha Hb k. rewrite firstn_app, net_app.
  destruct (Nat.le_gt_cases k (length a)).
  - replace (k - length a) with 0 by lia. cbn [firstn]. rewrite net_nil. specialize (Ha k). lia.
  - rewrite firstn_all2 by lia. specialize (Hb (k - length a)). lia.
Qed.
Lemma pnn_cons : forall d x r, (0 <= d)%Z -> pnn (d + delta x) r -> pnn d (x :: r).
Proof.
  unfold pnn; intros d x r D H k. destruct k; cbn [firstn].
  - rewrite net_nil; lia.
  - rewrite net_cons. specialize (H k). lia.
Qed.
Lemma pnn_deq : forall d a b, deq a b -> pnn d a -> pnn d b.
Proof. unfold pnn; intros. rewrite <- (deq_net _ _ (deq_firstn k _ _ H)). auto. Qed.
Lemma pnn_0 : forall d c, pnn d c -> (0 <= d)%Z.
Proof. unfold pnn; intros. specialize (H 0). cbn [firstn] in H. rewrite net_nil in H. lia. Qed.

(* ---- nobc *)
Lemma nobc_app : forall a b, nobc a -> nobc b -> nobc (a ++ b).
Proof. unfold nobc; intros. rewrite forallb_app, H, H0; auto. Qed.
Lemma nobc_nil : nobc []. Proof. reflexivity. Qed.
Lemma nobc_cons : forall x r, isbc x = false -> nobc r -> nobc (x :: r).
Proof. unfold nobc; intros. cbn [forallb]. rewrite H, H0; auto. Qed.

(* ---- frag *)
Lemma frag_nil : frag [].
Proof. split; [reflexivity|split; [apply pnn_nil; lia | apply okin_nil]]. Qed.

Lemma frag_in : forall b P c Q, frag c -> (0 <= net P)%Z -> (nobc c \/ b = net P) -> okin b P c Q.
Proof.
  intros b P c Q [N [PN O]] NP BC.
  pose proof (okin_ctx 0 b [] c [] P Q O NP) as H. rewrite app_nil_r in H. cbn [app] in H.
  apply H. destruct BC; [left; auto | right; lia].
Qed.

Lemma frag_app : forall a b, frag a -> frag b -> frag (a ++ b).
Proof.
  intros a b Fa Fb. pose proof Fa as [Na [Pa Oa]]. pose proof Fb as [Nb [Pb Ob]].
  split; [rewrite net_app; lia|]. split.
  - apply pnn_app; auto. rewrite Na. auto.
  - apply okin_app.
    + apply frag_in; auto. rewrite net_nil; lia.
    + cbn [app]. pose proof (frag_in 0 a b [] Fb) as H. apply H; [lia | right; lia].
Qed.

(* an instruction without a condition and without effect on the iterator stack *)
Definition plain (x : insn) : bool :=
  match x with
  | ITERPUSH _ | ITERPOP | ITERJMP _ | JMP _ | CJMP _
  | RJMP _ | RCJMP _ | RITERJMP _ | RJMPB _ | BRK | CONT => false
  | _ => true
  end.

Lemma frag_plain1 : forall x, plain x = true -> frag [x].
Proof.
  intros x H. split; [destruct x; try discriminate; reflexivity|]. split.
  - apply pnn_cons; [lia|]. apply pnn_nil. destruct x; try discriminate; cbn; lia.
  - apply okin_single. destruct x; try discriminate; exact I.
Qed.
Lemma nobc_plain1 : forall x, plain x = true -> nobc [x].
Proof. intros. apply nobc_cons; [destruct x; try discriminate; reflexivity | apply nobc_nil]. Qed.

Lemma frag_brk : frag [BRK]. 
Proof.
  split; [reflexivity|]. split; [apply pnn_cons; [lia|apply pnn_nil; cbn; lia]|].
  apply okin_single. reflexivity.
Qed.
Lemma frag_cont : frag [CONT]. 
Proof.
  split; [reflexivity|]. split; [apply pnn_cons; [lia|apply pnn_nil; cbn; lia]|].
  apply okin_single. reflexivity.
Qed.

(* closed fragment without placeholders *)
Definition cfrag (c : list insn) : Prop := frag c /\ nobc c.
Lemma cfrag_nil : cfrag []. Proof. split; [apply frag_nil | apply nobc_nil]. Qed.
Lemma cfrag_app : forall a b, cfrag a -> cfrag b -> cfrag (a ++ b).
Proof. intros a b [? ?] [? ?]. split; [apply frag_app | apply nobc_app]; auto. Qed.
Lemma cfrag_plain1 : forall x, plain x = true -> cfrag [x].
Proof. intros. split; [apply frag_plain1 | apply nobc_plain1]; auto. Qed.
Lemma cfrag_cons : forall x r, plain x = true -> cfrag r -> cfrag (x :: r).
Proof. intros. change (x :: r) with ([x] ++ r). apply cfrag_app; auto using cfrag_plain1. Qed.
Lemma cfrag_flat_map : forall {A} (f : A -> list insn) l, Forall (fun a => cfrag (f a)) l -> cfrag (flat_map f l).
Proof. induction 1; cbn [flat_map]; [apply cfrag_nil | apply cfrag_app; auto]. Qed.
Lemma cfrag_map_plain : forall {A} (f : A -> insn) l, (forall a, plain (f a) = true) -> cfrag (map f l).
Proof. induction l; intros; cbn [map]; [apply cfrag_nil | apply cfrag_cons; auto]. Qed.

(* ---------------------------------------------------------------- helpers for jump conditions *)
Lemma fwd_ok_intro : forall k post a rest, post = a ++ rest -> k = length a -> net a = 0%Z -> fwd_ok k post.
Proof.
  intros; subst. split; [rewrite app_length; lia|].
  rewrite firstn_app, Nat.sub_diag, firstn_all. cbn [firstn]. rewrite app_nil_r. auto.
Qed.
Lemma bwd_ok_intro : forall k pre rest a, pre = rest ++ a -> k = S (length a) -> net a = 0%Z -> bwd_ok k pre.
Proof.
  intros; subst. split; [rewrite app_length; lia|].
  rewrite app_length. replace (S (length rest + length a) - S (length a)) with (length rest + 0) by lia.
  rewrite skipn_app, Nat.add_0_r, skipn_all. replace (length rest - length rest) with 0 by lia. cbn [skipn app]. auto.
Qed.
Lemma fwd_ok_0 : forall Q, fwd_ok 0 Q.
Proof. intros. apply (fwd_ok_intro 0 Q [] Q); auto. Qed.
Lemma fwd_ok_skip : forall a k k' Q, net a = 0%Z -> fwd_ok k Q -> k' = length a + k -> fwd_ok k' (a ++ Q).
Proof.
  intros a k k' Q N [L F] E. subst. split; [rewrite app_length; lia|].
  rewrite firstn_app_2, net_app. lia.
Qed.

Ltac lnorm := repeat rewrite <- app_assoc; cbn [app]; try reflexivity.
Ltac lens := repeat rewrite app_length; cbn [length]; try lia.
Ltac nets := repeat (rewrite net_app || rewrite net_cons || rewrite net_nil); cbn [delta]; try lia.

(* ---------------------------------------------------------------- expressions *)
Section GenProofs.
  Variable p : program.
  Variable ls : list string.

  Definition condok (q : nat -> nat -> list insn) : Prop :=
    forall t f, net (q t f) = 0%Z /\ pnn 0 (q t f) /\ nobc (q t f) /\
                forall Q, fwd_ok t Q -> fwd_ok f Q -> okin 0 [] (q t f) Q.

  Definition EP (e : expr) : Prop :=
    forall cs, cfrag (fst (gen p ls cs e)) /\ condok (snd (gen p ls cs e)).

  Lemma cfrag_net : forall c, cfrag c -> net c = 0%Z. Proof. intros c [[N _] _]; auto. Qed.
  Lemma cfrag_pnn : forall c d, cfrag c -> (0 <= d)%Z -> pnn d c.
  Proof. intros c d [[_ [PN _]] _] D. eapply pnn_mono; [|eauto]. lia. Qed.
  Lemma cfrag_in : forall b P c Q, cfrag c -> (0 <= net P)%Z -> okin b P c Q.
  Proof. intros b P c Q [F NB] NP. apply frag_in; auto. Qed.

  (* c ++ [RCJMP (1 + t); RJMP f] *)
  Lemma tail_condok : forall c, cfrag c -> condok (fun t f => c ++ [RCJMP (1 + t); RJMP f]).
  Proof.
    intros c C t f. pose proof (cfrag_net _ C) as N. split; [nets|]. split; [|split].
    - apply pnn_app; [apply cfrag_pnn; auto; lia|]. rewrite N. repeat (apply pnn_cons; cbn [delta]; try lia). apply pnn_nil; lia.
    - apply nobc_app; [apply C|reflexivity].
    - intros Q Ft Ff. apply okin_app; [apply cfrag_in; auto; nets|].
      apply okin_cons.
      + cbn [okat]. apply (fwd_ok_skip [RJMP f] t); [reflexivity | auto | reflexivity].
      + apply okin_cons; [cbn [okat app]; auto | apply okin_nil].
  Qed.

  Lemma dflt_ok : forall c, cfrag c -> cfrag (fst (dflt c)) /\ condok (snd (dflt c)).
  Proof. intros c C. split; [exact C | apply tail_condok; auto]. Qed.

  Lemma plain_gen_name : forall cs x ps, plain (gen_name p ls cs x ps) = true.
  Proof.
    intros. unfold gen_name.
    repeat match goal with |- context [match ?a with _ => _ end] => destruct a end; reflexivity.
  Qed.
  Lemma plain_gen_set : forall cs x, plain (gen_set p ls cs x) = true.
  Proof.
    intros. unfold gen_set.
    repeat match goal with |- context [match ?a with _ => _ end] => destruct a end; reflexivity.
  Qed.

  Ltac cf := repeat first [ apply cfrag_nil | assumption | apply cfrag_app | apply cfrag_plain1; reflexivity
                          | apply cfrag_cons; [reflexivity|] ].

  Lemma EP_name : forall x ps, EP (EName x ps).
  Proof. intros x ps cs. cbn [gen]. apply dflt_ok. apply cfrag_plain1, plain_gen_name. Qed.

  Lemma EP_unary : forall o ps e, EP e -> EP (EUnary o ps e).
  Proof.
    intros o ps e IH cs. destruct (IH cs) as [C K].
    destruct o; cbn [gen]; try (apply dflt_ok; cf).
    cbn [fst snd]. split; [cf|].
    intros t f. destruct (K f t) as [N [PN [NB O]]]. repeat split; auto.
  Qed.

  Lemma EP_binary : forall o ps x y, EP x -> EP y -> EP (EBinary o ps x y).
  Proof.
    intros o ps x y IHx IHy cs. destruct (IHx cs) as [Cx _]. destruct (IHy cs) as [Cy _].
    destruct o; cbn [gen]; try (apply dflt_ok; cf).
    cbn [fst snd]. split; [cf|].
    intros t f.
    pose proof (tail_condok ((fst (gen p ls cs x) ++ fst (gen p ls cs y)) ++ [BINARY In ps])) as T.
    assert (C : cfrag ((fst (gen p ls cs x) ++ fst (gen p ls cs y)) ++ [BINARY In ps])) by cf.
    specialize (T C f t). cbv beta in T.
    replace ((fst (gen p ls cs x) ++ fst (gen p ls cs y)) ++ [BINARY In ps; RCJMP (1 + f); RJMP t])
      with (((fst (gen p ls cs x) ++ fst (gen p ls cs y)) ++ [BINARY In ps]) ++ [RCJMP (1 + f); RJMP t]) by lnorm.
    destruct T as [N [PN [NB O]]]. repeat split; auto.
  Qed.

  Lemma EP_or : forall x y, EP x -> EP y -> EP (EOr x y).
  Proof.
    intros x y IHx IHy cs. destruct (IHx cs) as [Cx _]. destruct (IHy cs) as [Cy Ky].
    cbn [gen fst snd]. unfold dflt; cbn [fst snd].
    set (gx := fst (gen p ls cs x)) in *. set (cy := fst (gen p ls cs y)) in *.
    pose proof (cfrag_net _ Cx) as Nx. pose proof (cfrag_net _ Cy) as Ny.
    split.
    - split; [|apply nobc_app; [apply Cx | apply nobc_app; [reflexivity | apply Cy]]].
      split; [nets|]. split.
      + apply pnn_app; [apply cfrag_pnn; auto; lia|]. rewrite Nx.
        repeat (apply pnn_cons; cbn [delta]; try lia). apply cfrag_pnn; auto; lia.
      + apply okin_app; [apply cfrag_in; auto; nets|].
        cbn [app]. apply okin_cons; [exact I|]. apply okin_cons.
        * cbn [okat]. apply (fwd_ok_intro _ _ (POP :: cy) []); [lnorm; rewrite app_nil_r; auto | cbn [length]; lia | nets].
        * apply okin_cons; [exact I|]. apply cfrag_in; auto. nets.
    - intros t f. destruct (Ky t f) as [N [PN [NB O]]].
      set (c := snd (gen p ls cs y) t f) in *.
      split; [nets|]. split; [|split].
      + apply pnn_app; [|nets; rewrite Nx; auto].
        apply pnn_app; [apply cfrag_pnn; auto; lia|]. rewrite Nx.
        repeat (apply pnn_cons; cbn [delta]; try lia). apply pnn_nil; lia.
      + apply nobc_app; auto. apply nobc_app; [apply Cx | reflexivity].
      + intros Q Ft Ff. apply okin_app.
        * destruct (tail_condok gx Cx (length c + t) 0) as [_ [_ [_ O2]]]. apply O2.
          -- apply (fwd_ok_skip c t); auto.
          -- apply fwd_ok_0.
        * pose proof (okin_ctx 0 0 [] c Q (gx ++ [RCJMP (1 + (length c + t)); RJMP 0]) [] (O Q Ft Ff)) as H.
          rewrite !app_nil_r in H. apply H; [nets | left; auto].
  Qed.

  Lemma EP_and : forall x y, EP x -> EP y -> EP (EAnd x y).
  Proof.
    intros x y IHx IHy cs. destruct (IHx cs) as [Cx _]. destruct (IHy cs) as [Cy Ky].
    cbn [gen fst snd]. unfold dflt; cbn [fst snd].
    set (gx := fst (gen p ls cs x)) in *. set (cy := fst (gen p ls cs y)) in *.
    pose proof (cfrag_net _ Cx) as Nx. pose proof (cfrag_net _ Cy) as Ny.
    split.
    - split; [|apply nobc_app; [apply Cx | apply nobc_app; [reflexivity | apply Cy]]].
      split; [nets|]. split.
      + apply pnn_app; [apply cfrag_pnn; auto; lia|]. rewrite Nx.
        repeat (apply pnn_cons; cbn [delta]; try lia). apply cfrag_pnn; auto; lia.
      + apply okin_app; [apply cfrag_in; auto; nets|].
        cbn [app]. apply okin_cons; [exact I|]. apply okin_cons.
        * cbn [okat]. apply (fwd_ok_intro _ _ [RJMP (1 + length cy)] ([POP] ++ cy ++ [])); [lnorm | cbn [length]; lia | nets].
        * apply okin_cons.
          -- cbn [okat]. apply (fwd_ok_intro _ _ (POP :: cy) []); [lnorm; rewrite app_nil_r; auto | cbn [length]; lia | nets].
          -- apply okin_cons; [exact I|]. apply cfrag_in; auto. nets.
    - intros t f. destruct (Ky t f) as [N [PN [NB O]]].
      set (c := snd (gen p ls cs y) t f) in *.
      split; [nets|]. split; [|split].
      + apply pnn_app; [|nets; rewrite Nx; auto].
        apply pnn_app; [apply cfrag_pnn; auto; lia|]. rewrite Nx.
        repeat (apply pnn_cons; cbn [delta]; try lia). apply pnn_nil; lia.
      + apply nobc_app; auto. apply nobc_app; [apply Cx | reflexivity].
      + intros Q Ft Ff. apply okin_app.
        * destruct (tail_condok gx Cx 0 (length c + f)) as [_ [_ [_ O2]]]. apply O2.
          -- apply fwd_ok_0.
          -- apply (fwd_ok_skip c f); auto.
        * pose proof (okin_ctx 0 0 [] c Q (gx ++ [RCJMP (1 + 0); RJMP (length c + f)]) [] (O Q Ft Ff)) as H.
          rewrite !app_nil_r in H. apply H; [nets | left; auto].
  Qed.

  (* ---- if / else shape (ECond, SIf) *)
  Lemma ite_frag : forall q ct cf, condok q -> frag ct -> frag cf ->
    frag (q 0 (length ct + 1) ++ ct ++ [RJMP (length cf)] ++ cf).
  Proof.
    intros q ct cf K Ft Ff. destruct (K 0 (length ct + 1)) as [N [PN [NB O]]].
    set (qq := q 0 (length ct + 1)) in *.
    pose proof Ft as [Nt [Pt Ot]]. pose proof Ff as [Nf [Pf Of]].
    split; [nets|]. split.
    - apply pnn_app; auto. rewrite N. apply pnn_app; auto. rewrite Nt.
      apply pnn_cons; [lia|]. cbn [delta app]. auto.
    - apply okin_app.
      + rewrite app_nil_r. apply O; [apply fwd_ok_0|].
        apply (fwd_ok_intro _ _ (ct ++ [RJMP (length cf)]) cf); [lnorm | lens | nets].
      + cbn [app]. apply okin_app; [apply frag_in; [auto | lia | right; lia]|].
        apply okin_cons.
        * cbn [okat app]. apply (fwd_ok_intro _ _ cf []); [rewrite !app_nil_r; auto | auto | auto].
        * apply frag_in; [auto | nets | right; nets].
  Qed.

  Lemma ite_cfrag : forall q ct cf, condok q -> cfrag ct -> cfrag cf ->
    cfrag (q 0 (length ct + 1) ++ ct ++ [RJMP (length cf)] ++ cf).
  Proof.
    intros q ct cf K [Ft Bt] [Ff Bf]. split; [apply ite_frag; auto|].
    destruct (K 0 (length ct + 1)) as [_ [_ [NB _]]].
    repeat apply nobc_app; auto. reflexivity.
  Qed.

  (* ---- loop shape (comprehension clause, SFor) *)
  Definition loop_code (ce ca inner : list insn) (ps : pos) : list insn :=
    ce ++ [ITERPUSH ps; RITERJMP (length ca + length inner + 1)] ++ ca ++ inner
    ++ [RJMPB (length ca + length inner + 2); ITERPOP].

  Lemma loop_cfrag : forall ce ca inner ps,
    cfrag ce -> cfrag ca -> net inner = 0%Z -> pnn 0 inner -> nobc inner ->
    okin 0 (ce ++ [ITERPUSH ps; RITERJMP (length ca + length inner + 1)] ++ ca) inner
         [RJMPB (length ca + length inner + 2); ITERPOP] ->
    cfrag (loop_code ce ca inner ps).
  Proof.
    intros ce ca inner ps Ce Ca Ni Pi Bi Oi. unfold loop_code.
    pose proof (cfrag_net _ Ce) as Ne. pose proof (cfrag_net _ Ca) as Na.
    split; [|repeat apply nobc_app; auto; try apply Ce; try apply Ca; reflexivity].
    split; [nets|]. split.
    - apply pnn_app; [apply cfrag_pnn; auto; lia|]. rewrite Ne.
      cbn [app]. apply pnn_cons; [lia|]. apply pnn_cons; [cbn [delta]; lia|]. cbn [delta].
      apply pnn_app; [apply cfrag_pnn; auto; lia|]. rewrite Na.
      apply pnn_app; [eapply pnn_mono; [|eauto]; lia|]. rewrite Ni.
      apply pnn_cons; [lia|]. apply pnn_cons; [cbn [delta]; lia|]. apply pnn_nil. cbn [delta]. lia.
    - apply okin_app; [apply cfrag_in; auto; nets|].
      cbn [app]. apply okin_cons; [exact I|]. apply okin_cons.
      + cbn [okat]. split; [|nets].
        apply (fwd_ok_intro _ _ (ca ++ inner ++ [RJMPB (length ca + length inner + 2)]) [ITERPOP]); [lnorm | lens | nets].
      + apply okin_app; [apply cfrag_in; auto; nets|].
        apply okin_app.
        * replace (((ce ++ [ITERPUSH ps]) ++ [RITERJMP (length ca + length inner + 1)]) ++ ca)
            with (ce ++ [ITERPUSH ps; RITERJMP (length ca + length inner + 1)] ++ ca) by lnorm.
          rewrite app_nil_r. auto.
        * apply okin_cons.
          -- cbn [okat].
             apply (bwd_ok_intro _ _ (ce ++ [ITERPUSH ps]) ([RITERJMP (length ca + length inner + 1)] ++ ca ++ inner));
               [lnorm | lens | nets].
          -- apply okin_cons; [cbn [okat]; nets | apply okin_nil].
  Qed.

  (* ---- the local fixpoints of gen's comprehension case *)
  Definition ga_of (cs' : list (string * nat)) :=
    fix ga (t : target) (ps : pos) {struct t} : list insn :=
      match t with
      | TName x _ => [gen_set p ls cs' x]
      | TIndex x y pi => fst (gen p ls cs' x) ++ [EXCH] ++ fst (gen p ls cs' y) ++ [EXCH; SETINDEX pi]
      | TDot x name pd => fst (gen p ls cs' x) ++ [EXCH; SETFIELD name pd]
      | TSeq ts => UNPACK (length ts) ps :: flat_map (fun t => ga t ps) ts
      end.

  Definition rest_of (cs' : list (string * nat)) (curly : bool) (body bodyv : expr) (cp : pos) :=
    fix cc (l : list clause) {struct l} : list insn :=
      match l with
      | [] => if curly then DUP :: fst (gen p ls cs' body) ++ fst (gen p ls cs' bodyv) ++ [SETDICT cp]
              else DUP :: fst (gen p ls cs' body) ++ [APPEND]
      | CIf c :: r => let inner := cc r in snd (gen p ls cs' c) 0 (length inner) ++ inner
      | CFor t e ps :: r => loop_code (fst (gen p ls cs' e)) (ga_of cs' t ps) (cc r) ps
      end.

  Lemma gen_comp_eq : forall cs curly body bodyv cp cls slots,
    gen p ls cs (EComp curly body bodyv cp cls slots) =
    let cs' := combine (comp_vars cls) slots ++ cs in
    match cls with
    | CFor t e0 ps :: r =>
        dflt ((if curly then [MAKEDICT] else [MAKELIST 0])
              ++ loop_code (fst (gen p ls cs e0)) (ga_of cs' t ps) (rest_of cs' curly body bodyv cp r) ps)
    | _ => dflt [UNSUPPORTED "static:comprehension"]
    end.
  Proof. intros. destruct cls as [|[t e0 ps|c] r]; reflexivity. Qed.

  Definition TP (t : target) : Prop :=
    (forall cs ps, cfrag (ga_of cs t ps)) /\ (forall ps, cfrag (gen_assign p ls t ps)).

  Lemma loop_cfrag_closed : forall ce ca inner ps, cfrag ce -> cfrag ca -> cfrag inner -> cfrag (loop_code ce ca inner ps).
  Proof.
    intros ce ca inner ps Ce Ca Ci. apply loop_cfrag; auto.
    - apply cfrag_net; auto.
    - apply Ci.
    - apply Ci.
    - apply cfrag_in; auto. pose proof (cfrag_net _ Ce). pose proof (cfrag_net _ Ca). nets.
  Qed.

  Lemma if_clause_cfrag : forall q inner, condok q -> cfrag inner -> cfrag (q 0 (length inner) ++ inner).
  Proof.
    intros q inner K Ci. destruct (K 0 (length inner)) as [N [PN [NB O]]].
    pose proof (cfrag_net _ Ci) as Ni.
    split; [|apply nobc_app; auto; apply Ci].
    split; [nets|]. split.
    - apply pnn_app; auto. rewrite N. apply cfrag_pnn; auto; lia.
    - apply okin_app.
      + rewrite app_nil_r. apply O; [apply fwd_ok_0|].
        apply (fwd_ok_intro _ _ inner []); [rewrite app_nil_r; auto | auto | auto].
      + apply cfrag_in; auto. nets.
  Qed.

  Lemma EP_all : (forall e, EP e) /\ (forall t, TP t).
  Proof.
    assert (H : forall e, EP e).
    { apply (expr_ind' EP TP).
      - apply EP_name.
      - intros z cs. cbn [gen]. apply dflt_ok. cf.
      - intros z cs. cbn [gen]. apply dflt_ok. cf.
      - intros z cs. cbn [gen]. apply dflt_ok. cf.
      - intros e IH cs. cbn [gen]. apply dflt_ok. apply IH.
      - apply EP_unary.
      - apply EP_binary.
      - apply EP_and.
      - apply EP_or.
      - (* ECond *) intros c t f IHc IHt IHf cs. cbn [gen]. apply dflt_ok.
        destruct (IHc cs) as [_ Kc]. destruct (IHt cs) as [Ct _]. destruct (IHf cs) as [Cf _].
        apply (ite_cfrag _ _ _ Kc Ct Cf).
      - (* ETuple *) intros es IH cs. cbn [gen]. apply dflt_ok. apply cfrag_app; [|cf].
        apply cfrag_flat_map. eapply Forall_impl; [|exact IH]. intros a Ha. apply Ha.
      - intros es IH cs. cbn [gen]. apply dflt_ok. apply cfrag_app; [|cf].
        apply cfrag_flat_map. eapply Forall_impl; [|exact IH]. intros a Ha. apply Ha.
      - (* EDict *) intros kvs IH cs. cbn [gen]. apply dflt_ok. apply cfrag_cons; [reflexivity|].
        apply cfrag_flat_map. eapply Forall_impl; [|exact IH]. intros a [Ha Hb].
        destruct (Ha cs) as [? _]. destruct (Hb cs) as [? _]. cf.
      - intros x y ps IHx IHy cs. cbn [gen]. apply dflt_ok. destruct (IHx cs) as [? _]. destruct (IHy cs) as [? _]. cf.
      - intros x n ps IHx cs. cbn [gen]. apply dflt_ok. destruct (IHx cs) as [? _]. cf.
      - (* ECall *) intros fn args ps IHf IHa cs. cbn [gen]. apply dflt_ok. destruct (IHf cs) as [? _].
        repeat apply cfrag_app; auto; try (cf; fail);
          apply cfrag_flat_map; (eapply Forall_impl; [|exact IHa]); intros a Ha;
          destruct a; cbn [arg_expr orb] in *; destruct (Ha cs) as [? _]; cf.
      - intros fid ps b pp cs. cbn [gen]. apply dflt_ok. cf.
      - (* EComp *) intros curly b bv cp cls sl IHb IHbv IHc cs. rewrite gen_comp_eq. cbv zeta.
        destruct cls as [|[t e0 ps|c] r]; try (apply dflt_ok; cf; fail).
        apply dflt_ok. set (cs' := combine (comp_vars (CFor t e0 ps :: r)) sl ++ cs).
        inversion IHc as [|? ? Hc IHr]; subst. cbn [Pclause] in Hc. destruct Hc as [Ht He0].
        assert (R : forall cs', cfrag (rest_of cs' curly b bv cp r)).
        { clear Ht He0 IHc cs'. induction IHr as [|cl r Hcl IHr IH2]; intro cs'; cbn [rest_of].
          - destruct (IHb cs') as [? _]. destruct (IHbv cs') as [? _]. destruct curly; cf.
          - destruct cl as [t1 e1 p1|c1]; cbn [Pclause] in Hcl.
            + destruct Hcl as [Ht1 He1]. destruct (He1 cs') as [? _]. destruct Ht1 as [Ht1 _].
              apply loop_cfrag_closed; auto.
            + destruct (Hcl cs') as [_ K]. apply if_clause_cfrag; auto. }
        destruct (He0 cs) as [? _]. destruct Ht as [Ht _].
        apply cfrag_app; [destruct curly; cf|]. apply loop_cfrag_closed; auto.
      - (* ESlice *) intros x lo hi st ps IHx Hlo Hhi Hst cs. cbn [gen]. apply dflt_ok. destruct (IHx cs) as [? _].
        destruct lo as [lo|], hi as [hi|], st as [st|]; cbn [Popt] in *;
          try destruct (Hlo cs) as [? _]; try destruct (Hhi cs) as [? _]; try destruct (Hst cs) as [? _]; cf.
      - (* TName *) intros x ps. split; intros; cbn [ga_of gen_assign]; apply cfrag_plain1, plain_gen_set.
      - intros x y ps IHx IHy. split; intros; cbn [ga_of gen_assign]; unfold gen_expr;
          [destruct (IHx cs) as [? _]; destruct (IHy cs) as [? _] | destruct (IHx []) as [? _]; destruct (IHy []) as [? _]]; cf.
      - intros x n ps IHx. split; intros; cbn [ga_of gen_assign]; unfold gen_expr;
          [destruct (IHx cs) as [? _] | destruct (IHx []) as [? _]]; cf.
      - intros ts IH. split; intros; cbn [ga_of gen_assign]; (apply cfrag_cons; [reflexivity|]);
          apply cfrag_flat_map; (eapply Forall_impl; [|exact IH]); intros a [Ha Hb]; auto. }
    split; auto.
    intro t. apply (target_ind' EP TP); auto; clear t.
    all: try (intros; apply H).
    - intros x ps. split; intros; cbn [ga_of gen_assign]; apply cfrag_plain1, plain_gen_set.
    - intros x y ps IHx IHy. split; intros; cbn [ga_of gen_assign]; unfold gen_expr;
        [destruct (IHx cs) as [? _]; destruct (IHy cs) as [? _] | destruct (IHx []) as [? _]; destruct (IHy []) as [? _]]; cf.
    - intros x n ps IHx. split; intros; cbn [ga_of gen_assign]; unfold gen_expr;
        [destruct (IHx cs) as [? _] | destruct (IHx []) as [? _]]; cf.
    - intros ts IH. split; intros; cbn [ga_of gen_assign]; (apply cfrag_cons; [reflexivity|]);
        apply cfrag_flat_map; (eapply Forall_impl; [|exact IH]); intros a [Ha Hb]; auto.
  Qed.
End GenProofs.

(* ---------------------------------------------------------------- patching BRK / CONT *)
Definition patch1 (i n after before : nat) (x : insn) : insn :=
  match x with BRK => RJMP (n - i - 1 + after) | CONT => RJMPB (i + 1 + before) | _ => x end.

Lemma patch_cons : forall i n a b y r,
  patch_from i n a b (y :: r) = patch1 i n a b y :: patch_from (S i) n a b r.
Proof. intros. destruct y; reflexivity. Qed.

Lemma patch_deq : forall c i n a b, deq (patch_from i n a b c) c.
Proof.
  unfold deq. induction c as [|y r IH]; intros; [reflexivity|].
  rewrite patch_cons. cbn [map]. rewrite IH. f_equal. destruct y; reflexivity.
Qed.
Lemma patch_length : forall c i n a b, length (patch_from i n a b c) = length c.
Proof. intros. apply deq_len, patch_deq. Qed.
Lemma patch_nobc : forall c i n a b, nobc (patch_from i n a b c).
Proof.
  unfold nobc. induction c as [|y r IH]; intros; [reflexivity|].
  rewrite patch_cons. cbn [forallb]. rewrite IH. destruct y; reflexivity.
Qed.

Lemma patchl_deq : forall a b c, deq (patch_loop a b c) c.
Proof. intros. apply patch_deq. Qed.
Lemma patchl_net : forall a b c, net (patch_loop a b c) = net c.
Proof. intros. apply deq_net, patchl_deq. Qed.
Lemma patchl_length : forall a b c, length (patch_loop a b c) = length c.
Proof. intros. apply patch_length. Qed.
Lemma patchl_pnn : forall a b c d, pnn d c -> pnn d (patch_loop a b c).
Proof. intros. eapply pnn_deq; [|eauto]. unfold deq. symmetry. apply patchl_deq. Qed.
Lemma patchl_nobc : forall a b c, nobc (patch_loop a b c).
Proof. intros. apply patch_nobc. Qed.

Lemma patch_split : forall c i n a b pre' x' post',
  patch_from i n a b c = pre' ++ x' :: post' ->
  exists pre x post, c = pre ++ x :: post /\ pre' = patch_from i n a b pre /\
                     post' = patch_from (i + S (length pre)) n a b post /\
                     x' = patch1 (i + length pre) n a b x.
Proof.
  induction c as [|y r IH]; intros i n a b pre' x' post' E.
  - destruct pre'; discriminate.
  - rewrite patch_cons in E. destruct pre' as [|z pre']; cbn [app] in E.
    + inversion E; subst. exists [], y, r. cbn [app length]. rewrite Nat.add_0_r, Nat.add_1_r. auto.
    + inversion E; subst. destruct (IH _ _ _ _ _ _ _ H1) as (pre & x & post & Ec & Ep & Eq & Ex).
      exists (y :: pre), x, post. subst. cbn [app length]. rewrite patch_cons.
      replace (i + S (S (length pre))) with (S i + S (length pre)) by lia.
      replace (i + S (length pre)) with (S i + length pre) by lia. auto.
Qed.

Lemma patch_okin : forall cb H1 H2 T after before b,
  frag cb -> (0 <= net (H1 ++ H2))%Z -> fwd_ok after T -> before = length H2 -> net H2 = 0%Z ->
  okin b (H1 ++ H2) (patch_loop after before cb) T.
Proof.
  intros cb H1 H2 T after before b [N [PN O]] NH FA EB NH2 pre' x' post' E.
  unfold patch_loop in E.
  destruct (patch_split _ _ _ _ _ _ _ _ E) as (pre & x & post & Ec & Ep & Eq & Ex).
  specialize (O pre x post Ec). cbn [app] in O. rewrite app_nil_r in O.
  assert (D1 : deq pre pre') by (subst pre'; unfold deq; symmetry; apply patch_deq).
  assert (D2 : deq post post') by (subst post'; unfold deq; symmetry; apply patch_deq).
  pose proof (deq_net _ _ D1) as N1. pose proof (deq_net _ _ D2) as N2.
  pose proof (deq_len _ _ D1) as L1. pose proof (deq_len _ _ D2) as L2.
  assert (NC : (net pre + delta x + net post = 0)%Z).
  { rewrite <- N. rewrite Ec. nets. }
  assert (LC : length cb = length pre + S (length post)) by (rewrite Ec; lens).
  cbn [Nat.add] in Ex.
  destruct x; cbn [patch1] in Ex; subst x';
    try (eapply okat_transfer; eauto; left; reflexivity).
  - (* BRK *) cbn [okat] in *. cbn [delta] in NC.
    apply (fwd_ok_skip post' after); auto; lia.
  - (* CONT *) cbn [okat] in *.
    apply (bwd_ok_intro _ _ H1 (H2 ++ pre')); [lnorm | lens | nets].
Qed.

(* ---------------------------------------------------------------- statements *)
Section StmtProofs.
  Variable p : program.
  Variable ls : list string.

  Lemma cfrag_frag : forall c, cfrag c -> frag c. Proof. intros c [F _]; auto. Qed.
  Lemma cfrag_expr : forall e, cfrag (gen_expr p ls e).
  Proof. intros. unfold gen_expr. destruct (EP_all p ls) as [H _]. apply H. Qed.
  Lemma condok_expr : forall e, condok (gen_cond p ls e).
  Proof.
    intros. destruct (EP_all p ls) as [H _]. destruct (H e []) as [_ K].
    intros t f. apply K.
  Qed.
  Lemma cfrag_assign : forall t ps, cfrag (gen_assign p ls t ps).
  Proof. intros. destruct (EP_all p ls) as [_ H]. apply H. Qed.
  Lemma cfrag_aug : forall o ps, cfrag (aug_insn o ps).
  Proof. intros. destruct o; cbn [aug_insn]; apply cfrag_plain1; reflexivity. Qed.
  Lemma cfrag_defaults : forall ps b, cfrag (fst (gen_defaults p ls ps b)).
  Proof.
    induction ps as [|q r IH]; intros b; cbn [gen_defaults]; [apply cfrag_nil|].
    destruct q; try apply IH.
    - specialize (IH b). destruct (gen_defaults p ls r b) as [c n]. cbn [fst] in *.
      destruct b; cbn [fst]; auto. apply cfrag_cons; auto.
    - specialize (IH b). destruct (gen_defaults p ls r b) as [c n]. cbn [fst] in *.
      apply cfrag_app; auto. apply cfrag_expr.
  Qed.

  Lemma frag_flat_map : forall (f : stmt -> list insn) l, Forall (fun a => frag (f a)) l -> frag (flat_map f l).
  Proof. induction 1; cbn [flat_map]; [apply frag_nil | apply frag_app; auto]. Qed.

  Ltac cf2 := repeat first [ apply cfrag_nil | assumption | apply cfrag_expr | apply cfrag_assign | apply cfrag_aug
                           | apply cfrag_app | apply cfrag_plain1; first [reflexivity | apply plain_gen_name | apply plain_gen_set]
                           | apply cfrag_cons; [first [reflexivity | apply plain_gen_name | apply plain_gen_set]|] ].

  Lemma for_eq : forall t e body ps,
    gen_stmt p ls (SFor t e body ps) =
    loop_code (gen_expr p ls e) (gen_assign p ls t ps)
              (patch_loop 1 (length (gen_assign p ls t ps) + 1) (flat_map (gen_stmt p ls) body)) ps.
  Proof.
    intros. cbn [gen_stmt]. unfold loop_code, patch_loop. rewrite patch_length. reflexivity.
  Qed.

  Lemma stmt_frag : forall s, frag (gen_stmt p ls s).
  Proof.
    apply stmt_ind'.
    - (* SIf *) intros c tb fb Ht Hf. cbn [gen_stmt].
      apply (ite_frag (gen_cond p ls c)); [apply condok_expr | apply frag_flat_map; auto | apply frag_flat_map; auto].
    - (* SWhile *) intros c b Hb. cbn [gen_stmt].
      pose proof (frag_flat_map _ _ Hb) as Fb. set (cb := flat_map (gen_stmt p ls) b) in *.
      destruct (condok_expr c 0 (length cb + 1)) as [N [PN [NB O]]].
      set (cc := gen_cond p ls c 0 (length cb + 1)) in *.
      pose proof Fb as [Nb [Pb _]].
      assert (Np : net (patch_loop 1 (length cc) cb) = 0%Z) by (rewrite patchl_net; auto).
      assert (Lp : length (patch_loop 1 (length cc) cb) = length cb) by apply patchl_length.
      split; [nets|]. split.
      + apply pnn_app; auto. rewrite N. apply pnn_app.
        * apply patchl_pnn; auto.
        * rewrite Np. apply pnn_cons; [lia|]. apply pnn_nil. cbn [delta]; lia.
      + apply okin_app.
        * rewrite app_nil_r. apply O; [apply fwd_ok_0|].
          apply (fwd_ok_intro _ _ (patch_loop 1 (length cc) cb ++ [RJMPB (length cc + length cb + 1)]) []);
            [rewrite app_nil_r; auto | lens | nets].
        * cbn [app]. apply okin_app.
          -- change cc with ([] ++ cc) at 1. apply patch_okin; [auto | cbn [app]; lia | | auto | auto].
             apply (fwd_ok_intro _ _ [RJMPB (length cc + length cb + 1)] []); auto.
          -- apply okin_cons; [|apply okin_nil]. cbn [okat].
             apply (bwd_ok_intro _ _ [] (cc ++ patch_loop 1 (length cc) cb)); [auto | lens | nets].
    - (* SFor *) intros t e b ps Hb. rewrite for_eq.
      pose proof (frag_flat_map _ _ Hb) as Fb. set (cb := flat_map (gen_stmt p ls) b) in *.
      pose proof Fb as [Nb [Pb _]].
      pose proof (cfrag_expr e) as Ce. pose proof (cfrag_assign t ps) as Ca.
      pose proof (cfrag_net _ Ce) as Ne. pose proof (cfrag_net _ Ca) as Na.
      apply cfrag_frag. apply loop_cfrag; auto.
      + rewrite patchl_net; auto.
      + apply patchl_pnn; auto.
      + apply patchl_nobc.
      + set (inner := patch_loop 1 (length (gen_assign p ls t ps) + 1) cb).
        replace (gen_expr p ls e ++ [ITERPUSH ps; RITERJMP (length (gen_assign p ls t ps) + length inner + 1)] ++ gen_assign p ls t ps)
          with ((gen_expr p ls e ++ [ITERPUSH ps]) ++ ([RITERJMP (length (gen_assign p ls t ps) + length inner + 1)] ++ gen_assign p ls t ps))
          by lnorm.
        apply patch_okin; [auto | nets | | lens | nets].
        apply (fwd_ok_intro _ _ [RJMPB (length (gen_assign p ls t ps) + length inner + 2)] [ITERPOP]); auto.
    - (* the rest *) intros s Hs. destruct s; try contradiction; cbn [gen_stmt].
      + destruct e; try apply frag_nil; apply cfrag_frag; cf2.
      + apply cfrag_frag; cf2.
      + destruct t; apply cfrag_frag; cf2.
      + apply frag_brk.
      + apply frag_cont.
      + apply frag_nil.
      + destruct e; apply cfrag_frag; cf2.
      + pose proof (cfrag_defaults params false) as D. destruct (gen_defaults p ls params false) as [c n].
        cbn [fst] in D. apply cfrag_frag; cf2.
      + apply cfrag_frag. repeat apply cfrag_app; try (apply cfrag_map_plain; intros; first [reflexivity | apply plain_gen_set]). cf2.
      + apply cfrag_frag; cf2.
  Qed.

  Lemma block_frag : forall ss, frag (gen_block p ls ss).
  Proof. intros. unfold gen_block. apply frag_flat_map. apply Forall_forall. intros. apply stmt_frag. Qed.
End StmtProofs.
