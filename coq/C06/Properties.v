(* C06 -- property theorems only.

   Vocabulary (C06/Model.v): a heap maps collection identities to {frozen,
   itercount (uint32, modulo 2^32), content}; `prog` is the tree of lock-relevant
   actions along one execution path of one Starlark frame -- ITERPUSH / ITERJMP /
   ITERPOP in ANY order (an ITERPOP on an empty iterator stack is the index panic
   the Go code would raise), mutating opcodes, UNPACK, CALL *args, nested calls of
   Starlark functions and of built-ins, and an exit (RETURN, error -- which
   includes cancellation at any loop head --, Go panic) at ANY point; `hprog` is a
   built-in: Iterate-with-deferred-Done, mutating methods, host attempts,
   call-backs into Starlark, return / error / panic.  `call` is starlark.Call:
   frame push, CallInternal with its deferred clean-up, deferred frame pop.
   `true` selects the repaired interpreter (History.v has the pinned one). *)
From Coq Require Import ZArith List Bool.
From SV Require Import C06.Model C06.Spec C06.Proofs C06.ProofsLive.
Import ListNotations.
Open Scope Z_scope.

(* While a collection has a live iterator (itercount > 0) every mutator is
   refused and the heap -- this collection and every other -- is unchanged.
   (All mutators of list, dict and set go through check_mutable: value.go
   SetIndex/Append/Clear, hashtable insert/delete/clear, library.go list methods,
   INPLACE_ADD / INPLACE_PIPE.) *)
Theorem locked_rejects :
  forall h c m, 0 < ic h c -> mutate h c m = (h, false).
Proof. exact locked_rejects_lemma. Qed.

(* For every program tree, every heap and every depth: when the outermost call
   returns -- by RETURN, by an error at any instruction, by cancellation, by a Go
   panic from a built-in or from the interpreter -- every collection has the
   itercount and frozen flag it had before, and the call stack has its previous
   depth. *)
Theorem frame_balanced :
  forall p h d h' d' o,
    wf_heap h -> call true p h d = (h', d', o) ->
    d' = d /\ forall c, itercount (h' c) = itercount (h c) /\ frozen (h' c) = frozen (h c).
Proof. exact frame_balanced_lemma. Qed.

(* The same for host code entered directly (a built-in, or the consumer of a Go
   push iterator with its loop body calling back into Starlark), once its
   deferred Done calls have run. *)
Theorem builtin_balanced :
  forall b h d h1 ds d1 o,
    wf_heap h -> run_h true b h [] d = (h1, ds, d1, o) ->
    d1 = d /\ forall c, itercount (run_defers ds h1 c) = itercount (h c) /\
                        frozen (run_defers ds h1 c) = frozen (h c).
Proof. exact builtin_balanced_lemma. Qed.

(* During the call: whenever a mutation of a non-frozen collection c is attempted
   (by an opcode, a mutating method, or host code) while at least one iterator over
   c is live anywhere on the thread -- in the iterator stack of the running frame,
   of any enclosing frame, or held by a built-in in flight -- it is refused.
   `run_live` is run_prog instrumented with the list of live iterators; `violations`
   counts accepted mutations of a collection with a live iterator.  Hypotheses:
   the heap is consistent with the live list at the start (in particular: a fresh
   call on unlocked collections) and fewer than 2^32 iterators are ever live. *)
Theorem mutation_during_iteration_fails :
  forall p h its outer d,
    consistent h (its ++ outer) ->
    bounded_live p (length (its ++ outer)) ->
    violations_prog p h its outer d = 0%nat.
Proof. exact no_violation_lemma. Qed.

(* Go push iterators (iter.go), any number of Seq values created and ranged in
   any order, each range ended by exhaustion, break, return or panic: the
   collection's itercount is what it was. *)
Theorem push_balanced :
  forall c ops h, wf_heap h ->
    (forall x, push_run push_special c ops h x = h x) /\
    (forall x, push_run (push_generic true) c ops h x = h x).
Proof.
  intros c ops h W. split.
  - apply push_balanced_lemma; auto. intros h0 o W0. apply push_special_step, W0.
  - apply push_balanced_lemma; auto. intros h0 o W0. apply push_generic_step, W0.
Qed.

(* ---- non-vacuity ---- *)
(* nested loops over the same list, `a, b = l` (too many values) in the inner
   body: the premises of frame_balanced hold, the call fails, both locks are
   released; and inside the loops a mutation is refused (premise of locked_rejects) *)
Example frame_balanced_premises :
  let h := mk_heap [(false, [1; 2; 3]); (false, [1; 2; 3])] in
  let p := PAct (SIterPush (Some 0%nat)) (PAct SIterJmp (PAct (SIterPush (Some 0%nat)) (PAct SIterJmp
           (PAct (SUnpack 0%nat 2) (PExit ORet))))) in
  wf_heap h /\
  (let '(h', d', o) := call true p h 7%nat in o = OErr /\ d' = 7%nat /\ itercount (h' 0%nat) = 0) /\
  (let '(h1, its, _, _) := run_prog true (PAct (SIterPush (Some 0%nat)) (PAct SIterJmp (PExit ORet))) h [] 1%nat in
   0 < ic h1 0%nat /\ mutate h1 0%nat (MAppend 9) = (h1, false) /\ its = [Some 0%nat]).
Proof.
  split.
  - apply wf_mk_heap.
  - vm_compute. repeat split.
Qed.

(* the premises of mutation_during_iteration_fails hold for a fresh call on
   unlocked collections, and the instrumented run really meets mutations: here
   the append in the loop body is attempted with one live iterator and refused *)
Example live_premises :
  let h := mk_heap [(false, [1; 2; 3])] in
  let p := PAct (SIterPush (Some 0%nat)) (PAct SIterJmp
             (PBuiltin (HMutate 0 (MAppend 9) (HExit ORet)) (PExit ORet))) in
  consistent h ([] ++ []) /\ bounded_live p (length (@nil (option cid) ++ [])) /\
  (let '(h', _, _, o) := run_prog true p h [] 1 in o = OErr /\ content (h' 0%nat) = [1; 2; 3]) /\
  (* with the guard on itercount removed the same run would be a violation *)
  viol (mk_heap [(false, [1; 2; 3])]) 0%nat [Some 0%nat] = 1%nat.
Proof.
  split; [|split; [|split]].
  - intros c F. unfold ic, mk_heap. destruct (nth_error _ c) as [[fz l]|]; reflexivity.
  - unfold bounded_live. cbn. reflexivity.
  - vm_compute. split; reflexivity.
  - vm_compute. reflexivity.
Qed.

(* ======================================================================
   "As soon as the iteration ends by any path the collection is mutable again"
   WITHIN the function: a fact about compiler output.

   Vocabulary (C06/CodegenIter.v; the code generator is C01/Compile.v's model of
   internal/compile/compile.go, the machine C01/VM.v's model of interp.go):
   `gen_body p locals body` is the bytecode of a function body (any nesting of
   for / while / if / break / continue / return, assignments, expressions with
   and / or / conditional expressions and list / dict COMPREHENSIONS with any
   clauses, calls, def statements, load; a lambda body enters as the body
   `return e`).  `infer` is a forward dataflow over the instruction list that
   gives every reachable pc the depth of the frame's iterator stack: 0 at entry,
   +1 after ITERPUSH, -1 after ITERPOP (never below 0), unchanged otherwise, both
   successors of ITERJMP / CJMP followed, equal depths demanded at every join,
   every jump inside the code; RETURN has no successor (what is left is drained
   by the deferred clean-up of C06/Model.v).  `iter_depth_ok` = the dataflow
   succeeds, `depth_at` = the inferred depth.  `static_ann` is the annotation
   (#ITERPUSH - #ITERPOP in front of the pc), `ann_ok` its checker (all pcs, dead
   code included).  `spans_block` lists, from the SOURCE, for every statement at
   every nesting level (first pc, pc after its last instruction, number of
   enclosing for statements, is it a for statement).
   ====================================================================== *)
From Coq Require Import String.
From SV Require Import C01.Syntax C01.Values C01.Ref C01.VM C01.Compile.
From SV Require Import C06.CodegenIter C06.ProofsCodegenIter C06.ProofsCodegenIter2 C06.ProofsCodegenIter3 C06.ProofsCodegenIter4.
Open Scope nat_scope.
Open Scope string_scope.

(* For EVERY function body: the generated code passes the dataflow -- so every
   control-flow path from the ITERPUSH of a loop to an instruction after the loop
   (exhaustion through ITERJMP, `break`) passes exactly one ITERPOP, `continue`
   re-enters the ITERJMP with the iterator still pushed, and a `return` inside
   loops leaves them to the deferred clean-up --; the depth of every reachable
   pc is the static one; and at the first instruction of every statement as well
   as right after its last instruction the depth is the number of enclosing for
   statements (for unreachable statements, e.g. after a `break`, the dataflow
   assigns nothing and the static annotation still says so).  In particular for a
   for statement spanning [a, b): depth at b = depth at a. *)
Theorem codegen_pairs_iterpush :
  forall (p : program) (locals : list string) (body : list stmt),
    let code := gen_body p locals body in
    iter_depth_ok code = true /\
    depth_at code 0 = Some 0 /\
    ann_ok code (static_ann code) = true /\
    (forall pc d, depth_at code pc = Some d -> nth_error (static_ann code) pc = Some d) /\
    (forall a b d k, List.In (a, b, d, k) (spans_block p locals 0 0 body) ->
       a <= b /\ b < List.length code /\
       nth_error (static_ann code) a = Some d /\ nth_error (static_ann code) b = Some d /\
       (depth_at code a = Some d \/ depth_at code a = None) /\
       (depth_at code b = Some d \/ depth_at code b = None)).
Proof. exact codegen_pairs_iterpush_lemma. Qed.

(* What the dataflow means, for ANY bytecode (this is what checks/c06.py evaluates
   on the real compiler's output): if every function of a program passes it then
   in every state the machine reaches, every frame on the call stack has exactly
   `depth_at code pc` iterators on its iterator stack. *)
Theorem dataflow_sound :
  forall (cp : cprog) (fname : nat -> string) (nglobals : nat) (s : vstate),
    codes_ok cp -> reach cp fname (init_state cp nglobals) s ->
    Forall frame_depth_ok (vs_frames s).
Proof. exact dataflow_sound_lemma. Qed.

(* Every compiled program satisfies the premise ... *)
Theorem compiled_codes_ok : forall p : program, codes_ok (compile_prog p).
Proof. exact compile_codes_ok. Qed.

(* ... hence, in C06's terms: while a compiled function runs, whenever a frame is
   at the first instruction of a statement, or at the instruction that follows
   the statement -- reached by exhaustion, by `break`, or past an inner loop --,
   its iterator stack has as many entries as for statements enclose the statement:
   the ITERPOP of every loop that has been left has run, and ITERPOP is the call
   of Iterator.Done (VM.v: `release (it_lock it)`; Model.v: SIterPop -> done), so
   the collection's itercount has been decremented before the next statement of
   the same function executes.  (Which collection each stack entry locks, and the
   arithmetic of itercount, is C06/Model.v's side: locked_rejects,
   mutation_during_iteration_fails, frame_balanced.) *)
Theorem compiled_for_exit_depth :
  forall (p : program) (fname : nat -> string) (nglobals : nat) (s : vstate) (fr : frame)
         (locals : list string) (body : list stmt) (a b d : nat) (k : bool),
    reach (compile_prog p) fname (init_state (compile_prog p) nglobals) s ->
    List.In fr (vs_frames s) ->
    fr_code fr = gen_body p locals body ->
    List.In (a, b, d, k) (spans_block p locals 0 0 body) ->
    (fr_pc fr = a \/ fr_pc fr = b) ->
    List.length (fr_iters fr) = d.
Proof. exact compiled_span_depth_lemma. Qed.

(* ---- non-vacuity ---- *)
Definition ex_opts := {| o_set := true; o_while := true; o_recursion := true; o_toplevel := true |}.
Definition ex_nm (x : string) := EName x (1, 1).
(*  for x in l:
      if a: continue
      for y in l:
        if b: break
        elif c: return y
        while d:
          if e: break
          else: continue
        [z for z in l if z for w in z]
      if f: break
    g()                                                                   *)
Definition ex_locals := ["x"; "y"; "l"; "a"; "b"; "c"; "d"; "e"; "f"; "g"].
Definition ex_body : list stmt :=
  [ SFor (TName "x" (1, 1)) (ex_nm "l")
      [ SIf (ex_nm "a") [SContinue] [];
        SFor (TName "y" (2, 1)) (ex_nm "l")
          [ SIf (ex_nm "b") [SBreak] [SIf (ex_nm "c") [SReturn (Some (ex_nm "y"))] []];
            SWhile (ex_nm "d") [SIf (ex_nm "e") [SBreak] [SContinue]];
            SExpr (EComp false (ex_nm "z") (ex_nm "z") (0, 0)
                     [CFor (TName "z" (3, 1)) (ex_nm "l") (3, 2); CIf (ex_nm "z");
                      CFor (TName "w" (3, 1)) (ex_nm "z") (3, 3)] [10; 11]) ] (2, 2);
        SIf (ex_nm "f") [SBreak] [] ] (1, 2);
    SExpr (ECall (ex_nm "g") [] (9, 9)) ].

(* the dataflow on the concrete nested loop: accepted; the two for statements span
   [0,63) at depth 0 and [9,56) at depth 1; inside the inner body depth 2, inside
   the comprehension's two clauses 3 and 4, after each loop the depth is back; and
   a code whose `break` jumped past the ITERPOP is rejected *)
Example codegen_example :
  let code := gen_body {| p_opts := ex_opts; p_body := [] |} ex_locals ex_body in
  iter_depth_ok code = true /\
  filter (fun x => snd x) (spans_block {| p_opts := ex_opts; p_body := [] |} ex_locals 0 0 ex_body)
    = [(0, 63, 0, true); (9, 56, 1, true)] /\
  map (depth_at code) [0; 2; 9; 11; 13; 37; 44; 53; 56; 63; 67] =
    [Some 0; Some 1; Some 1; Some 2; Some 2; Some 3; Some 4; Some 2; Some 1; Some 0; Some 0] /\
  nth_error code 16 = Some (JMP 55) /\ nth_error code 55 = Some ITERPOP /\      (* break -> the ITERPOP *)
  nth_error code 7 = Some (JMP 2) /\ nth_error code 2 = Some (ITERJMP 62) /\    (* continue -> the ITERJMP *)
  nth_error code 22 = Some RETURN /\ depth_at code 22 = Some 2 /\               (* return inside two loops *)
  iter_depth_ok (CodegenIter.set_at 16 (JMP 56) code) = false.
Proof. vm_compute. repeat split. Qed.

(* the machine on a compiled module (premises of dataflow_sound / compiled_for_exit_depth):
     for x in [1, 2]:
       for y in [3, 4]:
         if y: break
         else: continue
       z = x
   after 12 steps it is in the inner body with two iterators, after 16 steps it has
   left the inner loop by `break` and is at the statement after it (pc 20, the end
   of the span [6,20) of the inner for statement) with one iterator, after 36 steps
   it is past the outer loop (pc 24) with none *)
Definition ex_module : program := {| p_opts := ex_opts; p_body :=
  [ SFor (TName "x" (1, 1)) (EList [EInt 1; EInt 2])
      [ SFor (TName "y" (2, 1)) (EList [EInt 3; EInt 4]) [ SIf (ex_nm "y") [SBreak] [SContinue] ] (2, 2);
        SAssign (TName "z" (3, 1)) (ex_nm "x") (3, 2) ] (1, 2) ] |}.

Example machine_example :
  let cp := compile_prog ex_module in
  let fname := fun _ : nat => "m" in
  let at_ k := match nsteps cp fname k (init_state cp 3) with
               | Some s => map (fun fr => (fr_pc fr, List.length (fr_iters fr))) (vs_frames s)
               | None => [] end in
  codes_ok cp /\
  (exists s, reach cp fname (init_state cp 3) s /\ nsteps cp fname 16 (init_state cp 3) = Some s) /\
  List.In (6, 20, 1, true) (spans_block ex_module (layout_top ex_module) 0 0 (p_body ex_module)) /\
  fc_code (cp_top cp) = gen_body ex_module (layout_top ex_module) (p_body ex_module) /\
  at_ 12 = [(12, 2)] /\ at_ 16 = [(20, 1)] /\ at_ 36 = [(24, 0)].
Proof.
  split; [apply compile_codes_ok|]. split.
  - destruct (nsteps (compile_prog ex_module) (fun _ => "m") 16 (init_state (compile_prog ex_module) 3)) as [s|] eqn:E.
    + exists s. split; [eapply nsteps_reach; eauto | reflexivity].
    + vm_compute in E. discriminate.
  - vm_compute. repeat split. right. left. reflexivity.
Qed.

(* ---- the iterator stack is a stack ----
   `locks fr` = the locks (collection identities, None for tuples / ranges) held by
   the iterators of a frame, newest first; `act h s` = the frame at height h of the
   call stack (an activation); `run_keeps cp fname h d s s'` = a run of the machine
   from s to s' during which that activation stays alive and never has fewer than
   d iterators; `oldest d l` = the d oldest entries of l. *)

(* ITERPOP is the call of Iterator.Done: it removes the newest iterator of the
   running frame and releases exactly its lock *)
Theorem iterpop_releases :
  forall (cp : cprog) (fname : nat -> string) (f : frame) (rest : list frame) (g : genv) (w : world) (s' : vstate),
    exec_insn cp fname ITERPOP f rest g w = Next s' ->
    exists it its f', fr_iters f = it :: its /\ vs_frames s' = f' :: rest /\ fr_iters f' = its /\
                      vs_w s' = release (it_lock it) w.
Proof. exact iterpop_releases_lemma. Qed.

(* any program, any run: while an activation keeps at least d iterators its d
   oldest locks do not change (instructions of this frame only push and pop at the
   top; calls made from it and returns into it leave its stack alone) *)
Theorem iter_stack_discipline :
  forall (cp : cprog) (fname : nat -> string) (h d : nat) (s s' : vstate),
    run_keeps cp fname h d s s' ->
    forall f f', act h s = Some f -> act h s' = Some f' ->
      d <= List.length (fr_iters f') /\ oldest d (locks f) = oldest d (locks f').
Proof. exact run_keeps_oldest_lemma. Qed.

(* compiled code: take a statement spanning [a, b) at static depth d -- a for
   statement in particular -- and a run that starts with the activation at a and
   ends with it at b without leaving an enclosing loop in between (never fewer than
   d iterators).  Then the activation holds at b exactly the locks it held at a:
   every iterator the statement pushed has been popped, i.e. Done has been called
   on it (iterpop_releases), whether the loop ended by exhaustion or by break; the
   hypothesis on the depth needs no check at a and b themselves
   (compiled_for_exit_depth). *)
Theorem compiled_stack_restored :
  forall (p : program) (fname : nat -> string) (nglobals h : nat) (s s' : vstate) (f f' : frame)
         (locals : list string) (body : list stmt) (a b d : nat) (k : bool),
    reach (compile_prog p) fname (init_state (compile_prog p) nglobals) s ->
    run_keeps (compile_prog p) fname h d s s' ->
    act h s = Some f -> act h s' = Some f' ->
    fr_code f = gen_body p locals body -> fr_code f' = gen_body p locals body ->
    List.In (a, b, d, k) (spans_block p locals 0 0 body) ->
    fr_pc f = a -> fr_pc f' = b ->
    locks f' = locks f.
Proof. exact compiled_stack_restored_lemma. Qed.

(* non-vacuity: in ex_module the inner for statement spans [6,20) at depth 1; the
   machine is at pc 6 after 6 steps holding the lock of the outer list (object 2),
   runs 10 steps through the inner loop (after 6 of them: pc 12, two iterators, the
   newer one on object 3, whose iterator count is 1) and through its break, never
   with fewer than 1 iterator, and stands at pc 20 holding again exactly the outer
   lock; object 3's iterator count is back to 0 *)
Definition ex_cp := compile_prog ex_module.
Definition ex_fn := fun _ : nat => "m".
Definition ex_obs (s : vstate) : option (nat * list (option nat)) :=
  match act 0 s with Some f => Some (fr_pc f, locks f) | None => None end.

Example stack_example_run :
  exists s s' sm,
    nsteps ex_cp ex_fn 6 (init_state ex_cp 3) = Some s /\
    keeps_n ex_cp ex_fn 0 1 10 s = Some s' /\
    nsteps ex_cp ex_fn 6 s = Some sm /\
    ex_obs s = Some (6, [Some 2]) /\ ex_obs sm = Some (12, [Some 3; Some 2]) /\ ex_obs s' = Some (20, [Some 2]) /\
    option_map fr_code (act 0 s) = Some (gen_body ex_module (layout_top ex_module) (p_body ex_module)) /\
    option_map fr_code (act 0 s') = Some (gen_body ex_module (layout_top ex_module) (p_body ex_module)) /\
    get_obj (vs_w sm) 3 = Some (OList [VInt 3; VInt 4] 1) /\
    get_obj (vs_w s') 3 = Some (OList [VInt 3; VInt 4] 0).
Proof.
  eexists. eexists. eexists.
  split; [vm_compute; reflexivity|].
  split; [vm_compute; reflexivity|].
  split; [vm_compute; reflexivity|].
  vm_compute. repeat split.
Qed.

(* ... so the premises of compiled_stack_restored hold together *)
Example stack_example :
  exists s s' f f',
    reach ex_cp ex_fn (init_state ex_cp 3) s /\ run_keeps ex_cp ex_fn 0 1 s s' /\
    act 0 s = Some f /\ act 0 s' = Some f' /\
    fr_code f = gen_body ex_module (layout_top ex_module) (p_body ex_module) /\
    fr_code f' = gen_body ex_module (layout_top ex_module) (p_body ex_module) /\
    List.In (6, 20, 1, true) (spans_block ex_module (layout_top ex_module) 0 0 (p_body ex_module)) /\
    fr_pc f = 6 /\ fr_pc f' = 20 /\ locks f = [Some 2] /\ locks f' = [Some 2].
Proof.
  destruct stack_example_run as (s & s' & sm & E1 & E2 & _ & O1 & _ & O2 & C1 & C2 & _).
  unfold ex_obs in O1, O2.
  destruct (act 0 s) as [f|] eqn:A; [|discriminate]. destruct (act 0 s') as [f'|] eqn:A'; [|discriminate].
  exists s, s', f, f'. injection O1 as P1 L1. injection O2 as P2 L2.
  cbn [option_map] in C1, C2. injection C1 as K1. injection C2 as K2.
  split; [eapply nsteps_reach; exact E1|]. split; [eapply keeps_n_sound; exact E2|].
  split; [exact A|]. split; [exact A'|]. split; [exact K1|]. split; [exact K2|].
  split; [vm_compute; right; left; reflexivity|].
  split; [exact P1|]. split; [exact P2|]. split; [exact L1 | exact L2].
Qed.
