(* C06 -- property theorems only.

   Vocabulary (C06/Model.v): a heap maps collection identities to {frozen,
   itercount (uint32, modulo 2^32), content}; `prog` is the tree of lock-relevant
   actions along one execution path of one Starlark frame -- ITERPUSH / ITERJMP /
   ITERPOP in ANY order (an ITERPOP on an empty iterator stack is the index panic
   the Go code would raise), mutating opcodes, UNPACK, CALL *args, nested calls of
   Starlark functions and of built-ins, and an exit (RETURN, error -- which
   includes cancellation at any loop head --, Go panic) at ANY point; `hprog` is a
   built-in: Iterate-with-deferred-Done, mutating methods, host attempts,
   call-backs into Starlark, return / error / panic.  `call` is starlark.Call:
   frame push, CallInternal with its deferred clean-up, deferred frame pop.
   `true` selects the repaired interpreter (History.v has the pinned one). *)
From Coq Require Import ZArith List Bool.
From SV Require Import C06.Model C06.Spec C06.Proofs C06.ProofsLive.
Import ListNotations.
Open Scope Z_scope.

(* While a collection has a live iterator (itercount > 0) every mutator is
   refused and the heap -- this collection and every other -- is unchanged.
   (All mutators of list, dict and set go through check_mutable: value.go
   SetIndex/Append/Clear, hashtable insert/delete/clear, library.go list methods,
   INPLACE_ADD / INPLACE_PIPE.) *)
Theorem locked_rejects :
  forall h c m, 0 < ic h c -> mutate h c m = (h, false).
Proof. exact locked_rejects_lemma. Qed.

(* For every program tree, every heap and every depth: when the outermost call
   returns -- by RETURN, by an error at any instruction, by cancellation, by a Go
   panic from a built-in or from the interpreter -- every collection has the
   itercount and frozen flag it had before, and the call stack has its previous
   depth. *)
Theorem frame_balanced :
  forall p h d h' d' o,
    wf_heap h -> call true p h d = (h', d', o) ->
    d' = d /\ forall c, itercount (h' c) = itercount (h c) /\ frozen (h' c) = frozen (h c).
Proof. exact frame_balanced_lemma. Qed.

(* The same for host code entered directly (a built-in, or the consumer of a Go
   push iterator with its loop body calling back into Starlark), once its
   deferred Done calls have run. *)
Theorem builtin_balanced :
  forall b h d h1 ds d1 o,
    wf_heap h -> run_h true b h [] d = (h1, ds, d1, o) ->
    d1 = d /\ forall c, itercount (run_defers ds h1 c) = itercount (h c) /\
                        frozen (run_defers ds h1 c) = frozen (h c).
Proof. exact builtin_balanced_lemma. Qed.

(* During the call: whenever a mutation of a non-frozen collection c is attempted
   (by an opcode, a mutating method, or host code) while at least one iterator over
   c is live anywhere on the thread -- in the iterator stack of the running frame,
   of any enclosing frame, or held by a built-in in flight -- it is refused.
   `run_live` is run_prog instrumented with the list of live iterators; `violations`
   counts accepted mutations of a collection with a live iterator.  Hypotheses:
   the heap is consistent with the live list at the start (in particular: a fresh
   call on unlocked collections) and fewer than 2^32 iterators are ever live. *)
Theorem mutation_during_iteration_fails :
  forall p h its outer d,
    consistent h (its ++ outer) ->
    bounded_live p (length (its ++ outer)) ->
    violations_prog p h its outer d = 0%nat.
Proof. exact no_violation_lemma. Qed.

(* Go push iterators (iter.go), any number of Seq values created and ranged in
   any order, each range ended by exhaustion, break, return or panic: the
   collection's itercount is what it was. *)
Theorem push_balanced :
  forall c ops h, wf_heap h ->
    (forall x, push_run push_special c ops h x = h x) /\
    (forall x, push_run (push_generic true) c ops h x = h x).
Proof.
  intros c ops h W. split.
  - apply push_balanced_lemma; auto. intros h0 o W0. apply push_special_step, W0.
  - apply push_balanced_lemma; auto. intros h0 o W0. apply push_generic_step, W0.
Qed.

(* ---- non-vacuity ---- *)
(* nested loops over the same list, `a, b = l` (too many values) in the inner
   body: the premises of frame_balanced hold, the call fails, both locks are
   released; and inside the loops a mutation is refused (premise of locked_rejects) *)
Example frame_balanced_premises :
  let h := mk_heap [(false, [1; 2; 3]); (false, [1; 2; 3])] in
  let p := PAct (SIterPush (Some 0%nat)) (PAct SIterJmp (PAct (SIterPush (Some 0%nat)) (PAct SIterJmp
           (PAct (SUnpack 0%nat 2) (PExit ORet))))) in
  wf_heap h /\
  (let '(h', d', o) := call true p h 7%nat in o = OErr /\ d' = 7%nat /\ itercount (h' 0%nat) = 0) /\
  (let '(h1, its, _, _) := run_prog true (PAct (SIterPush (Some 0%nat)) (PAct SIterJmp (PExit ORet))) h [] 1%nat in
   0 < ic h1 0%nat /\ mutate h1 0%nat (MAppend 9) = (h1, false) /\ its = [Some 0%nat]).
Proof.
  split.
  - apply wf_mk_heap.
  - vm_compute. repeat split.
Qed.

(* the premises of mutation_during_iteration_fails hold for a fresh call on
   unlocked collections, and the instrumented run really meets mutations: here
   the append in the loop body is attempted with one live iterator and refused *)
Example live_premises :
  let h := mk_heap [(false, [1; 2; 3])] in
  let p := PAct (SIterPush (Some 0%nat)) (PAct SIterJmp
             (PBuiltin (HMutate 0 (MAppend 9) (HExit ORet)) (PExit ORet))) in
  consistent h ([] ++ []) /\ bounded_live p (length (@nil (option cid) ++ [])) /\
  (let '(h', _, _, o) := run_prog true p h [] 1 in o = OErr /\ content (h' 0%nat) = [1; 2; 3]) /\
  (* with the guard on itercount removed the same run would be a violation *)
  viol (mk_heap [(false, [1; 2; 3])]) 0%nat [Some 0%nat] = 1%nat.
Proof.
  split; [|split; [|split]].
  - intros c F. unfold ic, mk_heap. destruct (nth_error _ c) as [[fz l]|]; reflexivity.
  - unfold bounded_live. cbn. reflexivity.
  - vm_compute. split; reflexivity.
  - vm_compute. reflexivity.
Qed.
