(* C06 -- mutation during iteration / locks and thread state restored:
   executable model (no proofs).

   Mirrors, from /repo/starlark:
     value.go      List{frozen,itercount}, checkMutable, Iterate, listIterator.Done,
                   SetIndex/Append/Clear
     hashtable.go  hashtable{frozen,itercount}, checkMutable, iterate, keyIterator.Done,
                   insert/delete/clear, entries (push iterator: itercount++ ; defer itercount--)
     interp.go     Function.CallInternal: iterstack, ITERPUSH / ITERJMP / ITERPOP, UNPACK,
                   CALL with *args (temporary iterators), every `break loop`, the deferred
                   clean-up (drain iterstack calling Done, fr.locals = nil)
     eval.go       Call: frame push, deferred frame pop
     library.go    built-ins that iterate: `iter := x.Iterate(); defer iter.Done()` at every site
     iter.go       Elements / Entries push iterators

   itercount is a uint32: Iterate adds 1, Done subtracts 1, both modulo 2^32, and
   neither touches a frozen collection.  A program is a tree of the lock-relevant
   actions along one execution path: EVERY instruction sequence and every exit
   path unfolds to such a tree (the theorems quantify over all trees), including
   sequences no compiler would emit (ITERPOP on an empty iterator stack panics
   with an index error, which takes the panic path through the deferred clean-up). *)
From Coq Require Import ZArith List Bool.
Import ListNotations.
Open Scope Z_scope.

Definition cid := nat.                       (* a list, dict or set, by identity *)
Bind Scope nat_scope with cid.
Definition M32 : Z := 4294967296.

Record coll := mkColl { frozen : bool; itercount : Z; content : list Z }.
Definition heap := cid -> coll.

Definition upd (h : heap) (c : cid) (v : coll) : heap :=
  fun x => if Nat.eqb x c then v else h x.

Definition ic (h : heap) (c : cid) : Z := itercount (h c).

(* List.Iterate / hashtable.iterate: `if !frozen { itercount++ }` *)
Definition iterate (h : heap) (c : cid) : heap :=
  if frozen (h c) then h
  else upd h c (mkColl false ((itercount (h c) + 1) mod M32) (content (h c))).

(* Iterator.Done: `if !frozen { itercount-- }` *)
Definition done (h : heap) (c : cid) : heap :=
  if frozen (h c) then h
  else upd h c (mkColl false ((itercount (h c) - 1) mod M32) (content (h c))).

(* ---- mutators ---- *)
Inductive mut :=
| MAppend (v : Z)              (* list.append, set.add, dict[k] = v with a new key, Append, SetKey, Insert *)
| MSetIndex (i : nat) (v : Z)  (* l[i] = v, dict[k] = v with an existing key *)
| MClear
| MInsert (i : nat) (v : Z)
| MPop                         (* pop / popitem / remove / discard / Delete of a present element *)
| MExtend (l : list Z).        (* extend, +=, update, |= *)

Fixpoint set_nth (i : nat) (v : Z) (l : list Z) : option (list Z) :=
  match l, i with
  | [], _ => None
  | _ :: r, O => Some (v :: r)
  | x :: r, S j => match set_nth j v r with Some r' => Some (x :: r') | None => None end
  end.

(* the operation itself on the content; None = it fails for a reason of its own
   (index out of range, pop from empty) *)
Definition apply_mut (m : mut) (l : list Z) : option (list Z) :=
  match m with
  | MAppend v => Some (l ++ [v])
  | MSetIndex i v => set_nth i v l
  | MClear => Some []
  | MInsert i v => Some (firstn i l ++ v :: skipn i l)
  | MPop => match rev l with [] => None | _ :: r => Some (rev r) end
  | MExtend l2 => Some (l ++ l2)
  end.

(* checkMutable: frozen, then itercount > 0 *)
Definition check_mutable (h : heap) (c : cid) : bool :=
  negb (frozen (h c)) && negb (0 <? itercount (h c)).

(* a mutator: (heap afterwards, accepted?) -- every mutator calls checkMutable first *)
Definition mutate (h : heap) (c : cid) (m : mut) : heap * bool :=
  if check_mutable h c then
    match apply_mut m (content (h c)) with
    | Some l => (upd h c (mkColl (frozen (h c)) (itercount (h c)) l), true)
    | None => (h, false)
    end
  else (h, false).

(* ---- programs ---- *)
Inductive outcome := ORet | OErr | OPanic.

Inductive sact :=
| SIterPush (c : option cid)     (* ITERPUSH; None: an iterable that is not a list/dict/set *)
| SIterPop                       (* ITERPOP *)
| SIterJmp                       (* ITERJMP (either branch) *)
| SMutate (c : cid) (m : mut)    (* SETINDEX / SETDICT / INPLACE_ADD / INPLACE_PIPE ...: err -> break loop *)
| SUnpack (c : cid) (n : nat)    (* UNPACK n over collection c *)
| SStarArgs (c : cid)            (* CALL_VAR: iter := Iterate(args); for iter.Next..; iter.Done() *)
| SNop.                          (* any other instruction that succeeds *)

Inductive prog :=                (* one Starlark frame, along one execution path *)
| PExit (o : outcome)            (* RETURN; err != nil (also cancellation at the loop head); a Go panic *)
| PAct (a : sact) (k : prog)
| PCall (callee : prog) (k : prog)       (* CALL of a Starlark function *)
| PBuiltin (b : hprog) (k : prog)        (* CALL of a built-in *)
with hprog :=                    (* a built-in / host function, along one execution path *)
| HExit (o : outcome)            (* return v, nil / return nil, err / panic *)
| HIterDefer (c : cid) (k : hprog)       (* iter := c.Iterate(); defer iter.Done() *)
| HMutate (c : cid) (m : mut) (k : hprog) (* a mutating method: checkMutable; on error return it *)
| HAttempt (c : cid) (m : mut) (k : hprog) (* host code tries a mutation and carries on whatever the result *)
| HCall (callee : prog) (k : hprog).     (* starlark.Call from host code; on error return it *)

(* `fixed` = false is the interpreter as it was on the pinned tree (UNPACK left
   its iterator open on "too many values"); true is the repaired code. *)
Section Run.
  Variable fixed : bool.

  Definition do_act (a : sact) (h : heap) (its : list (option cid))
    : heap * list (option cid) * option outcome :=
    match a with
    | SIterPush (Some c) => (iterate h c, Some c :: its, None)
    | SIterPush None => (h, None :: its, None)
    | SIterPop => match its with
                  | [] => (h, its, Some OPanic)                 (* iterstack[-1]: index out of range *)
                  | Some c :: r => (done h c, r, None)
                  | None :: r => (h, r, None)
                  end
    | SIterJmp => match its with [] => (h, its, Some OPanic) | _ => (h, its, None) end
    | SMutate c m => let (h', ok) := mutate h c m in (h', its, if ok then None else Some OErr)
    | SUnpack c n =>
        let h1 := iterate h c in
        let len := length (content (h c)) in
        if (n <? len)%nat then                                   (* "too many values to unpack" *)
          (if fixed then done h1 c else h1, its, Some OErr)
        else let h2 := done h1 c in
             if (len <? n)%nat then (h2, its, Some OErr)        (* "too few values to unpack" *)
             else (h2, its, None)
    | SStarArgs c => (done (iterate h c) c, its, None)
    | SNop => (h, its, None)
    end.

  (* the deferred function of CallInternal: Done for every iterator still on the stack *)
  Fixpoint drain (its : list (option cid)) (h : heap) : heap :=
    match its with
    | [] => h
    | Some c :: r => drain r (done h c)
    | None :: r => drain r h
    end.

  Fixpoint run_defers (ds : list cid) (h : heap) : heap :=
    match ds with [] => h | c :: r => run_defers r (done h c) end.

  (* d = len(thread.stack).  Returns the heap, the frame's iterator stack (resp.
     the built-in's pending defers), the call-stack depth and how the loop was left. *)
  Fixpoint run_prog (p : prog) (h : heap) (its : list (option cid)) (d : nat)
    : heap * list (option cid) * nat * outcome :=
    match p with
    | PExit o => (h, its, d, o)
    | PAct a k =>
        match do_act a h its with
        | (h', its', None) => run_prog k h' its' d
        | (h', its', Some o) => (h', its', d, o)
        end
    | PCall callee k =>
        (* Call: push; CallInternal; deferred clean-up; deferred pop *)
        match run_prog callee h [] (S d) with
        | (h1, its1, d1, o) =>
            let h2 := drain its1 h1 in
            let d2 := pred d1 in
            match o with
            | ORet => run_prog k h2 its d2
            | _ => (h2, its, d2, o)
            end
        end
    | PBuiltin b k =>
        match run_h b h [] (S d) with
        | (h1, ds, d1, o) =>
            let h2 := run_defers ds h1 in
            let d2 := pred d1 in
            match o with
            | ORet => run_prog k h2 its d2
            | _ => (h2, its, d2, o)
            end
        end
    end
  with run_h (b : hprog) (h : heap) (ds : list cid) (d : nat) : heap * list cid * nat * outcome :=
    match b with
    | HExit o => (h, ds, d, o)
    | HIterDefer c k => run_h k (iterate h c) (c :: ds) d
    | HMutate c m k => let (h', ok) := mutate h c m in
                       if ok then run_h k h' ds d else (h', ds, d, OErr)
    | HAttempt c m k => let (h', _) := mutate h c m in run_h k h' ds d
    | HCall callee k =>
        match run_prog callee h [] (S d) with
        | (h1, its1, d1, o) =>
            let h2 := drain its1 h1 in
            let d2 := pred d1 in
            match o with
            | ORet => run_h k h2 ds d2
            | _ => (h2, ds, d2, o)
            end
        end
    end.

  (* starlark.Call(thread, fn, ...) by the host on a thread whose stack has depth d *)
  Definition call (p : prog) (h : heap) (d : nat) : heap * nat * outcome :=
    match run_prog p h [] (S d) with
    | (h1, its1, d1, o) => (drain its1 h1, pred d1, o)
    end.
End Run.

(* ---- Go push iterators (iter.go) ---- *)
Inductive pushop :=
| GCreate            (* seq := starlark.Elements(x) / starlark.Entries(x) / x.Elements() / d.Entries() *)
| GRange.            (* for ... := range seq { ... } -- ended by exhaustion, break, return or panic alike *)

(* specialised iterators (List.Elements, Set.Elements, Dict.Entries = hashtable.entries):
   nothing at creation; `itercount++; defer itercount--` around the loop *)
Definition push_special (h : heap) (c : cid) (o : pushop) : heap :=
  match o with GCreate => h | GRange => done (iterate h c) c end.

(* the generic path (e.g. starlark.Elements(dict)) *)
Definition push_generic (lazy : bool) (h : heap) (c : cid) (o : pushop) : heap :=
  if lazy then                              (* repaired: iter := x.Iterate() inside the returned func *)
    match o with GCreate => h | GRange => done (iterate h c) c end
  else                                      (* pinned tree: Iterate() when the Seq is created *)
    match o with GCreate => iterate h c | GRange => done h c end.

Definition push_run (step : heap -> cid -> pushop -> heap) (c : cid) (ops : list pushop) (h : heap) : heap :=
  fold_left (fun h o => step h c o) ops h.

(* a heap for examples and for the correspondence check: collection i has the given content *)
Definition mk_heap (cs : list (bool * list Z)) : heap :=
  fun c => match nth_error cs c with
           | Some (fz, l) => mkColl fz 0 l
           | None => mkColl true 0 []
           end.
