(* C06 -- "mutation during iteration fails": the run instrumented with the list of
   live iterators; no accepted mutation ever targets a collection that has one. *)
From Coq Require Import ZArith List Bool Lia PeanoNat.
From SV Require Import C06.Model C06.Proofs.
Import ListNotations.
Open Scope Z_scope.

(* an accepted mutation of a collection with a live iterator *)
Definition viol (h : heap) (c : cid) (live : list (option cid)) : nat :=
  if check_mutable h c && (0 <? cnt c live) then 1%nat else 0%nat.

Definition viol_act (a : sact) (h : heap) (live : list (option cid)) : nat :=
  match a with SMutate c _ => viol h c live | _ => 0%nat end.

(* `its`: iterator stack of the running frame (resp. `ds`: iterators a built-in
   will release on return); `outer`: those of all enclosing frames and built-ins *)
Fixpoint violations_prog (p : prog) (h : heap) (its outer : list (option cid)) (d : nat) : nat :=
  match p with
  | PExit _ => 0%nat
  | PAct a k =>
      (viol_act a h (its ++ outer) +
       match do_act true a h its with
       | (h', its', None) => violations_prog k h' its' outer d
       | _ => 0
       end)%nat
  | PCall callee k =>
      (violations_prog callee h [] (its ++ outer) (S d) +
       match run_prog true callee h [] (S d) with
       | (h1, its1, d1, ORet) => violations_prog k (drain its1 h1) its outer (pred d1)
       | _ => 0
       end)%nat
  | PBuiltin b k =>
      (violations_h b h [] (its ++ outer) (S d) +
       match run_h true b h [] (S d) with
       | (h1, ds, d1, ORet) => violations_prog k (run_defers ds h1) its outer (pred d1)
       | _ => 0
       end)%nat
  end
with violations_h (b : hprog) (h : heap) (ds : list cid) (outer : list (option cid)) (d : nat) : nat :=
  match b with
  | HExit _ => 0%nat
  | HIterDefer c k => violations_h k (iterate h c) (c :: ds) outer d
  | HMutate c m k =>
      (viol h c (map Some ds ++ outer) +
       (let (h', ok) := mutate h c m in if ok then violations_h k h' ds outer d else 0))%nat
  | HAttempt c m k =>
      (viol h c (map Some ds ++ outer) +
       (let (h', _) := mutate h c m in violations_h k h' ds outer d))%nat
  | HCall callee k =>
      (violations_prog callee h [] (map Some ds ++ outer) (S d) +
       match run_prog true callee h [] (S d) with
       | (h1, its1, d1, ORet) => violations_h k (drain its1 h1) ds outer (pred d1)
       | _ => 0
       end)%nat
  end.

Fixpoint weight (p : prog) : nat :=
  match p with
  | PExit _ => 0
  | PAct _ k => S (weight k)
  | PCall c k => S (weight c + weight k)
  | PBuiltin b k => S (hweight b + weight k)
  end
with hweight (b : hprog) : nat :=
  match b with
  | HExit _ => 0
  | HIterDefer _ k => S (hweight k)
  | HMutate _ _ k => S (hweight k)
  | HAttempt _ _ k => S (hweight k)
  | HCall c k => S (weight c + hweight k)
  end.

(* every non-frozen collection's itercount is exactly its number of live iterators *)
Definition consistent (h : heap) (live : list (option cid)) : Prop :=
  forall c, frozen (h c) = false -> ic h c = cnt c live.

(* fewer than 2^32 iterators can ever be live *)
Definition bounded_live (p : prog) (n : nat) : Prop := Z.of_nat n + Z.of_nat (weight p) < M32.
Definition bounded_live_h (b : hprog) (n : nat) : Prop := Z.of_nat n + Z.of_nat (hweight b) < M32.

Lemma cnt_app c a b : cnt c (a ++ b) = cnt c a + cnt c b.
Proof. induction a as [|[x|] a IH]; cbn [cnt app]; lia. Qed.

Lemma cnt_bounds c l : 0 <= cnt c l <= Z.of_nat (length l).
Proof.
  induction l as [|[x|] l IH]; cbn [cnt length]; try lia.
  destruct (Nat.eqb x c); lia.
Qed.

Lemma viol_zero h c live : consistent h live -> viol h c live = 0%nat.
Proof.
  intros C. unfold viol, check_mutable. destruct (frozen (h c)) eqn:F; cbn; auto.
  destruct (0 <? itercount (h c)) eqn:E; cbn; auto.
  specialize (C c F). unfold ic in C. rewrite <- C, E. reflexivity.
Qed.

Lemma consistent_iterate h c live :
  consistent h live -> Z.of_nat (length live) + 1 < M32 -> consistent (iterate h c) (Some c :: live).
Proof.
  unfold consistent. intros C B x F. unfold iterate in *. destruct (frozen (h c)) eqn:Fc.
  - cbn [cnt]. destruct (Nat.eqb c x) eqn:E; [apply Nat.eqb_eq in E; subst; congruence|].
    rewrite (C x F). lia.
  - unfold ic, upd in *. destruct (Nat.eqb x c) eqn:E.
    + apply Nat.eqb_eq in E. subst x. cbn. rewrite Nat.eqb_refl.
      specialize (C c Fc). unfold ic in C. rewrite C.
      pose proof (cnt_bounds c live). rewrite Z.mod_small; lia.
    + cbn [cnt]. rewrite Nat.eqb_sym, E. rewrite (C x F). lia.
Qed.

Lemma consistent_done h c live :
  consistent h (Some c :: live) -> Z.of_nat (length live) + 1 < M32 -> consistent (done h c) live.
Proof.
  unfold consistent. intros C B x F. unfold done in *. destruct (frozen (h c)) eqn:Fc.
  - specialize (C x F). cbn [cnt] in C.
    destruct (Nat.eqb c x) eqn:E; [apply Nat.eqb_eq in E; subst; congruence|]. lia.
  - unfold ic, upd in *. destruct (Nat.eqb x c) eqn:E.
    + apply Nat.eqb_eq in E. subst x. cbn.
      specialize (C c Fc). cbn [cnt] in C. rewrite Nat.eqb_refl in C. unfold ic in C. rewrite C.
      pose proof (cnt_bounds c live). rewrite Z.mod_small; lia.
    + specialize (C x F). cbn [cnt] in C. rewrite Nat.eqb_sym, E in C. lia.
Qed.

Lemma consistent_mutate h c m h' ok live :
  mutate h c m = (h', ok) -> consistent h live -> consistent h' live.
Proof.
  intros E C x F. destruct (mutate_locks _ _ _ _ _ x E) as [A B].
  unfold ic. rewrite B. apply C. congruence.
Qed.

Lemma consistent_drain its : forall h outer,
  consistent h (its ++ outer) -> Z.of_nat (length (its ++ outer)) < M32 -> consistent (drain its h) outer.
Proof.
  induction its as [|[c|] r IH]; intros h outer C B; cbn [drain app length] in *; auto.
  - apply IH; [apply consistent_done; [exact C|lia]|lia].
  - apply IH; [|lia]. intros x F. rewrite (C x F). reflexivity.
Qed.

Lemma consistent_defers ds : forall h outer,
  consistent h (map Some ds ++ outer) -> Z.of_nat (length (map Some ds ++ outer)) < M32 ->
  consistent (run_defers ds h) outer.
Proof.
  induction ds as [|c r IH]; intros h outer C B; cbn [run_defers map app length] in *; auto.
  apply IH; [apply consistent_done; [exact C|lia]|lia].
Qed.

Lemma do_act_consistent a h its outer h' its' o :
  consistent h (its ++ outer) -> Z.of_nat (length (its ++ outer)) + 1 < M32 ->
  do_act true a h its = (h', its', o) ->
  consistent h' (its' ++ outer) /\ (length its' <= S (length its))%nat.
Proof.
  intros C B E. destruct a as [[c|]| | |c m|c n|c|]; cbn [do_act] in E.
  - injection E as <- <- <-. split; [apply (consistent_iterate h c (its ++ outer)); [exact C|exact B]|cbn; lia].
  - injection E as <- <- <-. split; [|cbn; lia]. intros x F. rewrite (C x F). reflexivity.
  - destruct its as [|[c|] r]; injection E as <- <- <-.
    + split; [exact C|lia].
    + split; [apply consistent_done; [exact C|cbn [app length] in B; lia]|cbn; lia].
    + split; [|cbn; lia]. intros x F. rewrite (C x F). reflexivity.
  - destruct its; injection E as <- <- <-; (split; [exact C|lia]).
  - destruct (mutate h c m) as [h1 ok] eqn:Em. injection E as <- <- <-.
    split; [eapply consistent_mutate; eauto|lia].
  - assert (A : consistent (done (iterate h c) c) (its ++ outer))
      by (apply consistent_done; [apply consistent_iterate; [exact C|lia]|lia]).
    destruct (n <? length (content (h c)))%nat; [injection E as <- <- <-; split; [exact A|lia]|].
    destruct (length (content (h c)) <? n)%nat; injection E as <- <- <-; (split; [exact A|lia]).
  - injection E as <- <- <-. split; [|lia].
    apply consistent_done; [apply consistent_iterate; [exact C|lia]|lia].
  - injection E as <- <- <-. split; [exact C|lia].
Qed.

Definition Q_prog (p : prog) : Prop :=
  forall h its outer d,
    consistent h (its ++ outer) -> bounded_live p (length (its ++ outer)) ->
    violations_prog p h its outer d = 0%nat /\
    forall h' its' d' o, run_prog true p h its d = (h', its', d', o) ->
      consistent h' (its' ++ outer) /\ (length its' <= length its + weight p)%nat.

Definition Q_hprog (b : hprog) : Prop :=
  forall h ds outer d,
    consistent h (map Some ds ++ outer) -> bounded_live_h b (length (map Some ds ++ outer)) ->
    violations_h b h ds outer d = 0%nat /\
    forall h' ds' d' o, run_h true b h ds d = (h', ds', d', o) ->
      consistent h' (map Some ds' ++ outer) /\ (length ds' <= length ds + hweight b)%nat.

Lemma violations_builtin_eq b k h its outer d :
  violations_prog (PBuiltin b k) h its outer d =
  (violations_h b h [] (its ++ outer) (S d) +
   match run_h true b h [] (S d) with
   | (h1, ds, d1, ORet) => violations_prog k (run_defers ds h1) its outer (pred d1)
   | _ => 0
   end)%nat.
Proof. reflexivity. Qed.

Lemma violations_hcall_eq callee k h ds outer d :
  violations_h (HCall callee k) h ds outer d =
  (violations_prog callee h [] (map Some ds ++ outer) (S d) +
   match run_prog true callee h [] (S d) with
   | (h1, its1, d1, ORet) => violations_h k (drain its1 h1) ds outer (pred d1)
   | _ => 0
   end)%nat.
Proof. reflexivity. Qed.

Lemma live_mutual : (forall p, Q_prog p) /\ (forall b, Q_hprog b).
Proof.
  apply prog_hprog_ind; unfold Q_prog, Q_hprog, bounded_live, bounded_live_h.
  - (* PExit *) intros o h its outer d C B. split; auto.
    intros h' its' d' o' E. cbn in E. injection E as <- <- <- <-. split; [exact C|lia].
  - (* PAct *) intros a k IHk h its outer d C B. cbn [weight] in B.
    cbn [violations_prog run_prog].
    assert (V : viol_act a h (its ++ outer) = 0%nat) by (destruct a; cbn; auto; apply viol_zero, C).
    rewrite V. destruct (do_act true a h its) as [[h1 its1] [o1|]] eqn:Ea.
    + destruct (do_act_consistent _ _ _ _ _ _ _ C ltac:(lia) Ea) as [C1 L1].
      split; auto. intros h' its' d' o E. injection E as <- <- <- <-. split; [exact C1|cbn [weight]; lia].
    + destruct (do_act_consistent _ _ _ _ _ _ _ C ltac:(lia) Ea) as [C1 L1].
      assert (B1 : Z.of_nat (length (its1 ++ outer)) + Z.of_nat (weight k) < M32)
        by (rewrite !app_length in *; lia).
      destruct (IHk h1 its1 outer d C1 B1) as [V1 R1]. split; [exact V1|].
      intros h' its' d' o E. destruct (R1 _ _ _ _ E) as [C2 L2]. split; [exact C2|cbn [weight]; lia].
  - (* PCall *) intros callee IHc k IHk h its outer d C B. cbn [weight] in B.
    cbn [violations_prog run_prog].
    destruct (IHc h [] (its ++ outer) (S d) C ltac:(cbn [app]; lia)) as [Vc Rc].
    rewrite Vc. destruct (run_prog true callee h [] (S d)) as [[[h1 its1] d1] o1] eqn:Ec.
    destruct (Rc _ _ _ _ eq_refl) as [C1 L1]. cbn [length] in L1.
    assert (C2 : consistent (drain its1 h1) (its ++ outer))
      by (apply consistent_drain; [exact C1|rewrite app_length; lia]).
    destruct o1.
    + destruct (IHk (drain its1 h1) its outer (pred d1) C2 ltac:(lia)) as [Vk Rk]. split; [exact Vk|].
      intros h' its' d' o E. destruct (Rk _ _ _ _ E) as [C3 L3]. split; [exact C3|cbn [weight]; lia].
    + split; auto. intros h' its' d' o E. injection E as <- <- <- <-. split; [exact C2|lia].
    + split; auto. intros h' its' d' o E. injection E as <- <- <- <-. split; [exact C2|lia].
  - (* PBuiltin *) intros b IHb k IHk h its outer d C B. cbn [weight] in B.
    rewrite violations_builtin_eq.
    destruct (IHb h [] (its ++ outer) (S d) C ltac:(cbn [app map]; lia)) as [Vb Rb].
    rewrite Vb.
    assert (RE : forall h' its' d' o, run_prog true (PBuiltin b k) h its d = (h', its', d', o) ->
                 consistent h' (its' ++ outer) /\ (length its' <= length its + weight (PBuiltin b k))%nat).
    { intros h' its' d' o E. rewrite run_prog_builtin_eq in E.
      destruct (run_h true b h [] (S d)) as [[[h1 ds1] d1] o1] eqn:Ec.
      destruct (Rb _ _ _ _ eq_refl) as [C1 L1]. cbn [length] in L1.
      assert (C2 : consistent (run_defers ds1 h1) (its ++ outer))
        by (apply consistent_defers; [exact C1|rewrite app_length, map_length; lia]).
      destruct o1.
      - destruct (IHk (run_defers ds1 h1) its outer (pred d1) C2 ltac:(lia)) as [Vk Rk].
        destruct (Rk _ _ _ _ E) as [C3 L3]. split; [exact C3|cbn [weight]; lia].
      - injection E as <- <- <- <-. split; [exact C2|lia].
      - injection E as <- <- <- <-. split; [exact C2|lia]. }
    split; [|exact RE].
    destruct (run_h true b h [] (S d)) as [[[h1 ds1] d1] o1] eqn:Ec.
    destruct (Rb _ _ _ _ eq_refl) as [C1 L1]. cbn [length] in L1.
    assert (C2 : consistent (run_defers ds1 h1) (its ++ outer))
      by (apply consistent_defers; [exact C1|rewrite app_length, map_length; lia]).
    destruct o1; auto.
    destruct (IHk (run_defers ds1 h1) its outer (pred d1) C2 ltac:(lia)) as [Vk Rk]. exact Vk.
  - (* HExit *) intros o h ds outer d C B. split; auto.
    intros h' ds' d' o' E. cbn in E. injection E as <- <- <- <-. split; [exact C|lia].
  - (* HIterDefer *) intros c k IHk h ds outer d C B. cbn [hweight] in B.
    cbn [violations_h run_h].
    assert (C1 : consistent (iterate h c) (map Some (c :: ds) ++ outer))
      by (cbn [map app]; apply consistent_iterate; [exact C|lia]).
    destruct (IHk (iterate h c) (c :: ds) outer d C1 ltac:(cbn [map app length] in *; lia)) as [V R].
    split; [exact V|]. intros h' ds' d' o E. destruct (R _ _ _ _ E) as [C2 L2].
    split; [exact C2|cbn [hweight length] in *; lia].
  - (* HMutate *) intros c m k IHk h ds outer d C B. cbn [hweight] in B.
    cbn [violations_h run_h]. rewrite (viol_zero _ _ _ C).
    destruct (mutate h c m) as [h1 ok] eqn:Em.
    pose proof (consistent_mutate _ _ _ _ _ _ Em C) as C1.
    destruct ok.
    + destruct (IHk h1 ds outer d C1 ltac:(lia)) as [V R]. split; [exact V|].
      intros h' ds' d' o E. destruct (R _ _ _ _ E) as [C2 L2]. split; [exact C2|cbn [hweight]; lia].
    + split; auto. intros h' ds' d' o E. injection E as <- <- <- <-. split; [exact C1|lia].
  - (* HAttempt *) intros c m k IHk h ds outer d C B. cbn [hweight] in B.
    cbn [violations_h run_h]. rewrite (viol_zero _ _ _ C).
    destruct (mutate h c m) as [h1 ok] eqn:Em.
    pose proof (consistent_mutate _ _ _ _ _ _ Em C) as C1.
    destruct (IHk h1 ds outer d C1 ltac:(lia)) as [V R]. split; [exact V|].
    intros h' ds' d' o E. destruct (R _ _ _ _ E) as [C2 L2]. split; [exact C2|cbn [hweight]; lia].
  - (* HCall *) intros callee IHc k IHk h ds outer d C B. cbn [hweight] in B.
    rewrite violations_hcall_eq.
    destruct (IHc h [] (map Some ds ++ outer) (S d) C ltac:(cbn [app]; lia)) as [Vc Rc].
    rewrite Vc.
    assert (RE : forall h' ds' d' o, run_h true (HCall callee k) h ds d = (h', ds', d', o) ->
                 consistent h' (map Some ds' ++ outer) /\ (length ds' <= length ds + hweight (HCall callee k))%nat).
    { intros h' ds' d' o E. rewrite run_h_call_eq in E.
      destruct (run_prog true callee h [] (S d)) as [[[h1 its1] d1] o1] eqn:Ec.
      destruct (Rc _ _ _ _ eq_refl) as [C1 L1]. cbn [length] in L1.
      assert (C2 : consistent (drain its1 h1) (map Some ds ++ outer))
        by (apply consistent_drain; [exact C1|rewrite app_length; lia]).
      destruct o1.
      - destruct (IHk (drain its1 h1) ds outer (pred d1) C2 ltac:(lia)) as [Vk Rk].
        destruct (Rk _ _ _ _ E) as [C3 L3]. split; [exact C3|cbn [hweight]; lia].
      - injection E as <- <- <- <-. split; [exact C2|lia].
      - injection E as <- <- <- <-. split; [exact C2|lia]. }
    split; [|exact RE].
    destruct (run_prog true callee h [] (S d)) as [[[h1 its1] d1] o1] eqn:Ec.
    destruct (Rc _ _ _ _ eq_refl) as [C1 L1]. cbn [length] in L1.
    assert (C2 : consistent (drain its1 h1) (map Some ds ++ outer))
      by (apply consistent_drain; [exact C1|rewrite app_length; lia]).
    destruct o1; auto.
    destruct (IHk (drain its1 h1) ds outer (pred d1) C2 ltac:(lia)) as [Vk Rk]. exact Vk.
Qed.

Lemma no_violation_lemma : forall p h its outer d,
  consistent h (its ++ outer) -> bounded_live p (length (its ++ outer)) ->
  violations_prog p h its outer d = 0%nat.
Proof. intros p h its outer d C B. exact (proj1 (proj1 live_mutual p h its outer d C B)). Qed.
