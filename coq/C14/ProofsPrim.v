(* C14 -- the main induction, part 2: primary expressions and suffixes. *)
From Coq Require Import ZArith List String Bool Arith Lia.
From SV Require Import C14.Tokens C14.Parse C14.Print C14.ProofsBase C14.ProofsExpr
  C14.ProofsLists C14.ProofsArgs C14.ProofsClauses.
Import ListNotations.
Open Scope nat_scope.

Definition is_head (e : expr) : bool :=
  match e with
  | Ident _ _ | Literal _ _ | Paren _ _ _ | ListE _ _ _ _ | DictE _ _ _ _
  | Comp _ _ _ _ _ | EmptyTuple _ _ => true
  | _ => false
  end.

(* what follows the operand of parseExpr(inParens) when the next token closes a bracket *)
Lemma expr_rest_ok_closer x b t p rest :
  (b = true \/ noparen_ok x = true) ->
  stop_test t = true -> t <> COMMA -> terminates_expr_list t = true ->
  expr_rest_ok x b ((t, p) :: rest).
Proof.
  intros Hb Hs Hc Ht. unfold expr_rest_ok. destruct x; cbn [peek]; auto.
  destruct tc; auto. split; auto. destruct Hb as [Hb|Hb]; [assumption|].
  cbn [noparen_ok] in Hb. discriminate.
Qed.

Lemma expr_rest_ok_colon x p rest :
  noparen_ok x = true -> expr_rest_ok x false ((COLON, p) :: rest).
Proof.
  intros Hb. unfold expr_rest_ok. destruct x; cbn [peek]; try (split; [reflexivity|discriminate]).
  destruct tc; [cbn [noparen_ok] in Hb; discriminate|]. split; [reflexivity|discriminate].
Qed.

Lemma sizes_eq l : (fix f (l0 : list expr) : nat := match l0 with [] => 0 | x :: r => size x + f r end) l = sizes l.
Proof. induction l; cbn; auto. Qed.

Lemma need_ListE lb l tc rb : need (ListE lb l tc rb) = 40 + needs l.
Proof. unfold need, needs, sizes. cbn [size]. lia. Qed.
Lemma need_DictE lb l tc rb : need (DictE lb l tc rb) = 40 + needs l.
Proof. unfold need, needs, sizes. cbn [size]. lia. Qed.
Lemma need_Call fn lp l tc rp : need (Call fn lp l tc rp) = 40 + need fn + needs l.
Proof. unfold need, needs, sizes. cbn [size]. lia. Qed.
Lemma need_Comp c lb b l rb : need (Comp c lb b l rb) = 40 + need b + needs l.
Proof. unfold need, needs, sizes. cbn [size]. lia. Qed.
Lemma size_ListE lb l tc rb : size (ListE lb l tc rb) = S (sizes l).
Proof. reflexivity. Qed.
Lemma size_DictE lb l tc rb : size (DictE lb l tc rb) = S (sizes l).
Proof. reflexivity. Qed.
Lemma size_Call fn lp l tc rp : size (Call fn lp l tc rp) = S (size fn + sizes l).
Proof. reflexivity. Qed.
Lemma size_Comp c lb b l rb : size (Comp c lb b l rb) = S (size b + sizes l).
Proof. reflexivity. Qed.

Lemma tokens_ListE lb l tc rb rest :
  tokens (ListE lb l tc rb) ++ rest = (LBRACK, lb) :: seplist l ++ trail tc ++ (RBRACK, rb) :: rest.
Proof. cbn [tokens]. cbn [app]. rewrite <- !app_assoc. reflexivity. Qed.
Lemma tokens_DictE lb l tc rb rest :
  tokens (DictE lb l tc rb) ++ rest = (LBRACE, lb) :: seplist l ++ trail tc ++ (RBRACE, rb) :: rest.
Proof. cbn [tokens]. cbn [app]. rewrite <- !app_assoc. reflexivity. Qed.
Lemma tokens_Comp c lb b cl rb rest :
  tokens (Comp c lb b cl rb) ++ rest =
  ((if c then LBRACE else LBRACK), lb) :: tokens b ++ flat_map tokens cl ++ (closer c, rb) :: rest.
Proof. cbn [tokens]. cbn [app]. rewrite <- !app_assoc. destruct c; reflexivity. Qed.

Lemma primary_heads e :
  IHs (size e) -> wp e = true -> is_head e = true ->
  forall rest m, need e <= m + 2 ->
  p_primary (parsers m) (tokens e ++ rest) = Ok (e, rest).
Proof.
  intros IH Hwp Hh rest m Hm. pose proof (need_pos e) as Hnp.
  destruct m as [|m]; [lia|]. rewrite un_primary.
  destruct e; try discriminate Hh.
  - reflexivity.
  - destruct l; reflexivity.
  - (* Paren *)
    cbn [wp] in Hwp. apply andb_true_iff in Hwp. destruct Hwp as [Hw Hl].
    pose proof (at_level_isx _ _ Hl) as Hi.
    destruct (head_ok_all e Hw Hi) as (Hne & Hst & _ & _).
    destruct (IH e ltac:(cbn [size]; lia) Hw Hi) as (_ & _ & _ & _ & _ & _ & Me).
    unfold primary_body. cbn [tokens app peek peekpos tl]. rewrite <- app_assoc. cbn [app].
    rewrite (peek_app _ _ Hne). rewrite (starts_not_RPAREN _ _ _ Hst).
    rewrite (Me true); [reflexivity| |unfold need in *; cbn [size] in *; lia].
    apply expr_rest_ok_closer; auto; discriminate.
  - (* ListE *)
    rewrite wp_ListE in Hwp. apply andb_true_iff in Hwp. destruct Hwp as [Hall Htc].
    rewrite tokens_ListE. rewrite need_ListE in Hm. rewrite size_ListE in IH.
    unfold primary_body. cbn [peek peekpos tl]. unfold parseList.
    destruct l as [|x l].
    + destruct tc; [discriminate|]. reflexivity.
    + rewrite seplist_cons. rewrite <- app_assoc.
      cbn [forallb] in Hall. apply andb_true_iff in Hall. destruct Hall as [Hx Hall].
      destruct (test_ok_parts _ Hx) as (Hw & Hi & Hle).
      destruct (head_ok_all x Hw Hi) as (Hne & Hst & _ & _).
      rewrite sizes_cons in IH. rewrite needs_cons in Hm.
      destruct (IH x ltac:(lia) Hw Hi) as (_ & _ & _ & _ & Mt & _ & _).
      rewrite (peek_app _ _ Hne). rewrite (starts_not_RBRACK _ _ _ Hst).
      unfold list_dflt.
      set (rest' := ctoks l ++ trail tc ++ (RBRACK, rb) :: rest).
      assert (Hpk : peek rest' = COMMA \/ peek rest' = RBRACK).
      { unfold rest'. destruct (peek_rest' l tc ((RBRACK, rb) :: rest)) as [E | (_ & _ & E)]; rewrite E; auto. }
      rewrite (Mt Hle); [| destruct Hpk as [E|E]; rewrite E; reflexivity | lia].
      rewrite not_FOR_match by (destruct Hpk as [E|E]; rewrite E; discriminate).
      unfold rest'. rewrite (exprs_ok _ l IH); [reflexivity|lia|assumption| |lia].
      destruct tc; [split; reflexivity|split; [discriminate|reflexivity]].
  - (* DictE *)
    rewrite wp_DictE in Hwp. apply andb_true_iff in Hwp. destruct Hwp as [Hall Htc].
    rewrite tokens_DictE. rewrite need_DictE in Hm. rewrite size_DictE in IH.
    unfold primary_body. cbn [peek peekpos tl]. unfold parseDict.
    destruct l as [|x l].
    + destruct tc; [discriminate|]. reflexivity.
    + rewrite seplist_cons. rewrite <- app_assoc.
      cbn [forallb] in Hall. apply andb_true_iff in Hall. destruct Hall as [Hx Hall].
      destruct (entry_cases x Hx) as (k & cp & v & -> & Hk & Hv).
      destruct (test_ok_parts _ Hk) as (Hwk & Hik & Hlk).
      destruct (head_ok_all k Hwk Hik) as (Hne & Hst & _ & _).
      rewrite sizes_cons in IH. rewrite needs_cons in Hm.
      set (rest' := ctoks l ++ trail tc ++ (RBRACE, rb) :: rest).
      assert (Hpk : peek rest' = COMMA \/ peek rest' = RBRACE).
      { unfold rest'. destruct (peek_rest' l tc ((RBRACE, rb) :: rest)) as [E | (_ & _ & E)]; rewrite E; auto. }
      assert (Hpk0 : peek (tokens (DictEntry k cp v) ++ rest') = peek (tokens k)).
      { cbn [tokens]. rewrite <- app_assoc. apply peek_app. assumption. }
      rewrite Hpk0. rewrite (starts_not_RBRACE _ _ _ Hst).
      unfold dict_dflt. cbn [size] in IH. unfold need in Hm. cbn [size] in Hm.
      rewrite (dictEntry_ok _ k cp v IH); [|lia|assumption|assumption|destruct Hpk as [E|E]; rewrite E; reflexivity|unfold need; lia].
      rewrite not_FOR_match by (destruct Hpk as [E|E]; rewrite E; discriminate).
      unfold rest'. rewrite (dictEntries_ok _ l IH); [reflexivity|lia|assumption|reflexivity|unfold needs in *; lia].
  - (* Comp *)
    rewrite wp_Comp in Hwp. apply andb_true_iff in Hwp. destruct Hwp as [Hwp Hcl].
    apply andb_true_iff in Hwp. destruct Hwp as [Hb Hfor].
    rewrite tokens_Comp. rewrite need_Comp in Hm. rewrite size_Comp in IH.
    set (rest' := flat_map tokens clauses ++ (closer curly, rb) :: rest).
    assert (Hpk : peek rest' = FOR).
    { unfold rest'. destruct clauses as [|c cl]; [discriminate|]. destruct c; try discriminate. reflexivity. }
    unfold primary_body. cbn [peek peekpos tl].
    destruct curly; cbn [peek peekpos tl].
    + destruct (entry_cases e Hb) as (k & cp & v & -> & Hk & Hv).
      destruct (test_ok_parts _ Hk) as (Hwk & Hik & Hlk).
      destruct (head_ok_all k Hwk Hik) as (Hne & Hst & _ & _).
      unfold parseDict.
      assert (Hpk0 : peek (tokens (DictEntry k cp v) ++ rest') = peek (tokens k)).
      { cbn [tokens]. rewrite <- app_assoc. apply peek_app. assumption. }
      rewrite Hpk0. rewrite (starts_not_RBRACE _ _ _ Hst).
      unfold dict_dflt. cbn [size] in IH. unfold need in Hm. cbn [size] in Hm.
      rewrite (dictEntry_ok _ k cp v IH); [|lia|assumption|assumption|rewrite Hpk; reflexivity|unfold need; lia].
      rewrite Hpk. unfold rest'.
      rewrite (clauses_ok _ clauses IH); [reflexivity|lia|assumption|unfold needs in *; lia].
    + destruct (test_ok_parts _ Hb) as (Hw & Hi & Hle).
      destruct (head_ok_all e Hw Hi) as (Hne & Hst & _ & _).
      destruct (IH e ltac:(lia) Hw Hi) as (_ & _ & _ & _ & Mt & _ & _).
      unfold parseList.
      rewrite (peek_app _ _ Hne). rewrite (starts_not_RBRACK _ _ _ Hst).
      unfold list_dflt.
      rewrite (Mt Hle); [|rewrite Hpk; reflexivity|lia].
      rewrite Hpk. unfold rest'.
      rewrite (clauses_ok _ clauses IH); [reflexivity|lia|assumption|lia].
  - reflexivity.
Qed.
