(* C14 -- decidable checks evaluated (vm_compute) on what the real scanner and
   parser did: model_ok (the executable model reproduces the observation),
   spec_ok (the observation satisfies the specification: Print.v / the literal
   grammar; independent of Parse.v and of Scan.v's decoding), sound_ok (an
   accepted token list is exactly the rendering of the tree it was given). *)
From Coq Require Import ZArith List String Bool Arith.
From SV Require Import C14.Tokens C14.Parse C14.Print C14.Scan.
Import ListNotations.

Definition toks_eqb : list tok -> list tok -> bool := list_eqb tok_eqb.

Definition ends_ok (real : list ptok) (body : list tok) : bool :=
  let r := map fst real in
  toks_eqb r (body ++ [EOF]) || toks_eqb r (body ++ [NEWLINE; EOF]).

Inductive case :=
| CExpr (ts : list ptok) (want : expr)          (* the Go side has checked real tree = want *)
| CFile (ts : list ptok) (want : list stmt)
| CNearE (ts : list ptok) (got : option expr)
| CNearF (ts : list ptok) (got : option (list stmt))
| CInt (src : list Z) (observed : option Z) (want : option Z)
| CNum (src : list Z) (kind : nat)             (* 0 INT, 1 FLOAT, 2 error *)
| CLayout (ls : list (pline unit)) (fn : bool) (observed : option (list (ev unit))).

Definition stmts_eqb : list stmt -> list stmt -> bool := list_eqb stmt_eqb.

Fixpoint merge_lines (l : list (ev unit)) : list (ev unit) :=
  match l with
  | EvLine a :: r =>
    match merge_lines r with
    | EvLine _ :: r' => EvLine a :: r'
    | r' => EvLine a :: r'
    end
  | x :: r => x :: merge_lines r
  | [] => []
  end.

Definition ev_eqb (a b : ev unit) : bool :=
  match a, b with
  | EvIndent, EvIndent | EvOutdent, EvOutdent | EvNewline, EvNewline | EvLine _, EvLine _ => true
  | _, _ => false
  end.

Definition model_ok (c : case) : bool :=
  match c with
  | CExpr ts want =>
    match parse_expr ts with Ok e => expr_eqb (erase e) (erase want) | _ => false end
  | CFile ts want =>
    match parse_file ts with Ok l => stmts_eqb (map erase_stmt l) (map erase_stmt want) | _ => false end
  | CNearE ts got =>
    match parse_expr ts, got with
    | Ok e, Some g => expr_eqb (erase e) g
    | Err, None => true
    | _, _ => false
    end
  | CNearF ts got =>
    match parse_file ts, got with
    | Ok l, Some g => stmts_eqb (map erase_stmt l) g
    | Err, None => true
    | _, _ => false
    end
  | CInt src obs _ =>
    match scan_number true src, obs with
    | (NInt z, []), Some v => Z.eqb z v
    | (NInt _, []), None => false
    | _, None => true
    | _, Some _ => false
    end
  | CNum src kind =>
    match scan_number true src with
    | (NInt _, []) => kind =? 0
    | (NFloat _, []) => negb (kind =? 0)     (* strconv.ParseFloat may still reject: oracle *)
    | _ => kind =? 2
    end
  | CLayout ls fn obs =>
    match layout ls fn, obs with
    | LOk evs, Some o => list_eqb ev_eqb (merge_lines evs) o
    | LErr, None => true
    | _, _ => false
    end
  end.

(* the literal grammar of doc/spec.md (plus Python 3's "0"+ spelling of zero,
   which the scanner accepts deliberately) *)
Definition spec_int (src : list Z) : option Z :=
  let val (b : Z) (p : Z -> bool) (ds : list Z) : option Z :=
    match ds with
    | [] => None
    | _ => if forallb p ds then Some (positional b (map digitval ds)) else None
    end in
  match src with
  | 48%Z :: x :: ds =>
    if ((x =? 120) || (x =? 88))%Z then val 16%Z isxdigit ds
    else if ((x =? 111) || (x =? 79))%Z then val 8%Z isodigit ds
    else if ((x =? 98) || (x =? 66))%Z then val 2%Z isbdigit ds
    else if forallb (fun c => (c =? 48)%Z) (x :: ds) then Some 0%Z else None
  | [48%Z] => Some 0%Z
  | _ => val 10%Z isdigit src
  end.

Definition optZ_eqb (a b : option Z) : bool :=
  match a, b with Some x, Some y => Z.eqb x y | None, None => true | _, _ => false end.

(* the Go tree has no trailing-comma bits: restore the only one that is forced
   (a parenthesised 1-tuple) before asking whether the tree is well formed *)
Fixpoint fix1 (e : expr) : expr :=
  let opt (o : option expr) := match o with Some x => Some (fix1 x) | None => None end in
  match e with
  | Ident _ _ | Literal _ _ | EmptyTuple _ _ => e
  | Paren lp x rp => Paren lp (fix1 x) rp
  | Call fn lp args tc rp => Call (fix1 fn) lp (map fix1 args) tc rp
  | Dot x dp np n => Dot (fix1 x) dp np n
  | Index x lb y rb => Index (fix1 x) lb (fix1 y) rb
  | Slice x lb lo hi step c2 rb =>
    Slice (fix1 x) lb (opt lo) (opt hi) (opt step) (match step with Some _ => true | None => c2 end) rb
  | ListE lb l tc rb => ListE lb (map fix1 l) tc rb
  | DictE lb l tc rb => DictE lb (map fix1 l) tc rb
  | DictEntry k cp v => DictEntry (fix1 k) cp (fix1 v)
  | Comp c lb body cl rb => Comp c lb (fix1 body) (map fix1 cl) rb
  | ForClause p vars ip x => ForClause p (fix1 vars) ip (fix1 x)
  | IfClause p c => IfClause p (fix1 c)
  | Lambda p ps b => Lambda p (map fix1 ps) (fix1 b)
  | Cond t ifp c ep f => Cond (fix1 t) ifp (fix1 c) ep (fix1 f)
  | Tuple l tc => Tuple (map fix1 l) (match l with [_] => true | _ => tc end)
  | Unary p op o => Unary p op (opt o)
  | Binary x p op y => Binary (fix1 x) p op (fix1 y)
  end.

(* optional concrete syntax the Go tree does not record: a trailing comma before a
   closing bracket, the second ':' of a slice written without a step *)
Fixpoint strip_opt (l : list tok) : list tok :=
  match l with
  | [] => []
  | t :: r =>
    let r' := strip_opt r in
    match t, r' with
    | COMMA, (RPAREN :: _ | RBRACK :: _ | RBRACE :: _) => r'
    | COLON, RBRACK :: _ => r'
    | _, _ => t :: r'
    end
  end.

(* the accepted token list is the rendering of the tree g (modulo the optional syntax) *)
Definition render_ok (ts : list ptok) (g : expr) : bool :=
  let body := strip_opt (map fst (tokens (fix1 g)) ++ [EOF]) in
  let real := map fst ts in
  toks_eqb (strip_opt real) body ||
  toks_eqb (strip_opt real) (strip_opt (map fst (tokens (fix1 g)) ++ [NEWLINE; EOF])).

Definition spec_ok (c : case) : bool :=
  match c with
  | CExpr ts want => wf_expr want && ends_ok ts (map fst (tokens want))
  | CInt src obs want => optZ_eqb obs (spec_int src) && optZ_eqb want (spec_int src)
  (* a text the real parser accepts must have been given a well-parenthesised tree
     (otherwise the tree is not one whose rendering is that text) *)
  | CNearE ts (Some g) => wf_expr (fix1 g) && render_ok ts g
  | _ => true
  end.

(* no silent re-interpretation: whatever the parser accepts is the rendering of
   the tree it returns (checked on the model's tree, which carries the trailing
   comma bits, and which model_ok ties to the real tree) *)
Definition sound_ok (c : case) : bool :=
  match c with
  | CExpr ts _ | CNearE ts _ =>
    match parse_expr ts with
    | Ok e => wf_expr e && ends_ok ts (map fst (tokens e))
    | _ => true
    end
  | _ => true
  end.

(* a text the real parser accepted must be accepted by the model of the grammar
   (parse_sound: what the model accepts is a rendering of a tree of the grammar;
   parse_print: it accepts every rendering) -- otherwise the real parser gives a
   meaning to a text outside the grammar *)
Definition accept_ok (c : case) : bool :=
  match c with
  | CNearE ts (Some _) => match parse_expr ts with Ok _ => true | _ => false end
  | CNearF ts (Some _) => match parse_file ts with Ok _ => true | _ => false end
  | _ => true
  end.
