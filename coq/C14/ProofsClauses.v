(* C14 -- list-level lemmas: loop variables and comprehension clauses. *)
From Coq Require Import ZArith List String Bool Arith Lia.
From SV Require Import C14.Tokens C14.Parse C14.Print C14.ProofsBase C14.ProofsExpr C14.ProofsLists C14.ProofsArgs.
Import ListNotations.
Open Scope nat_scope.

Ltac reassoc :=
  repeat match goal with
         | |- context [(?a ++ ?b) ++ ?c] =>
           replace ((a ++ b) ++ c) with (a ++ b ++ c) by (rewrite <- app_assoc; reflexivity)
         end; cbn [app].

Definition unary_ok (y : expr) : bool := wp y && at_level L_UNARY y.

Lemma unary_ok_parts x : unary_ok x = true -> wp x = true /\ isx x = true /\ L_UNARY <= lvl x.
Proof.
  unfold unary_ok. intros H. apply andb_true_iff in H. destruct H as [Hw Hl].
  split; [assumption|]. split; [eapply at_level_isx; eassumption|eapply at_level_le; eassumption].
Qed.

Lemma loopVarsTail_ok sz l : IHs sz -> sizes l < sz -> forall (rest : list ptok) (n : nat),
  forallb unary_ok l = true ->
  peek rest = IN ->
  needs l + 31 <= n ->
  p_loopVarsTail (parsers n) (ctoks l ++ rest) = Ok (l, false, rest).
Proof.
  intros IH. induction l as [|x l IHl]; intros Hs rest n Hall Hr Hn.
  - destruct n as [|n]; [lia|]. rewrite un_loopVarsTail. unfold loopVarsTail_body.
    cbn [ctoks flat_map app]. rewrite Hr. reflexivity.
  - rewrite sizes_cons in Hs. rewrite needs_cons in Hn.
    cbn [forallb] in Hall. apply andb_true_iff in Hall. destruct Hall as [Hx Hall].
    destruct (unary_ok_parts _ Hx) as (Hw & Hi & Hle).
    destruct (head_ok_all x Hw Hi) as (Hne & Hst & _ & _).
    destruct (IH x ltac:(lia) Hw Hi) as (_ & _ & _ & Mp & _ & _ & _).
    pose proof (need_pos x) as Hnp.
    destruct n as [|n]; [lia|]. rewrite un_loopVarsTail. rewrite ctoks_cons.
    change ((comma :: tokens x ++ ctoks l) ++ rest) with (comma :: (tokens x ++ ctoks l) ++ rest).
    rewrite <- app_assoc.
    unfold loopVarsTail_body. cbn [peek tl comma].
    rewrite (peek_app _ _ Hne). rewrite (starts_not_term _ Hst).
    rewrite (Mp Hle); [|destruct l; [cbn [ctoks flat_map app]; rewrite Hr|]; reflexivity|lia].
    rewrite IHl; auto; lia.
Qed.

Lemma loopvars_cases v : loopvars_ok v = true ->
  (exists x l, v = Tuple (x :: l) false /\ l <> [] /\ unary_ok x = true /\ forallb unary_ok l = true) \/
  (unary_ok v = true /\ lvl v <> L_EXPR).
Proof.
  destruct v; cbn [loopvars_ok]; intros H;
    try (right; split; [exact H|cbn; unfold L_BIN, L_PRIM, L_UNARY, L_EXPR; try discriminate]).
  - left. apply andb_true_iff in H. destruct H as [H Hall]. apply andb_true_iff in H. destruct H as [Htc Hlen].
    destruct tc; [discriminate|]. destruct l as [|x [|y l]]; try discriminate.
    cbn [forallb] in Hall. apply andb_true_iff in Hall. destruct Hall as [Hx Hall].
    exists x, (y :: l). repeat split; auto. discriminate.
  - destruct op; discriminate.
  - destruct (unary_ok_parts _ H) as (_ & _ & Hl). cbn in Hl. unfold L_UNARY in Hl.
    destruct (prec_of op); [discriminate|lia].
Qed.

Lemma tokens_Tuple_false x l : tokens (Tuple (x :: l) false) = tokens x ++ ctoks l.
Proof. cbn [tokens trail]. rewrite app_nil_r. reflexivity. Qed.

Lemma loopVars_ok sz v : IHs sz -> size v < sz -> loopvars_ok v = true ->
  forall rest n, peek rest = IN -> need v + 33 <= n ->
  p_loopVars (parsers n) (tokens v ++ rest) = Ok (v, rest).
Proof.
  intros IH Hs Hv rest n Hr Hn.
  destruct (loopvars_cases v Hv) as [(x & l & -> & Hne & Hx & Hall) | [Hu Hnt]].
  - destruct (unary_ok_parts _ Hx) as (Hw & Hi & Hle).
    destruct (IH x ltac:(cbn [size fold_right] in Hs; lia) Hw Hi) as (_ & _ & _ & Mp & _ & _ & _).
    unfold need in Hn. cbn [size] in Hn. fold (sizes (x :: l)) in Hn. rewrite sizes_cons in Hn.
    destruct n as [|n]; [lia|]. rewrite un_loopVars. unfold loopVars_body.
    rewrite tokens_Tuple_false. rewrite <- app_assoc.
    assert (Hpk : peek (ctoks l ++ rest) = COMMA) by (destruct l; [congruence|reflexivity]).
    rewrite (Mp Hle); [|rewrite Hpk; reflexivity|unfold need; lia].
    rewrite Hpk. cbv iota.
    rewrite (loopVarsTail_ok sz l IH); auto.
    + cbn [size fold_right] in Hs. fold (sizes l) in Hs. lia.
    + unfold needs. lia.
  - destruct (unary_ok_parts _ Hu) as (Hw & Hi & Hle).
    destruct (IH v Hs Hw Hi) as (_ & _ & _ & Mp & _ & _ & _).
    destruct n as [|n]; [lia|]. rewrite un_loopVars. unfold loopVars_body.
    rewrite (Mp Hle); [|rewrite Hr; reflexivity|lia].
    rewrite Hr. reflexivity.
Qed.

(* ---- comprehension clauses ---- *)
Definition closer (curly : bool) : tok := if curly then RBRACE else RBRACK.

Lemma clause_cases c : clause_ok c = true ->
  (exists p vars ip x, c = ForClause p vars ip x /\ loopvars_ok vars = true /\ wp x = true /\ at_level (L_BIN 0) x = true) \/
  (exists p x, c = IfClause p x /\ wp x = true /\ nocond x = true).
Proof.
  destruct c; cbn [clause_ok]; intros H; try discriminate.
  - left. apply andb_true_iff in H. destruct H as [H H3]. apply andb_true_iff in H. destruct H as [H1 H2].
    eauto 10.
  - right. apply andb_true_iff in H. destruct H as [H1 H2]. eauto.
Qed.

Definition clause_start (t : tok) : bool :=
  match t with FOR | IF | RBRACK | RBRACE => true | _ => false end.

Lemma clauses_peek cl curly rb rest :
  forallb clause_ok cl = true ->
  clause_start (peek (flat_map tokens cl ++ (closer curly, rb) :: rest)) = true.
Proof.
  destruct cl as [|c cl]; [destruct curly; reflexivity|].
  cbn [forallb]. intros H. apply andb_true_iff in H. destruct H as [Hc _].
  destruct (clause_cases c Hc) as [(p & vars & ip & x & -> & _) | (p & x & -> & _)]; reflexivity.
Qed.

Lemma clause_start_ok t : clause_start t = true -> stop_nocond t = true.
Proof. destruct t; try discriminate; reflexivity. Qed.

Lemma nocond_parts x : nocond x = true -> wp x = true -> isx x = true.
Proof.
  destruct x; cbn [nocond]; intros H _; try (eapply at_level_isx; eassumption). reflexivity.
Qed.

Lemma clauses_ok sz cl : IHs sz -> sizes cl < sz -> forall (curly : bool) rb (rest : list ptok) (n : nat),
  forallb clause_ok cl = true ->
  needs cl + 31 <= n ->
  p_clauses (parsers n) curly (flat_map tokens cl ++ (closer curly, rb) :: rest) = Ok (cl, rb, rest).
Proof.
  intros IH. induction cl as [|c cl IHl]; intros Hs curly rb rest n Hall Hn.
  - destruct n as [|n]; [lia|]. rewrite un_clauses. unfold clauses_body.
    destruct curly; reflexivity.
  - rewrite sizes_cons in Hs. rewrite needs_cons in Hn.
    cbn [forallb] in Hall. apply andb_true_iff in Hall. destruct Hall as [Hc Hall].
    pose proof (need_pos c) as Hnp.
    destruct n as [|n]; [lia|]. rewrite un_clauses.
    cbn [flat_map]. rewrite <- app_assoc.
    set (rest' := flat_map tokens cl ++ (closer curly, rb) :: rest).
    assert (Hrest' : p_clauses (parsers n) curly rest' = Ok (cl, rb, rest)) by (apply IHl; auto; lia).
    pose proof (clause_start_ok _ (clauses_peek cl curly rb rest Hall)) as Hstop. fold rest' in Hstop.
    destruct (clause_cases c Hc) as [(p & vars & ip & x & -> & Hv & Hw & Hl) | (p & x & -> & Hw & Hnc)].
    + pose proof (at_level_isx _ _ Hl) as Hi. pose proof (at_level_le _ _ Hl) as Hle.
      destruct (IH x ltac:(cbn [size] in Hs; lia) Hw Hi) as (Mp & _).
      unfold need in Hn. cbn [size] in Hn, Hs.
      unfold clauses_body. cbn [tokens app peek peekpos tl]. reassoc.
      rewrite (loopVars_ok sz vars IH); [|lia|assumption|reflexivity|unfold need; lia].
      cbn [peek peekpos tl].
      destruct (stop_nocond_ok rest' 0 Hstop) as [Hok Hfu].
      rewrite (Mp 0 rest'); [|lia|exact Hle|exact Hok|unfold need; lia].
      unfold fz. cbn [Nat.ltb Nat.leb nlevels]. rewrite Hfu. rewrite Hrest'. reflexivity.
    + pose proof (nocond_parts _ Hnc Hw) as Hi.
      destruct (IH x ltac:(cbn [size] in Hs; lia) Hw Hi) as (_ & _ & _ & _ & _ & Mn & _).
      unfold need in Hn. cbn [size] in Hn, Hs.
      unfold clauses_body. cbn [tokens app peek peekpos tl].
      rewrite (Mn Hnc); [|assumption|unfold need; lia].
      rewrite Hrest'. reflexivity.
Qed.
