(* C14 -- list-level lemmas of the parser proofs (parameters, arguments, dict
   entries, loop variables, comprehension clauses). *)
From Coq Require Import ZArith List String Bool Arith Lia.
From SV Require Import C14.Tokens C14.Parse C14.Print C14.ProofsBase C14.ProofsExpr.
Import ListNotations.
Open Scope nat_scope.

(* ---- a leading comma: the `first` flag only matters before ')' ---- *)
Definition not_close (t : tok) : bool :=
  match t with RPAREN | COLON | EOF => false | _ => true end.

Lemma params_comma self ts :
  not_close (peek ts) = true ->
  params_body self false (comma :: ts) = params_body self true ts.
Proof.
  intros H. unfold params_body. cbn [peek comma].
  unfold params_dflt, comma_unless. cbn [peek tl comma].
  destruct (peek ts) eqn:E; try discriminate H; reflexivity.
Qed.

Lemma args_comma self ts :
  not_close (peek ts) = true ->
  args_body self false (comma :: ts) = args_body self true ts.
Proof.
  intros H. unfold args_body. cbn [peek comma].
  unfold args_dflt, comma_unless. cbn [peek tl comma].
  destruct (peek ts) eqn:E; try discriminate H; reflexivity.
Qed.

Lemma starts_not_close t : starts t = true -> not_close t = true.
Proof. destruct t; try discriminate; reflexivity. Qed.

Lemma peek_rest' l tc rest :
  peek (ctoks l ++ trail tc ++ rest) = COMMA \/ (l = [] /\ tc = false /\ ctoks l ++ trail tc ++ rest = rest).
Proof.
  destruct l; [|left; reflexivity]. destruct tc; [left; reflexivity|right; auto].
Qed.

(* ---- parseParams ---- *)
Lemma params_false_ok sz l : IHs sz -> sizes l < sz -> forall (tc : bool) (rest : list ptok) (n : nat),
  forallb param_ok l = true ->
  (tc = true -> peek rest = RPAREN) ->
  (tc = false -> peek rest = RPAREN \/ peek rest = COLON) ->
  needs l + 31 <= n ->
  p_params (parsers n) false (ctoks l ++ trail tc ++ rest) = Ok (l, tc, rest).
Proof.
  intros IH. induction l as [|x l IHl]; intros Hs tc rest n Hall Ht Hf Hn.
  - destruct n as [|n]; [lia|]. rewrite un_params. unfold params_body.
    destruct tc; cbn [ctoks flat_map trail app].
    + cbn [peek comma]. unfold params_dflt, comma_unless. cbn [peek tl comma].
      rewrite (Ht eq_refl). reflexivity.
    + destruct (Hf eq_refl) as [-> | ->]; reflexivity.
  - rewrite sizes_cons in Hs. rewrite needs_cons in Hn.
    cbn [forallb] in Hall. apply andb_true_iff in Hall. destruct Hall as [Hx Hall].
    pose proof (need_pos x) as Hnp.
    destruct n as [|n]; [lia|]. rewrite un_params. rewrite ctoks_cons.
    set (rest' := ctoks l ++ trail tc ++ rest).
    assert (Hrest' : p_params (parsers n) false rest' = Ok (l, tc, rest))
      by (apply IHl; auto; lia).
    assert (Hpk : peek rest' <> EQ).
    { destruct (peek_rest' l tc rest) as [E | (-> & -> & E)]; fold rest' in E.
      - rewrite E. discriminate.
      - rewrite E. destruct (Hf eq_refl) as [-> | ->]; discriminate. }
    change ((comma :: tokens x ++ ctoks l) ++ trail tc ++ rest) with (comma :: (tokens x ++ ctoks l) ++ trail tc ++ rest).
    rewrite <- app_assoc. fold rest'.
    unfold params_body. cbn [peek comma].
    unfold params_dflt, comma_unless. cbn [peek tl comma].
    destruct (param_cases x Hx) as [(ip & name & ->) | [(ip & name & ep & d & -> & Hd) | [(p & ->) | [(p & ip & name & ->) | (p & ip & name & ->)]]]];
      cbn [tokens op_tokens app peek peekpos tl].
    + rewrite not_EQ_match by assumption. rewrite Hrest'. reflexivity.
    + unfold test_ok in Hd. apply andb_true_iff in Hd. destruct Hd as [Hwp Hlv].
      pose proof (at_level_isx _ _ Hlv) as Hisx. pose proof (at_level_le _ _ Hlv) as Hle.
      destruct (IH d ltac:(cbn [size] in Hs; lia) Hwp Hisx) as (_ & _ & _ & _ & Mt & _ & _).
      rewrite (Mt Hle).
      * rewrite Hrest'. reflexivity.
      * unfold rest'. apply stop_after_elem. intros -> ->. destruct (Hf eq_refl) as [-> | ->]; reflexivity.
      * unfold need in *. cbn [size] in Hn. lia.
    + assert (Hi : match peek rest' with IDENT _ => false | _ => true end = true).
      { destruct (peek_rest' l tc rest) as [E | (-> & -> & E)]; fold rest' in E; rewrite E; [reflexivity|].
        destruct (Hf eq_refl) as [-> | ->]; reflexivity. }
      destruct (peek rest') eqn:E; try discriminate Hi; rewrite Hrest'; reflexivity.
    + rewrite Hrest'. reflexivity.
    + rewrite Hrest'. reflexivity.
Qed.

Lemma params_true_ok sz l : IHs sz -> sizes l < sz -> forall (tc : bool) (rest : list ptok) (n : nat),
  forallb param_ok l = true ->
  (tc = true -> peek rest = RPAREN /\ l <> []) ->
  (tc = false -> peek rest = RPAREN \/ peek rest = COLON) ->
  needs l + 31 <= n ->
  p_params (parsers n) true (seplist l ++ trail tc ++ rest) = Ok (l, tc, rest).
Proof.
  intros IH Hs tc rest n Hall Ht Hf Hn.
  destruct l as [|x l].
  - destruct tc; [destruct (Ht eq_refl) as [_ H]; congruence|].
    destruct n as [|n]; [lia|]. rewrite un_params. unfold params_body. cbn [seplist trail app].
    destruct (Hf eq_refl) as [-> | ->]; reflexivity.
  - pose proof (params_false_ok sz (x :: l) IH Hs tc rest n Hall
                  (fun H => proj1 (Ht H)) Hf Hn) as H.
    destruct n as [|n]; [rewrite needs_cons in Hn; pose proof (need_pos x); lia|].
    rewrite un_params in *. rewrite ctoks_cons in H. rewrite seplist_cons.
    cbn [app] in H. rewrite <- app_assoc in H. rewrite <- app_assoc. rewrite params_comma in H; [exact H|].
    cbn [forallb] in Hall. apply andb_true_iff in Hall. destruct Hall as [Hx _].
    destruct (param_cases x Hx) as [(ip & name & ->) | [(ip & name & ep & d & -> & Hd) | [(p & ->) | [(p & ip & name & ->) | (p & ip & name & ->)]]]];
      reflexivity.
Qed.
