(* C14 -- parse . print for statements, part 2: compound statements, suites, files. *)
From Coq Require Import ZArith List String Bool Arith Lia.
From SV Require Import C14.Tokens C14.Parse C14.Print C14.PrintStmt C14.ProofsBase C14.ProofsExpr
  C14.ProofsLists C14.ProofsArgs C14.ProofsClauses C14.ProofsAll C14.ProofsTop C14.ProofsStmt.
Import ListNotations.
Open Scope nat_scope.

Lemma IHs_all sz : IHs sz.
Proof. intros e _. apply main_all. Qed.

Lemma param_ok'_eq a : param_ok' a = param_ok a. Proof. reflexivity. Qed.
Lemma loopvars_ok'_eq a : loopvars_ok' a = loopvars_ok a. Proof. reflexivity. Qed.
Lemma test_ok'_eq a : test_ok' a = test_ok a. Proof. reflexivity. Qed.

Definition not_else (t : tok) : bool := match t with ELIF | ELSE => false | _ => true end.
Definition stmt_head (t : tok) : bool :=
  match t with NEWLINE | EOF | SEMI | OUTDENT | ELIF | ELSE => false | _ => true end.

Lemma line_head_stmt_head t : line_head t = true -> stmt_head t = true.
Proof. destruct t; try discriminate; reflexivity. Qed.
Lemma stmt_head_not_else t : stmt_head t = true -> not_else t = true.
Proof. destruct t; try discriminate; reflexivity. Qed.

Lemma line_tokens_head l sm rest : line_ok l = true -> line_head (peek (line_tokens l sm ++ rest)) = true.
Proof. intros H. unfold line_tokens. rewrite <- app_assoc. apply smalls_head. assumption. Qed.

Lemma tokens_c_head c rest : cstmt_ok c = true -> stmt_head (peek (tokens_c c ++ rest)) = true.
Proof.
  destruct c; cbn [cstmt_ok tokens_c]; intros H; try reflexivity.
  apply line_head_stmt_head. apply line_tokens_head. assumption.
Qed.

Lemma p_test_wf c rest n :
  test_ok c = true -> stop_test (peek rest) = true -> 40 * size c + 30 <= n ->
  p_test (parsers n) (tokens c ++ rest) = Ok (c, rest).
Proof.
  intros H Hs Hn. destruct (test_ok_parts _ H) as (Hw & Hi & Hl).
  apply parse_print_test_lemma; auto.
Qed.

Definition P_stmt (c : cstmt) : Prop :=
  cstmt_ok c = true -> forall rest n,
    not_else (peek rest) = true -> 40 * csize c + 10 <= n ->
    p_stmt (parsers n) (tokens_c c ++ rest) = Ok (flatten c, rest).
Definition P_suite (s : csuite) : Prop :=
  csuite_ok s = true -> forall rest n,
    40 * csize_s s + 10 <= n ->
    p_suite (parsers n) (tokens_s s ++ rest) = Ok (flatten_s s, rest).

Definition csizes (l : list cstmt) : nat := fold_right (fun c a => csize c + a) 0 l.
Lemma csizes_cons c l : csizes (c :: l) = csize c + csizes l. Proof. reflexivity. Qed.
Lemma csize_pos c : 1 <= csize c. Proof. destruct c; cbn; lia. Qed.

Lemma suiteStmts_ok (K : nat) :
  (forall c, csize c < K -> P_stmt c) ->
  forall l, csizes l < K -> forallb cstmt_ok l = true ->
  forall p rest n, 40 * csizes l + 12 <= n ->
  p_suiteStmts (parsers n) (flat_map tokens_c l ++ (OUTDENT, p) :: rest)
  = Ok (flat_map flatten l, (OUTDENT, p) :: rest).
Proof.
  intros IH. induction l as [|c l IHl]; intros Hs Hall p rest n Hn.
  - destruct n as [|n]; [lia|]. rewrite un_suiteStmts. reflexivity.
  - rewrite csizes_cons in *. cbn [forallb] in Hall. apply andb_true_iff in Hall. destruct Hall as [Hc Hall].
    pose proof (csize_pos c) as Hp.
    destruct n as [|n]; [lia|]. rewrite un_suiteStmts. unfold suiteStmts_body.
    cbn [flat_map]. rewrite <- app_assoc.
    pose proof (tokens_c_head c (flat_map tokens_c l ++ (OUTDENT, p) :: rest) Hc) as Hh.
    assert (Hne : not_else (peek (flat_map tokens_c l ++ (OUTDENT, p) :: rest)) = true).
    { destruct l as [|c2 l]; [reflexivity|]. cbn [forallb] in Hall. apply andb_true_iff in Hall. destruct Hall as [Hc2 _].
      cbn [flat_map]. rewrite <- app_assoc. apply stmt_head_not_else. apply tokens_c_head. assumption. }
    rewrite (IH c ltac:(lia) Hc) by (assumption || lia).
    rewrite IHl; [|lia|assumption|lia].
    unfold stmt_head in Hh.
    match type of Hh with match ?t with _ => _ end = true => destruct t; try discriminate Hh; reflexivity end.
Qed.

Lemma suite_all (K : nat) s :
  (forall c, csize c < K -> P_stmt c) -> csize_s s <= K -> P_suite s.
Proof.
  intros IH Hs Hok rest n Hn.
  destruct s as [l sm | l]; cbn [csuite_ok tokens_s flatten_s csize_s] in *.
  - destruct n as [|n]; [lia|]. rewrite un_suite. unfold suite_body.
    pose proof (line_tokens_head l sm rest Hok) as Hh. unfold line_head in Hh.
    rewrite simple_line_ok in *; [|assumption|lia].
    match type of Hh with match ?t with _ => _ end = true => destruct t; try discriminate Hh; reflexivity end.
  - apply andb_true_iff in Hok. destruct Hok as [_ Hall]. fold (csizes l) in *.
    destruct n as [|n]; [lia|]. rewrite un_suite. unfold suite_body.
    cbn [app peek tl newline]. rewrite <- app_assoc. cbn [app].
    rewrite (suiteStmts_ok K IH l); [reflexivity|lia|assumption|lia].
Qed.

Lemma colonSuite_ok s rest n :
  P_suite s -> csuite_ok s = true -> 40 * csize_s s + 10 <= n ->
  colonSuite (parsers n) (colon :: tokens_s s ++ rest) = Ok (flatten_s s, rest).
Proof. intros P Hok Hn. unfold colonSuite. cbn [peek tl colon]. apply P; assumption. Qed.

Definition elif_tokens (e : pos * expr * csuite) : list ptok :=
  let '(q, c, b) := e in (ELIF, q) :: tokens c ++ colon :: tokens_s b.
Definition else_tokens (o : option (pos * csuite)) : list ptok :=
  match o with Some (q, b) => (ELSE, q) :: colon :: tokens_s b | None => [] end.
Definition elif_size (e : pos * expr * csuite) : nat := let '(_, c, b) := e in 1 + size c + csize_s b.
Definition elifs_size (l : list (pos * expr * csuite)) : nat := fold_right (fun e a => elif_size e + a) 0 l.
Definition else_size (o : option (pos * csuite)) : nat := match o with Some (_, b) => 1 + csize_s b | None => 0 end.

Lemma elifs_size_eq l :
  fold_right (fun '(_, c, b) a => 1 + size c + csize_s b + a) 0 l = elifs_size l.
Proof. induction l as [|[[q c] b] l IH]; [reflexivity|]. cbn [fold_right elifs_size elif_size]. fold (elifs_size l). rewrite IH. lia. Qed.

Lemma elifs_ok (K : nat) :
  (forall s, csize_s s <= K -> P_suite s) ->
  forall elifs els rest n,
    elifs_size elifs + else_size els <= K ->
    forallb (fun '(_, c, b) => test_ok' c && csuite_ok b) elifs = true ->
    match els with Some (_, b) => csuite_ok b | None => true end = true ->
    not_else (peek rest) = true ->
    40 * (elifs_size elifs + else_size els) + 12 <= n ->
    p_elifs (parsers n) (flat_map elif_tokens elifs ++ else_tokens els ++ rest)
    = Ok (map (fun '(q, c, b) => (q, c, flatten_s b)) elifs,
          match els with Some (q, b) => Some (q, flatten_s b) | None => None end, rest).
Proof.
  intros IH. induction elifs as [|[[q c] b] elifs IHl]; intros els rest n HK Hall Hels Hne Hn.
  - destruct n as [|n]; [lia|]. rewrite un_elifs. unfold elifs_body. cbn [flat_map app map].
    destruct els as [[q b]|]; cbn [else_tokens app peek peekpos tl else_size elifs_size fold_right] in *.
    + rewrite colonSuite_ok; [reflexivity|apply IH; lia|assumption|lia].
    + unfold not_else in Hne. destruct (peek rest); try discriminate Hne; reflexivity.
  - cbn [forallb] in Hall. apply andb_true_iff in Hall. destruct Hall as [Hcb Hall].
    apply andb_true_iff in Hcb. destruct Hcb as [Hc Hb].
    change (elifs_size ((q, c, b) :: elifs)) with (1 + size c + csize_s b + elifs_size elifs) in *.
    destruct n as [|n]; [lia|]. rewrite un_elifs. unfold elifs_body.
    cbn [flat_map elif_tokens app peek peekpos tl map]. repeat (rewrite <- app_assoc; cbn [app]).
    rewrite (p_test_wf c); [|exact Hc|reflexivity|lia].
    rewrite colonSuite_ok; [|apply IH; lia|assumption|lia].
    rewrite IHl; [reflexivity|lia|assumption|assumption|assumption|lia].
Qed.

Lemma stmt_all : forall K, (forall c, csize c <= K -> P_stmt c) /\ (forall s, csize_s s <= K -> P_suite s).
Proof.
  induction K as [|K [IHc IHs]].
  - split; [intros c H; pose proof (csize_pos c); lia|].
    intros s H. destruct s; cbn in H; lia.
  - assert (IHc' : forall c, csize c < S K -> P_stmt c) by (intros c H; apply IHc; lia).
    assert (Hsuite : forall s, csize_s s <= S K -> P_suite s) by (intros s H; eapply suite_all; eauto).
    split; [|exact Hsuite].
    intros c Hsz Hok rest n Hne Hn.
    destruct n as [|n]; [lia|]. rewrite un_stmt. unfold stmt_body. cbv zeta.
    destruct c; cbn [cstmt_ok tokens_c flatten csize] in *.
    + (* simple *)
      pose proof (line_tokens_head l sm rest Hok) as Hh. unfold line_head in Hh.
      rewrite simple_line_ok in *; [|assumption|lia].
      match type of Hh with match ?t with _ => _ end = true => destruct t; try discriminate Hh; reflexivity end.
    + (* def *)
      apply andb_true_iff in Hok. destruct Hok as [Hok Hb]. apply andb_true_iff in Hok. destruct Hok as [Hps Htc].
      fold (sizes params) in *.
      cbn [app peek peekpos tl]. repeat (rewrite <- app_assoc; cbn [app]).
      rewrite (params_true_ok (S (sizes params)) params (IHs_all _)); [|lia|exact Hps| | |unfold needs; lia].
      * cbn [app peek peekpos tl].
        rewrite colonSuite_ok; [reflexivity|apply IHs; lia|assumption|lia].
      * intros ->. split; [reflexivity|]. destruct params; [discriminate|discriminate].
      * intros _. left. reflexivity.
    + (* if *)
      apply andb_true_iff in Hok. destruct Hok as [Hok Hels]. apply andb_true_iff in Hok. destruct Hok as [Hok Helifs].
      apply andb_true_iff in Hok. destruct Hok as [Hc Hb].
      cbn [app peek peekpos tl]. repeat (rewrite <- app_assoc; cbn [app]).
      rewrite (p_test_wf c); [|exact Hc|reflexivity|lia].
      rewrite colonSuite_ok; [|apply IHs; lia|assumption|lia].
      rewrite elifs_size_eq in *. fold (else_size els) in *.
      change (flat_map (fun '(q, c0, b) => (ELIF, q) :: tokens c0 ++ colon :: tokens_s b) elifs) with (flat_map elif_tokens elifs).
      change (match els with Some (q, b) => (ELSE, q) :: colon :: tokens_s b | None => [] end) with (else_tokens els).
      rewrite (elifs_ok K IHs); [reflexivity|lia|assumption|assumption|assumption|lia].
    + (* for *)
      apply andb_true_iff in Hok. destruct Hok as [Hok Hb]. apply andb_true_iff in Hok. destruct Hok as [Hv Hx].
      cbn [app peek peekpos tl]. repeat (rewrite <- app_assoc; cbn [app]).
      rewrite (loopVars_ok (S (size vars)) vars (IHs_all _)); [|lia|exact Hv|reflexivity|unfold need; lia].
      cbn [peek peekpos tl].
      rewrite (p_expr_wf x); [|assumption|reflexivity|discriminate|lia].
      rewrite colonSuite_ok; [reflexivity|apply IHs; lia|assumption|lia].
    + (* while *)
      apply andb_true_iff in Hok. destruct Hok as [Hc Hb].
      cbn [app peek peekpos tl]. repeat (rewrite <- app_assoc; cbn [app]).
      rewrite (p_test_wf c); [|exact Hc|reflexivity|lia].
      rewrite colonSuite_ok; [reflexivity|apply IHs; lia|assumption|lia].
Qed.

(* ---- files ---- *)
Lemma file_ok : forall (f : list cstmt) (p : pos) (n : nat),
  forallb cstmt_ok f = true ->
  40 * csizes f + 12 <= n ->
  p_file (parsers n) (flat_map tokens_c f ++ [(EOF, p)]) = Ok (flat_map flatten f).
Proof.
  induction f as [|c f IH]; intros p n Hall Hn.
  - destruct n as [|n]; [lia|]. rewrite un_file. reflexivity.
  - rewrite csizes_cons in Hn. cbn [forallb] in Hall. apply andb_true_iff in Hall. destruct Hall as [Hc Hall].
    pose proof (csize_pos c) as Hp.
    destruct n as [|n]; [lia|]. rewrite un_file. unfold file_body.
    cbn [flat_map]. rewrite <- app_assoc.
    pose proof (tokens_c_head c (flat_map tokens_c f ++ [(EOF, p)]) Hc) as Hh.
    assert (Hne : not_else (peek (flat_map tokens_c f ++ [(EOF, p)])) = true).
    { destruct f as [|c2 f]; [reflexivity|]. cbn [forallb] in Hall. apply andb_true_iff in Hall. destruct Hall as [Hc2 _].
      cbn [flat_map]. rewrite <- app_assoc. apply stmt_head_not_else. apply tokens_c_head. assumption. }
    destruct (stmt_all (csize c)) as [Pc _].
    rewrite (Pc c (le_n _) Hc) by (assumption || lia).
    rewrite IH; [|assumption|lia].
    unfold stmt_head in Hh.
    match type of Hh with match ?t with _ => _ end = true => destruct t; try discriminate Hh; reflexivity end.
Qed.


(* a file whose last line has no final newline *)
Lemma file_nonl_ok : forall (f : list cstmt) (l : list stmt) (sm : bool) (p : pos) (n : nat),
  forallb cstmt_ok f = true -> line_ok l = true ->
  40 * (csizes f + lsize l) + 60 <= n ->
  p_file (parsers n) (flat_map tokens_c f ++ smalls_tokens l ++ (if sm then [semi] else []) ++ [(EOF, p)])
  = Ok (flat_map flatten f ++ l).
Proof.
  induction f as [|c f IH]; intros l sm p n Hall Hl Hn.
  - cbn [flat_map app]. destruct n as [|n]; [lia|]. rewrite un_file. unfold file_body.
    pose proof (smalls_head l ((if sm then [semi] else []) ++ [(EOF, p)]) Hl) as Hh.
    destruct n as [|n]; [lia|]. rewrite un_stmt. unfold stmt_body. cbv zeta.
    pose proof (simple_line_eof_ok l sm p n Hl ltac:(cbn [csizes fold_right] in Hn; lia)) as Hline.
    unfold line_head in Hh.
    match type of Hh with match ?t with _ => _ end = true => destruct t; try discriminate Hh end;
      rewrite Hline; rewrite un_file; unfold file_body; cbn [peek]; rewrite app_nil_r; reflexivity.
  - rewrite csizes_cons in Hn. cbn [forallb] in Hall. apply andb_true_iff in Hall. destruct Hall as [Hc Hall].
    pose proof (csize_pos c) as Hp.
    destruct n as [|n]; [lia|]. rewrite un_file. unfold file_body.
    cbn [flat_map]. rewrite <- !app_assoc.
    set (rest := flat_map tokens_c f ++ smalls_tokens l ++ (if sm then [semi] else []) ++ [(EOF, p)]).
    pose proof (tokens_c_head c rest Hc) as Hh.
    assert (Hne : not_else (peek rest) = true).
    { unfold rest. destruct f as [|c2 f].
      - cbn [flat_map app]. apply stmt_head_not_else. apply line_head_stmt_head. apply smalls_head. assumption.
      - cbn [forallb] in Hall. apply andb_true_iff in Hall. destruct Hall as [Hc2 _].
        cbn [flat_map]. rewrite <- app_assoc. apply stmt_head_not_else. apply tokens_c_head. assumption. }
    destruct (stmt_all (csize c)) as [Pc _].
    rewrite (Pc c (le_n _) Hc) by (assumption || lia).
    subst rest. rewrite IH; [|assumption|assumption|lia].
    unfold stmt_head in Hh.
    match type of Hh with match ?t with _ => _ end = true => destruct t; try discriminate Hh; reflexivity end.
Qed.
