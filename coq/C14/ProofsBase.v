(* C14 -- basic lemmas for the parser proofs: unfolding of the fuel recursion,
   first tokens of rendered trees, size induction. *)
From Coq Require Import ZArith List String Bool Arith Lia.
From SV Require Import C14.Tokens C14.Parse C14.Print.
Import ListNotations.
Open Scope nat_scope.

(* ---- one step of fuel ---- *)
Lemma un_test n ts : p_test (parsers (S n)) ts = test_body (parsers n) ts. Proof. reflexivity. Qed.
Lemma un_testNoCond n ts : p_testNoCond (parsers (S n)) ts = testNoCond_body (parsers n) ts. Proof. reflexivity. Qed.
Lemma un_lambda n a p ts : p_lambda (parsers (S n)) a p ts = lambda_body (parsers n) a p ts. Proof. reflexivity. Qed.
Lemma un_params n f ts : p_params (parsers (S n)) f ts = params_body (parsers n) f ts. Proof. reflexivity. Qed.
Lemma un_testPrec n k ts : p_testPrec (parsers (S n)) k ts = testPrec_body (parsers n) k ts. Proof. reflexivity. Qed.
Lemma un_binopLoop n k f x ts : p_binopLoop (parsers (S n)) k f x ts = binopLoop_body (parsers n) k f x ts. Proof. reflexivity. Qed.
Lemma un_primSuffix n ts : p_primSuffix (parsers (S n)) ts = primSuffix_body (parsers n) ts. Proof. reflexivity. Qed.
Lemma un_suffixLoop n x ts : p_suffixLoop (parsers (S n)) x ts = suffixLoop_body (parsers n) x ts. Proof. reflexivity. Qed.
Lemma un_primary n ts : p_primary (parsers (S n)) ts = primary_body (parsers n) ts. Proof. reflexivity. Qed.
Lemma un_expr n b ts : p_expr (parsers (S n)) b ts = expr_body (parsers n) b ts. Proof. reflexivity. Qed.
Lemma un_exprs n b ts : p_exprs (parsers (S n)) b ts = exprs_body (parsers n) b ts. Proof. reflexivity. Qed.
Lemma un_args n b ts : p_args (parsers (S n)) b ts = args_body (parsers n) b ts. Proof. reflexivity. Qed.
Lemma un_dictEntry n ts : p_dictEntry (parsers (S n)) ts = dictEntry_body (parsers n) ts. Proof. reflexivity. Qed.
Lemma un_dictEntries n ts : p_dictEntries (parsers (S n)) ts = dictEntries_body (parsers n) ts. Proof. reflexivity. Qed.
Lemma un_clauses n b ts : p_clauses (parsers (S n)) b ts = clauses_body (parsers n) b ts. Proof. reflexivity. Qed.
Lemma un_loopVars n ts : p_loopVars (parsers (S n)) ts = loopVars_body (parsers n) ts. Proof. reflexivity. Qed.
Lemma un_loopVarsTail n ts : p_loopVarsTail (parsers (S n)) ts = loopVarsTail_body (parsers n) ts. Proof. reflexivity. Qed.

(* ---- sizes ---- *)
Definition sizes (l : list expr) : nat := fold_right (fun x a => size x + a) 0 l.
Definition need (e : expr) : nat := 40 * size e.
Definition needs (l : list expr) : nat := 40 * sizes l.

Lemma size_pos e : 1 <= size e.
Proof. destruct e; cbn [size]; try lia. destruct x; lia. Qed.

Lemma sizes_cons x l : sizes (x :: l) = size x + sizes l.
Proof. reflexivity. Qed.

Lemma sizes_in x l : In x l -> size x <= sizes l.
Proof.
  induction l as [|y l IH]; [intros []|]. intros [->|H]; rewrite sizes_cons; [lia|].
  specialize (IH H). lia.
Qed.

Lemma size_ind (P : expr -> Prop) :
  (forall e, (forall e', size e' < size e -> P e') -> P e) -> forall e, P e.
Proof.
  intros H e. assert (G : forall n e, size e < n -> P e).
  { induction n as [|n IH]; intros e' Hlt; [lia|].
    apply H. intros e'' Hlt'. apply IH. lia. }
  apply (G (S (size e))). lia.
Qed.

(* ---- peek / append ---- *)
Lemma peek_app (a b : list ptok) : a <> [] -> peek (a ++ b) = peek a.
Proof. destruct a; [congruence|reflexivity]. Qed.

(* tokens that can begin an expression *)
Definition starts (t : tok) : bool :=
  match t with
  | IDENT _ | INT _ | FLOAT _ | STRING _ | BYTES _
  | LBRACK | LBRACE | LPAREN | MINUS | PLUS | TILDE | NOT | LAMBDA => true
  | _ => false
  end.

Definition is_NOT (t : tok) : bool := match t with NOT => true | _ => false end.
Definition is_LAMBDA (t : tok) : bool := match t with LAMBDA => true | _ => false end.

(* the first token of a rendered well-parenthesised expression *)
Definition head_ok (e : expr) : Prop :=
  wp e = true -> isx e = true ->
  tokens e <> [] /\ starts (peek (tokens e)) = true /\
  (L_BIN 0 <= lvl e -> is_LAMBDA (peek (tokens e)) = false) /\
  (L_BIN 3 <= lvl e -> is_NOT (peek (tokens e)) = false).

Ltac split_andb :=
  repeat match goal with
         | H : _ && _ = true |- _ => apply andb_true_iff in H; destruct H
         end.

Lemma at_level_isx k e : at_level k e = true -> isx e = true.
Proof. unfold at_level. intros H. split_andb. assumption. Qed.
Lemma at_level_le k e : at_level k e = true -> k <= lvl e.
Proof. unfold at_level. intros H. split_andb. apply Nat.leb_le. assumption. Qed.
Lemma at_level_intro k e : isx e = true -> k <= lvl e -> at_level k e = true.
Proof. unfold at_level. intros -> H. apply Nat.leb_le in H. rewrite H. reflexivity. Qed.

Ltac use_sub sub x :=
  match goal with
  | Hw : wp x = true, Ha : at_level ?k x = true |- _ =>
    let Hne := fresh "Hne" in let Hst := fresh "Hst" in let Hl := fresh "Hl" in
    let Hn := fresh "Hn" in let Hle := fresh "Hle" in
    destruct (sub x ltac:(cbn [size fold_right]; lia) Hw (at_level_isx _ _ Ha)) as (Hne & Hst & Hl & Hn);
    pose proof (at_level_le _ _ Ha) as Hle;
    unfold L_BIN, L_PRIM, L_UNARY, L_TEST, L_EXPR in Hle
  end.

Lemma head_ok_all e : head_ok e.
Proof.
  induction e as [e IH] using size_ind. unfold head_ok. intros Hwp Hx.
  assert (sub : forall x, size x < size e -> wp x = true -> isx x = true ->
                tokens x <> [] /\ starts (peek (tokens x)) = true /\
                (L_BIN 0 <= lvl x -> is_LAMBDA (peek (tokens x)) = false) /\
                (L_BIN 3 <= lvl x -> is_NOT (peek (tokens x)) = false)).
  { intros x Hs. apply (IH x Hs). }
  destruct e; cbn [wp] in Hwp; cbn [isx] in Hx; try discriminate;
    cbn [tokens lvl]; unfold L_BIN, L_PRIM, L_UNARY, L_TEST, L_EXPR in *.
  - (* Ident *) repeat split; try discriminate; reflexivity.
  - (* Literal *) destruct l; repeat split; try discriminate; reflexivity.
  - (* Paren *) repeat split; try discriminate; reflexivity.
  - (* Call *)
    split_andb.
    use_sub sub e.
    rewrite !peek_app by assumption.
    repeat split; auto; try (intros _; (apply Hl || apply Hn); lia).
    destruct (tokens e); [congruence|discriminate].
  - (* Dot *)
    split_andb.
    use_sub sub e.
    rewrite !peek_app by assumption.
    repeat split; auto; try (intros _; (apply Hl || apply Hn); lia).
    destruct (tokens e); [congruence|discriminate].
  - (* Index *)
    split_andb.
    use_sub sub e1.
    rewrite !peek_app by assumption.
    repeat split; auto; try (intros _; (apply Hl || apply Hn); lia).
    destruct (tokens e1); [congruence|discriminate].
  - (* Slice *)
    split_andb.
    use_sub sub e.
    rewrite !peek_app by assumption.
    repeat split; auto; try (intros _; (apply Hl || apply Hn); lia).
    destruct (tokens e); [congruence|discriminate].
  - (* ListE *) repeat split; try discriminate; reflexivity.
  - (* DictE *) repeat split; try discriminate; reflexivity.
  - (* Comp *) destruct curly; repeat split; try discriminate; reflexivity.
  - (* Lambda *) repeat split; try discriminate; try reflexivity; intros; lia.
  - (* Cond *)
    split_andb.
    use_sub sub e1.
    rewrite !peek_app by assumption.
    repeat split; auto; try (intros; lia).
    destruct (tokens e1); [congruence|discriminate].
  - (* EmptyTuple *) repeat split; try discriminate; reflexivity.
  - (* Tuple *)
    split_andb. destruct l as [|x l'].
    { exfalso. cbn in *. match goal with H : false = true |- _ => discriminate H | H : ?b && false = true |- _ => destruct b; discriminate H end. }
    match goal with H : forallb _ (_ :: _) = true |- _ => cbn [forallb] in H end.
    split_andb.
    use_sub sub x.
    assert (Hne2 : tokens x ++ flat_map (fun y : expr => comma :: tokens y) l' <> [])
      by (destruct (tokens x); [congruence|discriminate]).
    rewrite !peek_app by assumption.
    repeat split; auto; try (intros; lia).
    destruct (tokens x); [congruence|discriminate].
  - (* Unary *)
    destruct x as [x|]; [|destruct op; discriminate].
    destruct op; try discriminate; cbn [tokens peek]; repeat split; try discriminate; try reflexivity;
      intros; cbn in *; unfold prec_not in *; lia.
  - (* Binary *)
    destruct (prec_of op) as [q|] eqn:Eq; [|discriminate].
    split_andb.
    match goal with Ha : at_level (if _ then _ else _) e1 = true |- _ => rename Ha into Hraw end.
    assert (Hxl : at_level (L_BIN q) e1 = true).
    { destruct (q =? prec_cmp); [|assumption].
      match goal with Ha : at_level _ e1 = true |- _ =>
        apply at_level_intro; [eapply at_level_isx; exact Ha|];
        pose proof (at_level_le _ _ Ha); unfold L_BIN in *; lia end. }
    destruct (sub e1 (ltac:(cbn [size]; lia)) ltac:(assumption) (at_level_isx _ _ Hxl))
      as (Hne & Hst & Hl & Hn).
    pose proof (at_level_le _ _ Hxl) as Hle. unfold L_BIN in Hle.
    rewrite !peek_app by assumption.
    repeat split; auto.
    + destruct (tokens e1); [congruence|discriminate].
    + intros _. apply Hl. unfold L_BIN. lia.
    + unfold L_BIN. intros Hq. apply Hn. unfold L_BIN.
      assert (q <> 2). { destruct op; cbn in Eq; try discriminate; injection Eq; intros; lia. }
      destruct (q =? prec_cmp) eqn:Ec.
      * pose proof (at_level_le _ _ Hraw). apply Nat.eqb_eq in Ec. unfold L_BIN, prec_cmp in *. lia.
      * lia.
Qed.

(* ---- fusing of NOT IN and "rest cannot extend the expression" ---- *)
Definition is_suffix_start (t : tok) : bool :=
  match t with DOT | LBRACK | LPAREN => true | _ => false end.

(* a token that would extend an operand parsed at precedence `prec` *)
Definition ext_tok (prec : nat) (t : tok) : bool :=
  is_suffix_start t || is_NOT t ||
  match prec_of t with Some p => prec <=? p | None => false end.

Definition ok_at (prec : nat) (rest : list ptok) : Prop :=
  ext_tok prec (peek (fuse rest)) = false.

Definition fz (prec : nat) (rest : list ptok) : list ptok :=
  if prec <? nlevels then fuse rest else rest.

Lemma fuse_idem ts : fuse (fuse ts) = fuse ts.
Proof.
  unfold fuse at 2. destruct (peek ts) eqn:E; try reflexivity.
  destruct (peek (tl ts)) eqn:E2; try reflexivity;
    unfold fuse; rewrite E; rewrite ?E2; reflexivity.
Qed.

Lemma fuse_not_NOT ts : is_NOT (peek ts) = false -> fuse ts = ts.
Proof. unfold fuse. destruct (peek ts); try reflexivity. discriminate. Qed.

Lemma ok_at_mono p q rest : p <= q -> ok_at p rest -> ok_at q rest.
Proof.
  unfold ok_at, ext_tok. intros Hpq H.
  apply orb_false_iff in H. destruct H as [H1 H2]. rewrite H1. cbn [orb].
  destruct (prec_of (peek (fuse rest))) as [k|]; [|reflexivity].
  apply Nat.leb_gt in H2. apply Nat.leb_gt. lia.
Qed.

Lemma ok_at_fuse p rest : ok_at p rest -> ok_at p (fuse rest).
Proof. unfold ok_at. rewrite fuse_idem. auto. Qed.

(* tokens that may follow a complete `test`: none that continues it *)
Definition stop_test (t : tok) : bool :=
  negb (is_suffix_start t || is_NOT t ||
        match prec_of t with Some _ => true | None => false end ||
        match t with IF => true | _ => false end).
Definition stop_nocond (t : tok) : bool :=
  negb (is_suffix_start t || is_NOT t ||
        match prec_of t with Some _ => true | None => false end).

Lemma stop_nocond_ok rest p : stop_nocond (peek rest) = true -> ok_at p rest /\ fuse rest = rest.
Proof.
  unfold stop_nocond, ok_at, ext_tok. intros H. apply negb_true_iff in H.
  apply orb_false_iff in H. destruct H as [H H3].
  apply orb_false_iff in H. destruct H as [H1 H2].
  rewrite (fuse_not_NOT _ H2). rewrite H1, H2. cbn [orb].
  destruct (prec_of (peek rest)); [discriminate|]. auto.
Qed.

Lemma stop_test_nocond t : stop_test t = true -> stop_nocond t = true.
Proof.
  unfold stop_test, stop_nocond. intros H. apply negb_true_iff in H. apply negb_true_iff.
  apply orb_false_iff in H. tauto.
Qed.

Lemma stop_test_not_IF t : stop_test t = true -> t <> IF.
Proof. intros H ->. discriminate. Qed.
