(* C14 -- the main induction, part 3: suffixes (call, dot, index, slice) and unary. *)
From Coq Require Import ZArith List String Bool Arith Lia.
From SV Require Import C14.Tokens C14.Parse C14.Print C14.ProofsBase C14.ProofsExpr
  C14.ProofsLists C14.ProofsArgs C14.ProofsClauses C14.ProofsPrim.
Import ListNotations.
Open Scope nat_scope.

Lemma p_test_ok sz : IHs sz -> forall y rest n,
  size y < sz -> test_ok y = true -> stop_test (peek rest) = true -> need y + 30 <= n ->
  p_test (parsers n) (tokens y ++ rest) = Ok (y, rest).
Proof.
  intros IH y rest n Hs Hy Hst Hn. destruct (test_ok_parts _ Hy) as (Hw & Hi & Hle).
  destruct (IH y Hs Hw Hi) as (_ & _ & _ & _ & Mt & _ & _). apply Mt; assumption.
Qed.

Lemma peek_test_starts y rest : test_ok y = true -> starts (peek (tokens y ++ rest)) = true.
Proof.
  intros Hy. destruct (test_ok_parts _ Hy) as (Hw & Hi & Hle).
  destruct (head_ok_all y Hw Hi) as (Hne & Hst & _ & _). rewrite (peek_app _ _ Hne). assumption.
Qed.

Lemma peek_expr_starts y rest : wp y = true -> isx y = true -> starts (peek (tokens y ++ rest)) = true.
Proof.
  intros Hw Hi. destruct (head_ok_all y Hw Hi) as (Hne & Hst & _ & _). rewrite (peek_app _ _ Hne). assumption.
Qed.

Lemma not_close_not_RPAREN {A} t (a b : A) :
  not_close t = true -> match t with RPAREN => a | _ => b end = b.
Proof. destruct t; try reflexivity; discriminate. Qed.

Definition opt_toks (o : option expr) : list ptok := match o with Some x => tokens x | None => [] end.
Definition opt_ok (o : option expr) : bool := match o with Some x => test_ok x | None => true end.
Definition opt_size (o : option expr) : nat := match o with Some x => size x | None => 0 end.

Lemma sliceRest_ok sz : IHs sz -> forall x lb lo hi step c2 rb rest m,
  opt_size hi + opt_size step < sz ->
  opt_ok hi = true -> opt_ok step = true ->
  (match step with Some _ => c2 | None => true end) = true ->
  40 * (opt_size hi + opt_size step) + 31 <= m ->
  sliceRest (parsers m) x lb lo
    (colon :: opt_toks hi ++ (if c2 then colon :: opt_toks step else []) ++ (RBRACK, rb) :: rest)
  = Ok (Slice x lb lo hi step c2 rb, rest).
Proof.
  intros IH x lb lo hi step c2 rb rest m Hs Hhi Hstep Hc Hm.
  unfold sliceRest. cbn [peek tl colon].
  destruct hi as [h|]; destruct step as [s|]; destruct c2; try discriminate Hc;
    cbn [opt_toks opt_ok opt_size app peek tl peekpos colon] in *.
  - rewrite (starts_not_COLON_RBRACK _ _ _ (peek_test_starts h _ Hhi)).
    rewrite (p_test_ok sz IH h); [|lia|assumption|reflexivity|unfold need; lia].
    cbn [peek tl peekpos].
    rewrite (starts_not_RBRACK _ _ _ (peek_test_starts s _ Hstep)).
    rewrite (p_test_ok sz IH s); [|lia|assumption|reflexivity|unfold need; lia].
    reflexivity.
  - rewrite (starts_not_COLON_RBRACK _ _ _ (peek_test_starts h _ Hhi)).
    rewrite (p_test_ok sz IH h); [|lia|assumption|reflexivity|unfold need; lia].
    reflexivity.
  - rewrite (starts_not_COLON_RBRACK _ _ _ (peek_test_starts h _ Hhi)).
    rewrite (p_test_ok sz IH h); [|lia|assumption|reflexivity|unfold need; lia].
    reflexivity.
  - rewrite (starts_not_RBRACK _ _ _ (peek_test_starts s _ Hstep)).
    rewrite (p_test_ok sz IH s); [|lia|assumption|reflexivity|unfold need; lia].
    reflexivity.
  - reflexivity.
  - reflexivity.
Qed.

Lemma wp_Slice x lb lo hi step c2 rb :
  wp (Slice x lb lo hi step c2 rb) = true ->
  wp x = true /\ at_level L_PRIM x = true /\
  match lo with Some y => wp y = true /\ isx y = true /\ noparen_ok y = true | None => True end /\
  opt_ok hi = true /\ opt_ok step = true /\
  (match step with Some _ => c2 | None => true end) = true.
Proof.
  cbn [wp]. intros H. split_andb. unfold opt_ok, test_ok.
  repeat split; auto.
  - destruct lo as [y|]; [|exact I]. split_andb. repeat split; auto. eapply at_level_isx; eassumption.
Qed.

Lemma tokens_Slice x lb lo hi step c2 rb rest :
  tokens (Slice x lb lo hi step c2 rb) ++ rest =
  tokens x ++ (LBRACK, lb) :: opt_toks lo ++
    colon :: opt_toks hi ++ (if c2 then colon :: opt_toks step else []) ++ (RBRACK, rb) :: rest.
Proof.
  destruct lo, hi, step, c2; cbn [tokens opt_toks app]; repeat (rewrite <- app_assoc; cbn [app]); reflexivity.
Qed.

Lemma size_Slice x lb lo hi step c2 rb :
  size (Slice x lb lo hi step c2 rb) = S (size x + opt_size lo + opt_size hi + opt_size step).
Proof. destruct lo, hi, step; reflexivity. Qed.

Lemma lvl_13 x : at_level L_PRIM x = true -> lvl x = L_PRIM.
Proof. intros H. pose proof (at_level_le _ _ H). pose proof (lvl_le13' := I). 
  assert (lvl x <= L_PRIM).
  { unfold L_PRIM. destruct x; cbn [lvl]; unfold L_EXPR, L_TEST, L_BIN, L_UNARY, L_PRIM, prec_not; try lia.
    - destruct op; lia.
    - destruct op; cbn; lia. }
  lia.
Qed.

Lemma tokens_Call fn lp args tc rp rest :
  tokens (Call fn lp args tc rp) ++ rest =
  tokens fn ++ (LPAREN, lp) :: seplist args ++ trail tc ++ (RPAREN, rp) :: rest.
Proof. cbn [tokens]. repeat (rewrite <- app_assoc; cbn [app]). reflexivity. Qed.

Lemma suffix_all e :
  IHs (size e) -> wp e = true -> isx e = true -> M_suffix e.
Proof.
  intros IH Hwp Hisx Hl rest r N n Hloop Hn.
  pose proof (need_pos e) as Hnp.
  destruct (is_head e) eqn:Hh.
  { destruct n as [|n]; [lia|]. rewrite un_primSuffix. unfold primSuffix_body.
    rewrite (primary_heads e IH Hwp Hh); [|lia]. apply Hloop. lia. }
  destruct e; try discriminate Hh; try (cbn in Hl; unfold L_EXPR, L_TEST, L_BIN, L_UNARY, L_PRIM, prec_not in Hl; try discriminate Hl).
  - (* Call *)
    rewrite wp_Call in Hwp. split_andb.
    match goal with Ha : at_level L_PRIM e = true, Hw : wp e = true |- _ =>
      destruct (IH e ltac:(cbn [size]; lia) Hw (at_level_isx _ _ Ha)) as (_ & _ & Msuf & _);
      pose proof (lvl_13 _ Ha) as Hl13 end.
    rewrite need_Call in Hn. rewrite size_Call in IH.
    rewrite tokens_Call.
    apply (Msuf Hl13 _ r (N + needs args + 33) n); [|lia].
    intros m Hm. destruct m as [|m]; [lia|]. rewrite un_suffixLoop. unfold suffixLoop_body.
    cbn [peek peekpos tl]. unfold callSuffix.
    destruct args as [|a l].
    + destruct tc; [discriminate|]. cbn [seplist trail app peek peekpos tl]. apply Hloop. lia.
    + match goal with Hall : forallb arg_ok (a :: l) = true |- _ =>
        pose proof Hall as Hall'; cbn [forallb] in Hall'; apply andb_true_iff in Hall'; destruct Hall' as [Ha0 _];
        destruct (arg_head a Ha0) as [Hne Hnc];
        assert (Hpk : not_close (peek (seplist (a :: l) ++ trail tc ++ (RPAREN, rp) :: rest)) = true)
          by (rewrite seplist_cons, <- app_assoc, (peek_app _ _ Hne); exact Hnc);
        rewrite (not_close_not_RPAREN _ _ _ Hpk);
        rewrite (args_true_ok _ (a :: l) IH); [|lia|exact Hall|discriminate|reflexivity|lia]
      end.
      cbn [peek peekpos tl]. apply Hloop. lia.
  - (* Dot *)
    cbn [wp] in Hwp. split_andb.
    match goal with Ha : at_level L_PRIM e = true, Hw : wp e = true |- _ =>
      destruct (IH e ltac:(cbn [size]; lia) Hw (at_level_isx _ _ Ha)) as (_ & _ & Msuf & _);
      pose proof (lvl_13 _ Ha) as Hl13 end.
    unfold need in Hn. cbn [size] in Hn.
    cbn [tokens]. rewrite <- !app_assoc. cbn [app].
    apply (Msuf Hl13 _ r (N + 1) n); [|unfold need; lia].
    intros m Hm. destruct m as [|m]; [lia|]. rewrite un_suffixLoop. unfold suffixLoop_body.
    cbn [peek peekpos tl]. apply Hloop. lia.
  - (* Index *)
    cbn [wp] in Hwp. split_andb.
    match goal with Ha : at_level L_PRIM e1 = true, Hw : wp e1 = true |- _ =>
      destruct (IH e1 ltac:(cbn [size]; lia) Hw (at_level_isx _ _ Ha)) as (_ & _ & Msuf & _);
      pose proof (lvl_13 _ Ha) as Hl13 end.
    match goal with Ha : at_level L_EXPR e2 = true, Hw : wp e2 = true |- _ =>
      pose proof (at_level_isx _ _ Ha) as Hi2;
      destruct (IH e2 ltac:(cbn [size]; lia) Hw Hi2) as (_ & _ & _ & _ & _ & _ & Me);
      pose proof (peek_expr_starts e2 ((RBRACK, rb) :: rest) Hw Hi2) as Hst end.
    unfold need in Hn. cbn [size] in Hn.
    cbn [tokens]. rewrite <- !app_assoc. cbn [app]. rewrite <- !app_assoc. cbn [app].
    apply (Msuf Hl13 _ r (N + need e2 + 34) n); [|unfold need; lia].
    intros m Hm. destruct m as [|m]; [lia|]. rewrite un_suffixLoop. unfold suffixLoop_body.
    cbn [peek peekpos tl]. unfold sliceSuffix.
    rewrite (starts_not_COLON _ _ _ Hst).
    rewrite (Me false); [| apply expr_rest_ok_closer; auto; discriminate | lia].
    cbn [peek peekpos tl]. apply Hloop. lia.
  - (* Slice *)
    destruct (wp_Slice _ _ _ _ _ _ _ Hwp) as (Hw & Ha & Hlo & Hhi & Hstep & Hc).
    rewrite size_Slice in IH.
    destruct (IH e ltac:(lia) Hw (at_level_isx _ _ Ha)) as (_ & _ & Msuf & _).
    pose proof (lvl_13 _ Ha) as Hl13.
    unfold need in Hn. rewrite size_Slice in Hn.
    rewrite tokens_Slice.
    apply (Msuf Hl13 _ r (N + 40 * (opt_size lo + opt_size hi + opt_size step) + 35) n); [|unfold need; lia].
    intros m Hm. destruct m as [|m]; [lia|]. rewrite un_suffixLoop. unfold suffixLoop_body.
    cbn [peek peekpos tl]. unfold sliceSuffix.
    destruct lo as [y|]; cbn [opt_toks opt_size app] in *.
    + destruct Hlo as (Hwy & Hiy & Hny).
      destruct (IH y ltac:(lia) Hwy Hiy) as (_ & _ & _ & _ & _ & _ & Me).
      rewrite (starts_not_COLON _ _ _ (peek_expr_starts y _ Hwy Hiy)).
      rewrite (Me false); [| apply expr_rest_ok_colon; assumption | unfold need; lia].
      cbn [peek colon].
      rewrite (sliceRest_ok _ IH); [apply Hloop; lia|lia|assumption|assumption|assumption|lia].
    + cbn [peek colon].
      rewrite (sliceRest_ok _ IH); [apply Hloop; lia|lia|assumption|assumption|assumption|lia].
  - discriminate Hisx.
  - discriminate Hisx.
  - discriminate Hisx.
  - exfalso. cbn [lvl] in Hl. destruct op; cbn in Hl; discriminate Hl.
  - exfalso. cbn [lvl] in Hl. destruct op; cbn in Hl; discriminate Hl.
Qed.
