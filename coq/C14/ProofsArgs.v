(* C14 -- list-level lemmas: call arguments, dict entries. *)
From Coq Require Import ZArith List String Bool Arith Lia.
From SV Require Import C14.Tokens C14.Parse C14.Print C14.ProofsBase C14.ProofsExpr C14.ProofsLists.
Import ListNotations.
Open Scope nat_scope.

Lemma test_ok_parts x : test_ok x = true -> wp x = true /\ isx x = true /\ L_TEST <= lvl x.
Proof.
  unfold test_ok. intros H. apply andb_true_iff in H. destruct H as [Hw Hl].
  split; [assumption|]. split; [eapply at_level_isx; eassumption|eapply at_level_le; eassumption].
Qed.

Lemma arg_head x : arg_ok x = true -> tokens x <> [] /\ not_close (peek (tokens x)) = true.
Proof.
  intros H. destruct (arg_cases x H) as [(p & y & -> & Hy) | [(p & y & -> & Hy) | [(ip & name & ep & y & -> & Hy) | Hx]]];
    cbn [tokens]; try (split; [discriminate|reflexivity]).
  destruct (test_ok_parts _ Hx) as (Hw & Hi & _).
  destruct (head_ok_all x Hw Hi) as (Hne & Hst & _ & _).
  split; [assumption|apply starts_not_close; assumption].
Qed.

Lemma peek_rest_RPAREN l tc rest :
  peek rest = RPAREN ->
  (peek (ctoks l ++ trail tc ++ rest) = COMMA \/ peek (ctoks l ++ trail tc ++ rest) = RPAREN).
Proof.
  intros H. destruct (peek_rest' l tc rest) as [E | (_ & _ & E)]; [left; assumption|right; rewrite E; assumption].
Qed.

(* ---- parseArgs ---- *)
Lemma args_false_ok sz l : IHs sz -> sizes l < sz -> forall (tc : bool) (rest : list ptok) (n : nat),
  forallb arg_ok l = true ->
  peek rest = RPAREN ->
  needs l + 31 <= n ->
  p_args (parsers n) false (ctoks l ++ trail tc ++ rest) = Ok (l, tc, rest).
Proof.
  intros IH. induction l as [|x l IHl]; intros Hs tc rest n Hall Hr Hn.
  - destruct n as [|n]; [lia|]. rewrite un_args. unfold args_body.
    destruct tc; cbn [ctoks flat_map trail app].
    + cbn [peek comma]. unfold args_dflt, comma_unless. cbn [peek tl comma].
      rewrite Hr. reflexivity.
    + rewrite Hr. reflexivity.
  - rewrite sizes_cons in Hs. rewrite needs_cons in Hn.
    cbn [forallb] in Hall. apply andb_true_iff in Hall. destruct Hall as [Hx Hall].
    pose proof (need_pos x) as Hnp.
    destruct n as [|n]; [lia|]. rewrite un_args. rewrite ctoks_cons.
    set (rest' := ctoks l ++ trail tc ++ rest).
    assert (Hrest' : p_args (parsers n) false rest' = Ok (l, tc, rest))
      by (apply IHl; auto; lia).
    assert (Hstop : stop_test (peek rest') = true).
    { destruct (peek_rest_RPAREN l tc rest Hr) as [E|E]; fold rest' in E; rewrite E; reflexivity. }
    assert (Hpk : peek rest' <> EQ).
    { destruct (peek_rest_RPAREN l tc rest Hr) as [E|E]; fold rest' in E; rewrite E; discriminate. }
    change ((comma :: tokens x ++ ctoks l) ++ trail tc ++ rest) with (comma :: (tokens x ++ ctoks l) ++ trail tc ++ rest).
    rewrite <- app_assoc. fold rest'.
    unfold args_body. cbn [peek comma].
    unfold args_dflt, comma_unless. cbn [peek tl comma].
    destruct (arg_cases x Hx) as [(p & y & -> & Hy) | [(p & y & -> & Hy) | [(ip & name & ep & y & -> & Hy) | Hy]]].
    + destruct (test_ok_parts _ Hy) as (Hw & Hi & Hle).
      destruct (IH y ltac:(cbn [size] in Hs; lia) Hw Hi) as (_ & _ & _ & _ & Mt & _ & _).
      cbn [tokens app peek peekpos tl].
      rewrite (Mt Hle); [rewrite Hrest'; reflexivity|assumption|unfold need in *; cbn [size] in Hn; lia].
    + destruct (test_ok_parts _ Hy) as (Hw & Hi & Hle).
      destruct (IH y ltac:(cbn [size] in Hs; lia) Hw Hi) as (_ & _ & _ & _ & Mt & _ & _).
      cbn [tokens app peek peekpos tl].
      rewrite (Mt Hle); [rewrite Hrest'; reflexivity|assumption|unfold need in *; cbn [size] in Hn; lia].
    + destruct (test_ok_parts _ Hy) as (Hw & Hi & Hle).
      destruct (IH y ltac:(cbn [size] in Hs; lia) Hw Hi) as (_ & _ & _ & _ & Mt & _ & _).
      destruct (IH (Ident ip name) ltac:(cbn [size] in *; lia) eq_refl eq_refl) as (_ & _ & _ & _ & Mti & _ & _).
      cbn [tokens op_tokens app peek peekpos tl].
      unfold args_plain.
      change ((IDENT name, ip) :: (EQ, ep) :: tokens y ++ rest')
        with (tokens (Ident ip name) ++ (EQ, ep) :: tokens y ++ rest').
      rewrite (Mti ltac:(cbn; unfold L_TEST, L_PRIM; lia)); [|reflexivity|unfold need in *; cbn [size] in *; lia].
      cbn [peek peekpos tl is_ident].
      rewrite (Mt Hle); [rewrite Hrest'; reflexivity|assumption|unfold need in *; cbn [size] in Hn; lia].
    + destruct (test_ok_parts _ Hy) as (Hw & Hi & Hle).
      destruct (IH x ltac:(lia) Hw Hi) as (_ & _ & _ & _ & Mt & _ & _).
      destruct (head_ok_all x Hw Hi) as (Hne & Hst & _ & _).
      rewrite (peek_app _ _ Hne). rewrite (starts_not_stars _ _ _ _ _ Hst).
      unfold args_plain.
      rewrite (Mt Hle); [|assumption|lia].
      rewrite not_EQ_match by assumption. rewrite Hrest'. reflexivity.
Qed.

Lemma args_true_ok sz l : IHs sz -> sizes l < sz -> forall (tc : bool) (rest : list ptok) (n : nat),
  forallb arg_ok l = true -> l <> [] ->
  peek rest = RPAREN ->
  needs l + 31 <= n ->
  p_args (parsers n) true (seplist l ++ trail tc ++ rest) = Ok (l, tc, rest).
Proof.
  intros IH Hs tc rest n Hall Hne Hr Hn.
  destruct l as [|x l]; [congruence|].
  pose proof (args_false_ok sz (x :: l) IH Hs tc rest n Hall Hr Hn) as H.
  destruct n as [|n]; [rewrite needs_cons in Hn; pose proof (need_pos x); lia|].
  rewrite un_args in *. rewrite ctoks_cons in H. rewrite seplist_cons.
  cbn [app] in H. rewrite <- app_assoc in H. rewrite <- app_assoc. rewrite args_comma in H; [exact H|].
  cbn [forallb] in Hall. apply andb_true_iff in Hall. destruct Hall as [Hx _].
  destruct (arg_head x Hx) as [Hn1 Hn2]. rewrite (peek_app _ _ Hn1). assumption.
Qed.

(* ---- dict entries ---- *)
Lemma entry_cases a : entry_ok a = true ->
  exists k cp v, a = DictEntry k cp v /\ test_ok k = true /\ test_ok v = true.
Proof.
  destruct a; cbn [entry_ok]; intros H; try discriminate.
  unfold test_ok. apply andb_true_iff in H. destruct H as [H Hv2].
  apply andb_true_iff in H. destruct H as [H Hv1].
  exists a1, colon, a2. rewrite H, Hv1, Hv2. auto.
Qed.

Lemma dictEntry_ok sz k cp v : IHs sz -> size k + size v < sz ->
  test_ok k = true -> test_ok v = true ->
  forall rest n, stop_test (peek rest) = true -> need k + need v + 31 <= n ->
  p_dictEntry (parsers n) (tokens (DictEntry k cp v) ++ rest) = Ok (DictEntry k cp v, rest).
Proof.
  intros IH Hs Hk Hv rest n Hst Hn.
  destruct (test_ok_parts _ Hk) as (Hwk & Hik & Hlk).
  destruct (test_ok_parts _ Hv) as (Hwv & Hiv & Hlv).
  destruct (IH k ltac:(lia) Hwk Hik) as (_ & _ & _ & _ & Mk & _ & _).
  destruct (IH v ltac:(lia) Hwv Hiv) as (_ & _ & _ & _ & Mv & _ & _).
  pose proof (need_pos k). pose proof (need_pos v).
  destruct n as [|n]; [lia|]. rewrite un_dictEntry. unfold dictEntry_body.
  cbn [tokens]. rewrite <- app_assoc. cbn [app].
  rewrite (Mk Hlk); [|reflexivity|lia].
  cbn [peek peekpos tl].
  rewrite (Mv Hlv); [reflexivity|assumption|lia].
Qed.

Lemma dictEntries_ok sz l : IHs sz -> sizes l < sz -> forall (tc : bool) (rest : list ptok) (n : nat),
  forallb entry_ok l = true ->
  peek rest = RBRACE ->
  needs l + 31 <= n ->
  p_dictEntries (parsers n) (ctoks l ++ trail tc ++ rest) = Ok (l, tc, rest).
Proof.
  intros IH. induction l as [|x l IHl]; intros Hs tc rest n Hall Hr Hn.
  - destruct n as [|n]; [lia|]. rewrite un_dictEntries. unfold dictEntries_body.
    destruct tc; cbn [ctoks flat_map trail app].
    + cbn [peek tl comma]. rewrite Hr. reflexivity.
    + rewrite Hr. reflexivity.
  - rewrite sizes_cons in Hs. rewrite needs_cons in Hn.
    cbn [forallb] in Hall. apply andb_true_iff in Hall. destruct Hall as [Hx Hall].
    destruct (entry_cases x Hx) as (k & cp & v & -> & Hk & Hv).
    pose proof (need_pos k). pose proof (need_pos v).
    destruct n as [|n]; [lia|]. rewrite un_dictEntries. rewrite ctoks_cons.
    set (rest' := ctoks l ++ trail tc ++ rest).
    change ((comma :: tokens (DictEntry k cp v) ++ ctoks l) ++ trail tc ++ rest)
      with (comma :: (tokens (DictEntry k cp v) ++ ctoks l) ++ trail tc ++ rest).
    rewrite <- app_assoc. fold rest'.
    unfold dictEntries_body. cbn [peek tl comma].
    destruct (test_ok_parts _ Hk) as (Hwk & Hik & Hlk).
    destruct (head_ok_all k Hwk Hik) as (Hne & Hst & _ & _).
    assert (Hpk : peek (tokens (DictEntry k cp v) ++ rest') = peek (tokens k)).
    { cbn [tokens]. rewrite <- app_assoc. apply peek_app. assumption. }
    rewrite Hpk. rewrite (starts_not_RBRACE _ _ _ Hst).
    unfold need in *. cbn [size] in *.
    rewrite (dictEntry_ok sz k cp v IH ltac:(lia) Hk Hv); [| |unfold need; lia].
    + unfold rest'. rewrite IHl; auto; unfold needs in *; lia.
    + unfold rest'. destruct (peek_rest' l tc rest) as [E | (_ & _ & E)]; rewrite E; [reflexivity|rewrite Hr; reflexivity].
Qed.
